/-
Rank certificates: from a kernel-checked identity `L * E = T` over ℚ(√d) to the real
statement `E x = 0 → T x = 0`, hence injectivity (T = identity: positive definite
mass matrix) or "kernel = constants" (T = centering projector: conduction matrix).
-/
import EasyFEAVerif.Core.QuadSound
import EasyFEAVerif.Model.QuadElem
import Mathlib.Algebra.BigOperators.Group.Finset.Basic
import Mathlib.Algebra.Order.BigOperators.Group.Finset
import Mathlib.Algebra.BigOperators.Ring.Finset

namespace EasyFEAVerif
namespace QMat
open QS Finset

/-- real entry of a matrix given as a list of rows -/
noncomputable def entryR (d : Nat) (M : List (List QS)) (i j : Nat) : ℝ := toReal d (entry M i j)

theorem toReal_dot (d : Nat) (u v : List QS) (m : Nat) (hu : u.length = m) (hv : v.length = m) :
    toReal d (dot d u v) = ∑ k ∈ range m, toReal d (u.getD k QS.zero) * toReal d (v.getD k QS.zero) := by
  induction u generalizing v m with
  | nil =>
    subst hu
    simp [dot, QS.sum]
  | cons a u ih =>
    cases v with
    | nil => simp at hu hv; omega
    | cons b v =>
      cases m with
      | zero => simp at hu
      | succ m =>
        have hu' : u.length = m := by simpa using hu
        have hv' : v.length = m := by simpa using hv
        have hd : dot d (a :: u) (b :: v) = QS.add (QS.mul d a b) (dot d u v) := rfl
        rw [hd, toReal_add, toReal_mul, ih v m hu' hv', Finset.sum_range_succ']
        simp [add_comm]

theorem hasShape_iff {M : List (List QS)} {r c : Nat} (h : hasShape M r c = true) :
    M.length = r ∧ ∀ row ∈ M, row.length = c := by
  simp only [hasShape, Bool.and_eq_true, beq_iff_eq, List.all_eq_true] at h
  exact h

theorem row_length {M : List (List QS)} {r c : Nat} (h : hasShape M r c = true) {i : Nat} (hi : i < r) :
    (row M i).length = c := by
  obtain ⟨hl, hr⟩ := hasShape_iff h
  have : row M i = M[i]'(by omega) := by
    unfold row
    rw [List.getD_eq_getElem?_getD, List.getElem?_eq_getElem (by omega)]
    rfl
  rw [this]
  exact hr _ (List.getElem_mem _)

theorem col_length (M : List (List QS)) (j : Nat) : (col M j).length = M.length := by
  simp [col]

theorem col_getD {M : List (List QS)} {r c : Nat} (h : hasShape M r c = true) (j k : Nat) (hk : k < r) :
    (col M j).getD k QS.zero = entry M k j := by
  obtain ⟨hl, _⟩ := hasShape_iff h
  unfold col entry row
  rw [List.getD_eq_getElem?_getD, List.getD_eq_getElem?_getD, List.getElem?_map,
    List.getElem?_eq_getElem (by omega)]
  have hk' : k < M.length := by omega
  simp [List.getD_eq_getElem?_getD, List.getElem?_eq_getElem hk']

/-- The entries of the product: for `i, j < n`, `Σ_k L[i][k] E[k][j] = T i j` as reals. -/
theorem certOK_entry {d : Nat} {L E : List (List QS)} {n m : Nat} {T : Nat → Nat → QS}
    (h : certOK d L E n m T = true) {i j : Nat} (hi : i < n) (hj : j < n) :
    ∑ k ∈ range m, entryR d L i k * entryR d E k j = toReal d (T i j) := by
  simp only [certOK, Bool.and_eq_true] at h
  obtain ⟨⟨hL, hE⟩, hmul⟩ := h
  simp only [mulEq, List.all_eq_true, List.mem_range, decide_eq_true_eq] at hmul
  have he := hmul i hi j hj
  rw [← he, toReal_dot d _ _ m (row_length hL hi)
    (by rw [col_length]; exact (hasShape_iff hE).1)]
  apply Finset.sum_congr rfl
  intro k hk
  rw [col_getD hE j k (by simpa using hk)]
  rfl

/-- Main lemma: if `L * E = T` and the real vector `x` satisfies `E x = 0`
(at every row), then `T x = 0`. -/
theorem kernel_of_cert {d : Nat} {L E : List (List QS)} {n m : Nat} {T : Nat → Nat → QS}
    (h : certOK d L E n m T = true) (x : Nat → ℝ)
    (hx : ∀ k < m, ∑ j ∈ range n, entryR d E k j * x j = 0) {i : Nat} (hi : i < n) :
    ∑ j ∈ range n, toReal d (T i j) * x j = 0 := by
  have h1 : ∑ j ∈ range n, toReal d (T i j) * x j
      = ∑ j ∈ range n, (∑ k ∈ range m, entryR d L i k * entryR d E k j) * x j := by
    apply Finset.sum_congr rfl
    intro j hj
    rw [certOK_entry h hi (by simpa using hj)]
  rw [h1]
  simp only [Finset.sum_mul]
  rw [Finset.sum_comm]
  apply Finset.sum_eq_zero
  intro k hk
  have := hx k (by simpa using hk)
  calc ∑ j ∈ range n, entryR d L i k * entryR d E k j * x j
      = entryR d L i k * ∑ j ∈ range n, entryR d E k j * x j := by
        rw [Finset.mul_sum]; apply Finset.sum_congr rfl; intro j _; ring
    _ = 0 := by rw [this, mul_zero]

/-- `T = identity`: the evaluation matrix is injective. -/
theorem injective_of_cert {d : Nat} {L E : List (List QS)} {n m : Nat}
    (h : certOK d L E n m kron = true) (x : Nat → ℝ)
    (hx : ∀ k < m, ∑ j ∈ range n, entryR d E k j * x j = 0) {i : Nat} (hi : i < n) : x i = 0 := by
  have := kernel_of_cert h x hx hi
  have h2 : ∑ j ∈ range n, toReal d (kron i j) * x j = x i := by
    rw [Finset.sum_eq_single i]
    · simp [kron]
    · intro j _ hji
      have : i ≠ j := fun e => hji e.symm
      simp [kron, this]
    · intro hni
      exact absurd (Finset.mem_range.mpr hi) hni
  rwa [h2] at this

/-- Positive definiteness of `Σ_p c_p (E x)_p²` for positive coefficients `c_p`
(c_p = weight × |Jacobian| at the Gauss point: any non-degenerate element, straight or curved). -/
theorem quadform_pos_def {d : Nat} {L E : List (List QS)} {n m : Nat}
    (h : certOK d L E n m kron = true) (c : Nat → ℝ) (hc : ∀ k < m, 0 < c k) (x : Nat → ℝ)
    (hq : ∑ k ∈ range m, c k * (∑ j ∈ range n, entryR d E k j * x j) ^ 2 = 0) {i : Nat} (hi : i < n) :
    x i = 0 := by
  apply injective_of_cert h x _ hi
  intro k hk
  have hnn : ∀ k ∈ range m, 0 ≤ c k * (∑ j ∈ range n, entryR d E k j * x j) ^ 2 := by
    intro k hk
    exact mul_nonneg (hc k (by simpa using hk)).le (sq_nonneg _)
  have := (Finset.sum_eq_zero_iff_of_nonneg hnn).mp hq k (by simpa using hk)
  have hck := hc k hk
  have : (∑ j ∈ range n, entryR d E k j * x j) ^ 2 = 0 := by
    rcases mul_eq_zero.mp this with h0 | h0
    · exact absurd h0 hck.ne'
    · exact h0
  exact pow_eq_zero_iff (by norm_num) |>.mp this

/-- `T = centering projector`: a vector annihilated by `E` is constant. -/
theorem constant_of_cert {d : Nat} {L E : List (List QS)} {n m : Nat} (hn : 0 < n)
    (h : certOK d L E n m (centering n) = true) (x : Nat → ℝ)
    (hx : ∀ k < m, ∑ j ∈ range n, entryR d E k j * x j = 0) {i : Nat} (hi : i < n) :
    x i = (∑ j ∈ range n, x j) / n := by
  have := kernel_of_cert h x hx hi
  have hT : ∀ j, toReal d (centering n i j) = (if i = j then (1 : ℝ) else 0) - 1 / (n : ℝ) := by
    intro j
    simp only [centering, toReal_sub, toReal_ofRat, kron]
    split <;> simp
  simp only [hT, sub_mul, Finset.sum_sub_distrib] at this
  have h2 : ∑ j ∈ range n, (if i = j then (1 : ℝ) else 0) * x j = x i := by
    rw [Finset.sum_eq_single i]
    · simp
    · intro j _ hji
      have : i ≠ j := fun e => hji e.symm
      simp [this]
    · intro hni
      exact absurd (Finset.mem_range.mpr hi) hni
  rw [h2, ← Finset.mul_sum] at this
  have hn' : (n : ℝ) ≠ 0 := by exact_mod_cast hn.ne'
  field_simp at this ⊢
  linarith

end QMat
end EasyFEAVerif

namespace EasyFEAVerif
namespace QMat
open QS Finset

/-- A kernel vector exhibited over ℚ(√d): every row of `M` annihilates the real vector `x`. -/
theorem null_real {d : Nat} {M : List (List QS)} {x : List QS} (h : nullOK d M x = true)
    {r : List QS} (hr : r ∈ M) :
    ∑ k ∈ range x.length, toReal d (r.getD k QS.zero) * toReal d (x.getD k QS.zero) = 0 := by
  simp only [nullOK, Bool.and_eq_true, List.all_eq_true, beq_iff_eq, decide_eq_true_eq] at h
  obtain ⟨⟨_, hlen⟩, hz⟩ := h
  have := toReal_dot d r x x.length (hlen r hr) rfl
  rw [hz r hr] at this
  simpa using this.symm

end QMat
end EasyFEAVerif
