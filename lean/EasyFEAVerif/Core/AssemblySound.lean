/-
The CSR assembly of `Model/Assembly.lean` (canonical pattern + searchsorted map + bincount)
computes exactly the scatter-add of the element entries.
-/
import EasyFEAVerif.Model.Assembly
import Mathlib.Data.List.Sort
import Mathlib.Data.List.Zip
import Mathlib.Algebra.Group.Defs
import Mathlib.Tactic.Ring
import Mathlib.Tactic.Linarith

namespace EasyFEAVerif.Assembly

/-! ### the canonical pattern -/

theorem mem_insertKey (k x : Nat) (l : List Nat) : x ∈ insertKey k l ↔ x = k ∨ x ∈ l := by
  induction l with
  | nil => simp [insertKey]
  | cons y ys ih =>
    simp only [insertKey]
    split_ifs with h1 h2
    · simp
    · subst h2; simp
    · simp only [List.mem_cons, ih]; tauto

theorem sorted_insertKey (k : Nat) (l : List Nat) (h : l.Pairwise (· < ·)) :
    (insertKey k l).Pairwise (· < ·) := by
  induction l with
  | nil => simp [insertKey]
  | cons y ys ih =>
    simp only [insertKey]
    rw [List.pairwise_cons] at h
    split_ifs with h1 h2
    · rw [List.pairwise_cons]
      refine ⟨?_, List.pairwise_cons.mpr h⟩
      intro a ha
      rcases List.mem_cons.mp ha with rfl | ha
      · exact h1
      · exact lt_trans h1 (h.1 a ha)
    · exact List.pairwise_cons.mpr h
    · rw [List.pairwise_cons]
      refine ⟨?_, ih h.2⟩
      intro a ha
      rcases (mem_insertKey k a ys).mp ha with rfl | ha
      · omega
      · exact h.1 a ha

theorem mem_canon (keys : List Nat) (x : Nat) : x ∈ canon keys ↔ x ∈ keys := by
  induction keys with
  | nil => simp [canon]
  | cons k ks ih =>
    have : canon (k :: ks) = insertKey k (canon ks) := rfl
    rw [this, mem_insertKey, ih]; simp

theorem sorted_canon (keys : List Nat) : (canon keys).Pairwise (· < ·) := by
  induction keys with
  | nil => simp [canon]
  | cons k ks ih => exact sorted_insertKey k _ ih

/-! ### searchsorted on a strictly sorted list -/

theorem filter_split (c : List Nat) (p q : Nat → Bool) (h : ∀ x, q x = true → p x = true) :
    (c.filter p).length = (c.filter q).length + (c.filter (fun x => p x && !q x)).length := by
  induction c with
  | nil => simp
  | cons x xs ih =>
    simp only [List.filter_cons]
    cases hq : q x
    · cases hp : p x
      · simp [ih]
      · simp [ih]; omega
    · have hp := h x hq
      simp [hp, ih]; omega

theorem searchsorted_lt_length {c : List Nat} {k : Nat} (hk : k ∈ c) :
    searchsorted c k < c.length := by
  unfold searchsorted
  have h := filter_split c (fun _ => true) (fun x => decide (x < k)) (by simp)
  simp only [List.filter_true] at h
  have hpos : 0 < (c.filter (fun x => true && !decide (x < k))).length := by
    apply List.length_pos_of_mem (a := k)
    simp [List.mem_filter, hk]
  omega

theorem searchsorted_inj {c : List Nat} {k k' : Nat} (hk : k ∈ c) (hk' : k' ∈ c)
    (h : searchsorted c k = searchsorted c k') : k = k' := by
  -- the number of elements below a member is strictly monotone in the member
  have mono : ∀ {a b : Nat}, a ∈ c → a < b → searchsorted c a < searchsorted c b := by
    intro a b ha hab
    unfold searchsorted
    have h1 := filter_split c (fun x => decide (x < b)) (fun x => decide (x < a))
      (by intro x hx; simp only [decide_eq_true_eq] at hx ⊢; omega)
    have h3 : 0 < (c.filter (fun x => decide (x < b) && !decide (x < a))).length := by
      apply List.length_pos_of_mem (a := a)
      simp [List.mem_filter, ha, hab]
    omega
  rcases Nat.lt_trichotomy k k' with hlt | heq | hgt
  · have := mono hk hlt; omega
  · exact heq
  · have := mono hk' hgt; omega

/-! ### bincount -/

variable {α : Type} [AddMonoid α]

/-- sum of the weights of the entries selected by `f` (order preserved) -/
def selSum {β : Type} (f : β → Bool) (l : List (β × α)) : α :=
  (l.filter (fun p => f p.1)).foldr (fun p acc => p.2 + acc) 0

theorem bincount_getD (n : Nat) (inv : List Nat) (w : List α) {s : Nat} (hs : s < n) :
    (bincount n inv w).getD s 0 = selSum (fun i => i == s) (List.zip inv w) := by
  unfold bincount selSum
  rw [List.getD_eq_getElem?_getD, List.getElem?_map, List.getElem?_range hs]
  simp

theorem selSum_map {β γ : Type} (g : β → γ) (f : γ → Bool) (l : List β) (w : List α) :
    selSum f (List.zip (l.map g) w) = selSum (fun b => f (g b)) (List.zip l w) := by
  unfold selSum
  induction l generalizing w with
  | nil => simp
  | cons b bs ih =>
    cases w with
    | nil => simp
    | cons x xs =>
      simp only [List.map_cons, List.zip_cons_cons, List.filter_cons]
      by_cases h : f (g b) <;> simp [h, ih]

theorem selSum_congr {β : Type} {f g : β → Bool} (l : List (β × α)) (h : ∀ p ∈ l, f p.1 = g p.1) :
    selSum f l = selSum g l := by
  unfold selSum
  congr 1
  apply List.filter_congr
  intro p hp
  exact h p hp

theorem selSum_false {β : Type} {f : β → Bool} (l : List (β × α)) (h : ∀ p ∈ l, f p.1 = false) :
    selSum f l = 0 := by
  unfold selSum
  have : l.filter (fun p => f p.1) = [] := by
    rw [List.filter_eq_nil_iff]; intro p hp; simp [h p hp]
  simp [this]

/-! ### main theorem -/

theorem key_inj {ncol : Nat} {p q : Nat × Nat} (hp : p.2 < ncol) (hq : q.2 < ncol)
    (h : p.1 * ncol + p.2 = q.1 * ncol + q.2) : p = q := by
  have h1 : p.1 = q.1 := by
    have e1 : (p.1 * ncol + p.2) / ncol = p.1 := by
      rw [Nat.mul_comm, Nat.mul_add_div (by omega), Nat.div_eq_of_lt hp]; simp
    have e2 : (q.1 * ncol + q.2) / ncol = q.1 := by
      rw [Nat.mul_comm, Nat.mul_add_div (by omega), Nat.div_eq_of_lt hq]; simp
    rw [← e1, ← e2, h]
  have h2 : p.2 = q.2 := by rw [h1] at h; omega
  exact Prod.ext h1 h2

/-- The CSR value at (i, j) — canonical pattern, searchsorted slot map, bincount — is the
scatter-add of all element entries with these coordinates. `cs` are the (row, col) of the
element entries, `w` their values (any additive monoid: reals, Gaussian integers …). -/
theorem csr_get_eq_scatterAdd (ncol : Nat) (cs : List (Nat × Nat)) (w : List α) (i j : Nat)
    (hj : j < ncol) (hcs : ∀ p ∈ cs, p.2 < ncol) :
    let keys := keysOf ncol cs
    let c := canon keys
    let A : Csr α := { ncol := ncol, canon := c, inv := keys.map (searchsorted c),
                       data := bincount c.length (keys.map (searchsorted c)) w }
    A.get i j = scatterAdd cs w i j := by
  intro keys c A
  have hsorted := sorted_canon keys
  unfold Csr.get
  simp only [A]
  have hsc : scatterAdd cs w i j = selSum (fun p : Nat × Nat => p.1 == i && p.2 == j) (List.zip cs w) := rfl
  rw [hsc]
  split_ifs with hk
  · -- the slot exists
    have hlt := searchsorted_lt_length hk
    rw [bincount_getD _ _ _ hlt]
    have : keys.map (searchsorted c) = cs.map (fun p => searchsorted c (p.1 * ncol + p.2)) := by
      simp [keys, keysOf, List.map_map, Function.comp_def]
    rw [this, selSum_map]
    apply selSum_congr
    intro p hp
    have hpcs : p.1 ∈ cs := (List.of_mem_zip hp).1
    have hkey : p.1.1 * ncol + p.1.2 ∈ c := by
      rw [mem_canon]; simp only [keys, keysOf, List.mem_map]; exact ⟨p.1, hpcs, rfl⟩
    by_cases heq : p.1 = (i, j)
    · simp [heq]
    · have hne : ¬ (p.1.1 == i && p.1.2 == j) = true := by
        simp only [Bool.and_eq_true, beq_iff_eq]
        intro h; exact heq (Prod.ext h.1 h.2)
      have hne2 : ¬ (searchsorted c (p.1.1 * ncol + p.1.2) == searchsorted c (i * ncol + j)) = true := by
        simp only [beq_iff_eq]
        intro h
        have := searchsorted_inj hkey hk h
        exact heq (key_inj (hcs _ hpcs) (by simpa using hj) this)
      simp [hne, hne2]
  · -- no entry has these coordinates
    symm
    apply selSum_false
    intro p hp
    have hpcs : p.1 ∈ cs := (List.of_mem_zip hp).1
    by_contra hcon
    simp only [Bool.not_eq_false, Bool.and_eq_true, beq_iff_eq] at hcon
    apply hk
    rw [mem_canon]; simp only [keys, keysOf, List.mem_map]
    exact ⟨p.1, hpcs, by rw [hcon.1, hcon.2]⟩

end EasyFEAVerif.Assembly

namespace EasyFEAVerif.Assembly

/-! ### the element entries and their coordinates -/

theorem zip_replicate_left {β γ : Type} (r : β) (b : List γ) :
    List.zip (List.replicate b.length r) b = b.map fun c => (r, c) := by
  induction b with
  | nil => simp
  | cons c cs ih => simp [List.replicate_succ, ih]

/-- `Get_rows_e` / `Get_columns_e`: entry `r*ndof + c` of the flattened local matrix goes to
row `a[r]`, column `a[c]` of the global matrix. -/
theorem zip_rows_cols_aux (l b : List Nat) :
    List.zip (l.flatMap fun r => List.replicate b.length r) (List.replicate l.length b).flatten
      = l.flatMap fun r => b.map fun c => (r, c) := by
  induction l with
  | nil => simp
  | cons r rs ih =>
    simp only [List.flatMap_cons, List.length_cons, List.replicate_succ, List.flatten_cons]
    rw [List.zip_append (by simp), zip_replicate_left, ih]

theorem zip_rows_cols (a : List Nat) :
    List.zip (rowsRow a) (colsRow a) = a.flatMap fun r => a.map fun c => (r, c) :=
  zip_rows_cols_aux a a

/-! ### renumbering -/

variable {α : Type} [AddMonoid α]

/-- Renumbering the dofs by an injective map moves every assembled coefficient to the
renumbered position and changes nothing else. -/
theorem scatterAdd_renumber (σ : Nat → Nat) (hσ : Function.Injective σ) (cs : List (Nat × Nat)) (w : List α)
    (i j : Nat) :
    scatterAdd (cs.map fun p => (σ p.1, σ p.2)) w (σ i) (σ j) = scatterAdd cs w i j := by
  have h1 : scatterAdd (cs.map fun p => (σ p.1, σ p.2)) w (σ i) (σ j)
      = selSum (fun p : Nat × Nat => p.1 == σ i && p.2 == σ j) (List.zip (cs.map fun p => (σ p.1, σ p.2)) w) := rfl
  have h2 : scatterAdd cs w i j = selSum (fun p : Nat × Nat => p.1 == i && p.2 == j) (List.zip cs w) := rfl
  rw [h1, h2, selSum_map]
  apply selSum_congr
  intro p _
  have e1 : (σ p.1.1 == σ i) = (p.1.1 == i) := by
    by_cases ha : p.1.1 = i
    · simp [ha]
    · have : σ p.1.1 ≠ σ i := fun h => ha (hσ h)
      simp [ha, this]
  have e2 : (σ p.1.2 == σ j) = (p.1.2 == j) := by
    by_cases hb : p.1.2 = j
    · simp [hb]
    · have : σ p.1.2 ≠ σ j := fun h => hb (hσ h)
      simp [hb, this]
  simp only [e1, e2]

/-- node renumbering `π` induces the dof renumbering `n*dofN + d ↦ π n * dofN + d` -/
def dofMap (dofN : Nat) (π : Nat → Nat) (k : Nat) : Nat := π (k / dofN) * dofN + k % dofN

theorem dofMap_injective {dofN : Nat} (hd : 0 < dofN) {π : Nat → Nat} (hπ : Function.Injective π) :
    Function.Injective (dofMap dofN π) := by
  intro a b h
  unfold dofMap at h
  have hma : a % dofN < dofN := Nat.mod_lt _ hd
  have hmb : b % dofN < dofN := Nat.mod_lt _ hd
  have := key_inj (p := (π (a / dofN), a % dofN)) (q := (π (b / dofN), b % dofN)) hma hmb h
  have h1 : a / dofN = b / dofN := hπ (Prod.ext_iff.mp this).1
  have h2 : a % dofN = b % dofN := (Prod.ext_iff.mp this).2
  rw [← Nat.div_add_mod a dofN, ← Nat.div_add_mod b dofN, h1, h2]

theorem assemblyRow_renumber (dofN : Nat) (π : Nat → Nat) (nodes : List Nat) :
    assemblyRow dofN (nodes.map π) = (assemblyRow dofN nodes).map (dofMap dofN π) := by
  unfold assemblyRow
  rw [List.map_flatMap, List.flatMap_map]
  apply List.flatMap_congr
  intro n _
  rw [List.map_map]
  apply List.map_congr_left
  intro d hd
  have hd' : d < dofN := List.mem_range.mp hd
  simp only [Function.comp, dofMap]
  rw [Nat.mul_comm n dofN, Nat.mul_add_div (by omega), Nat.div_eq_of_lt hd', Nat.mul_add_mod,
    Nat.mod_eq_of_lt hd']
  simp

theorem coords_renumber (isMatrix : Bool) (dofN : Nat) (π : Nat → Nat) (connect : List (List Nat)) :
    coords isMatrix dofN (connect.map (·.map π))
      = (coords isMatrix dofN connect).map fun p => (dofMap dofN π p.1, if isMatrix then dofMap dofN π p.2 else p.2) := by
  unfold coords
  rw [List.flatMap_map, List.map_flatMap]
  apply List.flatMap_congr
  intro nodes _
  simp only [assemblyRow_renumber]
  cases isMatrix
  · simp [List.map_map, Function.comp_def]
  · simp only [if_true, zip_rows_cols]
    rw [List.flatMap_map, List.map_flatMap]
    apply List.flatMap_congr
    intro r _
    simp [List.map_map, Function.comp_def]

end EasyFEAVerif.Assembly
