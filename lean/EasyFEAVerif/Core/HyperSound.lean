/-
Meaning over ℝ of the reflected checks of `Model/HyperLaws.lean`.
-/
import EasyFEAVerif.Model.HyperLaws
import EasyFEAVerif.Core.PExprSound
import EasyFEAVerif.Core.KelvinRotSound
import Mathlib.Analysis.Calculus.Deriv.Inv
import Mathlib.Analysis.Calculus.Deriv.Pow
import Mathlib.Analysis.Calculus.Deriv.Mul
import Mathlib.Tactic.FieldSimp
import Mathlib.Tactic.LinearCombination
import Mathlib.Analysis.SpecialFunctions.Log.Deriv

namespace EasyFEAVerif.HyperLaws

open EasyFEAVerif PExpr

theorem eval_two (x : Nat → ℝ) (n : Nat) : eval x (two n) = 2 ^ n := by simp [two, eval]

theorem sqrt2_pow_even (n : Nat) : Real.sqrt 2 ^ (2 * n) = 2 ^ n := by
  rw [pow_mul, Real.sq_sqrt (by norm_num)]

/-- `eqSqrt2 q a p b` means `q·√2^a = p·√2^b` -/
theorem eqSqrt2_sound {q p : PExpr} {a b : Nat} (h : eqSqrt2 q a p b = true) (x : Nat → ℝ) :
    eval x q * Real.sqrt 2 ^ a = eval x p * Real.sqrt 2 ^ b := by
  unfold eqSqrt2 at h
  by_cases hpar : (a + b) % 2 == 0
  · rw [if_pos hpar] at h
    have hpar' : (a + b) % 2 = 0 := by simpa using hpar
    by_cases hab : a ≥ b
    · rw [if_pos hab] at h
      have he := PExpr.eqv_sound (K := ℝ) h x
      simp only [eval, eval_two] at he
      obtain ⟨k, hk⟩ : ∃ k, a - b = 2 * k := ⟨(a - b) / 2, by omega⟩
      have hk2 : (a - b) / 2 = k := by omega
      rw [hk2] at he
      have : a = b + 2 * k := by omega
      rw [this, pow_add, sqrt2_pow_even, ← he]; ring
    · rw [if_neg hab] at h
      have he := PExpr.eqv_sound (K := ℝ) h x
      simp only [eval, eval_two] at he
      obtain ⟨k, hk⟩ : ∃ k, b - a = 2 * k := ⟨(b - a) / 2, by omega⟩
      have hk2 : (b - a) / 2 = k := by omega
      rw [hk2] at he
      have : b = a + 2 * k := by omega
      rw [this, pow_add, sqrt2_pow_even, he]; ring
  · rw [if_neg hpar] at h
    simp only [Bool.and_eq_true] at h
    have h1 := PExpr.eqv_sound (K := ℝ) h.1 x
    have h2 := PExpr.eqv_sound (K := ℝ) h.2 x
    simp only [eval] at h1 h2
    simp [h1, h2]

/-- **the gradient table is the gradient**: `∂I/∂x_r = dI[r]·s_r` at every real point (`s_r = √2` for the shear
components), i.e. the table is the derivative with respect to the Kelvin–Mandel components -/
theorem gradOK_sound {I : PExpr} {dI : List (PExpr × Nat)} (h : gradOK I dI = true) {r : Nat} (hr : r < 6) (x : Nat → ℝ) :
    HasDerivAt (fun t : ℝ => eval (Function.update x r t) I)
      (eval x (entry1 dI r).1 * Real.sqrt 2 ^ ((entry1 dI r).2 + shear r)) (x r) := by
  simp only [gradOK, Bool.and_eq_true, List.all_eq_true, List.mem_range] at h
  have he := eqSqrt2_sound (h.2 r hr) x
  rw [pow_zero, mul_one] at he
  rw [he]
  exact PExpr.pd_sound r I x

/-- value of a law entry `(P, m)`: `P / w^m`, `w` = variable 2 -/
noncomputable def evalL (x : Nat → ℝ) (e : PExpr × Nat) : ℝ := eval x e.1 / (x 2) ^ e.2

theorem eval_wpow (x : Nat → ℝ) (n : Nat) : eval x (wpow n) = (x 2) ^ n := by simp [wpow, eval]

/-- **partial derivative with respect to I1 or I2** (`i = 0, 1`) -/
theorem dInvOK_sound {i : Nat} (hi : i ≠ 2) {W D : PExpr × Nat} (h : dInvOK i W D = true) (x : Nat → ℝ) (hw : x 2 ≠ 0) :
    HasDerivAt (fun t : ℝ => evalL (Function.update x i t) W) (evalL x D) (x i) := by
  have he := PExpr.eqv_sound (K := ℝ) h x
  simp only [eval, eval_wpow] at he
  have hupd : ∀ t, (Function.update x i t) 2 = x 2 := fun t => Function.update_of_ne (Ne.symm hi) t x
  have hfun : (fun t : ℝ => evalL (Function.update x i t) W) = fun t => eval (Function.update x i t) W.1 / (x 2) ^ W.2 := by
    funext t; simp [evalL, hupd]
  rw [hfun]
  have hd := (PExpr.pd_sound i W.1 x).div_const ((x 2) ^ W.2)
  have h1 : (x 2) ^ W.2 ≠ 0 := pow_ne_zero _ hw
  have h2 : (x 2) ^ D.2 ≠ 0 := pow_ne_zero _ hw
  have key : evalL x D = eval x (PExpr.pd i W.1) / (x 2) ^ W.2 := by
    unfold evalL
    rw [div_eq_div_iff h2 h1]
    linear_combination he
  rw [key]
  exact hd

/-- **partial derivative with respect to I3**, written in the variable `w = I3^(1/6)`: `∂/∂w = 6 w⁵ ∂/∂I3` -/
theorem dI3OK_sound {W D : PExpr × Nat} (h : dI3OK W D = true) (x : Nat → ℝ) (hw : x 2 ≠ 0) :
    HasDerivAt (fun w : ℝ => evalL (Function.update x 2 w) W) (6 * (x 2) ^ 5 * evalL x D) (x 2) := by
  have he := PExpr.eqv_sound (K := ℝ) h x
  simp only [eval, eval_wpow] at he
  have hfun : (fun w : ℝ => evalL (Function.update x 2 w) W) = fun w => eval (Function.update x 2 w) W.1 / w ^ W.2 := by
    funext w; simp [evalL]
  rw [hfun]
  have hP := PExpr.pd_sound 2 W.1 x
  have hpow : HasDerivAt (fun w : ℝ => w ^ W.2) ((W.2 : ℝ) * (x 2) ^ (W.2 - 1)) (x 2) := hasDerivAt_pow W.2 (x 2)
  have hd := hP.fun_div hpow (pow_ne_zero _ hw)
  rw [Function.update_eq_self] at hd
  have h1 : (x 2) ^ W.2 ≠ 0 := pow_ne_zero _ hw
  have h2 : (x 2) ^ D.2 ≠ 0 := pow_ne_zero _ hw
  have hcast : ((W.2 : ℚ) : ℝ) = (W.2 : ℝ) := by push_cast; rfl
  rw [hcast] at he
  have key : 6 * (x 2) ^ 5 * evalL x D
      = (eval x (PExpr.pd 2 W.1) * (x 2) ^ W.2 - eval x W.1 * ((W.2 : ℝ) * (x 2) ^ (W.2 - 1))) / ((x 2) ^ W.2) ^ 2 := by
    unfold evalL
    rcases Nat.eq_zero_or_pos W.2 with hm | hm
    · rw [hm] at he ⊢
      simp only [pow_zero, Nat.cast_zero, zero_mul, mul_zero, sub_zero, zero_add, mul_one, one_pow, div_one] at he ⊢
      rw [mul_div_assoc', div_eq_iff h2]
      exact mul_left_cancel₀ hw (by linear_combination he)
    · have hsplit : (x 2) ^ W.2 = (x 2) ^ (W.2 - 1) * x 2 := by
        rw [← pow_succ]; congr 1; omega
      have h3 : (x 2) ^ (W.2 - 1) ≠ 0 := pow_ne_zero _ hw
      rw [pow_add] at he
      rw [hsplit] at he ⊢
      field_simp
      linear_combination he
  rw [key]
  exact hd

/-! ### laws with a logarithmic term -/

/-- energy `P/w^m + L·log w` -/
noncomputable def evalLlog (x : Nat → ℝ) (W : PExpr × Nat) (L : PExpr) : ℝ := evalL x W + eval x L * Real.log (x 2)

theorem logCoef_indep {L : PExpr} (h : logCoefOK L = true) (x : Nat → ℝ) {i : Nat} (hi : i ≤ 2) (t : ℝ) :
    eval (Function.update x i t) L = eval x L := by
  have he := PExpr.eqv_sound (K := ℝ) h
  have key : ∀ y : Nat → ℝ, eval y L = eval (fun v => if v ≤ 2 then (1 : ℝ) else y v) L := by
    intro y
    rw [← he y, KelvinRot.eval_subst]
    congr 1
    funext v
    by_cases hv : v ≤ 2 <;> simp [σfree, hv, eval]
  rw [key (Function.update x i t), key x]
  congr 1
  funext v
  by_cases hv : v ≤ 2
  · simp [hv]
  · have : v ≠ i := by omega
    simp [hv, Function.update_of_ne this]

theorem dInvLog_sound {i : Nat} (hi : i < 2) {W D : PExpr × Nat} {L : PExpr} (h : dInvOK i W D = true) (hL : logCoefOK L = true)
    (x : Nat → ℝ) (hw : x 2 ≠ 0) :
    HasDerivAt (fun t : ℝ => evalLlog (Function.update x i t) W L) (evalL x D) (x i) := by
  have hi2 : i ≠ 2 := by omega
  have h1 := dInvOK_sound hi2 h x hw
  have hfun : (fun t : ℝ => evalLlog (Function.update x i t) W L)
      = fun t => evalL (Function.update x i t) W + eval x L * Real.log (x 2) := by
    funext t
    simp [evalLlog, logCoef_indep hL x (by omega : i ≤ 2) t, Function.update_of_ne (Ne.symm hi2)]
  rw [hfun]
  simpa using h1.add_const (eval x L * Real.log (x 2))

theorem dI3Log_sound {W D : PExpr × Nat} {L : PExpr} (h : dI3LogOK W L D = true) (hL : logCoefOK L = true) (x : Nat → ℝ) (hw : x 2 ≠ 0) :
    HasDerivAt (fun w : ℝ => evalLlog (Function.update x 2 w) W L) (6 * (x 2) ^ 5 * evalL x D) (x 2) := by
  have he := PExpr.eqv_sound (K := ℝ) h x
  simp only [eval, eval_wpow] at he
  have hfun : (fun w : ℝ => evalLlog (Function.update x 2 w) W L)
      = fun w => eval (Function.update x 2 w) W.1 / w ^ W.2 + eval x L * Real.log w := by
    funext w; simp [evalLlog, evalL, logCoef_indep hL x (le_refl 2) w]
  rw [hfun]
  have hP := PExpr.pd_sound 2 W.1 x
  have hpow : HasDerivAt (fun w : ℝ => w ^ W.2) ((W.2 : ℝ) * (x 2) ^ (W.2 - 1)) (x 2) := hasDerivAt_pow W.2 (x 2)
  have hd := hP.fun_div hpow (pow_ne_zero _ hw)
  rw [Function.update_eq_self] at hd
  have hlog := (Real.hasDerivAt_log hw).const_mul (eval x L)
  have hsum := hd.add hlog
  have h1 : (x 2) ^ W.2 ≠ 0 := pow_ne_zero _ hw
  have h2 : (x 2) ^ D.2 ≠ 0 := pow_ne_zero _ hw
  have hcast : ((W.2 : ℚ) : ℝ) = (W.2 : ℝ) := by push_cast; rfl
  rw [hcast] at he
  have key : 6 * (x 2) ^ 5 * evalL x D
      = (eval x (PExpr.pd 2 W.1) * (x 2) ^ W.2 - eval x W.1 * ((W.2 : ℝ) * (x 2) ^ (W.2 - 1))) / ((x 2) ^ W.2) ^ 2
        + eval x L * (x 2)⁻¹ := by
    unfold evalL
    rcases Nat.eq_zero_or_pos W.2 with hm | hm
    · rw [hm] at he ⊢
      simp only [pow_zero, Nat.cast_zero, zero_mul, mul_zero, sub_zero, zero_add, mul_one, one_pow, div_one] at he ⊢
      field_simp
      linear_combination he
    · have hsplit : (x 2) ^ W.2 = (x 2) ^ (W.2 - 1) * x 2 := by
        rw [← pow_succ]; congr 1; omega
      have h3 : (x 2) ^ (W.2 - 1) ≠ 0 := pow_ne_zero _ hw
      rw [pow_add] at he
      rw [hsplit] at he ⊢
      field_simp
      linear_combination he
  rw [key]
  exact hsum

end EasyFEAVerif.HyperLaws
