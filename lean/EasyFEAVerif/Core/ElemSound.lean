/-
Lifting of the kernel-checked Boolean element checks (`Model/Elem.lean`) to
statements about every point of every field of characteristic zero, and to real
derivatives.
-/
import EasyFEAVerif.Model.Elem
import EasyFEAVerif.Core.PExprSound

namespace EasyFEAVerif

set_option linter.unusedSectionVars false
variable {K : Type*} [Field K] [CharZero K]

namespace ElemData

theorem check_parts {E : ElemData} (h : E.check = true) :
    E.shapeOK = true ∧ E.kroneckerOK = true ∧ E.pouOK = true ∧ E.reproOK = true ∧ E.derivOK = true := by
  simp only [check, Bool.and_eq_true] at h
  tauto

/-- Lagrange property at the reference nodes: `N_i(x_j) = δ_ij` (exact rationals). -/
theorem kronecker {E : ElemData} (h : E.check = true) {i j : Nat} (hi : i < E.nPe) (hj : j < E.nPe) :
    (E.Ni i).evalQ (E.node j) = if i = j then 1 else 0 := by
  have hk := (check_parts h).2.1
  simp only [kroneckerOK, List.all_eq_true, List.mem_range, beq_iff_eq] at hk
  exact hk i hi j hj

/-- Partition of unity at every point of every characteristic-zero field. -/
theorem partition_of_unity {E : ElemData} (h : E.check = true) (x : Nat → K) :
    (E.N.map (PExpr.eval x)).sum = 1 := by
  have hp := (check_parts h).2.2.1
  have := PExpr.eqv_sound (K := K) hp x
  simpa [PExpr.eval_sum, PExpr.eval] using this

/-- Every monomial of the element's polynomial space is reproduced by nodal
interpolation, at every point. -/
theorem reproduces {E : ElemData} (h : E.check = true) {m : Mon} (hm : m ∈ E.mons) (x : Nat → K) :
    PExpr.eval x (E.interp m) = PExpr.eval x (monExpr m) := by
  have hr := (check_parts h).2.2.2.1
  simp only [reproOK, List.all_eq_true] at hr
  exact PExpr.eqv_sound (hr m hm) x

private theorem derivStep {E : ElemData} {prev next : Nat → Nat → PExpr}
    (h : E.derivStepOK prev next = true) {i a : Nat} (hi : i < E.nPe) (ha : a < E.dim) (x : Nat → ℝ) :
    HasDerivAt (fun t : ℝ => PExpr.eval (Function.update x a t) (prev i a))
      (PExpr.eval x (next i a)) (x a) := by
  simp only [derivStepOK, List.all_eq_true, List.mem_range] at h
  have he := PExpr.eqv_sound (K := ℝ) (h i hi a ha) x
  rw [← he]
  exact PExpr.pd_sound a (prev i a) x

/-- `_dN[i][a]` is the partial derivative of `_N[i]` along axis `a`, at every real point. -/
theorem dN_is_derivative {E : ElemData} (h : E.check = true) {i a : Nat} (hi : i < E.nPe)
    (ha : a < E.dim) (x : Nat → ℝ) :
    HasDerivAt (fun t : ℝ => PExpr.eval (Function.update x a t) (E.Ni i))
      (PExpr.eval x (tab E.dN i a)) (x a) := by
  have hd := (check_parts h).2.2.2.2
  simp only [derivOK, Bool.and_eq_true] at hd
  exact derivStep (prev := fun i _ => E.Ni i) hd.1.1.1 hi ha x

theorem ddN_is_derivative {E : ElemData} (h : E.check = true) {i a : Nat} (hi : i < E.nPe)
    (ha : a < E.dim) (x : Nat → ℝ) :
    HasDerivAt (fun t : ℝ => PExpr.eval (Function.update x a t) (tab E.dN i a))
      (PExpr.eval x (tab E.ddN i a)) (x a) := by
  have hd := (check_parts h).2.2.2.2
  simp only [derivOK, Bool.and_eq_true] at hd
  exact derivStep hd.1.1.2 hi ha x

theorem dddN_is_derivative {E : ElemData} (h : E.check = true) {i a : Nat} (hi : i < E.nPe)
    (ha : a < E.dim) (x : Nat → ℝ) :
    HasDerivAt (fun t : ℝ => PExpr.eval (Function.update x a t) (tab E.ddN i a))
      (PExpr.eval x (tab E.dddN i a)) (x a) := by
  have hd := (check_parts h).2.2.2.2
  simp only [derivOK, Bool.and_eq_true] at hd
  exact derivStep hd.1.2 hi ha x

theorem ddddN_is_derivative {E : ElemData} (h : E.check = true) {i a : Nat} (hi : i < E.nPe)
    (ha : a < E.dim) (x : Nat → ℝ) :
    HasDerivAt (fun t : ℝ => PExpr.eval (Function.update x a t) (tab E.dddN i a))
      (PExpr.eval x (tab E.ddddN i a)) (x a) := by
  have hd := (check_parts h).2.2.2.2
  simp only [derivOK, Bool.and_eq_true] at hd
  exact derivStep hd.2 hi ha x

/-- The first derivatives of the shape functions sum to zero at every real point
(consequence of the partition of unity, used by the patch test). -/
theorem sum_dN_zero {E : ElemData} (h : E.check = true) (a : Nat) (x : Nat → ℝ) :
    PExpr.eval x (PExpr.pd a (PExpr.sum E.N)) = 0 := by
  have h1 := PExpr.pd_sound a (PExpr.sum E.N) x
  have hc : (fun t : ℝ => PExpr.eval (Function.update x a t) (PExpr.sum E.N)) = fun _ => (1 : ℝ) := by
    funext t
    rw [PExpr.eval_sum]
    exact partition_of_unity h _
  rw [hc] at h1
  exact h1.unique (hasDerivAt_const (x a) (1 : ℝ))

end ElemData
end EasyFEAVerif

namespace EasyFEAVerif
namespace HermiteData

theorem check_parts {H : HermiteData} {eps : Rat} (h : H.check eps = true) :
    H.shapeOK = true ∧ H.derivOK = true ∧ H.interpOK eps = true := by
  simp only [check, Bool.and_eq_true] at h
  tauto

private theorem derivStep {H : HermiteData} {prev next : List PExpr}
    (h : H.derivStepOK prev next = true) {i : Nat} (hi : i < 2 * H.nPe) (x : Nat → ℝ) :
    HasDerivAt (fun t : ℝ => PExpr.eval (Function.update x 0 t) (f prev i))
      (PExpr.eval x (f next i)) (x 0) := by
  simp only [derivStepOK, List.all_eq_true, List.mem_range] at h
  have he := PExpr.eqv_sound (K := ℝ) (h i hi) x
  rw [← he]
  exact PExpr.pd_sound 0 (f prev i) x

theorem dN_is_derivative {H : HermiteData} {eps : Rat} (h : H.check eps = true) {i : Nat}
    (hi : i < 2 * H.nPe) (x : Nat → ℝ) :
    HasDerivAt (fun t : ℝ => PExpr.eval (Function.update x 0 t) (f H.N i))
      (PExpr.eval x (f H.dN i)) (x 0) := by
  have hd := (check_parts h).2.1
  simp only [derivOK, Bool.and_eq_true] at hd
  exact derivStep hd.1.1 hi x

theorem ddN_is_derivative {H : HermiteData} {eps : Rat} (h : H.check eps = true) {i : Nat}
    (hi : i < 2 * H.nPe) (x : Nat → ℝ) :
    HasDerivAt (fun t : ℝ => PExpr.eval (Function.update x 0 t) (f H.dN i))
      (PExpr.eval x (f H.ddN i)) (x 0) := by
  have hd := (check_parts h).2.1
  simp only [derivOK, Bool.and_eq_true] at hd
  exact derivStep hd.1.2 hi x

theorem dddN_is_derivative {H : HermiteData} {eps : Rat} (h : H.check eps = true) {i : Nat}
    (hi : i < 2 * H.nPe) (x : Nat → ℝ) :
    HasDerivAt (fun t : ℝ => PExpr.eval (Function.update x 0 t) (f H.ddN i))
      (PExpr.eval x (f H.dddN i)) (x 0) := by
  have hd := (check_parts h).2.1
  simp only [derivOK, Bool.and_eq_true] at hd
  exact derivStep hd.2 hi x

theorem close_iff {eps a b : Rat} (h : close eps a b = true) : a - b ≤ eps ∧ b - a ≤ eps := by
  simpa [close] using h

/-- Value/slope interpolation at the nodes, to within `eps`:
`φ_i(ξ_j)=δ_ij`, `φ_i'(ξ_j)=0`, `ψ_i(ξ_j)=0`, `2ψ_i'(ξ_j)=δ_ij`. -/
theorem interpolates {H : HermiteData} {eps : Rat} (h : H.check eps = true) {i j : Nat}
    (hi : i < H.nPe) (hj : j < H.nPe) :
    let d : Rat := if i = j then 1 else 0
    |(f H.N (2 * i)).evalQ (H.nodeAt j) - d| ≤ eps ∧
    |(f H.dN (2 * i)).evalQ (H.nodeAt j)| ≤ eps ∧
    |(f H.N (2 * i + 1)).evalQ (H.nodeAt j)| ≤ eps ∧
    |2 * (f H.dN (2 * i + 1)).evalQ (H.nodeAt j) - d| ≤ eps := by
  have hk := (check_parts h).2.2
  simp only [interpOK, List.all_eq_true, List.mem_range, Bool.and_eq_true] at hk
  obtain ⟨⟨⟨h1, h2⟩, h3⟩, h4⟩ := hk i hi j hj
  have c1 := close_iff h1
  have c2 := close_iff h2
  have c3 := close_iff h3
  have c4 := close_iff h4
  simp only [sub_zero, zero_sub] at c2 c3
  refine ⟨abs_le.mpr ⟨by linarith [c1.2], c1.1⟩, abs_le.mpr ⟨by linarith [c2.2], c2.1⟩,
    abs_le.mpr ⟨by linarith [c3.2], c3.1⟩, abs_le.mpr ⟨by linarith [c4.2], c4.1⟩⟩

end HermiteData
end EasyFEAVerif
