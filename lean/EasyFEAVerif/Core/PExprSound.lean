/-
Soundness of the reflected polynomial machinery of `Model/PExpr.lean`:
evaluation in any field of characteristic zero, soundness of the normaliser,
and soundness of the formal derivative as a real derivative (`HasDerivAt`).
-/
import EasyFEAVerif.Model.PExpr
import Mathlib.Data.Rat.Cast.CharZero
import Mathlib.Algebra.BigOperators.Group.List.Basic
import Mathlib.Tactic.Ring
import Mathlib.Tactic.FieldSimp
import Mathlib.Analysis.Calculus.Deriv.Pow
import Mathlib.Analysis.Calculus.Deriv.Mul
import Mathlib.Analysis.Calculus.Deriv.Add

namespace EasyFEAVerif

set_option linter.unusedSectionVars false

variable {K : Type*} [Field K] [CharZero K]

namespace PExpr

/-- Evaluation in a field of characteristic zero; rational constants are cast. -/
def eval (x : Nat → K) : PExpr → K
  | var i => x i
  | const c => (c : K)
  | add a b => eval x a + eval x b
  | sub a b => eval x a - eval x b
  | mul a b => eval x a * eval x b
  | neg a => - eval x a
  | pow a n => eval x a ^ n

theorem eval_cast (x : Nat → Rat) (e : PExpr) :
    eval (fun i => ((x i : Rat) : K)) e = ((evalQ x e : Rat) : K) := by
  induction e with
  | var i => rfl
  | const c => rfl
  | add a b iha ihb => simp [eval, evalQ, iha, ihb]
  | sub a b iha ihb => simp [eval, evalQ, iha, ihb]
  | mul a b iha ihb => simp [eval, evalQ, iha, ihb]
  | neg a iha => simp [eval, evalQ, iha]
  | pow a n iha => simp [eval, evalQ, iha]

theorem eval_sum (x : Nat → K) (l : List PExpr) :
    eval x (sum l) = (l.map (eval x)).sum := by
  induction l with
  | nil => simp [sum, eval]
  | cons e es ih => simp [sum, eval, ih]

end PExpr

/-- Value of a monomial whose first exponent belongs to variable `i`. -/
def Mon.evalFrom (x : Nat → K) : Nat → Mon → K
  | _, [] => 1
  | i, e :: es => x i ^ e * Mon.evalFrom x (i + 1) es

theorem Mon.evalFrom_mul (x : Nat → K) (i : Nat) (a b : Mon) :
    Mon.evalFrom x i (Mon.mul a b) = Mon.evalFrom x i a * Mon.evalFrom x i b := by
  induction a generalizing b i with
  | nil => simp [Mon.mul, Mon.evalFrom]
  | cons a as ih =>
    cases b with
    | nil => simp [Mon.mul, Mon.evalFrom]
    | cons b bs =>
      simp only [Mon.mul, Mon.evalFrom, ih, pow_add]
      ring

theorem Mon.evalFrom_var (x : Nat → K) (j i : Nat) :
    Mon.evalFrom x j (List.replicate i 0 ++ [1]) = x (j + i) := by
  induction i generalizing j with
  | zero => simp [Mon.evalFrom]
  | succ i ih =>
    simp only [List.replicate_succ, List.cons_append, Mon.evalFrom, pow_zero, one_mul, ih]
    congr 1
    omega

namespace Poly

def eval (x : Nat → K) (p : Poly) : K :=
  (p.map (fun t => ((t.1 : Rat) : K) * Mon.evalFrom x 0 t.2)).sum

@[simp] theorem eval_nil (x : Nat → K) : eval x [] = 0 := rfl

@[simp] theorem eval_cons (x : Nat → K) (t : Rat × Mon) (p : Poly) :
    eval x (t :: p) = ((t.1 : Rat) : K) * Mon.evalFrom x 0 t.2 + eval x p := by
  simp [eval]

theorem eval_insert (x : Nat → K) (c : Rat) (m : Mon) (p : Poly) :
    eval x (insert c m p) = eval x p + (c : K) * Mon.evalFrom x 0 m := by
  induction p with
  | nil => simp [insert]
  | cons t p ih =>
    obtain ⟨c', m'⟩ := t
    simp only [insert]
    split
    · rename_i h
      have hm : m' = m := by simpa using h
      subst hm
      simp only [eval_cons, Rat.cast_add]
      ring
    · simp only [eval_cons, ih]
      ring

theorem eval_foldl_insert (x : Nat → K) (q p : Poly) :
    eval x (q.foldl (fun acc t => insert t.1 t.2 acc) p) = eval x p + eval x q := by
  induction q generalizing p with
  | nil => simp
  | cons t q ih =>
    simp only [List.foldl_cons, ih, eval_insert, eval_cons]
    ring

theorem eval_add (x : Nat → K) (p q : Poly) : eval x (add p q) = eval x p + eval x q :=
  eval_foldl_insert x q p

theorem eval_scale (x : Nat → K) (c : Rat) (m : Mon) (p : Poly) :
    eval x (scale c m p) = (c : K) * Mon.evalFrom x 0 m * eval x p := by
  induction p with
  | nil => simp [scale]
  | cons t p ih =>
    have : scale c m (t :: p) = (c * t.1, Mon.mul m t.2) :: scale c m p := rfl
    rw [this, eval_cons, eval_cons, ih]
    simp only [Rat.cast_mul, Mon.evalFrom_mul]
    ring

theorem eval_mul_aux (x : Nat → K) (p q acc : Poly) :
    eval x (p.foldl (fun acc t => add acc (scale t.1 t.2 q)) acc)
      = eval x acc + eval x p * eval x q := by
  induction p generalizing acc with
  | nil => simp
  | cons t p ih =>
    simp only [List.foldl_cons, ih, eval_add, eval_scale, eval_cons]
    ring

theorem eval_mul (x : Nat → K) (p q : Poly) : eval x (mul p q) = eval x p * eval x q := by
  simp [mul, eval_mul_aux]

theorem eval_neg (x : Nat → K) (p : Poly) : eval x (neg p) = - eval x p := by
  induction p with
  | nil => simp [neg]
  | cons t p ih =>
    have : neg (t :: p) = (-t.1, t.2) :: neg p := rfl
    rw [this, eval_cons, eval_cons, ih]
    simp only [Rat.cast_neg]
    ring

theorem eval_pow (x : Nat → K) (p : Poly) (n : Nat) : eval x (pow p n) = eval x p ^ n := by
  induction n with
  | zero => simp [pow, Mon.evalFrom]
  | succ n ih => simp [pow, eval_mul, ih, pow_succ]

theorem eval_isZero (x : Nat → K) (p : Poly) (h : isZero p = true) : eval x p = 0 := by
  induction p with
  | nil => rfl
  | cons t p ih =>
    simp only [isZero, List.all_cons, Bool.and_eq_true, beq_iff_eq] at h
    have hp : isZero p = true := h.2
    simp [eval_cons, h.1, ih hp]

end Poly

namespace PExpr

theorem norm_sound (x : Nat → K) (e : PExpr) : Poly.eval x (norm e) = eval x e := by
  induction e with
  | var i => simp [norm, eval, Mon.evalFrom_var]
  | const c => simp [norm, eval, Mon.evalFrom]
  | add a b iha ihb => simp [norm, eval, Poly.eval_add, iha, ihb]
  | sub a b iha ihb => simp [norm, eval, Poly.eval_add, Poly.eval_neg, iha, ihb, sub_eq_add_neg]
  | mul a b iha ihb => simp [norm, eval, Poly.eval_mul, iha, ihb]
  | neg a iha => simp [norm, eval, Poly.eval_neg, iha]
  | pow a n iha => simp [norm, eval, Poly.eval_pow, iha]

/-- The kernel-checkable test `eqv` implies equality of values at every point of
every field of characteristic zero. -/
theorem eqv_sound {a b : PExpr} (h : eqv a b = true) (x : Nat → K) : eval x a = eval x b := by
  have h0 := Poly.eval_isZero x _ h
  rw [norm_sound] at h0
  simp only [eval] at h0
  exact sub_eq_zero.mp h0

/-- The formal derivative is the derivative: real-variable statement. -/
theorem pd_sound (v : Nat) (e : PExpr) (x : Nat → ℝ) :
    HasDerivAt (fun t : ℝ => eval (Function.update x v t) e) (eval x (pd v e)) (x v) := by
  induction e with
  | var i =>
    by_cases h : i = v
    · subst h
      simp only [eval, pd, if_true, Function.update_self]
      simpa using hasDerivAt_id' (x i)
    · simp only [eval, pd, h, if_false, Function.update_of_ne h]
      simpa using hasDerivAt_const (x v) (x i)
  | const c =>
    simp only [eval, pd]
    simpa using hasDerivAt_const (x v) (c : ℝ)
  | add a b iha ihb => exact iha.add ihb
  | sub a b iha ihb => exact iha.sub ihb
  | mul a b iha ihb =>
    have h := iha.mul ihb
    simp only [Function.update_eq_self] at h
    exact h
  | neg a iha => exact iha.neg
  | pow a n iha =>
    have h := iha.pow n
    simp only [Function.update_eq_self] at h
    exact h

end PExpr
end EasyFEAVerif
