/-
Meaning over ℝ of the reflected checks of `Model/KelvinRot.lean`.
-/
import EasyFEAVerif.Model.KelvinRot
import EasyFEAVerif.Core.PExprSound
import Mathlib.Analysis.Real.Sqrt
import Mathlib.Data.Matrix.Mul
import Mathlib.Tactic.IntervalCases
import Mathlib.Tactic.Linarith
import Mathlib.Tactic.LinearCombination
import Mathlib.Tactic.NormNum
import Mathlib.Algebra.BigOperators.Fin

namespace EasyFEAVerif.KelvinRot

open EasyFEAVerif PExpr

/-- value of `a + b√2` -/
noncomputable def evalR (x : Nat → ℝ) (p : PS) : ℝ := eval x p.1 + eval x p.2 * Real.sqrt 2

theorem sqrt2_sq : Real.sqrt 2 * Real.sqrt 2 = 2 := Real.mul_self_sqrt (by norm_num)

@[simp] theorem evalR_zero (x : Nat → ℝ) : evalR x PS.zero = 0 := by simp [evalR, PS.zero, eval]
@[simp] theorem evalR_one (x : Nat → ℝ) : evalR x PS.one = 1 := by simp [evalR, PS.one, eval]
theorem evalR_add (x : Nat → ℝ) (p q : PS) : evalR x (PS.add p q) = evalR x p + evalR x q := by
  simp [evalR, PS.add, eval]; ring
theorem evalR_mul (x : Nat → ℝ) (p q : PS) : evalR x (PS.mul p q) = evalR x p * evalR x q := by
  simp only [evalR, PS.mul, eval]
  have h := sqrt2_sq
  push_cast
  linear_combination (-(eval x p.2 * eval x q.2)) * h
theorem evalR_sum (x : Nat → ℝ) (l : List PS) : evalR x (PS.sum l) = (l.map (evalR x)).sum := by
  induction l with
  | nil => simp [PS.sum]
  | cons a l ih => simp only [PS.sum, List.foldr_cons, List.map_cons, List.sum_cons] at *; rw [evalR_add, ih]

theorem PS.eqv_sound {p q : PS} (h : PS.eqv p q = true) (x : Nat → ℝ) : evalR x p = evalR x q := by
  simp only [PS.eqv, Bool.and_eq_true] at h
  simp [evalR, PExpr.eqv_sound (K := ℝ) h.1 x, PExpr.eqv_sound (K := ℝ) h.2 x]

theorem eval_subst (σ : Nat → PExpr) (x : Nat → ℝ) (e : PExpr) :
    eval x (subst σ e) = eval (fun i => eval x (σ i)) e := by
  induction e with
  | var i => rfl
  | const c => rfl
  | add a b iha ihb => simp [subst, eval, iha, ihb]
  | sub a b iha ihb => simp [subst, eval, iha, ihb]
  | mul a b iha ihb => simp [subst, eval, iha, ihb]
  | neg a iha => simp [subst, eval, iha]
  | pow a n iha => simp [subst, eval, iha]

theorem evalR_subst (σ : Nat → PExpr) (x : Nat → ℝ) (p : PS) :
    evalR x (PS.subst σ p) = evalR (fun i => eval x (σ i)) p := by
  simp [evalR, PS.subst, eval_subst]

theorem eval_congr {N : Nat} {e : PExpr} (h : varsBelow N e = true) {x y : Nat → ℝ} (hxy : ∀ v, v < N → x v = y v) :
    eval x e = eval y e := by
  induction e with
  | var i => simp only [varsBelow, decide_eq_true_eq] at h; exact hxy i h
  | const c => rfl
  | add a b iha ihb => simp only [varsBelow, Bool.and_eq_true] at h; simp [eval, iha h.1, ihb h.2]
  | sub a b iha ihb => simp only [varsBelow, Bool.and_eq_true] at h; simp [eval, iha h.1, ihb h.2]
  | mul a b iha ihb => simp only [varsBelow, Bool.and_eq_true] at h; simp [eval, iha h.1, ihb h.2]
  | neg a iha => simp only [varsBelow] at h; simp [eval, iha h]
  | pow a n iha => simp only [varsBelow] at h; simp [eval, iha h]

theorem evalR_congr {p : PS} (h : (varsBelow 9 p.1 && varsBelow 9 p.2) = true) {x y : Nat → ℝ}
    (hxy : ∀ v, v < 9 → x v = y v) : evalR x p = evalR y p := by
  simp only [Bool.and_eq_true] at h
  simp [evalR, eval_congr h.1 hxy, eval_congr h.2 hxy]

theorem eval_psum (x : Nat → ℝ) (l : List PExpr) : eval x (PExpr.sum l) = (l.map (eval x)).sum :=
  PExpr.eval_sum x l

end EasyFEAVerif.KelvinRot
