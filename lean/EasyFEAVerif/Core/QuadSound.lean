/-
Soundness of the ℚ(√d) arithmetic of `Model/Quad.lean` with respect to the real
numbers, and lifting of the kernel-checked rule checks to real statements.
-/
import EasyFEAVerif.Model.Quad
import Mathlib.Analysis.Real.Sqrt
import Mathlib.Tactic.Ring
import Mathlib.Tactic.Linarith
import Mathlib.Tactic.LinearCombination
import Mathlib.Tactic.Positivity

namespace EasyFEAVerif

namespace QS

/-- the real number denoted by `a + b √d` -/
noncomputable def toReal (d : Nat) (x : QS) : ℝ := (x.a : ℝ) + (x.b : ℝ) * Real.sqrt d

theorem sqrt_sq (d : Nat) : Real.sqrt d * Real.sqrt d = (d : ℝ) :=
  Real.mul_self_sqrt (Nat.cast_nonneg d)

@[simp] theorem toReal_ofRat (d : Nat) (q : Rat) : toReal d (ofRat q) = (q : ℝ) := by
  simp [toReal, ofRat]

@[simp] theorem toReal_zero (d : Nat) : toReal d zero = 0 := by simp [toReal, zero]
@[simp] theorem toReal_one (d : Nat) : toReal d one = 1 := by simp [toReal, one]

theorem toReal_add (d : Nat) (x y : QS) : toReal d (add x y) = toReal d x + toReal d y := by
  simp only [toReal, add, Rat.cast_add]; ring

theorem toReal_sub (d : Nat) (x y : QS) : toReal d (sub x y) = toReal d x - toReal d y := by
  simp only [toReal, sub, Rat.cast_sub]; ring

theorem toReal_neg (d : Nat) (x : QS) : toReal d (neg x) = - toReal d x := by
  simp only [toReal, neg, Rat.cast_neg]; ring

theorem toReal_mul (d : Nat) (x y : QS) : toReal d (mul d x y) = toReal d x * toReal d y := by
  simp only [toReal, mul, Rat.cast_add, Rat.cast_mul, Rat.cast_natCast]
  have h := sqrt_sq d
  linear_combination (-(x.b : ℝ) * (y.b : ℝ)) * h

theorem toReal_pow (d : Nat) (x : QS) (n : Nat) : toReal d (pow d x n) = toReal d x ^ n := by
  induction n with
  | zero => simp [pow]
  | succ n ih => simp [pow, toReal_mul, ih, pow_succ]

theorem toReal_sum (d : Nat) (l : List QS) : toReal d (sum l) = (l.map (toReal d)).sum := by
  induction l with
  | nil => simp [sum]
  | cons x l ih =>
    have : sum (x :: l) = add x (sum l) := rfl
    rw [this, toReal_add, ih]; simp

/-- the sign decision is sound -/
theorem nonneg_sound {d : Nat} {x : QS} (h : nonneg d x = true) : 0 ≤ toReal d x := by
  have hs : 0 ≤ Real.sqrt d := Real.sqrt_nonneg _
  have hq := sqrt_sq d
  unfold nonneg at h
  unfold toReal
  split_ifs at h with h1 h2 h3
  · have ha : (0 : ℝ) ≤ x.a := by exact_mod_cast h1.1
    have hb : (0 : ℝ) ≤ x.b := by exact_mod_cast h1.2
    positivity
  · simp only [Bool.and_eq_true, beq_iff_eq] at h
    simp [h.1, h.2]
  · -- 0 ≤ a, b < 0, d b² ≤ a²
    have hle : (d : Rat) * x.b * x.b ≤ x.a * x.a := by simpa using h
    have hle' : (d : ℝ) * x.b * x.b ≤ (x.a : ℝ) * x.a := by exact_mod_cast hle
    have ha : (0 : ℝ) ≤ x.a := by exact_mod_cast h3
    by_contra hneg
    push Not at hneg
    -- a < -b√d, both sides ≥ 0 ⇒ a² < b² d
    have h4 : (x.a : ℝ) < -((x.b : ℝ) * Real.sqrt d) := by linarith
    have h5 : (x.a : ℝ) * x.a < (-((x.b : ℝ) * Real.sqrt d)) * (-((x.b : ℝ) * Real.sqrt d)) :=
      mul_self_lt_mul_self ha h4
    have h6 : (-((x.b : ℝ) * Real.sqrt d)) * (-((x.b : ℝ) * Real.sqrt d)) = (d : ℝ) * x.b * x.b := by
      linear_combination ((x.b : ℝ) * x.b) * hq
    linarith
  · -- a < 0, 0 < b (not both ≤ 0), a² ≤ d b²
    have hle : x.a * x.a ≤ (d : Rat) * x.b * x.b := by simpa using h
    have hle' : (x.a : ℝ) * x.a ≤ (d : ℝ) * x.b * x.b := by exact_mod_cast hle
    have ha : (x.a : ℝ) < 0 := by
      have : x.a < 0 := not_le.mp h3
      exact_mod_cast this
    have hb : (0 : ℝ) ≤ x.b := by
      by_contra hb
      push Not at hb
      have hb' : x.b ≤ 0 := by
        have : (x.b : ℝ) ≤ 0 := hb.le
        exact_mod_cast this
      have ha' : x.a ≤ 0 := by
        have : (x.a : ℝ) ≤ 0 := ha.le
        exact_mod_cast this
      exact h2 ⟨ha', hb'⟩
    by_contra hneg
    push Not at hneg
    -- b√d < -a, both ≥ 0 ⇒ b² d < a²
    have h4 : (x.b : ℝ) * Real.sqrt d < -(x.a : ℝ) := by linarith
    have h0 : 0 ≤ (x.b : ℝ) * Real.sqrt d := mul_nonneg hb hs
    have h5 := mul_self_lt_mul_self h0 h4
    have h6 : ((x.b : ℝ) * Real.sqrt d) * ((x.b : ℝ) * Real.sqrt d) = (d : ℝ) * x.b * x.b := by
      linear_combination ((x.b : ℝ) * x.b) * hq
    nlinarith

theorem le_sound {d : Nat} {x y : QS} (h : le d x y = true) : toReal d x ≤ toReal d y := by
  have := nonneg_sound h
  rw [toReal_sub] at this
  linarith

theorem close_sound {d : Nat} {eps : Rat} {x y : QS} (h : close d eps x y = true) :
    |toReal d x - toReal d y| ≤ (eps : ℝ) := by
  simp only [close, Bool.and_eq_true] at h
  have h1 := nonneg_sound h.1
  have h2 := nonneg_sound h.2
  rw [toReal_sub, toReal_ofRat, toReal_sub] at h1
  rw [toReal_add, toReal_ofRat, toReal_sub] at h2
  exact abs_le.mpr ⟨by linarith, by linarith⟩

end QS

/-- membership in the closed reference element, for real coordinates -/
def Shape.InsideR (s : Shape) (x : Nat → ℝ) : Prop :=
  match s with
  | .segment => -1 ≤ x 0 ∧ x 0 ≤ 1
  | .quadrangle => (-1 ≤ x 0 ∧ x 0 ≤ 1) ∧ (-1 ≤ x 1 ∧ x 1 ≤ 1)
  | .hexahedron => (-1 ≤ x 0 ∧ x 0 ≤ 1) ∧ (-1 ≤ x 1 ∧ x 1 ≤ 1) ∧ (-1 ≤ x 2 ∧ x 2 ≤ 1)
  | .triangle => 0 ≤ x 0 ∧ 0 ≤ x 1 ∧ x 0 + x 1 ≤ 1
  | .tetrahedron => 0 ≤ x 0 ∧ 0 ≤ x 1 ∧ 0 ≤ x 2 ∧ x 0 + x 1 + x 2 ≤ 1
  | .prism => 0 ≤ x 0 ∧ 0 ≤ x 1 ∧ x 0 + x 1 ≤ 1 ∧ (-1 ≤ x 2 ∧ x 2 ≤ 1)

namespace Rule
open QS

/-- real coordinates of a quadrature point -/
noncomputable def ptR (R : Rule) (p : List QS) : Nat → ℝ := fun k => toReal R.d (coord p k)

/-- real value of the monomial ξ^α at a point (exponents listed from variable `k` on) -/
noncomputable def monAtR (d : Nat) (p : List QS) : Nat → List Nat → ℝ
  | _, [] => 1
  | k, e :: es => toReal d (coord p k) ^ e * monAtR d p (k + 1) es

theorem toReal_monAt_go (d : Nat) (p : List QS) (k : Nat) (α : List Nat) :
    toReal d (monAt.go d p k α) = monAtR d p k α := by
  induction α generalizing k with
  | nil => simp [monAt.go, monAtR]
  | cons e es ih => simp [monAt.go, monAtR, toReal_mul, toReal_pow, ih]

/-- the quadrature sum Σ_p w_p ξ_p^α as a real number -/
noncomputable def quadR (R : Rule) (α : List Nat) : ℝ :=
  (List.zipWith (fun w p => toReal R.d w * monAtR R.d p 0 α) R.w R.pts).sum

theorem toReal_quad (R : Rule) (α : List Nat) : toReal R.d (R.quad α) = R.quadR α := by
  unfold quad quadR
  rw [toReal_sum]
  congr 1
  generalize R.w = ws
  generalize R.pts = ps
  induction ws generalizing ps with
  | nil => simp
  | cons w ws ih =>
    cases ps with
    | nil => simp
    | cons p ps => simp [toReal_mul, monAt, toReal_monAt_go, ih]

theorem check_parts {R : Rule} {k kz : Nat} {eps : Rat} (h : R.check k kz eps = true) :
    R.shapeOK = true ∧ R.insideOK = true ∧
      QS.close R.d eps R.weightSum (QS.ofRat R.shape.measure) = true ∧ R.exactOK k kz eps = true := by
  simp only [check, Bool.and_eq_true] at h
  tauto

/-- every monomial of the claimed space is integrated exactly (to within eps) -/
theorem exact_real {R : Rule} {k kz : Nat} {eps : Rat} (h : R.check k kz eps = true)
    {α : List Nat} (hα : α ∈ mons R.shape k kz) :
    |R.quadR α - (R.shape.refMoment α : ℝ)| ≤ (eps : ℝ) := by
  have he := (check_parts h).2.2.2
  simp only [exactOK, List.all_eq_true] at he
  have := QS.close_sound (he α hα)
  rwa [toReal_quad, toReal_ofRat] at this

/-- the weights sum to the measure of the reference element (to within eps) -/
theorem weights_real {R : Rule} {k kz : Nat} {eps : Rat} (h : R.check k kz eps = true) :
    |(R.w.map (toReal R.d)).sum - (R.shape.measure : ℝ)| ≤ (eps : ℝ) := by
  have := QS.close_sound (check_parts h).2.2.1
  rwa [weightSum, toReal_sum, toReal_ofRat] at this

/-- every point lies in the closed reference element -/
theorem inside_real {R : Rule} {k kz : Nat} {eps : Rat} (h : R.check k kz eps = true)
    {p : List QS} (hp : p ∈ R.pts) : R.shape.InsideR (R.ptR p) := by
  have hi := (check_parts h).2.1
  simp only [insideOK, List.all_eq_true] at hi
  have hp' := hi p hp
  unfold insidePt at hp'
  unfold Shape.InsideR ptR
  have e1 : toReal R.d (QS.neg QS.one) = -1 := by simp [toReal_neg]
  cases hs : R.shape <;> simp only [hs, Bool.and_eq_true] at hp' ⊢
  · obtain ⟨h1, h2⟩ := hp'
    have a := le_sound h1; have b := le_sound h2
    rw [e1] at a; rw [toReal_one] at b
    exact ⟨a, b⟩
  · obtain ⟨⟨h1, h2⟩, h3⟩ := hp'
    have a := nonneg_sound h1; have b := nonneg_sound h2; have c := le_sound h3
    rw [toReal_add, toReal_one] at c
    exact ⟨a, b, c⟩
  · obtain ⟨⟨⟨h1, h2⟩, h3⟩, h4⟩ := hp'
    have a := le_sound h1; have b := le_sound h2; have c := le_sound h3; have e := le_sound h4
    rw [e1] at a c; rw [toReal_one] at b e
    exact ⟨⟨a, b⟩, ⟨c, e⟩⟩
  · obtain ⟨⟨⟨h1, h2⟩, h3⟩, h4⟩ := hp'
    have a := nonneg_sound h1; have b := nonneg_sound h2; have c := nonneg_sound h3
    have e := le_sound h4
    rw [toReal_add, toReal_add, toReal_one] at e
    exact ⟨a, b, c, e⟩
  · obtain ⟨⟨⟨⟨⟨h1, h2⟩, h3⟩, h4⟩, h5⟩, h6⟩ := hp'
    have a := le_sound h1; have b := le_sound h2; have c := le_sound h3; have e := le_sound h4
    have f := le_sound h5; have g := le_sound h6
    rw [e1] at a c f; rw [toReal_one] at b e g
    exact ⟨⟨a, b⟩, ⟨c, e⟩, ⟨f, g⟩⟩
  · obtain ⟨⟨⟨⟨h1, h2⟩, h3⟩, h4⟩, h5⟩ := hp'
    have a := nonneg_sound h1; have b := nonneg_sound h2; have c := le_sound h3
    have e := le_sound h4; have f := le_sound h5
    rw [toReal_add, toReal_one] at c; rw [e1] at e; rw [toReal_one] at f
    exact ⟨a, b, c, e, f⟩

end Rule
end EasyFEAVerif
