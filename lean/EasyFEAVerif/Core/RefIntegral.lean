/-
Closed-form moments of the reference elements ARE the integrals of the monomials over them (Mathlib interval integrals):
segment / square / cube `[-1, 1]^d`, unit triangle, unit tetrahedron (through the scaled Beta integral, proved by induction
with integration by parts), prism. `refMoment_*` tie them to `Shape.refMoment`, the quantity the exactness theorems of C07
are stated with.
-/
import EasyFEAVerif.Model.Quad
import Mathlib.Analysis.SpecialFunctions.Integrals.Basic
import Mathlib.MeasureTheory.Integral.IntervalIntegral.IntegrationByParts

open intervalIntegral

namespace EasyFEAVerif.RefIntegral

theorem seg_moment (k : ℕ) : ∫ x in (-1 : ℝ)..1, x ^ k = if k % 2 = 0 then 2 / ((k : ℝ) + 1) else 0 := by
  rw [integral_pow]
  split_ifs with h
  · have ho : Odd (k + 1) := ⟨k / 2, by omega⟩
    rw [ho.neg_one_pow]; norm_num
  · have he : Even (k + 1) := ⟨(k + 1) / 2, by omega⟩
    rw [he.neg_one_pow]; norm_num

/-- scaled Beta integral: `∫₀ˢ y^a (s-y)^b dy = s^(a+b+1) a! b! / (a+b+1)!` for every real `s` -/
theorem beta_scaled (s : ℝ) (a b : ℕ) :
    ∫ y in (0 : ℝ)..s, y ^ a * (s - y) ^ b = s ^ (a + b + 1) * ((a.factorial * b.factorial : ℝ) / (a + b + 1).factorial) := by
  induction b generalizing a with
  | zero =>
    simp only [pow_zero, mul_one, Nat.factorial_zero, Nat.cast_one, add_zero]
    rw [integral_pow]
    simp only [zero_pow (Nat.succ_ne_zero a), sub_zero]
    rw [Nat.factorial_succ]; push_cast
    have : (a.factorial : ℝ) ≠ 0 := by positivity
    field_simp
  | succ b ih =>
    have hu : ∀ x ∈ Set.uIcc (0 : ℝ) s, HasDerivAt (fun x : ℝ => (s - x) ^ (b + 1)) (-((b + 1 : ℕ) : ℝ) * (s - x) ^ b) x := by
      intro x _
      have h := ((hasDerivAt_id x).const_sub s).fun_pow (b + 1)
      refine h.congr_deriv ?_
      simp only [id, Nat.add_sub_cancel]; ring
    have hv : ∀ x ∈ Set.uIcc (0 : ℝ) s, HasDerivAt (fun x : ℝ => x ^ (a + 1) / (a + 1)) (x ^ a) x := by
      intro x _
      have h := ((hasDerivAt_id x).fun_pow (a + 1)).div_const ((a : ℝ) + 1)
      have ha : ((a : ℝ) + 1) ≠ 0 := by positivity
      refine h.congr_deriv ?_
      simp only [id, Nat.add_sub_cancel]; push_cast; field_simp
    have hint1 : IntervalIntegrable (fun x : ℝ => -((b + 1 : ℕ) : ℝ) * (s - x) ^ b) MeasureTheory.volume 0 s :=
      (Continuous.intervalIntegrable (by fun_prop) _ _)
    have hint2 : IntervalIntegrable (fun x : ℝ => x ^ a) MeasureTheory.volume 0 s := (Continuous.intervalIntegrable (by fun_prop) _ _)
    have key := integral_mul_deriv_eq_deriv_mul hu hv hint1 hint2
    have lhs : (∫ x in (0 : ℝ)..s, x ^ a * (s - x) ^ (b + 1)) = ∫ x in (0 : ℝ)..s, (s - x) ^ (b + 1) * x ^ a := by
      congr 1; funext x; ring
    rw [lhs, key]
    have rhs : (∫ x in (0 : ℝ)..s, -((b + 1 : ℕ) : ℝ) * (s - x) ^ b * (x ^ (a + 1) / (a + 1)))
        = -((b + 1 : ℕ) : ℝ) / (a + 1) * ∫ x in (0 : ℝ)..s, x ^ (a + 1) * (s - x) ^ b := by
      rw [← integral_const_mul]
      congr 1; funext x; ring
    rw [rhs, ih (a + 1)]
    simp only [sub_self, zero_pow (Nat.succ_ne_zero b), zero_mul, sub_zero, zero_pow (Nat.succ_ne_zero a), zero_div, mul_zero]
    rw [Nat.factorial_succ a, Nat.factorial_succ b]
    have e : a + 1 + b + 1 = a + (b + 1) + 1 := by ring
    rw [e]
    push_cast
    have h1 : ((a + (b + 1) + 1).factorial : ℝ) ≠ 0 := by positivity
    have h2 : ((a : ℝ) + 1) ≠ 0 := by positivity
    field_simp
    ring

theorem beta_nat (a b : ℕ) : ∫ x in (0 : ℝ)..1, x ^ a * (1 - x) ^ b = (a.factorial * b.factorial : ℝ) / (a + b + 1).factorial := by
  have := beta_scaled 1 a b
  simpa using this

/-- moments of the reference triangle `{x, y ≥ 0, x + y ≤ 1}` -/
theorem triangle_moment (a b : ℕ) :
    ∫ x in (0 : ℝ)..1, ∫ y in (0 : ℝ)..(1 - x), x ^ a * y ^ b = (a.factorial * b.factorial : ℝ) / (a + b + 2).factorial := by
  have inner : ∀ x : ℝ, ∫ y in (0 : ℝ)..(1 - x), x ^ a * y ^ b = x ^ a * (1 - x) ^ (b + 1) / (b + 1) := by
    intro x
    rw [integral_const_mul, integral_pow]
    simp only [zero_pow (Nat.succ_ne_zero b), sub_zero]
    ring
  simp_rw [inner]
  rw [integral_div, beta_nat]
  rw [Nat.factorial_succ b]
  have e : a + (b + 1) + 1 = a + b + 2 := by ring
  rw [e]
  push_cast
  have h1 : ((a + b + 2).factorial : ℝ) ≠ 0 := by positivity
  have h2 : ((b : ℝ) + 1) ≠ 0 := by positivity
  field_simp

/-- moments of the reference tetrahedron `{x, y, z ≥ 0, x + y + z ≤ 1}` -/
theorem tetra_moment (a b c : ℕ) :
    ∫ x in (0 : ℝ)..1, ∫ y in (0 : ℝ)..(1 - x), ∫ z in (0 : ℝ)..(1 - x - y), x ^ a * y ^ b * z ^ c
      = (a.factorial * b.factorial * c.factorial : ℝ) / (a + b + c + 3).factorial := by
  have innerz : ∀ x y : ℝ, ∫ z in (0 : ℝ)..(1 - x - y), x ^ a * y ^ b * z ^ c = x ^ a * (y ^ b * (1 - x - y) ^ (c + 1)) / (c + 1) := by
    intro x y
    rw [integral_const_mul, integral_pow]
    simp only [zero_pow (Nat.succ_ne_zero c), sub_zero]
    ring
  have innery : ∀ x : ℝ, ∫ y in (0 : ℝ)..(1 - x), x ^ a * (y ^ b * (1 - x - y) ^ (c + 1)) / (c + 1)
      = x ^ a * (1 - x) ^ (b + (c + 1) + 1) * ((b.factorial * (c + 1).factorial : ℝ) / (b + (c + 1) + 1).factorial) / (c + 1) := by
    intro x
    rw [integral_div]
    rw [integral_const_mul, beta_scaled (1 - x) b (c + 1)]
    ring
  simp_rw [innerz, innery]
  have outer : (∫ x in (0 : ℝ)..1, x ^ a * (1 - x) ^ (b + (c + 1) + 1) * ((b.factorial * (c + 1).factorial : ℝ) / (b + (c + 1) + 1).factorial) / (c + 1))
      = ((b.factorial * (c + 1).factorial : ℝ) / (b + (c + 1) + 1).factorial) / (c + 1) * ∫ x in (0 : ℝ)..1, x ^ a * (1 - x) ^ (b + (c + 1) + 1) := by
    rw [← integral_const_mul]
    congr 1; funext x; ring
  rw [outer, beta_nat]
  rw [Nat.factorial_succ c]
  have e : a + (b + (c + 1) + 1) + 1 = a + b + c + 3 := by ring
  rw [e]
  push_cast
  have h1 : ((a + b + c + 3).factorial : ℝ) ≠ 0 := by positivity
  have h2 : ((b + (c + 1) + 1).factorial : ℝ) ≠ 0 := by positivity
  have h3 : ((c : ℝ) + 1) ≠ 0 := by positivity
  field_simp

/-- moments of the reference square and cube `[-1, 1]^d` -/
theorem quad_moment (a b : ℕ) :
    ∫ x in (-1 : ℝ)..1, ∫ y in (-1 : ℝ)..1, x ^ a * y ^ b = (∫ x in (-1 : ℝ)..1, x ^ a) * ∫ y in (-1 : ℝ)..1, y ^ b := by
  simp_rw [integral_const_mul]
  rw [integral_mul_const]

theorem hexa_moment (a b c : ℕ) :
    ∫ x in (-1 : ℝ)..1, ∫ y in (-1 : ℝ)..1, ∫ z in (-1 : ℝ)..1, x ^ a * y ^ b * z ^ c
      = (∫ x in (-1 : ℝ)..1, x ^ a) * (∫ y in (-1 : ℝ)..1, y ^ b) * ∫ z in (-1 : ℝ)..1, z ^ c := by
  simp_rw [integral_const_mul, integral_mul_const]
  rw [quad_moment]

/-- moments of the reference prism: unit triangle in `(x, y)` times `[-1, 1]` in `z` -/
theorem prism_moment (a b c : ℕ) :
    ∫ x in (0 : ℝ)..1, ∫ y in (0 : ℝ)..(1 - x), ∫ z in (-1 : ℝ)..1, x ^ a * y ^ b * z ^ c
      = (a.factorial * b.factorial : ℝ) / (a + b + 2).factorial * ∫ z in (-1 : ℝ)..1, z ^ c := by
  simp_rw [integral_const_mul, integral_mul_const]
  rw [triangle_moment]

/-! ### tie to `Shape.refMoment` -/

open EasyFEAVerif

theorem fact_eq_factorial (n : ℕ) : Shape.fact n = n.factorial := by
  induction n with
  | zero => rfl
  | succ n ih => simp [Shape.fact, Nat.factorial_succ, ih]

theorem segMoment_cast (k : ℕ) : ((Shape.segMoment k : ℚ) : ℝ) = ∫ x in (-1 : ℝ)..1, x ^ k := by
  rw [seg_moment]
  unfold Shape.segMoment
  split_ifs <;> push_cast <;> rfl

theorem refMoment_segment (a : ℕ) : ((Shape.refMoment .segment [a] : ℚ) : ℝ) = ∫ x in (-1 : ℝ)..1, x ^ a := by
  simp only [Shape.refMoment, List.getD_cons_zero]
  exact segMoment_cast a

theorem refMoment_quadrangle (a b : ℕ) :
    ((Shape.refMoment .quadrangle [a, b] : ℚ) : ℝ) = ∫ x in (-1 : ℝ)..1, ∫ y in (-1 : ℝ)..1, x ^ a * y ^ b := by
  rw [quad_moment, ← segMoment_cast, ← segMoment_cast]
  simp [Shape.refMoment]

theorem refMoment_hexahedron (a b c : ℕ) :
    ((Shape.refMoment .hexahedron [a, b, c] : ℚ) : ℝ) = ∫ x in (-1 : ℝ)..1, ∫ y in (-1 : ℝ)..1, ∫ z in (-1 : ℝ)..1, x ^ a * y ^ b * z ^ c := by
  rw [hexa_moment, ← segMoment_cast, ← segMoment_cast, ← segMoment_cast]
  simp [Shape.refMoment]

theorem refMoment_triangle (a b : ℕ) :
    ((Shape.refMoment .triangle [a, b] : ℚ) : ℝ) = ∫ x in (0 : ℝ)..1, ∫ y in (0 : ℝ)..(1 - x), x ^ a * y ^ b := by
  rw [triangle_moment]
  simp [Shape.refMoment, fact_eq_factorial]

theorem refMoment_tetrahedron (a b c : ℕ) :
    ((Shape.refMoment .tetrahedron [a, b, c] : ℚ) : ℝ)
      = ∫ x in (0 : ℝ)..1, ∫ y in (0 : ℝ)..(1 - x), ∫ z in (0 : ℝ)..(1 - x - y), x ^ a * y ^ b * z ^ c := by
  rw [tetra_moment]
  simp [Shape.refMoment, fact_eq_factorial]

theorem refMoment_prism (a b c : ℕ) :
    ((Shape.refMoment .prism [a, b, c] : ℚ) : ℝ)
      = ∫ x in (0 : ℝ)..1, ∫ y in (0 : ℝ)..(1 - x), ∫ z in (-1 : ℝ)..1, x ^ a * y ^ b * z ^ c := by
  rw [prism_moment, ← segMoment_cast]
  simp [Shape.refMoment, fact_eq_factorial]

/-- the integral of the monomial `ξ^α` over the reference element of the shape (exponents read as in `refMoment`) -/
noncomputable def refIntegral (s : Shape) (α : List Nat) : ℝ :=
  let e := fun i => α.getD i 0
  match s with
  | .segment => ∫ x in (-1 : ℝ)..1, x ^ e 0
  | .quadrangle => ∫ x in (-1 : ℝ)..1, ∫ y in (-1 : ℝ)..1, x ^ e 0 * y ^ e 1
  | .hexahedron => ∫ x in (-1 : ℝ)..1, ∫ y in (-1 : ℝ)..1, ∫ z in (-1 : ℝ)..1, x ^ e 0 * y ^ e 1 * z ^ e 2
  | .triangle => ∫ x in (0 : ℝ)..1, ∫ y in (0 : ℝ)..(1 - x), x ^ e 0 * y ^ e 1
  | .tetrahedron => ∫ x in (0 : ℝ)..1, ∫ y in (0 : ℝ)..(1 - x), ∫ z in (0 : ℝ)..(1 - x - y), x ^ e 0 * y ^ e 1 * z ^ e 2
  | .prism => ∫ x in (0 : ℝ)..1, ∫ y in (0 : ℝ)..(1 - x), ∫ z in (-1 : ℝ)..1, x ^ e 0 * y ^ e 1 * z ^ e 2

/-- **the closed-form moment used by the exactness theorems is the integral over the reference element**, for the six shapes -/
theorem refMoment_eq_integral (s : Shape) (α : List Nat) : ((Shape.refMoment s α : ℚ) : ℝ) = refIntegral s α := by
  cases s with
  | segment => simpa [refIntegral, Shape.refMoment] using refMoment_segment (α.getD 0 0)
  | quadrangle => simpa [refIntegral, Shape.refMoment] using refMoment_quadrangle (α.getD 0 0) (α.getD 1 0)
  | hexahedron => simpa [refIntegral, Shape.refMoment] using refMoment_hexahedron (α.getD 0 0) (α.getD 1 0) (α.getD 2 0)
  | triangle => simpa [refIntegral, Shape.refMoment] using refMoment_triangle (α.getD 0 0) (α.getD 1 0)
  | tetrahedron => simpa [refIntegral, Shape.refMoment] using refMoment_tetrahedron (α.getD 0 0) (α.getD 1 0) (α.getD 2 0)
  | prism => simpa [refIntegral, Shape.refMoment] using refMoment_prism (α.getD 0 0) (α.getD 1 0) (α.getD 2 0)

end EasyFEAVerif.RefIntegral
