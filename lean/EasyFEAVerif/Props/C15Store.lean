/-
Property C15 — "a save folder used again". `Props.C15.MeshStoreP.run_refines` starts from a simulation whose disk is empty.
Here the disk may already hold anything (an earlier study saved into the same folders): the refinement still holds, because
`Save` rewrites every mesh file of the history. A `Save` that keeps files already present (seed C15_L) is refuted.
Tie: Model/MeshStore.lean (hand model, statements of `Save` / `__Load_mesh` pinned by `meshForms_spec`); the C15 harness
saves two studies one after the other into the same folder and restores every iteration (block "a save folder used again").
-/
import EasyFEAVerif.Props.C15

namespace EasyFEAVerif.Props.C15.MeshStoreP
open EasyFEAVerif.MeshStore

/-- a new simulation on a machine whose folders already hold mesh files -/
def initOn {M : Type} (m0 : M) (disk : Nat → Nat → Option M) : St M := { init m0 with files := disk }

theorem initOn_refines {M : Type} (m0 : M) (disk : Nat → Nat → Option M) : Refines (initOn m0 disk) [m0] := by
  refine ⟨rfl, ?_⟩
  intro i hi
  have : i = 0 := by simpa using hi
  subst this
  rfl

/-- from any state that represents a history, any sequence of operations succeeds and keeps representing it -/
theorem run_refines_from {M : Type} (ops : List (Op M)) (s : St M) (h : List M) (hr : Refines s h) :
    ∃ s', runWith readMesh s ops = some s' ∧ Refines s' (ops.foldl specStep h) := by
  induction ops generalizing s h with
  | nil => exact ⟨s, rfl, hr⟩
  | cons op ops ih =>
    obtain ⟨s1, h1, hr1⟩ := step_refines s h hr op
    obtain ⟨s2, h2, hr2⟩ := ih s1 _ hr1
    refine ⟨s2, ?_, hr2⟩
    show (stepWith readMesh s op).bind _ = _
    have : stepWith readMesh s op = some s1 := h1
    rw [this]; exact h2

/-- **whatever the folders held before, every mesh of the history reads back as the mesh the simulation held** -/
theorem run_refines_on_used_folders {M : Type} (m0 : M) (disk : Nat → Nat → Option M) (ops : List (Op M)) :
    ∃ s, runWith readMesh (initOn m0 disk) ops = some s ∧ Refines s (ops.foldl specStep [m0]) :=
  run_refines_from ops _ _ (initOn_refines m0 disk)

/-- `Save` that does not rewrite a mesh file already present in the folder (seed C15_L) -/
def savedStateKeeping {M : Type} (s : St M) (f : Nat) : St M :=
  let new := savedState readMesh s f
  { new with files := fun g i => if g = f then (match s.files f i with | some old => some old | none => new.files g i) else new.files g i }

/-- … serves the mesh of the earlier study: folder 1 holds mesh 3 under index 0, the new simulation holds mesh 7 -/
theorem keeping_existing_files_serves_a_stale_mesh :
    readMesh (savedStateKeeping (initOn (7 : Nat) (fun g i => if g = 1 ∧ i = 0 then some 3 else none)) 1) 0 = some 3 ∧
    readMesh (savedState readMesh (initOn (7 : Nat) (fun g i => if g = 1 ∧ i = 0 then some 3 else none)) 1) 0 = some 7 := by
  decide

end EasyFEAVerif.Props.C15.MeshStoreP
