/-
Property C15 — saved iterations restore exactly what was saved.  Refinement of the store
(`Model/IterStore.lean`: in-memory entries, pickles named by the strictly increasing iteration
counter, folder changes in between) to an append-only log, for any interleaving of solve /
save / change-folder / restore / query operations.
-/
import EasyFEAVerif.Model.MeshStore
import EasyFEAVerif.Gen.C15.MeshHistory
import Mathlib.Tactic.Common
import Mathlib.Data.List.Basic
import EasyFEAVerif.Model.IterStore
import Mathlib.Tactic.Linarith
import Mathlib.Data.List.Basic

namespace EasyFEAVerif.Props.C15
open EasyFEAVerif.IterStore

variable {S : Type}

/-- refinement invariant: the concrete store represents the log `log` with live state `lv` -/
structure Refines (st : Store S) (log : List S) (lv : S) : Prop where
  live : st.live = lv
  len : st.entries.length = log.length
  count : st.niter = log.length
  /-- every file was written at an earlier iteration number -/
  fresh : ∀ p s, (p, s) ∈ st.fs → p.2 < st.niter
  reads : ∀ i, getIter st i = log[i]?

theorem lookup_cons_ne {fs : List (Path × S)} {p q : Path} {s : S} (h : q ≠ p) :
    lookup ((q, s) :: fs) p = lookup fs p := by
  simp [lookup, h]

theorem lookup_mem {fs : List (Path × S)} {p : Path} {s : S} (h : lookup fs p = some s) : (p, s) ∈ fs := by
  induction fs with
  | nil => simp [lookup] at h
  | cons x xs ih =>
    obtain ⟨q, t⟩ := x
    by_cases hq : q = p
    · simp [lookup, hq] at h; subst hq; subst h; simp
    · rw [lookup_cons_ne hq] at h; exact List.mem_cons_of_mem _ (ih h)

/-- one operation preserves the refinement -/
theorem step_refines (st : Store S) (log : List S) (lv : S) (h : Refines st log lv) (op : Op S) :
    Refines (step st op) (specStep (log, lv) op).1 (specStep (log, lv) op).2 := by
  cases op with
  | solve s => exact ⟨rfl, h.len, h.count, h.fresh, h.reads⟩
  | setFolder f => exact ⟨h.live, h.len, h.count, h.fresh, h.reads⟩
  | query i => exact ⟨h.live, h.len, h.count, h.fresh, h.reads⟩
  | setIter i =>
    have hr := h.reads i
    simp only [step, specStep]
    cases hg : getIter st i with
    | none =>
      rw [hg] at hr
      rw [← hr]
      exact ⟨h.live, h.len, h.count, h.fresh, h.reads⟩
    | some s =>
      rw [hg] at hr
      rw [← hr]
      exact ⟨rfl, h.len, h.count, h.fresh, h.reads⟩
  | save =>
    simp only [step, specStep]
    by_cases hf : st.folder = ""
    · simp only [hf, if_true]
      refine ⟨h.live, by simp [h.len], by simp [h.count], ?_, ?_⟩
      · intro p s hp; have := h.fresh p s hp; simp only; omega
      · intro i
        by_cases hi : i < st.entries.length
        · have hr := h.reads i
          simp only [getIter, List.getElem?_append_left hi] at hr ⊢
          rw [hr, List.getElem?_append_left (by rw [← h.len]; exact hi)]
        · have hi' : st.entries.length ≤ i := Nat.le_of_not_lt hi
          simp only [getIter, List.getElem?_append_right hi']
          rw [List.getElem?_append_right (by rw [← h.len]; exact hi')]
          rw [h.len]
          by_cases h0 : i - log.length = 0
          · simp [h0, h.live]
          · have : ∃ k, i - log.length = k + 1 := ⟨i - log.length - 1, by omega⟩
            obtain ⟨k, hk⟩ := this
            simp [hk]
    · simp only [hf, if_false]
      refine ⟨h.live, by simp [h.len], by simp [h.count], ?_, ?_⟩
      · intro p s hp
        simp only [List.mem_cons, Prod.mk.injEq] at hp
        rcases hp with ⟨rfl, _⟩ | hp
        · simp
        · have := h.fresh p s hp; simp only; omega
      · intro i
        by_cases hi : i < st.entries.length
        · have hr := h.reads i
          simp only [getIter, List.getElem?_append_left hi] at hr ⊢
          rw [List.getElem?_append_left (by rw [← h.len]; exact hi), ← hr]
          -- an older entry on disk is not overwritten: its iteration number is smaller
          cases he : st.entries[i]? with
          | none => rfl
          | some e =>
            cases e with
            | mem s => rfl
            | disk p =>
              simp only
              by_cases hl : lookup st.fs p = none
              · rw [hl]
                have hne : (st.folder, st.niter) ≠ p := by
                  intro hp
                  -- p would have to be in fs for the read to succeed; if not, both sides must agree:
                  -- the log entry exists (i < length), so the read is `some`, contradiction
                  have hlog : log[i]? ≠ none := by
                    simp; rw [← h.len]; exact hi
                  rw [he] at hr; simp only at hr; rw [hl] at hr; exact hlog hr.symm
                rw [lookup_cons_ne hne, hl]
              · obtain ⟨s, hs⟩ := Option.ne_none_iff_exists'.mp hl
                have hmem := lookup_mem hs
                have hlt := h.fresh p s hmem
                have hne : (st.folder, st.niter) ≠ p := by
                  intro hp; rw [← hp] at hlt; simp at hlt
                rw [lookup_cons_ne hne]
        · have hi' : st.entries.length ≤ i := Nat.le_of_not_lt hi
          simp only [getIter, List.getElem?_append_right hi']
          rw [List.getElem?_append_right (by rw [← h.len]; exact hi')]
          rw [h.len]
          by_cases h0 : i - log.length = 0
          · simp [h0, lookup, h.live]
          · have : ∃ k, i - log.length = k + 1 := ⟨i - log.length - 1, by omega⟩
            obtain ⟨k, hk⟩ := this
            simp [hk]

def run (st : Store S) (ops : List (Op S)) : Store S := ops.foldl step st
def runSpec (sp : List S × S) (ops : List (Op S)) : List S × S := ops.foldl specStep sp

/-- **Any history.** After any interleaving of solve / save / change-folder / restore / query,
iteration `i` read from the store (memory or disk, whatever the folder was changed to in between)
is the snapshot that was current when iteration `i` was saved; the live state after a restore is
that snapshot; later solves and saves never alter earlier iterations. -/
theorem history_refines (s0 : S) (folder : String) (ops : List (Op S)) :
    Refines (run (init s0 folder) ops) (runSpec ([], s0) ops).1 (runSpec ([], s0) ops).2 := by
  have h0 : Refines (init s0 folder) ([] : List S) s0 :=
    ⟨rfl, rfl, rfl, by intro p s hp; simp [init] at hp, by intro i; simp [getIter, init]⟩
  have : ∀ (st : Store S) (sp : List S × S), Refines st sp.1 sp.2 →
      Refines (run st ops) (runSpec sp ops).1 (runSpec sp ops).2 := by
    induction ops with
    | nil => intro st sp h; exact h
    | cons op ops ih =>
      intro st sp h
      exact ih (step st op) (specStep sp op) (step_refines st sp.1 sp.2 h op)
  exact this _ _ h0

/-- the log only grows: an operation never changes an iteration already saved -/
theorem log_append_only (sp : List S × S) (op : Op S) (i : Nat) (hi : i < sp.1.length) :
    (specStep sp op).1[i]? = sp.1[i]? := by
  cases op with
  | solve s => rfl
  | setFolder f => rfl
  | query j => rfl
  | save => simp [specStep, List.getElem?_append_left hi]
  | setIter j =>
    simp only [specStep]
    split <;> rfl

/-- non-vacuity: in memory, then on disk in folder "a", then in folder "b", restore, save again -/
example :
    let ops : List (Op Nat) := [.solve 1, .save, .setFolder "a", .solve 2, .save, .setFolder "b", .solve 3, .save,
                                .setIter 1, .save, .setFolder "", .solve 9]
    let st := run (init 0 "") ops
    (getIter st 0, getIter st 1, getIter st 2, getIter st 3, st.live) = (some 1, some 2, some 3, some 2, 9) := by
  decide

/-! ### several meshes in one history: which mesh a restored iteration comes back with

Model of the bookkeeping of `_Simu` (`__listMesh`, `__indexMesh`, `__NindexMesh`, the `indexMesh` entry of each saved
iteration), written from the statements pinned in `Gen/C15/MeshHistory.lean` (generator: statement-level match, anything
else is refused): the mesh setter appends and moves to the END of the list, `Save_Iter` records the CURRENT index,
`Set_Iter` moves to the recorded index. -/

namespace MeshHist

structure St (M : Type) where
  list : List M
  idx : Nat
  nidx : Nat
  iters : List Nat

inductive Op (M : Type) where
  | assign (m : M)
  | save
  | restore (i : Nat)

def init {M : Type} (m0 : M) : St M := { list := [m0], idx := 0, nidx := 0, iters := [] }

def step {M : Type} (s : St M) : Op M → St M
  | .assign m => { list := s.list ++ [m], idx := s.nidx + 1, nidx := s.nidx + 1, iters := s.iters }
  | .save => { s with iters := s.iters ++ [s.idx] }
  | .restore i => match s.iters[i]? with
    | some k => { s with idx := k }
    | none => s

structure Spec (M : Type) where
  cur : M
  log : List M

def specStep {M : Type} (s : Spec M) : Op M → Spec M
  | .assign m => { s with cur := m }
  | .save => { s with log := s.log ++ [s.cur] }
  | .restore i => match s.log[i]? with
    | some c => { s with cur := c }
    | none => s

def Refines {M : Type} (s : St M) (sp : Spec M) : Prop :=
  s.nidx + 1 = s.list.length ∧ s.list[s.idx]? = some sp.cur ∧ s.iters.length = sp.log.length ∧
  ∀ (i k : Nat), s.iters[i]? = some k → ∃ m, s.list[k]? = some m ∧ sp.log[i]? = some m

theorem init_refines {M : Type} (m0 : M) : Refines (init m0) ⟨m0, []⟩ := by
  refine ⟨rfl, rfl, rfl, ?_⟩
  intro i k h; simp [init] at h

theorem step_refines {M : Type} (s : St M) (sp : Spec M) (h : Refines s sp) (op : Op M) :
    Refines (step s op) (specStep sp op) := by
  obtain ⟨hn, hc, hl, hi⟩ := h
  cases op with
  | assign m =>
    refine ⟨?_, ?_, hl, ?_⟩
    · simp [step]; omega
    · have : s.nidx + 1 = s.list.length := hn
      simp [step, specStep, this]
    · intro i k hk
      obtain ⟨m', h1, h2⟩ := hi i k hk
      refine ⟨m', ?_, h2⟩
      have hlt : k < s.list.length := by
        by_contra hcon
        have : s.list[k]? = none := by simp [List.getElem?_eq_none_iff]; omega
        rw [this] at h1; cases h1
      simp only [step]
      rw [List.getElem?_append_left hlt]; exact h1
  | save =>
    refine ⟨hn, hc, ?_, ?_⟩
    · simp [step, specStep, hl]
    · intro i k hk
      simp only [step] at hk
      by_cases hlt : i < s.iters.length
      · rw [List.getElem?_append_left hlt] at hk
        obtain ⟨m', h1, h2⟩ := hi i k hk
        refine ⟨m', h1, ?_⟩
        simp only [specStep]
        rw [List.getElem?_append_left (by omega)]; exact h2
      · have hge : s.iters.length ≤ i := by omega
        rw [List.getElem?_append_right hge] at hk
        have hi0 : i - s.iters.length = 0 := by
          by_contra hne
          have : ([s.idx] : List Nat)[i - s.iters.length]? = none := by
            simp [List.getElem?_eq_none_iff]; omega
          rw [this] at hk; cases hk
        rw [hi0] at hk
        simp at hk
        subst hk
        refine ⟨sp.cur, hc, ?_⟩
        simp only [specStep]
        have : i = sp.log.length := by omega
        subst this
        simp
  | restore i =>
    simp only [step, specStep]
    cases hk : s.iters[i]? with
    | none =>
      have : sp.log[i]? = none := by
        have : s.iters.length ≤ i := by
          by_contra hcon
          have hlt : i < s.iters.length := by omega
          rw [List.getElem?_eq_getElem hlt] at hk; cases hk
        simp [List.getElem?_eq_none_iff]; omega
      simp only [this]
      exact ⟨hn, hc, hl, hi⟩
    | some k =>
      obtain ⟨m', h1, h2⟩ := hi i k hk
      simp only [h2]
      exact ⟨hn, h1, hl, hi⟩

/-- any sequence of mesh assignments, saved iterations and restores: the simulation is on the mesh the specification says,
and every saved iteration is tied to the mesh it was saved on -/
theorem run_refines {M : Type} (m0 : M) (ops : List (Op M)) :
    Refines (ops.foldl step (init m0)) (ops.foldl specStep ⟨m0, []⟩) := by
  have : ∀ (s : St M) (sp : Spec M), Refines s sp → Refines (ops.foldl step s) (ops.foldl specStep sp) := by
    induction ops with
    | nil => intro s sp h; exact h
    | cons op rest ih => intro s sp h; exact ih _ _ (step_refines s sp h op)
  exact this _ _ (init_refines m0)

/-- non-vacuity: meshes A, B; save on A, assign B, save, go back to A, assign C, save, restore 0 then 2: on C -/
example : (([.save, .assign "B", .save, .restore 0, .assign "C", .save, .restore 0, .restore 2] : List (Op String)).foldl step (init "A")).idx = 2 := by
  decide

end MeshHist

/-- the statements the model was written from (regenerated on every run; a rewrite of any of them breaks this obligation) -/
theorem meshForms_spec : EasyFEAVerif.Gen.C15.meshForms =
    [
     ("mesh.setter", ["self.__NindexMesh += 1", "self.__indexMesh = self.__NindexMesh", "self.__listMesh.append(mesh)", "self.__mesh = mesh", "mesh._Add_observer(self)"]),
     ("Save_Iter", ["iter['indexMesh'] = self.__indexMesh"]),
     ("Set_Iter", ["results = self.Get_results(iter)", "indexMesh = results['indexMesh']", "self.__indexMesh = indexMesh", "self.__Update_mesh(indexMesh)"]),
     ("__Update_mesh", ["mesh = self.__listMesh[index]", "mesh = self.__Load_mesh(mesh)", "self.__mesh = mesh", "clear_cached_computed_values(self)", "self.Need_Update()"]),
     ("Save", ["self.folder = folder", "folder_meshes = Folder.Join(folder, 'Meshes')", "mesh = self.__Load_mesh(mesh)", "path = mesh.Save(folder_meshes, f'mesh{i}')", "list_mesh.append(Folder.os.path.relpath(path, folder))", "self.__listMesh = list_mesh", "self.__folderMeshes = folder", "pickle.dump(self, file)"]),
     ("__Load_mesh", ["folder = self.__folderMeshes", "return Load_Mesh(Folder.Join(folder, mesh))"]),
     ("folder.setter", ["self.__folder = value"]),
     ("Mesh.Save", ["for elemType, groupElem in self.dict_groupElem.items()", "createData = (groupElem.connect, coordinates)", "dict_groupElem_data[elemType] = (createData, partitionedData, dict_nodes_tags)", "pickle.dump(dict_groupElem_data, file)"]),
     ("Load_Mesh", ["for elemType, data in dict_groupElem_data.items()", "groupElem = GroupElemFactory.Create(elemType=elemType, connect=connect, coordinates=coordinates)", "dict_groupElem[elemType] = groupElem", "mesh = Mesh(dict_groupElem=dict_groupElem)"]),
     ("__init__", ["self.__NindexMesh: int = -1", "self.__listMesh: list[Union[str, Mesh]] = []"])] := by
  decide

end EasyFEAVerif.Props.C15

/-! ### Where the meshes of the history live after `Save` (Model/MeshStore.lean) -/

namespace EasyFEAVerif.Props.C15.MeshStoreP
open EasyFEAVerif.MeshStore

/-- the stored history represents `h`: same length, and every entry reads back as the mesh of `h` -/
def Refines {M : Type} (s : St M) (h : List M) : Prop :=
  s.list.length = h.length ∧ ∀ i (hi : i < h.length), readMesh s i = some h[i]

theorem init_refines {M : Type} (m0 : M) : Refines (init m0) [m0] := by
  refine ⟨rfl, ?_⟩
  intro i hi
  have : i = 0 := by simpa using hi
  subst this
  rfl

theorem get_isSome {M : Type} (s : St M) (h : List M) (hr : Refines s h) (i : Nat) (hi : i < s.list.length) : (readMesh s i).isSome = true := by
  have hi' : i < h.length := hr.1 ▸ hi
  rw [hr.2 i hi']; rfl

/-- the fixed code never fails, and every operation keeps the refinement -/
theorem step_refines {M : Type} (s : St M) (h : List M) (hr : Refines s h) (op : Op M) :
    ∃ s', step s op = some s' ∧ Refines s' (specStep h op) := by
  cases op with
  | setMesh m =>
    refine ⟨_, rfl, ?_, ?_⟩
    · simp [specStep, hr.1]
    · intro i hi
      simp only [specStep, List.length_append, List.length_singleton] at hi
      by_cases hlt : i < h.length
      · have := hr.2 i hlt
        simp only [readMesh, load] at this ⊢
        have hl : i < s.list.length := hr.1 ▸ hlt
        simp only [specStep, List.getElem?_append_left hl, List.getElem_append_left hlt]
        exact this
      · have he : i = h.length := by omega
        subst he
        simp [readMesh, load, specStep, ← hr.1]
  | setFolder f =>
    refine ⟨_, rfl, hr.1, ?_⟩
    intro i hi
    exact hr.2 i hi
  | save f =>
    have hall : ((List.range s.list.length).map (readMesh { s with folder := f })).all Option.isSome = true := by
      rw [List.all_eq_true]
      intro x hx
      rw [List.mem_map] at hx
      obtain ⟨i, hi, rfl⟩ := hx
      have hi' : i < s.list.length := by simpa using hi
      exact get_isSome s h hr i hi'
    refine ⟨savedState readMesh s f, by simp only [step, stepWith, saveWith, hall, if_true], ?_, ?_⟩
    · simpa [specStep, savedState] using hr.1
    · intro i hi
      have hi' : i < s.list.length := by simpa [specStep, hr.1] using hi
      have hg := hr.2 i (by simpa [specStep] using hi)
      simp only [readMesh, load, savedState, List.getElem?_map, List.getElem?_eq_getElem hi', Option.map_some, if_true, hi', specStep]
      simp only [List.getElem?_range hi', Option.map_some, Option.join_some]
      exact hg

/-- **after any sequence of mesh replacements, folder changes and saves (in any folders, the same one twice included),
every mesh of the history reads back as the mesh the simulation held** -/
theorem run_refines {M : Type} (m0 : M) (ops : List (Op M)) :
    ∃ s, runWith readMesh (init m0) ops = some s ∧ Refines s (ops.foldl specStep [m0]) := by
  suffices H : ∀ (ops : List (Op M)) (s : St M) (h : List M), Refines s h →
      ∃ s', runWith readMesh s ops = some s' ∧ Refines s' (ops.foldl specStep h) from H ops _ _ (init_refines m0)
  intro ops
  induction ops with
  | nil => intro s h hr; exact ⟨s, rfl, hr⟩
  | cons op ops ih =>
    intro s h hr
    obtain ⟨s1, h1, hr1⟩ := step_refines s h hr op
    obtain ⟨s2, h2, hr2⟩ := ih s1 _ hr1
    refine ⟨s2, ?_, hr2⟩
    show (stepWith readMesh s op).bind _ = _
    have : stepWith readMesh s op = some s1 := h1
    rw [this]; exact h2

/-- before the repair: saving a second time in another folder fails (the meshes are looked for in the new folder) -/
theorem unfixed_second_save_fails : runWith readMeshUnfixed (init (7 : Nat)) [.save 1, .save 2] = none := by
  decide

/-- before the repair: after a save, a change of folder loses the meshes of the history -/
theorem unfixed_folder_change_loses_meshes :
    ((runWith readMeshUnfixed (init (7 : Nat)) [.save 1, .setFolder 2]).bind fun s => readMeshUnfixed s 0) = none ∧
    ((runWith readMesh (init (7 : Nat)) [.save 1, .setFolder 2]).bind fun s => readMesh s 0) = some 7 := by
  decide

end EasyFEAVerif.Props.C15.MeshStoreP

/-! ### the mesh file keeps the element groups and their order (`Mesh.Save`, `Load_Mesh`) -/

namespace EasyFEAVerif.Props.C15.MeshFile

/-- `Mesh.Save` writes one record per element group in the order of `dict_groupElem`; `Load_Mesh` rebuilds the groups in file
order. With `dec (enc g) = g` for every group (pickle's round trip on the connectivity, the coordinates, the partition data and
the tags), the loaded mesh has the same groups IN THE SAME ORDER - the element numbering of results (`mesh.Ne`, per-element
arrays) follows that order. -/
theorem save_load_keeps_groups_and_order {G D : Type} (enc : G → D) (dec : D → G) (h : ∀ g, dec (enc g) = g) (l : List (String × G)) :
    (l.map fun p => (p.1, enc p.2)).map (fun p => (p.1, dec p.2)) = l := by
  induction l with
  | nil => rfl
  | cons a t ih =>
    simp only [List.map_cons, h]
    exact congrArg (a :: ·) (by simpa using ih)

/-- writing the groups dimension by dimension through a getter that lists the groups of one dimension in reverse order
(seed C15_J) permutes two groups of the same dimension -/
example : ([("QUAD4", 2), ("TRI3", 2), ("SEG2", 1)].filter (·.2 == 2)).reverse ++ ([("QUAD4", 2), ("TRI3", 2), ("SEG2", 1)].filter (·.2 == 1)).reverse
    ≠ [("QUAD4", 2), ("TRI3", 2), ("SEG2", 1)] := by decide

end EasyFEAVerif.Props.C15.MeshFile
