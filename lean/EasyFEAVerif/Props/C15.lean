/-
Property C15 — saved iterations restore exactly what was saved.  Refinement of the store
(`Model/IterStore.lean`: in-memory entries, pickles named by the strictly increasing iteration
counter, folder changes in between) to an append-only log, for any interleaving of solve /
save / change-folder / restore / query operations.
-/
import EasyFEAVerif.Model.IterStore
import Mathlib.Tactic.Linarith
import Mathlib.Data.List.Basic

namespace EasyFEAVerif.Props.C15
open EasyFEAVerif.IterStore

variable {S : Type}

/-- refinement invariant: the concrete store represents the log `log` with live state `lv` -/
structure Refines (st : Store S) (log : List S) (lv : S) : Prop where
  live : st.live = lv
  len : st.entries.length = log.length
  count : st.niter = log.length
  /-- every file was written at an earlier iteration number -/
  fresh : ∀ p s, (p, s) ∈ st.fs → p.2 < st.niter
  reads : ∀ i, getIter st i = log[i]?

theorem lookup_cons_ne {fs : List (Path × S)} {p q : Path} {s : S} (h : q ≠ p) :
    lookup ((q, s) :: fs) p = lookup fs p := by
  simp [lookup, h]

theorem lookup_mem {fs : List (Path × S)} {p : Path} {s : S} (h : lookup fs p = some s) : (p, s) ∈ fs := by
  induction fs with
  | nil => simp [lookup] at h
  | cons x xs ih =>
    obtain ⟨q, t⟩ := x
    by_cases hq : q = p
    · simp [lookup, hq] at h; subst hq; subst h; simp
    · rw [lookup_cons_ne hq] at h; exact List.mem_cons_of_mem _ (ih h)

/-- one operation preserves the refinement -/
theorem step_refines (st : Store S) (log : List S) (lv : S) (h : Refines st log lv) (op : Op S) :
    Refines (step st op) (specStep (log, lv) op).1 (specStep (log, lv) op).2 := by
  cases op with
  | solve s => exact ⟨rfl, h.len, h.count, h.fresh, h.reads⟩
  | setFolder f => exact ⟨h.live, h.len, h.count, h.fresh, h.reads⟩
  | query i => exact ⟨h.live, h.len, h.count, h.fresh, h.reads⟩
  | setIter i =>
    have hr := h.reads i
    simp only [step, specStep]
    cases hg : getIter st i with
    | none =>
      rw [hg] at hr
      rw [← hr]
      exact ⟨h.live, h.len, h.count, h.fresh, h.reads⟩
    | some s =>
      rw [hg] at hr
      rw [← hr]
      exact ⟨rfl, h.len, h.count, h.fresh, h.reads⟩
  | save =>
    simp only [step, specStep]
    by_cases hf : st.folder = ""
    · simp only [hf, if_true]
      refine ⟨h.live, by simp [h.len], by simp [h.count], ?_, ?_⟩
      · intro p s hp; have := h.fresh p s hp; simp only; omega
      · intro i
        by_cases hi : i < st.entries.length
        · have hr := h.reads i
          simp only [getIter, List.getElem?_append_left hi] at hr ⊢
          rw [hr, List.getElem?_append_left (by rw [← h.len]; exact hi)]
        · have hi' : st.entries.length ≤ i := Nat.le_of_not_lt hi
          simp only [getIter, List.getElem?_append_right hi']
          rw [List.getElem?_append_right (by rw [← h.len]; exact hi')]
          rw [h.len]
          by_cases h0 : i - log.length = 0
          · simp [h0, h.live]
          · have : ∃ k, i - log.length = k + 1 := ⟨i - log.length - 1, by omega⟩
            obtain ⟨k, hk⟩ := this
            simp [hk]
    · simp only [hf, if_false]
      refine ⟨h.live, by simp [h.len], by simp [h.count], ?_, ?_⟩
      · intro p s hp
        simp only [List.mem_cons, Prod.mk.injEq] at hp
        rcases hp with ⟨rfl, _⟩ | hp
        · simp
        · have := h.fresh p s hp; simp only; omega
      · intro i
        by_cases hi : i < st.entries.length
        · have hr := h.reads i
          simp only [getIter, List.getElem?_append_left hi] at hr ⊢
          rw [List.getElem?_append_left (by rw [← h.len]; exact hi), ← hr]
          -- an older entry on disk is not overwritten: its iteration number is smaller
          cases he : st.entries[i]? with
          | none => rfl
          | some e =>
            cases e with
            | mem s => rfl
            | disk p =>
              simp only
              by_cases hl : lookup st.fs p = none
              · rw [hl]
                have hne : (st.folder, st.niter) ≠ p := by
                  intro hp
                  -- p would have to be in fs for the read to succeed; if not, both sides must agree:
                  -- the log entry exists (i < length), so the read is `some`, contradiction
                  have hlog : log[i]? ≠ none := by
                    simp; rw [← h.len]; exact hi
                  rw [he] at hr; simp only at hr; rw [hl] at hr; exact hlog hr.symm
                rw [lookup_cons_ne hne, hl]
              · obtain ⟨s, hs⟩ := Option.ne_none_iff_exists'.mp hl
                have hmem := lookup_mem hs
                have hlt := h.fresh p s hmem
                have hne : (st.folder, st.niter) ≠ p := by
                  intro hp; rw [← hp] at hlt; simp at hlt
                rw [lookup_cons_ne hne]
        · have hi' : st.entries.length ≤ i := Nat.le_of_not_lt hi
          simp only [getIter, List.getElem?_append_right hi']
          rw [List.getElem?_append_right (by rw [← h.len]; exact hi')]
          rw [h.len]
          by_cases h0 : i - log.length = 0
          · simp [h0, lookup, h.live]
          · have : ∃ k, i - log.length = k + 1 := ⟨i - log.length - 1, by omega⟩
            obtain ⟨k, hk⟩ := this
            simp [hk]

def run (st : Store S) (ops : List (Op S)) : Store S := ops.foldl step st
def runSpec (sp : List S × S) (ops : List (Op S)) : List S × S := ops.foldl specStep sp

/-- **Any history.** After any interleaving of solve / save / change-folder / restore / query,
iteration `i` read from the store (memory or disk, whatever the folder was changed to in between)
is the snapshot that was current when iteration `i` was saved; the live state after a restore is
that snapshot; later solves and saves never alter earlier iterations. -/
theorem history_refines (s0 : S) (folder : String) (ops : List (Op S)) :
    Refines (run (init s0 folder) ops) (runSpec ([], s0) ops).1 (runSpec ([], s0) ops).2 := by
  have h0 : Refines (init s0 folder) ([] : List S) s0 :=
    ⟨rfl, rfl, rfl, by intro p s hp; simp [init] at hp, by intro i; simp [getIter, init]⟩
  have : ∀ (st : Store S) (sp : List S × S), Refines st sp.1 sp.2 →
      Refines (run st ops) (runSpec sp ops).1 (runSpec sp ops).2 := by
    induction ops with
    | nil => intro st sp h; exact h
    | cons op ops ih =>
      intro st sp h
      exact ih (step st op) (specStep sp op) (step_refines st sp.1 sp.2 h op)
  exact this _ _ h0

/-- the log only grows: an operation never changes an iteration already saved -/
theorem log_append_only (sp : List S × S) (op : Op S) (i : Nat) (hi : i < sp.1.length) :
    (specStep sp op).1[i]? = sp.1[i]? := by
  cases op with
  | solve s => rfl
  | setFolder f => rfl
  | query j => rfl
  | save => simp [specStep, List.getElem?_append_left hi]
  | setIter j =>
    simp only [specStep]
    split <;> rfl

/-- non-vacuity: in memory, then on disk in folder "a", then in folder "b", restore, save again -/
example :
    let ops : List (Op Nat) := [.solve 1, .save, .setFolder "a", .solve 2, .save, .setFolder "b", .solve 3, .save,
                                .setIter 1, .save, .setFolder "", .solve 9]
    let st := run (init 0 "") ops
    (getIter st 0, getIter st 1, getIter st 2, getIter st 3, st.live) = (some 1, some 2, some 3, some 2, 9) := by
  decide

end EasyFEAVerif.Props.C15
