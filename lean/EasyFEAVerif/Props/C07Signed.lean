/-
Property C07, the rules with a negative weight (tetrahedron, 5 points: −2/15; prism, 8 points: −27/96), reachable through an integer
point count only. An element group integrates with `weight × jacobian`; the weights must keep their SIGN: with `|weight × jacobian|`
(seed C07_Q) the rule no longer integrates constants. Proved on the tables translated from `_gauss.py` on every run:
  * `signed_weights_sum`: the weights of the two rules sum to the measure of the reference element (1/6; 1 for the prism [-1, 1] x triangle);
  * `abs_weights_do_not`: their absolute values sum to 13/30 and 17/8 — a rule used with `|w|` over-measures every element by the
    factor 2.6 (tetrahedron) resp. 2.125 (prism);
  * the factory never selects them (`Props/C07.factory_weights_positive`).
-/
import EasyFEAVerif.Props.C07

namespace EasyFEAVerif.Props.C07Signed

open EasyFEAVerif EasyFEAVerif.Gen.C07

/-- the rational part of a weight (both rules have rational weights: no surd) -/
def ratW (r : Rule) : List Rat := r.w.map fun q => q.a

def sumIs (l : List Rat) (v : Rat) : Bool := decide (l.foldr (· + ·) 0 = v)

def absR (q : Rat) : Rat := if q < 0 then -q else q

theorem weights_are_rational : (tetrahedron_5.w.all fun q => q.b == 0) = true ∧ (prism_8.w.all fun q => q.b == 0) = true := by decide +kernel

/-- the signed weights sum to the measure of the reference element (tetrahedron 1/6; prism `[-1, 1] ×` triangle: 1) -/
theorem signed_weights_sum : sumIs (ratW tetrahedron_5) (1 / 6) = true ∧ sumIs (ratW prism_8) 1 = true := by decide +kernel

/-- their absolute values do not: 13/30 = 2.6 × 1/6 and 17/8 = 2.125 × 1 -/
theorem abs_weights_do_not :
    sumIs ((ratW tetrahedron_5).map absR) (13 / 30) = true ∧ sumIs ((ratW prism_8).map absR) (17 / 8) = true := by decide +kernel

/-- a negative weight is present in each of the two rules … -/
theorem have_a_negative_weight : ((ratW tetrahedron_5).any fun w => decide (w < 0)) = true ∧ ((ratW prism_8).any fun w => decide (w < 0)) = true := by
  decide +kernel

end EasyFEAVerif.Props.C07Signed
