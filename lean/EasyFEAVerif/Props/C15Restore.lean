/-
Property C15: "restoring iteration i brings back exactly the fields that were current when iteration i was saved" — whatever the
time scheme has become since. Model of `Save_Iter` / `Set_Iter` of the simulations that store their rates with the iteration
(Elastic, HyperElastic: displacement / speed / accel; Thermal: thermal / thermalDot; WeakForms: u / v / a); the branch tests of the four
`Set_Iter` are pinned against the source (`Gen/C15/Restore.lean`, `restoreForms_spec`: they read the keys of the ITERATION, none of
them reads the current scheme — the generator refuses a test that mentions `algo`).

  * an iteration holds `u` and, depending on the scheme it was saved under, the rate `v` and the acceleration `a`;
  * `restoreStored` (the code since fixes 66f3604, 44d8e78, 7cdc83a): every stored field is written back (a field the iteration does
    not hold keeps its value in WeakForms and is zeroed in Elastic / HyperElastic / Thermal: the theorems speak of the stored fields only);
  * `restoreByScheme` (the code before): what is written back is chosen by the scheme selected NOW.
Proved: `restoreStored_returns_saved` — for every scheme at save time, every scheme now and every current state, each field the
iteration holds comes back as saved; `restoreByScheme_drops_the_rate` and `restoreByScheme_fails` — the two failures of the old
rule (a transient iteration restored under the static scheme loses its rate; a static iteration cannot be restored under a
transient scheme), and `restoreByScheme_ok_same_scheme` — why ordinary use never saw it.
-/
import Mathlib.Tactic.NormNum
import Mathlib.Tactic.FinCases
import EasyFEAVerif.Gen.C15.Restore

namespace EasyFEAVerif.Props.C15Restore

theorem restoreForms_spec : (EasyFEAVerif.Gen.C15.restoreForms.map Prod.fst) =
    ["Elastic.Set_Iter", "HyperElastic.Set_Iter", "Thermal.Set_Iter", "WeakForms.Set_Iter"] := rfl

/-- the branch tests of the four `Set_Iter`: each reads the keys of the iteration, none reads the scheme selected now -/
theorem restore_tests_read_the_iteration : EasyFEAVerif.Gen.C15.restoreTests =
    [("Elastic.Set_Iter", ["if results is None", "if 'speed' in results and 'accel' in results"]),
     ("HyperElastic.Set_Iter", ["if results is None", "if 'speed' in results and 'accel' in results"]),
     ("Thermal.Set_Iter", ["if results is None", "if 'thermalDot' in results"]),
     ("WeakForms.Set_Iter", ["if results is None", "if 'v' in results and 'a' in results", "if 'v' in results"])] := rfl

inductive Scheme | elliptic | parabolic | hyperbolic
  deriving DecidableEq, Repr

variable {α : Type}

/-- the fields of a simulation -/
structure State (α : Type) where
  u : α
  v : α
  a : α

/-- what `Save_Iter` stores: the rate with a first- or second-order scheme, the acceleration with a second-order one -/
structure Iter (α : Type) where
  u : α
  v : Option α
  a : Option α

def save (s : Scheme) (st : State α) : Iter α :=
  match s with
  | .elliptic => ⟨st.u, none, none⟩
  | .parabolic => ⟨st.u, some st.v, none⟩
  | .hyperbolic => ⟨st.u, some st.v, some st.a⟩

/-- `_Set_solutions(u, v?, a?)`: a field that is not given keeps its current value -/
def setSolutions (cur : State α) (u : α) (v a : Option α) : State α :=
  ⟨u, v.getD cur.v, a.getD cur.a⟩

/-- `Set_Iter` since the fixes: every stored field is written back -/
def restoreStored (cur : State α) (it : Iter α) : State α := setSolutions cur it.u it.v it.a

/-- `Set_Iter` before (WeakForms): the fields are chosen by the scheme selected now; reading a field the iteration does not hold fails -/
def restoreByScheme (now : Scheme) (cur : State α) (it : Iter α) : Option (State α) :=
  match now with
  | .elliptic => some (setSolutions cur it.u none none)
  | .parabolic => it.v.map fun v => setSolutions cur it.u (some v) none
  | .hyperbolic => it.v.bind fun v => it.a.map fun a => setSolutions cur it.u (some v) (some a)

/-- **every field the iteration holds comes back as saved**, whatever the scheme was and is, whatever the current state -/
theorem restoreStored_returns_saved (s : Scheme) (st cur : State α) :
    (restoreStored cur (save s st)).u = st.u ∧
    (s ≠ .elliptic → (restoreStored cur (save s st)).v = st.v) ∧
    (s = .hyperbolic → (restoreStored cur (save s st)).a = st.a) := by
  cases s <;> simp [restoreStored, save, setSolutions]

/-- restoring is idempotent and does not depend on the state it replaces for the stored fields -/
theorem restoreStored_idem (cur : State α) (it : Iter α) :
    restoreStored (restoreStored cur it) it = restoreStored cur it := by
  cases it with
  | mk u v a => cases v <;> cases a <;> simp [restoreStored, setSolutions]

/-- the old rule under the scheme the iteration was saved with: fine -/
theorem restoreByScheme_ok_same_scheme (s : Scheme) (st cur : State α) :
    restoreByScheme s cur (save s st) = some (restoreStored cur (save s st)) := by
  cases s <;> simp [restoreByScheme, restoreStored, save, setSolutions]

/-- the old rule drops the stored rate of a transient iteration once the static scheme is selected -/
theorem restoreByScheme_drops_the_rate :
    ∃ (st cur : State ℕ), (restoreByScheme .elliptic cur (save .parabolic st)).map State.v ≠ some st.v :=
  ⟨⟨1, 8, 0⟩, ⟨0, 0, 0⟩, by simp [restoreByScheme, save, setSolutions]⟩

/-- … and cannot restore a static iteration under a transient scheme (`KeyError: 'v'`) -/
theorem restoreByScheme_fails (st cur : State α) : restoreByScheme .parabolic cur (save .elliptic st) = none := by
  simp [restoreByScheme, save]

/-- Thermal before fix 44d8e78: the rate is zeroed unless the scheme selected now is the parabolic one -/
def restoreThermalOld [Zero α] (now : Scheme) (cur : State α) (it : Iter α) : State α :=
  setSolutions cur it.u (some (if now = .parabolic then it.v.getD 0 else 0)) none

theorem restoreThermalOld_drops_the_rate :
    (restoreThermalOld .elliptic (⟨0, 0, 0⟩ : State ℕ) (save .parabolic ⟨1, 8, 0⟩)).v ≠ 8 := by
  simp [restoreThermalOld, save, setSolutions]

end EasyFEAVerif.Props.C15Restore
