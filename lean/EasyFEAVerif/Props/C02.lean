/-
Property C02 — K is symmetric positive semi-definite with exactly the physical kernel; M is symmetric
positive definite and carries the mass.

The element matrices have the form read from the source on every run (`Gen/C02/Forms.lean`, the
generator refuses any other form): `K = Σ_q w_q B_qᵀ C B_q`, `M = Σ_q w_q ρ N_qᵀ N_q`, with `q` ranging
over all (element, Gauss point) pairs of the mesh (assembly = scatter-add, C03). Proved for every mesh,
every element type, every quadrature with non-negative weights:
  symmetry, `uᵀ K u = Σ_q w_q (B_q u)ᵀ C (B_q u) ≥ 0`, and with positive weights and a positive-definite law
  `K u = 0 ⟺ B_q u = 0 at every sample` (so rigid motions / constants are in the kernel — C01 L1 — and a
  mode is spurious exactly when the samples miss a non-rigid strain field);
  `uᵀ M u = ρ Σ_q w_q |N_q u|²`, M positive definite iff the sampling `u ↦ (N_q u)_q` is injective
  (certified per element type in C07 `mass_certified`), total mass per direction `= ρ Σ_q w_q`.
PARTIAL: "kernel ⊆ rigid motions on every connected mesh" is not proved (per-element rank certificates are
in C07 `rigi_certified` / `conduction_kernel_is_constants`); the harness measures the kernel dimension of
the real matrices on meshes of every element type.
-/
import EasyFEAVerif.Gen.C02.Loops
import Mathlib.Algebra.BigOperators.Ring.Finset
import Mathlib.Tactic.NormNum
import Mathlib.Algebra.Order.Field.Rat
import EasyFEAVerif.Model.Patch
import EasyFEAVerif.Gen.C02.Forms
import Mathlib.Tactic.Ring
import Mathlib.Tactic.Linarith
import Mathlib.Tactic.Positivity
import Mathlib.Algebra.Order.BigOperators.Ring.Finset
import Mathlib.Algebra.Order.BigOperators.Group.Finset
import Mathlib.Algebra.Order.Field.Basic

set_option linter.unusedSectionVars false

namespace EasyFEAVerif.Props.C02

open Finset EasyFEAVerif.Patch EasyFEAVerif.Gen

/-- the forms of the source that the model reads (the generator refuses anything else) -/
theorem forms_spec : (C02.forms.map Prod.fst) =
    ["LinearizedElasticity", "GradUGradV", "UV", "Get_leftDispPart_e_pg", "Get_DiffusePart_e_pg",
     "Get_ReactionPart_e_pg", "integrate"] := rfl

section stiffness
variable {K : Type*} [Field K] {Q ι R : Type*} [Fintype Q] [Fintype ι] [Fintype R]

/-- strain of the field `u` at sample `q` -/
def strainAt (B : Q → R → ι → K) (u : ι → K) (q : Q) (r : R) : K := ∑ j, B q r j * u j

theorem stiffness_symm (w : Q → K) (B : Q → R → ι → K) (C : R → R → K) (hC : ∀ r s, C r s = C s r) (i j : ι) :
    stiffness w B C i j = stiffness w B C j i := by
  unfold stiffness
  refine sum_congr rfl fun q _ => ?_
  congr 1
  rw [sum_comm]
  refine sum_congr rfl fun r _ => sum_congr rfl fun s _ => ?_
  rw [hC s r]; ring

/-- rows of `K u` -/
theorem stiffness_rows (w : Q → K) (B : Q → R → ι → K) (C : R → R → K) (u : ι → K) (i : ι) :
    ∑ j, stiffness w B C i j * u j = ∑ q, w q * ∑ r, B q r i * ∑ s, C r s * strainAt B u q s := by
  unfold stiffness strainAt
  calc ∑ j, (∑ q, w q * ∑ r, ∑ s, B q r i * C r s * B q s j) * u j
      = ∑ j, ∑ q, w q * ∑ r, ∑ s, B q r i * C r s * (B q s j * u j) := by
        refine sum_congr rfl fun j _ => ?_
        rw [sum_mul]
        refine sum_congr rfl fun q _ => ?_
        rw [mul_assoc, sum_mul]
        congr 1
        refine sum_congr rfl fun r _ => ?_
        rw [sum_mul]
        exact sum_congr rfl fun s _ => by ring
    _ = ∑ q, w q * ∑ j, ∑ r, ∑ s, B q r i * C r s * (B q s j * u j) := by
        rw [sum_comm]; exact sum_congr rfl fun q _ => by rw [mul_sum]
    _ = ∑ q, w q * ∑ r, ∑ s, ∑ j, B q r i * C r s * (B q s j * u j) := by
        refine sum_congr rfl fun q _ => ?_
        congr 1
        rw [sum_comm]
        exact sum_congr rfl fun r _ => sum_comm
    _ = ∑ q, w q * ∑ r, B q r i * ∑ s, C r s * ∑ j, B q s j * u j := by
        refine sum_congr rfl fun q _ => ?_
        congr 1
        refine sum_congr rfl fun r _ => ?_
        rw [mul_sum]
        refine sum_congr rfl fun s _ => ?_
        rw [← mul_sum]; ring

/-- **energy form**: `uᵀ K u = Σ_q w_q ε_qᵀ C ε_q` with `ε_q = B_q u` -/
theorem quad_form (w : Q → K) (B : Q → R → ι → K) (C : R → R → K) (u : ι → K) :
    ∑ i, u i * ∑ j, stiffness w B C i j * u j
      = ∑ q, w q * ∑ r, ∑ s, strainAt B u q r * C r s * strainAt B u q s := by
  calc ∑ i, u i * ∑ j, stiffness w B C i j * u j
      = ∑ i, u i * ∑ q, w q * ∑ r, B q r i * ∑ s, C r s * strainAt B u q s :=
        sum_congr rfl fun i _ => by rw [stiffness_rows]
    _ = ∑ i, ∑ q, ∑ r, w q * ((B q r i * u i) * ∑ s, C r s * strainAt B u q s) := by
        refine sum_congr rfl fun i _ => ?_
        rw [mul_sum]
        refine sum_congr rfl fun q _ => ?_
        rw [mul_sum, mul_sum]
        exact sum_congr rfl fun r _ => by ring
    _ = ∑ q, ∑ r, ∑ i, w q * ((B q r i * u i) * ∑ s, C r s * strainAt B u q s) := by
        rw [sum_comm]; exact sum_congr rfl fun q _ => sum_comm
    _ = ∑ q, w q * ∑ r, ∑ s, strainAt B u q r * C r s * strainAt B u q s := by
        refine sum_congr rfl fun q _ => ?_
        rw [mul_sum]
        refine sum_congr rfl fun r _ => ?_
        rw [← mul_sum, ← sum_mul]
        congr 1
        show strainAt B u q r * _ = _
        rw [mul_sum]
        exact sum_congr rfl fun s _ => by ring

/-- a field with zero strain at every sample is in the kernel: rigid motions for elasticity (C01
`rigid_motion_strain_2D/3D`), constants for conduction (C01 `constant_field_gradient`) -/
theorem zero_strain_in_kernel (w : Q → K) (B : Q → R → ι → K) (C : R → R → K) (u : ι → K)
    (h : ∀ q r, strainAt B u q r = 0) (i : ι) : ∑ j, stiffness w B C i j * u j = 0 := by
  rw [stiffness_rows]
  refine sum_eq_zero fun q _ => ?_
  simp [h]

end stiffness

section ordered
variable {K : Type*} [Field K] [LinearOrder K] [IsStrictOrderedRing K]
variable {Q ι R : Type*} [Fintype Q] [Fintype ι] [Fintype R]

/-- the law is positive semi-definite / definite as a quadratic form on strain vectors -/
def PSD (C : R → R → K) : Prop := ∀ e : R → K, 0 ≤ ∑ r, ∑ s, e r * C r s * e s
def PD (C : R → R → K) : Prop := ∀ e : R → K, (∑ r, ∑ s, e r * C r s * e s = 0 → e = 0) ∧ 0 ≤ ∑ r, ∑ s, e r * C r s * e s

/-- **K is positive semi-definite** for non-negative weights (C07 `weights positive`) and a PSD law -/
theorem stiffness_psd (w : Q → K) (B : Q → R → ι → K) (C : R → R → K) (hw : ∀ q, 0 ≤ w q) (hC : PSD C) (u : ι → K) :
    0 ≤ ∑ i, u i * ∑ j, stiffness w B C i j * u j := by
  rw [quad_form]
  exact sum_nonneg fun q _ => mul_nonneg (hw q) (hC _)

/-- **the kernel is exactly the fields without strain at the samples** (positive weights, PD law): no
missing mode (`zero_strain_in_kernel`) and the only possible spurious modes are non-rigid fields whose
strain vanishes at every Gauss point -/
theorem kernel_iff_zero_strain (w : Q → K) (B : Q → R → ι → K) (C : R → R → K) (hw : ∀ q, 0 < w q) (hC : PD C)
    (u : ι → K) :
    (∀ i, ∑ j, stiffness w B C i j * u j = 0) ↔ ∀ q r, strainAt B u q r = 0 := by
  constructor
  · intro h q
    have hq : ∑ i, u i * ∑ j, stiffness w B C i j * u j = 0 := sum_eq_zero fun i _ => by rw [h i, mul_zero]
    rw [quad_form] at hq
    have hterm := (sum_eq_zero_iff_of_nonneg fun q _ => mul_nonneg (hw q).le ((hC _).2)).mp hq q (mem_univ q)
    have hz : ∑ r, ∑ s, strainAt B u q r * C r s * strainAt B u q s = 0 :=
      (mul_eq_zero.mp hterm).resolve_left (hw q).ne'
    exact fun r => congrFun ((hC _).1 hz) r
  · exact fun h i => zero_strain_in_kernel w B C u h i

end ordered

/-! ### mass -/

section mass
variable {K : Type*} [Field K] {Q ι Cp : Type*} [Fintype Q] [Fintype ι] [Fintype Cp]

/-- `UV`: `M[i,j] = Σ_q w_q ρ Σ_c N_q[c,i] N_q[c,j]` (`c` = field components; `N_q` zero outside the element) -/
def mass (w : Q → K) (ρ : K) (N : Q → Cp → ι → K) (i j : ι) : K := ∑ q, w q * ρ * ∑ c, N q c i * N q c j

def fieldAt (N : Q → Cp → ι → K) (u : ι → K) (q : Q) (c : Cp) : K := ∑ i, N q c i * u i

theorem mass_symm (w : Q → K) (ρ : K) (N : Q → Cp → ι → K) (i j : ι) : mass w ρ N i j = mass w ρ N j i := by
  unfold mass
  exact sum_congr rfl fun q _ => by congr 1; exact sum_congr rfl fun c _ => mul_comm _ _

/-- `uᵀ M v = ρ Σ_q w_q (N_q u)·(N_q v)` -/
theorem mass_bilinear (w : Q → K) (ρ : K) (N : Q → Cp → ι → K) (u v : ι → K) :
    ∑ i, u i * ∑ j, mass w ρ N i j * v j = ρ * ∑ q, w q * ∑ c, fieldAt N u q c * fieldAt N v q c := by
  unfold mass fieldAt
  calc ∑ i, u i * ∑ j, (∑ q, w q * ρ * ∑ c, N q c i * N q c j) * v j
      = ∑ i, ∑ j, ∑ q, ∑ c, ρ * (w q * ((N q c i * u i) * (N q c j * v j))) := by
        refine sum_congr rfl fun i _ => ?_
        rw [mul_sum]
        refine sum_congr rfl fun j _ => ?_
        rw [sum_mul, mul_sum]
        refine sum_congr rfl fun q _ => ?_
        rw [mul_sum, sum_mul, mul_sum]
        exact sum_congr rfl fun c _ => by ring
    _ = ∑ i, ∑ q, ∑ c, ∑ j, ρ * (w q * ((N q c i * u i) * (N q c j * v j))) := by
        refine sum_congr rfl fun i _ => ?_
        rw [sum_comm]
        exact sum_congr rfl fun q _ => sum_comm
    _ = ∑ q, ∑ c, ∑ i, ∑ j, ρ * (w q * ((N q c i * u i) * (N q c j * v j))) := by
        rw [sum_comm]
        exact sum_congr rfl fun q _ => sum_comm
    _ = ρ * ∑ q, w q * ∑ c, (∑ i, N q c i * u i) * ∑ j, N q c j * v j := by
        rw [mul_sum]
        refine sum_congr rfl fun q _ => ?_
        rw [mul_sum, mul_sum]
        refine sum_congr rfl fun c _ => ?_
        rw [sum_mul_sum, mul_sum, mul_sum]
        refine sum_congr rfl fun i _ => ?_
        rw [mul_sum, mul_sum]

/-- **total mass per direction**: for the translation `t` along component `c₀` (nodal values 1 on that
component: `N_q t = e_{c₀}` at every sample by the partition of unity, C06), `tᵀ M t = ρ Σ_q w_q`
`= density × measure (× thickness)` (C07 `weights_sum`) -/
theorem mass_total [DecidableEq Cp] (w : Q → K) (ρ : K) (N : Q → Cp → ι → K) (t : ι → K) (c₀ : Cp)
    (ht : ∀ q c, fieldAt N t q c = if c = c₀ then 1 else 0) :
    ∑ i, t i * ∑ j, mass w ρ N i j * t j = ρ * ∑ q, w q := by
  rw [mass_bilinear]
  congr 1
  refine sum_congr rfl fun q _ => ?_
  simp [ht]

end mass

section massOrdered
variable {K : Type*} [Field K] [LinearOrder K] [IsStrictOrderedRing K]
variable {Q ι Cp : Type*} [Fintype Q] [Fintype ι] [Fintype Cp]

theorem mass_psd (w : Q → K) (ρ : K) (N : Q → Cp → ι → K) (hw : ∀ q, 0 ≤ w q) (hρ : 0 ≤ ρ) (u : ι → K) :
    0 ≤ ∑ i, u i * ∑ j, mass w ρ N i j * u j := by
  rw [mass_bilinear]
  exact mul_nonneg hρ (sum_nonneg fun q _ => mul_nonneg (hw q) (sum_nonneg fun c _ => mul_self_nonneg _))

/-- **M is positive definite** when the weights and the density are positive and the sampling of the field
at the Gauss points is injective (rank certificates per element type: C07 `mass_certified`; it fails for
TRI15 with its 12-point rule: C07 known finding) -/
theorem mass_pos_def (w : Q → K) (ρ : K) (N : Q → Cp → ι → K) (hw : ∀ q, 0 < w q) (hρ : 0 < ρ)
    (hinj : ∀ u : ι → K, (∀ q c, fieldAt N u q c = 0) → u = 0) (u : ι → K) (hu : u ≠ 0) :
    0 < ∑ i, u i * ∑ j, mass w ρ N i j * u j := by
  rw [mass_bilinear]
  refine mul_pos hρ ?_
  by_contra hneg
  have hle : ∑ q, w q * ∑ c, fieldAt N u q c * fieldAt N u q c ≤ 0 := not_lt.mp hneg
  have hnn : ∀ q ∈ (univ : Finset Q), 0 ≤ w q * ∑ c, fieldAt N u q c * fieldAt N u q c :=
    fun q _ => mul_nonneg (hw q).le (sum_nonneg fun c _ => mul_self_nonneg _)
  have hzero := (sum_eq_zero_iff_of_nonneg hnn).mp (le_antisymm hle (sum_nonneg hnn))
  apply hu
  apply hinj
  intro q c
  have h1 := (mul_eq_zero.mp (hzero q (mem_univ q))).resolve_left (hw q).ne'
  have h2 := (sum_eq_zero_iff_of_nonneg fun c _ => mul_self_nonneg (fieldAt N u q c)).mp h1 c (mem_univ c)
  exact mul_self_eq_zero.mp h2

end massOrdered

/-! ### non-vacuity: a 1-dof, 1-sample system over ℚ -/
example : PD (fun (_ _ : Fin 1) => (2 : ℚ)) := by
  intro e
  constructor
  · intro h
    funext r
    have : r = 0 := Subsingleton.elim _ _
    subst this
    simp at h
    simpa using h
  · simp; nlinarith [mul_self_nonneg (e 0)]

/-! ### the thickness factor is applied group by group -/

/-- the body of the loop over the element groups of `Elastic` / `Thermal.Construct_local_matrix_system` as matched against the
source: every group's matrices are built and multiplied by the thickness INSIDE the loop -/
theorem groupLoops_spec : (EasyFEAVerif.Gen.C02.groupLoops.map Prod.fst) = ["Elastic.groupLoop", "Thermal.groupLoop"] ∧
    (EasyFEAVerif.Gen.C02.groupLoops.lookup "Elastic.groupLoop").map
      (fun l => l.contains "if self.dim == 2:\n    thickness = self.material.thickness\n    K_e *= thickness\n    M_e *= thickness" && l.contains "out[groupElem] = (K_e, C_e, M_e, None)") = some true ∧
    (EasyFEAVerif.Gen.C02.groupLoops.lookup "Thermal.groupLoop").map
      (fun l => l.contains "if self.mesh.dim == 2:\n    thickness = thermalModel.thickness\n    K_e *= thickness\n    C_e *= thickness" && l.contains "out[groupElem] = (K_e, C_e, None, None)") = some true := by
  decide

/-- scaling the element matrices of EVERY group by the thickness scales the assembled matrix by the thickness
(`G` = element groups, `A g i j` = contribution of group `g` to entry `(i, j)`): symmetry, semi-definiteness and kernel are
those of the unscaled matrix, the total mass is multiplied by `t` … -/
theorem thickness_scales_the_assembled_matrix {K : Type*} [CommRing K] {G I : Type*} [Fintype G] (t : K) (A : G → I → I → K) (i j : I) :
    ∑ g, t * A g i j = t * ∑ g, A g i j := by
  rw [Finset.mul_sum]

/-- … whereas scaling the LAST group only (seed C01_J: the scaling statement moved out of the loop) is not a multiple of the
assembled matrix as soon as two groups contribute: two groups contributing 1 each, thickness 3 -/
example : (1 : ℚ) + 3 * 1 ≠ 3 * (1 + 1) := by norm_num

end EasyFEAVerif.Props.C02
