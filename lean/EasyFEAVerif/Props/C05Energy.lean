/-
Property C05, energy part: without damping and load, midpoint and average-acceleration
Newmark conserve  E = ½ vᵀMv + ½ uᵀKu  exactly for any step size, and backward Euler
never increases it — for any number of steps, any step sizes, any symmetric K, M
(positive semi-definite for the dissipation statement), over any ordered field.
The schemes are the generated definitions `Gen.C05.*` (translated from the source).
-/
import EasyFEAVerif.Props.C05
import Mathlib.Algebra.Order.Field.Basic
import Mathlib.LinearAlgebra.BilinearMap
import Mathlib.Tactic.Positivity
import Mathlib.Tactic.Linarith

namespace EasyFEAVerif.Props.C05
open EasyFEAVerif.Gen.C05

variable {𝕜 : Type*} [Field 𝕜] [LinearOrder 𝕜] [IsStrictOrderedRing 𝕜]
variable {V : Type*} [AddCommGroup V] [Module 𝕜 V]

/-- A symmetric pairing `B` (think xᵀy) and an operator self-adjoint for it (K or M symmetric). -/
structure SymmOp (B : V →ₗ[𝕜] V →ₗ[𝕜] 𝕜) (A : V →ₗ[𝕜] V) : Prop where
  symm : ∀ x y, B x y = B y x
  selfadj : ∀ x y, B (A x) y = B x (A y)

/-- ½ vᵀMv + ½ uᵀKu -/
def energy (B : V →ₗ[𝕜] V →ₗ[𝕜] 𝕜) (K M : V →ₗ[𝕜] V) (u v : V) : 𝕜 :=
  1 / 2 * B (M v) v + 1 / 2 * B (K u) u

theorem cross_symm {B : V →ₗ[𝕜] V →ₗ[𝕜] 𝕜} {A : V →ₗ[𝕜] V} (h : SymmOp B A) (x y : V) :
    B (A x) y = B (A y) x := by
  rw [h.selfadj x y, h.symm x (A y)]

/-- Mid-rule lemma: if the increment of u is dt × the mean velocity, the evaluation
acceleration is the velocity increment / dt and the equation of motion holds at the mean
displacement, the energy is conserved. -/
theorem energy_conserved_midrule {B : V →ₗ[𝕜] V →ₗ[𝕜] 𝕜} {K M : V →ₗ[𝕜] V}
    (hK : SymmOp B K) (hM : SymmOp B M) (dt : 𝕜) (hdt : dt ≠ 0) (u0 v0 u1 v1 at' : V)
    (h1 : u1 - u0 = (dt / 2) • (v1 + v0)) (h2 : at' = dt⁻¹ • (v1 - v0))
    (heom : K ((1 / 2 : 𝕜) • (u1 + u0)) + M at' = 0) :
    energy B K M u1 v1 = energy B K M u0 v0 := by
  have hp := congrArg (fun w => B w (u1 - u0)) heom
  simp only [map_add, LinearMap.add_apply, map_zero, LinearMap.zero_apply] at hp
  -- second term: use h1 for the test vector, h2 for the acceleration
  have e2 : B (M at') (u1 - u0) = 1 / 2 * (B (M v1) v1 - B (M v0) v0) := by
    rw [h1, h2]
    simp only [map_smul, map_sub, map_add, LinearMap.smul_apply, LinearMap.sub_apply,
      LinearMap.add_apply, smul_eq_mul]
    rw [cross_symm hM v1 v0]
    field_simp
    ring
  have e1 : B (K ((1 / 2 : 𝕜) • (u1 + u0))) (u1 - u0) = 1 / 2 * (B (K u1) u1 - B (K u0) u0) := by
    simp only [map_smul, map_sub, map_add, LinearMap.smul_apply, LinearMap.sub_apply,
      LinearMap.add_apply, smul_eq_mul]
    rw [cross_symm hK u1 u0]
    ring
  rw [e1, e2] at hp
  unfold energy
  linear_combination hp

/-- Midpoint scheme of the code: one step conserves the energy (C = 0, F = 0). The
hypothesis is the equation of motion that `midpoint_eom` shows the solve enforces. -/
theorem midpoint_conserves_energy {B : V →ₗ[𝕜] V →ₗ[𝕜] 𝕜} {K M : V →ₗ[𝕜] V}
    (hK : SymmOp B K) (hM : SymmOp B M) (dt β γ α : 𝕜) (hdt : dt ≠ 0) (u_n v_n a_n u : V)
    (heom : K (midpoint_eval dt β γ α u_n v_n a_n u).1
      + M (ov (midpoint_eval dt β γ α u_n v_n a_n u).2.2) = 0) :
    energy B K M (midpoint_update dt β γ α u_n v_n a_n u).1 (ov (midpoint_update dt β γ α u_n v_n a_n u).2.1)
      = energy B K M u_n v_n := by
  have hc : (2 : 𝕜) ≠ 0 := two_ne_zero
  obtain ⟨hu, hv, ha⟩ := midpoint_update_spec dt β γ α hdt u_n v_n a_n u
  obtain ⟨eu, _, ea⟩ := midpoint_eval_spec dt β γ α hdt u_n v_n a_n u
  apply energy_conserved_midrule hK hM dt hdt u_n v_n _ _
    (ov (midpoint_eval dt β γ α u_n v_n a_n u).2.2)
  · rw [hu, hv]; match_scalars <;> field_simp <;> ring
  · rw [ea, ha, hv]; match_scalars <;> field_simp <;> ring
  · rw [eu] at heom
    convert heom using 3
    rw [hu]; match_scalars <;> field_simp

/-- Average-acceleration Newmark (β = 1/4, γ = 1/2): if the previous state satisfies the
equation of motion `M a_n + K u_n = 0` and the new one too (that is what the solve enforces,
`newmark_eom`), the energy is conserved — and the new state again satisfies the
equation of motion, so the statement propagates over any number of steps. -/
theorem newmark_average_conserves_energy {B : V →ₗ[𝕜] V →ₗ[𝕜] 𝕜} {K M : V →ₗ[𝕜] V}
    (hK : SymmOp B K) (hM : SymmOp B M) (dt α : 𝕜) (hdt : dt ≠ 0) (u_n v_n a_n u : V)
    (hprev : K u_n + M a_n = 0)
    (heom : K (newmark_eval dt (1 / 4) (1 / 2) α u_n v_n a_n u).1
      + M (ov (newmark_eval dt (1 / 4) (1 / 2) α u_n v_n a_n u).2.2) = 0) :
    energy B K M (newmark_update dt (1 / 4) (1 / 2) α u_n v_n a_n u).1
        (ov (newmark_update dt (1 / 4) (1 / 2) α u_n v_n a_n u).2.1)
      = energy B K M u_n v_n := by
  have hc : (2 : 𝕜) ≠ 0 := two_ne_zero
  have h4 : (4 : 𝕜) ≠ 0 := four_ne_zero
  have hβ : (1 / 4 : 𝕜) ≠ 0 := by norm_num
  obtain ⟨hu, ha, hv⟩ := newmark_update_spec dt (1 / 4) (1 / 2) α hdt hβ u_n v_n a_n u
  rw [newmark_eval_eq_update] at heom
  set a1 := ov (newmark_update dt (1 / 4) (1 / 2) α u_n v_n a_n u).2.2 with ha1
  set v1 := ov (newmark_update dt (1 / 4) (1 / 2) α u_n v_n a_n u).2.1 with hv1
  rw [hu] at heom ⊢
  -- a1 determines u:  u = ũ + β dt² a1
  have hu' : u = u_n + dt • v_n + (dt ^ 2 / 4) • (a_n + a1) := by
    rw [ha]; match_scalars <;> field_simp <;> ring
  apply energy_conserved_midrule hK hM dt hdt u_n v_n u v1 ((1 / 2 : 𝕜) • (a1 + a_n))
  · rw [hv]; nth_rewrite 1 [hu']; match_scalars <;> field_simp <;> ring
  · rw [hv]; match_scalars <;> field_simp <;> ring
  · have : K ((1 / 2 : 𝕜) • (u + u_n)) + M ((1 / 2 : 𝕜) • (a1 + a_n))
        = (1 / 2 : 𝕜) • ((K u + M a1) + (K u_n + M a_n)) := by
      simp only [map_smul, map_add, smul_add]; abel
    rw [this, heom, hprev]; simp

/-- Backward Euler never increases the energy (K, M positive semi-definite):
`E_n − E_{n+1} = ½ Δvᵀ M Δv + ½ Δuᵀ K Δu ≥ 0`. -/
theorem euler_implicit_dissipates {B : V →ₗ[𝕜] V →ₗ[𝕜] 𝕜} {K M : V →ₗ[𝕜] V}
    (hK : SymmOp B K) (hM : SymmOp B M) (hKpos : ∀ x, 0 ≤ B (K x) x) (hMpos : ∀ x, 0 ≤ B (M x) x)
    (dt β γ α : 𝕜) (hdt : dt ≠ 0) (u_n v_n a_n u : V)
    (heom : K (euler_implicit_eval dt β γ α u_n v_n a_n u).1
      + M (ov (euler_implicit_eval dt β γ α u_n v_n a_n u).2.2) = 0) :
    energy B K M (euler_implicit_update dt β γ α u_n v_n a_n u).1
        (ov (euler_implicit_update dt β γ α u_n v_n a_n u).2.1)
      ≤ energy B K M u_n v_n := by
  obtain ⟨hu, hv, ha⟩ := euler_implicit_update_spec dt β γ α hdt u_n v_n a_n u
  rw [euler_implicit_eval_eq_update] at heom
  set v1 := ov (euler_implicit_update dt β γ α u_n v_n a_n u).2.1 with hv1
  set a1 := ov (euler_implicit_update dt β γ α u_n v_n a_n u).2.2 with ha1
  rw [hu] at heom ⊢
  -- test with u − u_n = dt v1
  have hd : u - u_n = dt • v1 := by rw [hv]; match_scalars <;> field_simp
  have hp := congrArg (fun w => B w (u - u_n)) heom
  simp only [map_add, LinearMap.add_apply, map_zero, LinearMap.zero_apply] at hp
  have e2 : B (M a1) (u - u_n) = B (M (v1 - v_n)) v1 := by
    rw [hd, ha]; simp only [map_smul, LinearMap.smul_apply, smul_eq_mul]; field_simp
  have cK := cross_symm hK u u_n
  have cM := cross_symm hM v1 v_n
  have i1 : B (K u) (u - u_n) = 1 / 2 * (B (K u) u - B (K u_n) u_n + B (K (u - u_n)) (u - u_n)) := by
    simp only [map_sub, LinearMap.sub_apply]; rw [cK]; ring
  have i2 : B (M (v1 - v_n)) v1 = 1 / 2 * (B (M v1) v1 - B (M v_n) v_n + B (M (v1 - v_n)) (v1 - v_n)) := by
    simp only [map_sub, LinearMap.sub_apply]; rw [cM]; ring
  rw [e2, i1, i2] at hp
  have p1 := hKpos (u - u_n)
  have p2 := hMpos (v1 - v_n)
  unfold energy
  linarith

/-- Any number of steps: a one-step invariant propagates along any finite sequence of
steps (changing step size or scheme parameters from step to step). -/
theorem invariant_over_steps {S P : Type*} (step : S → P → S) (Inv : S → Prop)
    (h : ∀ s p, Inv s → Inv (step s p)) (s0 : S) (h0 : Inv s0) (ps : List P) :
    Inv (ps.foldl step s0) := by
  induction ps generalizing s0 with
  | nil => exact h0
  | cons p ps ih => exact ih _ (h s0 p h0)

end EasyFEAVerif.Props.C05
