/-
Property C16 — named results are consistent with the fields and matrices they derive from.
Proof part: the dispatch tables of the component results (translated from the `Result`
methods on every run), the von Mises expressions, and the energy identity W_def = ½ uᵀKu.
Values on real simulations (all advertised names, nodal and element forms, arbitrary
states) are compared by the harness.
-/
import EasyFEAVerif.Core.PExprSound
import EasyFEAVerif.Gen.C16.Results
import Mathlib.Algebra.BigOperators.Ring.Finset
import Mathlib.Data.Fintype.BigOperators
import Mathlib.Data.Matrix.Mul
import Mathlib.Tactic.Ring

namespace EasyFEAVerif.Props.C16
open EasyFEAVerif EasyFEAVerif.Gen.C16

/-- which field a kinematic component name belongs to: u → 0 (displacement), v → 1 (velocity), a → 2 (acceleration) -/
def fieldOf (name : String) : Option Nat :=
  match name.toList with
  | 'u' :: _ => some 0
  | 'v' :: _ => some 1
  | 'a' :: _ => some 2
  | _ => none

/-- which axis: x → 0, y → 1, z → 2 -/
def axisOf (name : String) : Option Nat :=
  match name.toList with
  | [_, 'x'] => some 0
  | [_, 'y'] => some 1
  | [_, 'z'] => some 2
  | _ => none

def kinematicOK (t : List (String × Nat × Nat)) : Bool :=
  t.map (·.1) == ["ux", "uy", "uz", "vx", "vy", "vz", "ax", "ay", "az"] &&
  t.all fun e => fieldOf e.1 == some e.2.1 && axisOf e.1 == some e.2.2

/-- Elastic: every displacement / velocity / acceleration component name returns the component of
the field it names. -/
theorem elastic_kinematic_components : kinematicOK kinematic_Elastic = true := by decide +kernel

/-- WeakForms: idem (this was false before the `fix:` commit: "vx…az" returned components of u). -/
theorem weakforms_kinematic_components : kinematicOK kinematic_WeakForms = true := by decide +kernel

/-- PhaseField: `ux`, `uy`, `uz` select the columns 0, 1, 2 of the displacement (this was false before the `fix:` commit
6734ba0: `uz` selected column 1). -/
theorem phasefield_displacement_components :
    index_PhaseField.map (·.1) = ["ux", "uy", "uz"] ∧ index_PhaseField.all (fun e => axisOf e.1 == some e.2) = true := by
  decide +kernel

/-- the vector results of a beam simulation, per dimension, in storage order: nodal unknowns, nodal forces,
generalised strains (`_Calc_Epsilon_e_pg`), internal forces (`D · ε`, Timoshenko layout), stresses (`_Calc_Sigma_e_pg`) -/
def beamVectors (dim : Nat) : List (List String) :=
  match dim with
  | 1 => [["ux"], ["fx"], ["ux'"], ["N"], ["Sxx"]]
  | 2 => [["ux", "uy", "rz"], ["fx", "fy", "cz"], ["ux'", "rz'"], ["N", "Mz", "Ty"], ["Sxx", "Syy", "Sxy"]]
  | 3 => [["ux", "uy", "uz", "rx", "ry", "rz"], ["fx", "fy", "fz", "cx", "cy", "cz"], ["ux'", "rx'", "ry'", "rz'"],
          ["N", "Mx", "My", "Mz", "Ty", "Tz"], ["Sxx", "Syy", "Szz", "Syz", "Sxz", "Sxy"]]
  | _ => []

/-- position of a component name in the vector result it belongs to -/
def beamColumn (dim : Nat) (name : String) : Option Nat :=
  ((beamVectors dim).find? (·.contains name)).map (·.idxOf name)

/-- Beam: every component name the simulation advertises, in 1D / 2D / 3D, is read from its own column of the vector
result it belongs to, and none raises (this was false before the `fix:` commit d4673c5: the strain names used the
index of the degree of freedom and the stress names had no entry). -/
theorem beam_components :
    index_Beam.all (fun e => e.2.2.isSome && e.2.2 == beamColumn e.1 e.2.1) = true ∧ index_Beam.length = 46 := by
  decide +kernel

/-- order in time of a scheme: 0 static, 1 first order (damping / capacity term), 2 second order (damping and inertia) -/
def schemeOrder (a : String) : Nat := if a = "elliptic" then 0 else if a = "parabolic" then 1 else 2

/-- `Calc_Reaction` (branch tests evaluated on every member of `AlgoType`): the reaction on the constrained rows is `K u`
for a static scheme, `K u + C v` for the first-order one and `K u + C v + M a` for EVERY second-order scheme, and the
second-order schemes are exactly the six of `Get_Hyperbolic_Types` -/
theorem reactions_include_damping_and_inertia :
    reactionTerms.map (·.1) = algoTypes ∧
    hyperbolicTypes = ["newmark", "midpoint", "hht", "hht_newmark", "euler_implicit", "euler_explicit"] ∧
    algoTypes = "elliptic" :: "parabolic" :: hyperbolicTypes ∧
    reactionTerms.all (fun e => e.2 == ["Ku"] ++ (if schemeOrder e.1 ≥ 1 then ["Cv"] else []) ++ (if schemeOrder e.1 ≥ 2 then ["Ma"] else [])) = true := by
  decide

/-- Kelvin–Mandel storage index of a two-letter component suffix -/
def kelvinIndex (dim : Nat) (s : List Char) : Option Nat :=
  if dim = 2 then
    match s with
    | ['x', 'x'] => some 0 | ['y', 'y'] => some 1 | ['x', 'y'] => some 2 | _ => none
  else
    match s with
    | ['x', 'x'] => some 0 | ['y', 'y'] => some 1 | ['z', 'z'] => some 2
    | ['y', 'z'] => some 3 | ['x', 'z'] => some 4 | ['x', 'y'] => some 5 | _ => none

def componentsOK (dim : Nat) (t : List (String × Nat)) : Bool :=
  t.all fun e => kelvinIndex dim (e.1.toList.drop 1) == some e.2

/-- every simulation passes the Kelvin-Mandel factor of ITS material to the helper that rescales the shear components, and the helpers'
default is that factor for the Kelvin-Mandel notation (seed C16_P changed the default to 1 and dropped the argument of one caller: each
edit alone is invisible) -/
theorem shear_factor_passed_by_every_simulation :
    Gen.C16.coefPassed = [("Elastic", "self.material.coef"), ("HyperElastic", "self.material.coef"),
      ("PhaseField", "self.phaseFieldModel.material.coef"), ("InElastic", "self.material.coef")] ∧
    Gen.C16.coefDefaults = [("__Result_in_Strain_or_Stress_field", "np.sqrt(2)"), ("Result_strain_or_stress_field_e", "np.sqrt(2)")] := by
  decide

/-- Each stress / strain component name selects its own Kelvin–Mandel component (after the
shear components have been divided by √2), in 2D and 3D. -/
theorem strain_stress_components :
    componentsOK 2 components2 = true ∧ components2.length = 6 ∧
    componentsOK 3 components3 = true ∧ components3.length = 12 := by decide +kernel

variable {K : Type*} [Field K] [CharZero K]

/-- 3/2 · s:s with s the deviator of the tensor whose components (xx, yy, zz, yz, xz, xy) are variables 0…5 -/
def vonMisesSpec3 : PExpr :=
  let m : PExpr := .mul (.const (1 / 3)) (.add (.add (.var 0) (.var 1)) (.var 2))
  let d := fun (i : Nat) => PExpr.sub (.var i) m
  .mul (.const (3 / 2))
    (.add (.add (.add (.pow (d 0) 2) (.pow (d 1) 2)) (.pow (d 2) 2))
      (.mul (.const 2) (.add (.add (.pow (.var 3) 2) (.pow (.var 4) 2)) (.pow (.var 5) 2))))

/-- 3D: the equivalent stress is the von Mises norm √(3/2 s:s) of the tensor, at every point. -/
theorem svm3_is_von_mises (x : Nat → K) : PExpr.eval x vmSquared3 = PExpr.eval x vonMisesSpec3 :=
  PExpr.eqv_sound (by decide +kernel) x

/-- 2D: the formula is the 3D one with σ_zz = σ_yz = σ_xz = 0 (variables xx, yy, xy = 0, 1, 2). -/
theorem svm2_is_plane_von_mises (x : Nat → K) :
    PExpr.eval x vmSquared2 = PExpr.eval (fun i => if i = 0 then x 0 else if i = 1 then x 1 else if i = 5 then x 2 else 0) vmSquared3 := by
  simp [vmSquared2, vmSquared3, PExpr.eval]
  ring

/-- Energy identity: for any family of integration points with weights w_k, strain operators
B_k (σ × ι matrices) and a material matrix C, the reported deformation energy
Σ_k w_k ½ ε_kᵀ C ε_k (ε_k = B_k u) equals ½ uᵀ K u with K = Σ_k w_k B_kᵀ C B_k — the assembled
stiffness (C03) — for ANY state u (not necessarily an equilibrium), any mesh, any mix of groups. -/
theorem wdef_eq_half_uKu {ι σ κ : Type*} [Fintype ι] [Fintype σ] [Fintype κ]
    (w : κ → K) (B : κ → Matrix σ ι K) (C : Matrix σ σ K) (u : ι → K) :
    ∑ k, w k * (1 / 2) * dotProduct ((B k).mulVec u) (C.mulVec ((B k).mulVec u))
      = (1 / 2) * dotProduct u ((∑ k, w k • ((B k).transpose * C * B k)).mulVec u) := by
  have hsum : (∑ k, w k • ((B k).transpose * C * B k)).mulVec u = ∑ k, (w k • ((B k).transpose * C * B k)).mulVec u :=
    map_sum (Matrix.mulVec.addMonoidHomLeft u) _ Finset.univ
  rw [hsum, dotProduct_sum, Finset.mul_sum]
  apply Finset.sum_congr rfl
  intro k _
  rw [Matrix.smul_mulVec, dotProduct_smul, smul_eq_mul]
  have h : dotProduct u (((B k).transpose * C * B k).mulVec u) = dotProduct ((B k).mulVec u) (C.mulVec ((B k).mulVec u)) := by
    rw [← Matrix.mulVec_mulVec, ← Matrix.mulVec_mulVec, Matrix.dotProduct_mulVec, Matrix.vecMul_transpose]
  rw [h]
  ring

end EasyFEAVerif.Props.C16
