/-
Property C03 — assembly is the exact scatter-add of element contributions, for any
numbering.  The model (`Model/Assembly.lean`) transcribes `_Get_assembly_e`, `Get_rows_e`,
`Get_columns_e`, `__Get_csr_map`, `__Assemble_csr` and is compared with the real
`simu.Assembly` on every run (histories of assemblies, mixed groups, absent slots, complex
values). Theorems hold for any number of groups, elements, nodes per element, dofs per
node, and values in any additive monoid.
-/
import EasyFEAVerif.Core.AssemblySound

namespace EasyFEAVerif.Props.C03
open EasyFEAVerif.Assembly

variable {α : Type} [AddMonoid α]

/-- every node index of every contributing group fits in the system: `(n+1)*dofN ≤ ndof`
(ndof ≥ Nn*dofN; larger when Lagrange multipliers are appended) -/
def WellFormed (dofN ndof : Nat) (gs : List (ElemGroup α)) : Prop :=
  ∀ g ∈ gs, ∀ row ∈ g.connect, ∀ n ∈ row, (n + 1) * dofN ≤ ndof

theorem mem_assemblyRow {dofN : Nat} {nodes : List Nat} {k : Nat} (h : k ∈ assemblyRow dofN nodes) :
    ∃ n ∈ nodes, ∃ d < dofN, k = n * dofN + d := by
  simp only [assemblyRow, List.mem_flatMap, List.mem_map, List.mem_range] at h
  obtain ⟨n, hn, d, hd, rfl⟩ := h
  exact ⟨n, hn, d, hd, rfl⟩

theorem coords_col_lt {dofN ndof : Nat} {gs : List (ElemGroup α)} (hwf : WellFormed dofN ndof gs)
    {p : Nat × Nat} (hp : p ∈ allCoords true dofN gs) : p.2 < ndof := by
  simp only [allCoords, contributing, List.mem_flatMap, List.mem_filter, coords, if_true] at hp
  obtain ⟨g, ⟨hg, _⟩, nodes, hnodes, hz⟩ := hp
  rw [zip_rows_cols] at hz
  simp only [List.mem_flatMap, List.mem_map] at hz
  obtain ⟨r, _, c, hc, rfl⟩ := hz
  obtain ⟨n, hn, d, hd, rfl⟩ := mem_assemblyRow hc
  have := hwf g hg nodes hnodes n hn
  simp only
  nlinarith

/-- **Matrices.** Coefficient (i, j) of the assembled CSR matrix is the sum of all element
entries whose row/column dofs are (i, j): nothing dropped, duplicated or misplaced, for any
list of groups (groups whose slot is `None` are skipped). -/
theorem matrix_assembly_is_scatter_add (dofN ndof : Nat) (gs : List (ElemGroup α))
    (hwf : WellFormed dofN ndof gs) (i j : Nat) (hj : j < ndof) :
    (assembleCsr true dofN ndof gs).get i j
      = scatterAdd (allCoords true dofN gs) (allData gs) i j := by
  have := csr_get_eq_scatterAdd ndof (allCoords true dofN gs) (allData gs) i j hj
    (fun p hp => coords_col_lt hwf hp)
  simpa [assembleCsr, csrMap] using this

/-- **Vectors.** Same statement for the (Ndof, 1) load vector. -/
theorem vector_assembly_is_scatter_add (dofN ndof : Nat) (gs : List (ElemGroup α)) (i : Nat) :
    (assembleCsr false dofN ndof gs).get i 0
      = scatterAdd (allCoords false dofN gs) (allData gs) i 0 := by
  have hc : ∀ p ∈ allCoords false dofN gs, p.2 < 1 := by
    intro p hp
    simp only [allCoords, contributing, List.mem_flatMap, List.mem_filter, coords] at hp
    obtain ⟨g, _, nodes, _, hz⟩ := hp
    simp only [Bool.false_eq_true, if_false, List.mem_map] at hz
    obtain ⟨r, _, rfl⟩ := hz
    simp
  have := csr_get_eq_scatterAdd 1 (allCoords false dofN gs) (allData gs) i 0 (by omega) hc
  simpa [assembleCsr, csrMap] using this

/-- The coordinates of the entries of one element: entry `r*ndof + c` of the flattened local
matrix is placed at (a[r], a[c]) with `a` the element's assembly row
(`a[n_local*dofN + d] = node*dofN + d`). -/
theorem element_entry_coordinates (dofN : Nat) (nodes : List Nat) :
    coords true dofN [nodes]
      = (assemblyRow dofN nodes).flatMap fun r => (assemblyRow dofN nodes).map fun c => (r, c) := by
  simp [coords, zip_rows_cols]

/-- A group whose slot is absent (`None`) contributes nothing — neither entries nor pattern. -/
theorem absent_slot_ignored (g : ElemGroup α) (gs : List (ElemGroup α)) (h : g.data = none)
    (isMatrix : Bool) (dofN : Nat) :
    allCoords isMatrix dofN (g :: gs) = allCoords isMatrix dofN gs ∧ allData (g :: gs) = allData gs := by
  simp [allCoords, allData, contributing, List.filter_cons, h]

/-- **Renumbering.** Renumbering the nodes by an injective map π permutes the assembled
system accordingly: `K'[σ i, σ j] = K[i, j]` with σ(n·dofN + d) = π(n)·dofN + d, and
changes nothing else (stated on the scatter-add, which the assembly equals). -/
theorem renumbering (dofN : Nat) (hd : 0 < dofN) (π : Nat → Nat) (hπ : Function.Injective π)
    (connect : List (List Nat)) (w : List α) (i j : Nat) :
    scatterAdd (coords true dofN (connect.map (·.map π))) w (dofMap dofN π i) (dofMap dofN π j)
      = scatterAdd (coords true dofN connect) w i j := by
  rw [coords_renumber]
  simp only [if_true]
  exact scatterAdd_renumber (dofMap dofN π) (dofMap_injective hd hπ) _ w i j

/-! ### the cached reduction map -/

/-- the cache key of `__Get_csr_map`; group objects are represented by their (immutable)
connectivity -/
structure Key where
  dofN : Nat
  isMatrix : Bool
  ndof : Nat
  groups : List (List (List Nat))
  deriving DecidableEq

/-- what `__Get_csr_map` computes for a key -/
def compute (k : Key) : Nat × List Nat × List Nat :=
  csrMap k.isMatrix k.ndof (k.groups.flatMap (coords k.isMatrix k.dofN))

abbrev Cache := List (Key × (Nat × List Nat × List Nat))

/-- `@cache_computed_values`: return the stored map when the key is present, else compute and store -/
def cacheGet (c : Cache) (k : Key) : (Nat × List Nat × List Nat) × Cache :=
  match c.lookup k with
  | some v => (v, c)
  | none => (compute k, (k, compute k) :: c)

def CacheValid (c : Cache) : Prop := ∀ kv ∈ c, kv.2 = compute kv.1

/-- A later assembly that reuses the cached pattern uses exactly the map a first assembly
would compute, and the cache stays valid: for ANY sequence of assemblies with any keys
(changing dofs per node, matrix/vector, total size after a Lagrange condition, groups). -/
theorem cached_eq_fresh (c : Cache) (hc : CacheValid c) (k : Key) :
    (cacheGet c k).1 = compute k ∧ CacheValid (cacheGet c k).2 := by
  unfold cacheGet
  cases hl : c.lookup k with
  | none =>
    refine ⟨rfl, ?_⟩
    intro kv hkv
    rcases List.mem_cons.mp hkv with rfl | h
    · rfl
    · exact hc kv h
  | some v =>
    refine ⟨?_, hc⟩
    have hmem : (k, v) ∈ c := by
      induction c with
      | nil => simp [List.lookup] at hl
      | cons x xs ih =>
        simp only [List.lookup] at hl
        split at hl
        · rename_i heq
          have : k = x.1 := by simpa using heq
          have hv : x.2 = v := by simpa using hl
          rw [this, ← hv]; simp
        · exact List.mem_cons_of_mem _ (ih (fun kv h => hc kv (List.mem_cons_of_mem _ h)) hl)
    exact hc (k, v) hmem

theorem cache_history (ks : List Key) :
    CacheValid (ks.foldl (fun c k => (cacheGet c k).2) ([] : Cache)) := by
  have : ∀ (c : Cache), CacheValid c → CacheValid (ks.foldl (fun c k => (cacheGet c k).2) c) := by
    induction ks with
    | nil => intro c hc; exact hc
    | cons k ks ih => intro c hc; exact ih _ (cached_eq_fresh c hc k).2
  exact this [] (by intro kv h; simp at h)

/-! ### non-vacuity: two triangles sharing an edge, 1 dof per node, integer values -/

def demo : List (ElemGroup Int) :=
  [{ connect := [[0, 1, 2], [1, 3, 2]], data := some [[1, 2, 3, 4, 5, 6, 7, 8, 9], [10, 20, 30, 40, 50, 60, 70, 80, 90]] },
   { connect := [[0, 1]], data := none }]

example : (assembleCsr true 1 4 demo).get 1 2 = 6 + 30 ∧ (assembleCsr true 1 4 demo).get 3 0 = 0
    ∧ (assembleCsr true 1 4 demo).get 2 2 = 9 + 90 := by decide

end EasyFEAVerif.Props.C03
