/-
Property C03 — assembly is the exact scatter-add of element contributions, for any
numbering.  The model (`Model/Assembly.lean`) transcribes `_Get_assembly_e`, `Get_rows_e`,
`Get_columns_e`, `__Get_csr_map`, `__Assemble_csr` and is compared with the real
`simu.Assembly` on every run (histories of assemblies, mixed groups, absent slots, complex
values). Theorems hold for any number of groups, elements, nodes per element, dofs per
node, and values in any additive monoid.
-/
import EasyFEAVerif.Gen.C03.Forms
import Mathlib.Tactic.NormNum
import EasyFEAVerif.Core.AssemblySound

namespace EasyFEAVerif.Props.C03
open EasyFEAVerif.Assembly

variable {α : Type} [AddMonoid α]

/-- every node index of every contributing group fits in the system: `(n+1)*dofN ≤ ndof`
(ndof ≥ Nn*dofN; larger when Lagrange multipliers are appended) -/
def WellFormed (dofN ndof : Nat) (gs : List (ElemGroup α)) : Prop :=
  ∀ g ∈ gs, ∀ row ∈ g.connect, ∀ n ∈ row, (n + 1) * dofN ≤ ndof

theorem mem_assemblyRow {dofN : Nat} {nodes : List Nat} {k : Nat} (h : k ∈ assemblyRow dofN nodes) :
    ∃ n ∈ nodes, ∃ d < dofN, k = n * dofN + d := by
  simp only [assemblyRow, List.mem_flatMap, List.mem_map, List.mem_range] at h
  obtain ⟨n, hn, d, hd, rfl⟩ := h
  exact ⟨n, hn, d, hd, rfl⟩

theorem coords_col_lt {dofN ndof : Nat} {gs : List (ElemGroup α)} (hwf : WellFormed dofN ndof gs)
    {p : Nat × Nat} (hp : p ∈ allCoords true dofN gs) : p.2 < ndof := by
  simp only [allCoords, contributing, List.mem_flatMap, List.mem_filter, coords, if_true] at hp
  obtain ⟨g, ⟨hg, _⟩, nodes, hnodes, hz⟩ := hp
  rw [zip_rows_cols] at hz
  simp only [List.mem_flatMap, List.mem_map] at hz
  obtain ⟨r, _, c, hc, rfl⟩ := hz
  obtain ⟨n, hn, d, hd, rfl⟩ := mem_assemblyRow hc
  have := hwf g hg nodes hnodes n hn
  simp only
  nlinarith

/-- **Matrices.** Coefficient (i, j) of the assembled CSR matrix is the sum of all element
entries whose row/column dofs are (i, j): nothing dropped, duplicated or misplaced, for any
list of groups (groups whose slot is `None` are skipped). -/
theorem matrix_assembly_is_scatter_add (dofN ndof : Nat) (gs : List (ElemGroup α))
    (hwf : WellFormed dofN ndof gs) (i j : Nat) (hj : j < ndof) :
    (assembleCsr true dofN ndof gs).get i j
      = scatterAdd (allCoords true dofN gs) (allData gs) i j := by
  have := csr_get_eq_scatterAdd ndof (allCoords true dofN gs) (allData gs) i j hj
    (fun p hp => coords_col_lt hwf hp)
  simpa [assembleCsr, csrMap] using this

/-- **Vectors.** Same statement for the (Ndof, 1) load vector. -/
theorem vector_assembly_is_scatter_add (dofN ndof : Nat) (gs : List (ElemGroup α)) (i : Nat) :
    (assembleCsr false dofN ndof gs).get i 0
      = scatterAdd (allCoords false dofN gs) (allData gs) i 0 := by
  have hc : ∀ p ∈ allCoords false dofN gs, p.2 < 1 := by
    intro p hp
    simp only [allCoords, contributing, List.mem_flatMap, List.mem_filter, coords] at hp
    obtain ⟨g, _, nodes, _, hz⟩ := hp
    simp only [Bool.false_eq_true, if_false, List.mem_map] at hz
    obtain ⟨r, _, rfl⟩ := hz
    simp
  have := csr_get_eq_scatterAdd 1 (allCoords false dofN gs) (allData gs) i 0 (by omega) hc
  simpa [assembleCsr, csrMap] using this

/-- The coordinates of the entries of one element: entry `r*ndof + c` of the flattened local
matrix is placed at (a[r], a[c]) with `a` the element's assembly row
(`a[n_local*dofN + d] = node*dofN + d`). -/
theorem element_entry_coordinates (dofN : Nat) (nodes : List Nat) :
    coords true dofN [nodes]
      = (assemblyRow dofN nodes).flatMap fun r => (assemblyRow dofN nodes).map fun c => (r, c) := by
  simp [coords, zip_rows_cols]

/-- A group whose slot is absent (`None`) contributes nothing — neither entries nor pattern. -/
theorem absent_slot_ignored (g : ElemGroup α) (gs : List (ElemGroup α)) (h : g.data = none)
    (isMatrix : Bool) (dofN : Nat) :
    allCoords isMatrix dofN (g :: gs) = allCoords isMatrix dofN gs ∧ allData (g :: gs) = allData gs := by
  simp [allCoords, allData, contributing, List.filter_cons, h]

/-- **Renumbering.** Renumbering the nodes by an injective map π permutes the assembled
system accordingly: `K'[σ i, σ j] = K[i, j]` with σ(n·dofN + d) = π(n)·dofN + d, and
changes nothing else (stated on the scatter-add, which the assembly equals). -/
theorem renumbering (dofN : Nat) (hd : 0 < dofN) (π : Nat → Nat) (hπ : Function.Injective π)
    (connect : List (List Nat)) (w : List α) (i j : Nat) :
    scatterAdd (coords true dofN (connect.map (·.map π))) w (dofMap dofN π i) (dofMap dofN π j)
      = scatterAdd (coords true dofN connect) w i j := by
  rw [coords_renumber]
  simp only [if_true]
  exact scatterAdd_renumber (dofMap dofN π) (dofMap_injective hd hπ) _ w i j

/-! ### the cached reduction map -/

/-- the cache key of `__Get_csr_map`; group objects are represented by their (immutable)
connectivity -/
structure Key where
  dofN : Nat
  isMatrix : Bool
  ndof : Nat
  groups : List (List (List Nat))
  deriving DecidableEq

/-- what `__Get_csr_map` computes for a key -/
def compute (k : Key) : Nat × List Nat × List Nat :=
  csrMap k.isMatrix k.ndof (k.groups.flatMap (coords k.isMatrix k.dofN))

abbrev Cache := List (Key × (Nat × List Nat × List Nat))

/-- `@cache_computed_values`: return the stored map when the key is present, else compute and store -/
def cacheGet (c : Cache) (k : Key) : (Nat × List Nat × List Nat) × Cache :=
  match c.lookup k with
  | some v => (v, c)
  | none => (compute k, (k, compute k) :: c)

def CacheValid (c : Cache) : Prop := ∀ kv ∈ c, kv.2 = compute kv.1

/-- A later assembly that reuses the cached pattern uses exactly the map a first assembly
would compute, and the cache stays valid: for ANY sequence of assemblies with any keys
(changing dofs per node, matrix/vector, total size after a Lagrange condition, groups). -/
theorem cached_eq_fresh (c : Cache) (hc : CacheValid c) (k : Key) :
    (cacheGet c k).1 = compute k ∧ CacheValid (cacheGet c k).2 := by
  unfold cacheGet
  cases hl : c.lookup k with
  | none =>
    refine ⟨rfl, ?_⟩
    intro kv hkv
    rcases List.mem_cons.mp hkv with rfl | h
    · rfl
    · exact hc kv h
  | some v =>
    refine ⟨?_, hc⟩
    have hmem : (k, v) ∈ c := by
      induction c with
      | nil => simp [List.lookup] at hl
      | cons x xs ih =>
        simp only [List.lookup] at hl
        split at hl
        · rename_i heq
          have : k = x.1 := by simpa using heq
          have hv : x.2 = v := by simpa using hl
          rw [this, ← hv]; simp
        · exact List.mem_cons_of_mem _ (ih (fun kv h => hc kv (List.mem_cons_of_mem _ h)) hl)
    exact hc (k, v) hmem

theorem cache_history (ks : List Key) :
    CacheValid (ks.foldl (fun c k => (cacheGet c k).2) ([] : Cache)) := by
  have : ∀ (c : Cache), CacheValid c → CacheValid (ks.foldl (fun c k => (cacheGet c k).2) c) := by
    induction ks with
    | nil => intro c hc; exact hc
    | cons k ks ih => intro c hc; exact ih _ (cached_eq_fresh c hc k).2
  exact this [] (by intro kv h; simp at h)

/-! ### non-vacuity: two triangles sharing an edge, 1 dof per node, integer values -/

def demo : List (ElemGroup Int) :=
  [{ connect := [[0, 1, 2], [1, 3, 2]], data := some [[1, 2, 3, 4, 5, 6, 7, 8, 9], [10, 20, 30, 40, 50, 60, 70, 80, 90]] },
   { connect := [[0, 1]], data := none }]

example : (assembleCsr true 1 4 demo).get 1 2 = 6 + 30 ∧ (assembleCsr true 1 4 demo).get 3 0 = 0
    ∧ (assembleCsr true 1 4 demo).get 2 2 = 9 + 90 := by decide

/-! ### machine integers: the statements of `_Get_assembly_e` and `__Get_csr_map` compute in int64 (Gen/C03/Forms.lean);
the model computes in ℕ. A `w`-bit computation returns the value modulo `2^w`. -/

/-- a dof number computed in `w` bits is the model's dof number as soon as it fits -/
theorem dof_exact_if_fits (w node dofN d : Nat) (h : node * dofN + d < 2 ^ w) : (node * dofN + d) % 2 ^ w = node * dofN + d :=
  Nat.mod_eq_of_lt h

/-- every dof number of a system scipy can index (`Ndof ≤ 2^31`, 32-bit index arrays) fits in the 63 value bits of int64 -/
theorem dof_fits_int64 (ndof node dofN d : Nat) (hsys : ndof ≤ 2 ^ 31) (hd : node * dofN + d < ndof) : node * dofN + d < 2 ^ 63 := by
  have : (2 : Nat) ^ 31 < 2 ^ 63 := by norm_num
  omega

/-- the linear key `row * ncol + col` of `__Get_csr_map` fits in int64 for every such system -/
theorem key_fits_int64 (ndof r c : Nat) (hsys : ndof ≤ 2 ^ 31) (hr : r < ndof) (hc : c < ndof) : r * ndof + c < 2 ^ 63 := by
  have h1 : r * ndof ≤ 2 ^ 31 * 2 ^ 31 := Nat.mul_le_mul (by omega) hsys
  have h2 : (2 : Nat) ^ 31 * 2 ^ 31 + 2 ^ 31 < 2 ^ 63 := by norm_num
  omega

/-- the key determines the coefficient: no two entries of the matrix share a key (no wrap-around, hence no misplacement) -/
theorem key_injective (ndof r c r' c' : Nat) (hc : c < ndof) (hc' : c' < ndof) (h : r * ndof + c = r' * ndof + c') : r = r' ∧ c = c' := by
  have hpos : 0 < ndof := by omega
  have e1 : (r * ndof + c) / ndof = r := by
    rw [Nat.mul_comm, Nat.mul_add_div hpos, Nat.div_eq_of_lt hc, Nat.add_zero]
  have e2 : (r' * ndof + c') / ndof = r' := by
    rw [Nat.mul_comm, Nat.mul_add_div hpos, Nat.div_eq_of_lt hc', Nat.add_zero]
  have hr : r = r' := by rw [← e1, ← e2, h]
  subst hr
  exact ⟨rfl, by omega⟩

/-- the dof numbering is injective on (node, component) -/
theorem dof_injective (dofN n d n' d' : Nat) (hd : d < dofN) (hd' : d' < dofN) (h : n * dofN + d = n' * dofN + d') : n = n' ∧ d = d' :=
  key_injective dofN n d n' d' hd hd' h

/-- before the `fix:` commit 5f55a2c the dof numbers were computed in the integer type of the connectivity. In 16 bits
(uint16 connectivity, 25921 nodes, 3 dofs per node) two different (node, component) pairs get the same number: entries of
different rows are added together -/
theorem uint16_dof_numbers_collide :
    (25920 * 3 + 0) % 2 ^ 16 = (4074 * 3 + 2) % 2 ^ 16 ∧ (25920, 0) ≠ (4074, 2) ∧ 25920 < 25921 ∧ 25920 < 2 ^ 16 := by
  decide

/-- seed C03_F (dof numbers and keys in int32): for Ndof = 51842 the key of an entry of row 41424 exceeds 2^31 -/
theorem int32_key_overflows : 41424 * 51842 + 0 ≥ 2 ^ 31 ∧ 41424 < 51842 ∧ 51842 ≤ 2 ^ 31 := by decide

/-- the statements the model and the theorems below were written from (regenerated on every run) -/
theorem assemblyForms_spec : (EasyFEAVerif.Gen.C03.assemblyForms.map Prod.fst) = ["_Get_assembly_e", "Get_rows_e", "Get_columns_e", "__Get_csr_map"] ∧
    (EasyFEAVerif.Gen.C03.assemblyForms.lookup "_Get_assembly_e").map (fun l => l.contains "connect = np.asarray(connect, dtype=np.int64)" && l.contains "assembly = np.zeros((Ne, ndof), dtype=np.int64)") = some true ∧
    (EasyFEAVerif.Gen.C03.assemblyForms.lookup "__Get_csr_map").map (fun l => l.contains "inv = np.searchsorted(canon, rows.astype(np.int64) * ncol + cols).astype(np.int32)") = some true := by
  decide

end EasyFEAVerif.Props.C03
