/-
Property C08 — geometry, orientation and point location.

Proved (for all inputs):
  * the matrix built by `_Rotation_matrix` (translated from the source) is orthogonal for every unit axis and
    every angle; the map of `Symmetry` is an orthogonal involution (Householder); so `Rotate`, `Symmetry`,
    `Translate` are rigid motions / reflections, and by C10 `det_moved` every element keeps `|det F|`:
    measures, weighted Jacobians and masses are unchanged;
  * the normal the code computes on a straight boundary segment, `n dS = z × (q − p)`: over any closed chain
    `Σ n dS = 0`, and the flux of the position vector is `−2 × signed area` — *inward* for a counter-clockwise
    contour — and mirroring reverses the sign of the signed area. Hence "outward before and after the mesh is
    mirrored" is REFUTED on the model (`outward_not_preserved_by_mirror`), with the unit square as witness;
    the witness is replayed on the real code by the harness (known finding: the code documents
    `Get_normals_e_pg` as sign-ambiguous);
  * point location: the affine inverse map round-trips exactly; and for ANY isoparametric element (curved or
    non-parallelogram), once the located `ξ` reproduces the point (`x = Σ N_i(ξ) x_i`), the evaluated field
    reproduces every linear field exactly (partition of unity);
  * the `faces` tables of the eight 3D element types (translated from the source; the boundary reconstruction of
    `MeshIO.Surface_reconstruction` creates the boundary elements from them): every face is a supporting plane of the
    reference element holding exactly the listed nodes, numbered as the TRI / QUAD face element expects, turning
    counter-clockwise seen from outside, and the area vectors add up to zero (`face_tables_checked`); outwardness
    and closure carry over to every affine image with positive Jacobian (`outward_mapped`, `closure_mapped`) and
    outwardness is reversed by a negative one (`inward_mirrored`: mirrored elements keep their connectivity). Higher-order reproduction on straight-sided
    elements is C06 `reproduces` composed with the affine map; it is exercised by the harness, not restated.
-/
import EasyFEAVerif.Gen.C08.Movers
import EasyFEAVerif.Gen.C08.Faces
import EasyFEAVerif.Gen.C06.All
import EasyFEAVerif.Model.Faces
import Mathlib.LinearAlgebra.CrossProduct
import EasyFEAVerif.Props.C10
import Mathlib.Tactic.LinearCombination
import Mathlib.Tactic.FinCases
import Mathlib.Tactic.Ring
import Mathlib.Tactic.Linarith
import Mathlib.Algebra.BigOperators.Group.List.Basic
import Mathlib.Data.List.Rotate

set_option linter.unusedSectionVars false
set_option linter.unusedSimpArgs false

namespace EasyFEAVerif.Props.C08

open Matrix Finset EasyFEAVerif.Gen

theorem forms_spec : (C08.forms.map Prod.fst) = ["Rotate", "Symmetry", "Translate", "Get_normals_e_pg", "Get_jacobian_e_pg", "Geom.Translate", "Geom.Rotate", "Geom.Symmetry"] := rfl

/-! ### the movers are orthogonal -/

section movers
variable {K : Type*} [Field K]

/-- **`_Rotation_matrix` is orthogonal** for every unit axis `(x, y, z)` and every `(c, s) = (cos θ, sin θ)` -/
theorem rotMat_orthogonal (x y z c s : K) (hn : x * x + y * y + z * z = 1) (hcs : c * c + s * s = 1) :
    (C08.rotMat x y z c s)ᵀ * C08.rotMat x y z c s = 1 := by
  ext i j
  fin_cases i <;> fin_cases j <;>
    simp [C08.rotMat, Matrix.mul_apply, Fin.sum_univ_three, Matrix.transpose_apply, Matrix.one_apply]
  · linear_combination (1 - x * x) * hcs + (s * s + (1 - c) * (1 - c) * (x * x)) * hn
  · linear_combination (-(x * y)) * hcs + ((1 - c) * (1 - c) * (x * y)) * hn
  · linear_combination (-(x * z)) * hcs + ((1 - c) * (1 - c) * (x * z)) * hn
  · linear_combination (-(y * x)) * hcs + ((1 - c) * (1 - c) * (y * x)) * hn
  · linear_combination (1 - y * y) * hcs + (s * s + (1 - c) * (1 - c) * (y * y)) * hn
  · linear_combination (-(y * z)) * hcs + ((1 - c) * (1 - c) * (y * z)) * hn
  · linear_combination (-(z * x)) * hcs + ((1 - c) * (1 - c) * (z * x)) * hn
  · linear_combination (-(z * y)) * hcs + ((1 - c) * (1 - c) * (z * y)) * hn
  · linear_combination (1 - z * z) * hcs + (s * s + (1 - c) * (1 - c) * (z * z)) * hn

/-- the linear part of `Symmetry`: `x ↦ x − 2 (x·n) n` -/
def mirrorMat {d : ℕ} (n : Fin d → K) : Matrix (Fin d) (Fin d) K := 1 - (2 : K) • Matrix.vecMulVec n n

/-- **`Symmetry` is an orthogonal involution** for a unit normal -/
theorem mirror_orthogonal {d : ℕ} (n : Fin d → K) (hn : n ⬝ᵥ n = 1) : (mirrorMat n)ᵀ * mirrorMat n = 1 := by
  have hsym : (mirrorMat n)ᵀ = mirrorMat n := by
    ext i j; simp [mirrorMat, Matrix.vecMulVec_apply, mul_comm, Matrix.one_apply, eq_comm]
  have hvv : Matrix.vecMulVec n n * Matrix.vecMulVec n n = Matrix.vecMulVec n n := by
    ext i j
    simp only [Matrix.mul_apply, Matrix.vecMulVec_apply]
    have : ∑ k, n i * n k * (n k * n j) = n i * (∑ k, n k * n k) * n j := by
      rw [mul_sum, sum_mul]; exact sum_congr rfl fun k _ => by ring
    rw [this]
    have h1 : ∑ k, n k * n k = 1 := hn
    rw [h1]; ring
  rw [hsym]
  unfold mirrorMat
  rw [Matrix.sub_mul, Matrix.mul_sub, Matrix.mul_sub, Matrix.one_mul, Matrix.mul_one, Matrix.one_mul,
    Matrix.smul_mul, Matrix.mul_smul, hvv, smul_smul]
  ext i j
  simp only [Matrix.sub_apply, Matrix.smul_apply, Matrix.one_apply, smul_eq_mul]
  ring

end movers

/-- **measures are unchanged by rigid motions and reflections**: `|det F'| = |det F|` at every Gauss point of every
element (the code takes `np.abs(Det(F))`) -/
theorem abs_det_moved {d : ℕ} {Nd : Type*} [Fintype Nd] [DecidableEq Nd]
    (dN : Matrix (Fin d) Nd ℝ) (x : Matrix Nd (Fin d) ℝ) (Q : Matrix (Fin d) (Fin d) ℝ) (t : Fin d → ℝ)
    (hsum : ∀ k, ∑ i, dN k i = 0) (hQ : Qᵀ * Q = 1) :
    |(Patch.jac dN (C10.moved x Q t)).det| = |(Patch.jac dN x).det| := by
  have h := C10.det_moved dN x Q t hsum hQ
  exact abs_eq_abs.mpr (mul_self_eq_mul_self_iff.mp h)

/-! ### normals of a closed chain of straight segments (the formula of the code: `n dS = z × (q − p)`) -/

section normals
variable {K : Type*} [Field K]

abbrev Pt (K : Type*) := K × K

/-- `np.cross((0, 0, 1), q − p)`: the normal of the segment `p → q` times its length -/
def segNormal (p q : Pt K) : Pt K := (-(q.2 - p.2), q.1 - p.1)

/-- edges of the closed chain through the points of `l` -/
def edges (l : List (Pt K)) : List (Pt K × Pt K) := List.zip l (l.rotate 1)

/-- `Σ_e ∫ n dS` -/
def normalSum (l : List (Pt K)) : Pt K :=
  (((edges l).map fun e => (segNormal e.1 e.2).1).sum, ((edges l).map fun e => (segNormal e.1 e.2).2).sum)

/-- `Σ_e ∫ x · n dS` (exact for straight segments: the midpoint rule) -/
def flux (l : List (Pt K)) : K :=
  ((edges l).map fun e => ((e.1.1 + e.2.1) / 2) * (segNormal e.1 e.2).1 + ((e.1.2 + e.2.2) / 2) * (segNormal e.1 e.2).2).sum

/-- shoelace formula: twice the signed area (positive for a counter-clockwise contour) -/
def twiceArea (l : List (Pt K)) : K := ((edges l).map fun e => e.1.1 * e.2.2 - e.2.1 * e.1.2).sum

theorem list_sum_neg {α : Type*} (l : List α) (f : α → K) : (l.map fun a => - f a).sum = - (l.map f).sum := by
  induction l with
  | nil => simp
  | cons a l ih => simp only [List.map_cons, List.sum_cons, ih]; ring

theorem flux_eq_neg_twiceArea [NeZero (2 : K)] (l : List (Pt K)) : flux l = - twiceArea l := by
  unfold flux twiceArea
  rw [← list_sum_neg]
  congr 1
  refine List.map_congr_left fun e _ => ?_
  have h2 : (2 : K) ≠ 0 := NeZero.ne 2
  simp only [segNormal]
  field_simp
  ring

private theorem sum_zip_rotate (l : List (Pt K)) (f : Pt K → K) :
    ((List.zip l (l.rotate 1)).map fun e => f e.2 - f e.1).sum = 0 := by
  have hlen : (l.rotate 1).length = l.length := List.length_rotate l 1
  have h1 : ((List.zip l (l.rotate 1)).map fun e => f e.2 - f e.1)
      = List.zipWith (fun a b => f b - f a) l (l.rotate 1) := by
    rw [List.zip, List.map_zipWith]
  rw [h1]
  have h2 : ∀ (a b : List (Pt K)), a.length = b.length →
      (List.zipWith (fun p q => f q - f p) a b).sum = (b.map f).sum - (a.map f).sum := by
    intro a
    induction a with
    | nil => intro b hb; cases b <;> simp_all
    | cons x xs ih =>
      intro b hb
      cases b with
      | nil => simp at hb
      | cons y ys =>
        simp only [List.zipWith_cons_cons, List.sum_cons, List.map_cons]
        rw [ih ys (by simpa using hb)]
        ring
  rw [h2 l (l.rotate 1) hlen.symm]
  have : ((l.rotate 1).map f).sum = (l.map f).sum := by
    rw [List.map_rotate]
    exact (List.rotate_perm _ 1).sum_eq
  rw [this, sub_self]

/-- **closure**: over any closed chain the normals integrate to zero -/
theorem normalSum_closed (l : List (Pt K)) : normalSum l = (0, 0) := by
  unfold normalSum edges segNormal
  have hx := sum_zip_rotate l (fun p : Pt K => p.1)
  have hy := sum_zip_rotate l (fun p : Pt K => p.2)
  ext
  · simp only
    rw [list_sum_neg (List.zip l (l.rotate 1)) (fun e => e.2.2 - e.1.2), hy, neg_zero]
  · simpa using hx

/-- mirror image of the contour through the axis `x = 0` -/
def mirrorX (l : List (Pt K)) : List (Pt K) := l.map fun p => (-p.1, p.2)

theorem twiceArea_mirror (l : List (Pt K)) : twiceArea (mirrorX l) = - twiceArea l := by
  unfold twiceArea edges mirrorX
  rw [← List.map_rotate, List.zip_map, List.map_map, ← list_sum_neg]
  congr 1
  refine List.map_congr_left fun e _ => ?_
  simp only [Function.comp, Prod.map]
  ring

end normals

/-- **"outward before and after the mesh is mirrored" cannot hold** for the formula of the code: if the flux of the
position vector through a closed contour is positive (outward normals), it is negative for the mirrored contour -/
theorem outward_not_preserved_by_mirror (l : List (Pt ℝ)) (h : 0 < flux l) : flux (mirrorX l) < 0 := by
  rw [flux_eq_neg_twiceArea, twiceArea_mirror, neg_neg]
  rw [flux_eq_neg_twiceArea] at h
  linarith

/-- witness replayed on the real code: the unit square listed counter-clockwise has flux `−2` (normals inward) -/
example : flux ([(0, 0), (1, 0), (1, 1), (0, 1)] : List (Pt ℚ)) = -2 ∧ normalSum ([(0, 0), (1, 0), (1, 1), (0, 1)] : List (Pt ℚ)) = (0, 0) := by
  constructor <;> simp [flux, normalSum, edges, segNormal, List.rotate] <;> norm_num

/-! ### point location -/

section location
variable {K : Type*} [Field K] {d : ℕ}

/-- the affine inverse map `ξ = ξ₀ + (x − x₀) F⁻¹` (row-vector convention of the code) round-trips -/
theorem affine_inverse_roundtrip (F : Matrix (Fin d) (Fin d) K) (hF : F.det ≠ 0) (x0 xi0 xi : Fin d → K) :
    xi0 + Matrix.vecMul ((x0 + Matrix.vecMul (xi - xi0) F) - x0) F⁻¹ = xi := by
  rw [add_sub_cancel_left, Matrix.vecMul_vecMul, Matrix.mul_nonsing_inv _ (isUnit_iff_ne_zero.mpr hF), Matrix.vecMul_one]
  abel

/-- **evaluation at a located point reproduces linear fields** on any isoparametric element: with
`Σ_i N_i(ξ) = 1` (C06) and `x = Σ_i N_i(ξ) x_i` (the located `ξ` has zero residual),
`Σ_i N_i(ξ) (a + g·x_i) = a + g·x` -/
theorem located_linear_field {Nd : Type*} [Fintype Nd] (N : Nd → K) (xn : Nd → Fin d → K) (x : Fin d → K)
    (hN : ∑ i, N i = 1) (hx : ∀ k, ∑ i, N i * xn i k = x k) (a : K) (g : Fin d → K) :
    ∑ i, N i * (a + ∑ k, g k * xn i k) = a + ∑ k, g k * x k := by
  simp_rw [mul_add, sum_add_distrib, ← sum_mul, hN, one_mul]
  congr 1
  simp_rw [mul_sum]
  rw [sum_comm]
  refine sum_congr rfl fun k _ => ?_
  rw [← hx k, mul_sum]
  exact sum_congr rfl fun i _ => by ring

end location

/-! ### face tables of the 3D elements (boundary reconstruction) -/

/-- every `faces` table translated from the source passes the exact reference-element check of `Model/Faces.lean`:
faces are supporting planes holding exactly their nodes, corner / mid-edge / centre numbering of the face element,
counter-clockwise seen from outside (outward area vector), area vectors summing to zero -/
theorem face_tables_checked : ∀ p ∈ Gen.C08.faces, Faces.tableOK Gen.C06.allElems p = true := by
  decide +kernel

/-- the eight 3D element types all have a table -/
theorem face_tables_complete : Gen.C08.faces.map (·.1) = ["TETRA4", "TETRA10", "HEXA8", "HEXA20", "HEXA27", "PRISM6", "PRISM15", "PRISM18"] := by
  decide

/-- the check is not vacuous: the PRISM18 table with its bottom triangle listed the other way round is rejected -/
example : Faces.tableOK Gen.C06.allElems ("PRISM18", [[0, 1, 4, 3, 6, 10, 12, 8, 15], [0, 3, 5, 2, 8, 13, 11, 7, 16],
    [1, 2, 5, 4, 9, 11, 14, 10, 17], [3, 4, 5, 12, 14, 13], [0, 1, 2, 6, 9, 7]]) = false := by
  decide +kernel

section faces
variable {K : Type*} [CommRing K]

/-- cofactor matrix of a 3 × 3 matrix -/
def cof (A : Matrix (Fin 3) (Fin 3) K) : Matrix (Fin 3) (Fin 3) K :=
  !![A 1 1 * A 2 2 - A 1 2 * A 2 1, A 1 2 * A 2 0 - A 1 0 * A 2 2, A 1 0 * A 2 1 - A 1 1 * A 2 0;
     A 2 1 * A 0 2 - A 2 2 * A 0 1, A 2 2 * A 0 0 - A 2 0 * A 0 2, A 2 0 * A 0 1 - A 2 1 * A 0 0;
     A 0 1 * A 1 2 - A 0 2 * A 1 1, A 0 2 * A 1 0 - A 0 0 * A 1 2, A 0 0 * A 1 1 - A 0 1 * A 1 0]

/-- the area vector of a mapped face is the cofactor matrix applied to the reference one -/
theorem cross_mulVec (A : Matrix (Fin 3) (Fin 3) K) (u v : Fin 3 → K) :
    A.mulVec u ⨯₃ A.mulVec v = (cof A).mulVec (u ⨯₃ v) := by
  ext i
  fin_cases i <;>
    simp [cof, cross_apply, dotProduct, Fin.sum_univ_three, Matrix.mulVec] <;> ring

/-- faces that close the reference element close every affine image of it: `Σ_f (A u_f) × (A v_f) = 0` -/
theorem closure_mapped {ι : Type*} (s : Finset ι) (A : Matrix (Fin 3) (Fin 3) K) (u v : ι → Fin 3 → K)
    (h : ∑ f ∈ s, u f ⨯₃ v f = 0) : ∑ f ∈ s, A.mulVec (u f) ⨯₃ A.mulVec (v f) = 0 := by
  simp_rw [cross_mulVec]
  rw [← Matrix.mulVec_sum, h, Matrix.mulVec_zero]

theorem triple_mulVec (A : Matrix (Fin 3) (Fin 3) K) (u v w : Fin 3 → K) :
    (A.mulVec u ⨯₃ A.mulVec v) ⬝ᵥ A.mulVec w = A.det * ((u ⨯₃ v) ⬝ᵥ w) := by
  simp [cross_apply, Matrix.det_fin_three, dotProduct, Fin.sum_univ_three, Matrix.mulVec]
  ring

end faces

section facesOrdered
variable {K : Type*} [Field K] [LinearOrder K] [IsStrictOrderedRing K]

/-- a face that is outward on the reference element (`(u × v)·d > 0`, `d` from the element centre to the face) is outward
on every affine image with positive Jacobian -/
theorem outward_mapped (A : Matrix (Fin 3) (Fin 3) K) (hA : 0 < A.det) (u v d : Fin 3 → K) (h : 0 < (u ⨯₃ v) ⬝ᵥ d) :
    0 < (A.mulVec u ⨯₃ A.mulVec v) ⬝ᵥ A.mulVec d := by
  rw [triple_mulVec]; exact mul_pos hA h

/-- … and inward on every image with negative Jacobian: `Mesh.Symmetry` keeps the connectivity, so the reconstructed
boundary of a mirrored mesh points inward (same finding as the 2D one) -/
theorem inward_mirrored (A : Matrix (Fin 3) (Fin 3) K) (hA : A.det < 0) (u v d : Fin 3 → K) (h : 0 < (u ⨯₃ v) ⬝ᵥ d) :
    (A.mulVec u ⨯₃ A.mulVec v) ⬝ᵥ A.mulVec d < 0 := by
  rw [triple_mulVec]; exact mul_neg_of_neg_of_pos hA h

end facesOrdered

end EasyFEAVerif.Props.C08
