/-
Property C08 — geometry, orientation and point location.

Proved (for all inputs):
  * the matrix built by `_Rotation_matrix` (translated from the source) is orthogonal for every unit axis and
    every angle; the map of `Symmetry` is an orthogonal involution (Householder); so `Rotate`, `Symmetry`,
    `Translate` are rigid motions / reflections, and by C10 `det_moved` every element keeps `|det F|`:
    measures, weighted Jacobians and masses are unchanged;
  * the normal the code computes on a straight boundary segment, `n dS = z × (q − p)`: over any closed chain
    `Σ n dS = 0`, and the flux of the position vector is `−2 × signed area` — *inward* for a counter-clockwise
    contour — and mirroring reverses the sign of the signed area. Hence "outward before and after the mesh is
    mirrored" is REFUTED on the model (`outward_not_preserved_by_mirror`), with the unit square as witness;
    the witness is replayed on the real code by the harness (known finding: the code documents
    `Get_normals_e_pg` as sign-ambiguous);
  * point location: the affine inverse map round-trips exactly; and for ANY isoparametric element (curved or
    non-parallelogram), once the located `ξ` reproduces the point (`x = Σ N_i(ξ) x_i`), the evaluated field
    reproduces every linear field exactly (partition of unity). Higher-order reproduction on straight-sided
    elements is C06 `reproduces` composed with the affine map; it is exercised by the harness, not restated.
-/
import EasyFEAVerif.Gen.C08.Movers
import EasyFEAVerif.Props.C10
import Mathlib.Tactic.LinearCombination
import Mathlib.Tactic.FinCases
import Mathlib.Tactic.Ring
import Mathlib.Tactic.Linarith
import Mathlib.Algebra.BigOperators.Group.List.Basic
import Mathlib.Data.List.Rotate

set_option linter.unusedSectionVars false
set_option linter.unusedSimpArgs false

namespace EasyFEAVerif.Props.C08

open Matrix Finset EasyFEAVerif.Gen

theorem forms_spec : (C08.forms.map Prod.fst) = ["Rotate", "Symmetry", "Translate", "Get_normals_e_pg", "Get_jacobian_e_pg"] := rfl

/-! ### the movers are orthogonal -/

section movers
variable {K : Type*} [Field K]

/-- **`_Rotation_matrix` is orthogonal** for every unit axis `(x, y, z)` and every `(c, s) = (cos θ, sin θ)` -/
theorem rotMat_orthogonal (x y z c s : K) (hn : x * x + y * y + z * z = 1) (hcs : c * c + s * s = 1) :
    (C08.rotMat x y z c s)ᵀ * C08.rotMat x y z c s = 1 := by
  ext i j
  fin_cases i <;> fin_cases j <;>
    simp [C08.rotMat, Matrix.mul_apply, Fin.sum_univ_three, Matrix.transpose_apply, Matrix.one_apply]
  · linear_combination (1 - x * x) * hcs + (s * s + (1 - c) * (1 - c) * (x * x)) * hn
  · linear_combination (-(x * y)) * hcs + ((1 - c) * (1 - c) * (x * y)) * hn
  · linear_combination (-(x * z)) * hcs + ((1 - c) * (1 - c) * (x * z)) * hn
  · linear_combination (-(y * x)) * hcs + ((1 - c) * (1 - c) * (y * x)) * hn
  · linear_combination (1 - y * y) * hcs + (s * s + (1 - c) * (1 - c) * (y * y)) * hn
  · linear_combination (-(y * z)) * hcs + ((1 - c) * (1 - c) * (y * z)) * hn
  · linear_combination (-(z * x)) * hcs + ((1 - c) * (1 - c) * (z * x)) * hn
  · linear_combination (-(z * y)) * hcs + ((1 - c) * (1 - c) * (z * y)) * hn
  · linear_combination (1 - z * z) * hcs + (s * s + (1 - c) * (1 - c) * (z * z)) * hn

/-- the linear part of `Symmetry`: `x ↦ x − 2 (x·n) n` -/
def mirrorMat {d : ℕ} (n : Fin d → K) : Matrix (Fin d) (Fin d) K := 1 - (2 : K) • Matrix.vecMulVec n n

/-- **`Symmetry` is an orthogonal involution** for a unit normal -/
theorem mirror_orthogonal {d : ℕ} (n : Fin d → K) (hn : n ⬝ᵥ n = 1) : (mirrorMat n)ᵀ * mirrorMat n = 1 := by
  have hsym : (mirrorMat n)ᵀ = mirrorMat n := by
    ext i j; simp [mirrorMat, Matrix.vecMulVec_apply, mul_comm, Matrix.one_apply, eq_comm]
  have hvv : Matrix.vecMulVec n n * Matrix.vecMulVec n n = Matrix.vecMulVec n n := by
    ext i j
    simp only [Matrix.mul_apply, Matrix.vecMulVec_apply]
    have : ∑ k, n i * n k * (n k * n j) = n i * (∑ k, n k * n k) * n j := by
      rw [mul_sum, sum_mul]; exact sum_congr rfl fun k _ => by ring
    rw [this]
    have h1 : ∑ k, n k * n k = 1 := hn
    rw [h1]; ring
  rw [hsym]
  unfold mirrorMat
  rw [Matrix.sub_mul, Matrix.mul_sub, Matrix.mul_sub, Matrix.one_mul, Matrix.mul_one, Matrix.one_mul,
    Matrix.smul_mul, Matrix.mul_smul, hvv, smul_smul]
  ext i j
  simp only [Matrix.sub_apply, Matrix.smul_apply, Matrix.one_apply, smul_eq_mul]
  ring

end movers

/-- **measures are unchanged by rigid motions and reflections**: `|det F'| = |det F|` at every Gauss point of every
element (the code takes `np.abs(Det(F))`) -/
theorem abs_det_moved {d : ℕ} {Nd : Type*} [Fintype Nd] [DecidableEq Nd]
    (dN : Matrix (Fin d) Nd ℝ) (x : Matrix Nd (Fin d) ℝ) (Q : Matrix (Fin d) (Fin d) ℝ) (t : Fin d → ℝ)
    (hsum : ∀ k, ∑ i, dN k i = 0) (hQ : Qᵀ * Q = 1) :
    |(Patch.jac dN (C10.moved x Q t)).det| = |(Patch.jac dN x).det| := by
  have h := C10.det_moved dN x Q t hsum hQ
  exact abs_eq_abs.mpr (mul_self_eq_mul_self_iff.mp h)

/-! ### normals of a closed chain of straight segments (the formula of the code: `n dS = z × (q − p)`) -/

section normals
variable {K : Type*} [Field K]

abbrev Pt (K : Type*) := K × K

/-- `np.cross((0, 0, 1), q − p)`: the normal of the segment `p → q` times its length -/
def segNormal (p q : Pt K) : Pt K := (-(q.2 - p.2), q.1 - p.1)

/-- edges of the closed chain through the points of `l` -/
def edges (l : List (Pt K)) : List (Pt K × Pt K) := List.zip l (l.rotate 1)

/-- `Σ_e ∫ n dS` -/
def normalSum (l : List (Pt K)) : Pt K :=
  (((edges l).map fun e => (segNormal e.1 e.2).1).sum, ((edges l).map fun e => (segNormal e.1 e.2).2).sum)

/-- `Σ_e ∫ x · n dS` (exact for straight segments: the midpoint rule) -/
def flux (l : List (Pt K)) : K :=
  ((edges l).map fun e => ((e.1.1 + e.2.1) / 2) * (segNormal e.1 e.2).1 + ((e.1.2 + e.2.2) / 2) * (segNormal e.1 e.2).2).sum

/-- shoelace formula: twice the signed area (positive for a counter-clockwise contour) -/
def twiceArea (l : List (Pt K)) : K := ((edges l).map fun e => e.1.1 * e.2.2 - e.2.1 * e.1.2).sum

theorem list_sum_neg {α : Type*} (l : List α) (f : α → K) : (l.map fun a => - f a).sum = - (l.map f).sum := by
  induction l with
  | nil => simp
  | cons a l ih => simp only [List.map_cons, List.sum_cons, ih]; ring

theorem flux_eq_neg_twiceArea [NeZero (2 : K)] (l : List (Pt K)) : flux l = - twiceArea l := by
  unfold flux twiceArea
  rw [← list_sum_neg]
  congr 1
  refine List.map_congr_left fun e _ => ?_
  have h2 : (2 : K) ≠ 0 := NeZero.ne 2
  simp only [segNormal]
  field_simp
  ring

private theorem sum_zip_rotate (l : List (Pt K)) (f : Pt K → K) :
    ((List.zip l (l.rotate 1)).map fun e => f e.2 - f e.1).sum = 0 := by
  have hlen : (l.rotate 1).length = l.length := List.length_rotate l 1
  have h1 : ((List.zip l (l.rotate 1)).map fun e => f e.2 - f e.1)
      = List.zipWith (fun a b => f b - f a) l (l.rotate 1) := by
    rw [List.zip, List.map_zipWith]
  rw [h1]
  have h2 : ∀ (a b : List (Pt K)), a.length = b.length →
      (List.zipWith (fun p q => f q - f p) a b).sum = (b.map f).sum - (a.map f).sum := by
    intro a
    induction a with
    | nil => intro b hb; cases b <;> simp_all
    | cons x xs ih =>
      intro b hb
      cases b with
      | nil => simp at hb
      | cons y ys =>
        simp only [List.zipWith_cons_cons, List.sum_cons, List.map_cons]
        rw [ih ys (by simpa using hb)]
        ring
  rw [h2 l (l.rotate 1) hlen.symm]
  have : ((l.rotate 1).map f).sum = (l.map f).sum := by
    rw [List.map_rotate]
    exact (List.rotate_perm _ 1).sum_eq
  rw [this, sub_self]

/-- **closure**: over any closed chain the normals integrate to zero -/
theorem normalSum_closed (l : List (Pt K)) : normalSum l = (0, 0) := by
  unfold normalSum edges segNormal
  have hx := sum_zip_rotate l (fun p : Pt K => p.1)
  have hy := sum_zip_rotate l (fun p : Pt K => p.2)
  ext
  · simp only
    rw [list_sum_neg (List.zip l (l.rotate 1)) (fun e => e.2.2 - e.1.2), hy, neg_zero]
  · simpa using hx

/-- mirror image of the contour through the axis `x = 0` -/
def mirrorX (l : List (Pt K)) : List (Pt K) := l.map fun p => (-p.1, p.2)

theorem twiceArea_mirror (l : List (Pt K)) : twiceArea (mirrorX l) = - twiceArea l := by
  unfold twiceArea edges mirrorX
  rw [← List.map_rotate, List.zip_map, List.map_map, ← list_sum_neg]
  congr 1
  refine List.map_congr_left fun e _ => ?_
  simp only [Function.comp, Prod.map]
  ring

end normals

/-- **"outward before and after the mesh is mirrored" cannot hold** for the formula of the code: if the flux of the
position vector through a closed contour is positive (outward normals), it is negative for the mirrored contour -/
theorem outward_not_preserved_by_mirror (l : List (Pt ℝ)) (h : 0 < flux l) : flux (mirrorX l) < 0 := by
  rw [flux_eq_neg_twiceArea, twiceArea_mirror, neg_neg]
  rw [flux_eq_neg_twiceArea] at h
  linarith

/-- witness replayed on the real code: the unit square listed counter-clockwise has flux `−2` (normals inward) -/
example : flux ([(0, 0), (1, 0), (1, 1), (0, 1)] : List (Pt ℚ)) = -2 ∧ normalSum ([(0, 0), (1, 0), (1, 1), (0, 1)] : List (Pt ℚ)) = (0, 0) := by
  constructor <;> simp [flux, normalSum, edges, segNormal, List.rotate] <;> norm_num

/-! ### point location -/

section location
variable {K : Type*} [Field K] {d : ℕ}

/-- the affine inverse map `ξ = ξ₀ + (x − x₀) F⁻¹` (row-vector convention of the code) round-trips -/
theorem affine_inverse_roundtrip (F : Matrix (Fin d) (Fin d) K) (hF : F.det ≠ 0) (x0 xi0 xi : Fin d → K) :
    xi0 + Matrix.vecMul ((x0 + Matrix.vecMul (xi - xi0) F) - x0) F⁻¹ = xi := by
  rw [add_sub_cancel_left, Matrix.vecMul_vecMul, Matrix.mul_nonsing_inv _ (isUnit_iff_ne_zero.mpr hF), Matrix.vecMul_one]
  abel

/-- **evaluation at a located point reproduces linear fields** on any isoparametric element: with
`Σ_i N_i(ξ) = 1` (C06) and `x = Σ_i N_i(ξ) x_i` (the located `ξ` has zero residual),
`Σ_i N_i(ξ) (a + g·x_i) = a + g·x` -/
theorem located_linear_field {Nd : Type*} [Fintype Nd] (N : Nd → K) (xn : Nd → Fin d → K) (x : Fin d → K)
    (hN : ∑ i, N i = 1) (hx : ∀ k, ∑ i, N i * xn i k = x k) (a : K) (g : Fin d → K) :
    ∑ i, N i * (a + ∑ k, g k * xn i k) = a + ∑ k, g k * x k := by
  simp_rw [mul_add, sum_add_distrib, ← sum_mul, hN, one_mul]
  congr 1
  simp_rw [mul_sum]
  rw [sum_comm]
  refine sum_congr rfl fun k _ => ?_
  rw [← hx k, mul_sum]
  exact sum_congr rfl fun i _ => by ring

end location

end EasyFEAVerif.Props.C08
