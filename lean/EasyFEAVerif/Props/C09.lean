/-
Property C09 — distributed loads are integrated to the correct resultant force and moment.

The structure of the code (einsum subscripts, reduction axis, dimension dispatch, thickness factor) is
extracted from the source on every run into `Gen/C09/Spec.lean`; the first block of theorems pins it
to what `Model/Loads.lean` implements, so a change of the code's contraction breaks a proof obligation.
The remaining theorems hold for every element (any number of nodes and Gauss points, any shape
functions with the partition of unity — proved for all 19 element types in `Props/C06`), every mesh,
every node selection, every density.
-/
import EasyFEAVerif.Model.Loads
import EasyFEAVerif.Gen.C09.Spec
import Mathlib.Tactic.Ring
import Mathlib.Tactic.FieldSimp
import Mathlib.Tactic.Linarith
import Mathlib.Algebra.BigOperators.Field
import Mathlib.Data.Fintype.BigOperators
import Mathlib.Data.Rat.Defs
import Mathlib.Data.Rat.Init
import Mathlib.Algebra.Order.Field.Rat
import Mathlib.Tactic.NormNum
import Mathlib.Algebra.CharZero.Defs
import Mathlib.Algebra.BigOperators.Fin
import Mathlib.Tactic.FinCases

set_option linter.unusedSectionVars false

namespace EasyFEAVerif.Props.C09

open Finset EasyFEAVerif.Loads EasyFEAVerif.Gen

/-! ### the code's contraction is the one the model reads -/

/-- constants and callables: density at the Gauss points, `f[e,n] = Σ_p wJ[e,p] q[e,p] N[p,n]` -/
theorem gauss_branch_spec :
    C09.gaussEinsums = ["ep,ep,pin->epn"] ∧ C09.gaussOperands = [["wJ_e_pg", "eval_e_p", "N_pg"]] ∧ C09.sumAxes = [1] :=
  ⟨rfl, rfl, rfl⟩

/-- nodal arrays: interpolated at the Gauss points (`q[e,p] = Σ_n q[e,n] N[p,n]`), then the same contraction -/
theorem nodal_branch_spec :
    C09.nodalEinsums = ["en,pin->ep", "ep,ep,pin->epn"] ∧
    C09.nodalOperands = [["eval_e", "N_pg"], ["wJ_e_pg", "eval_e_p", "N_pg"]] := ⟨rfl, rfl⟩

/-- a line load integrates segments, a surface load integrates segments × thickness in 2D and faces in 3D,
a volume load integrates faces × thickness in 2D and cells in 3D -/
theorem dispatch_spec :
    C09.dispatch = [("add_lineLoad", 0, 1, false), ("add_surfLoad", 2, 1, true), ("add_surfLoad", 3, 2, false),
                    ("add_volumeLoad", 2, 2, true), ("add_volumeLoad", 3, 3, false)] := rfl

/-- beams (Euler-Bernoulli): the rows of the Hermite matrix are first brought back to the global axes of the
unknowns (`Pᵀ N`), nodal arrays are interpolated with the Lagrange functions, then the density is contracted
with the row of the loaded unknown -/
theorem beam_spec : C09.beamEinsums = ["eji,epjn->epin", "en,pn->ep", "ep,ep,epn->epn"] := rfl

/-! ### one element -/

section element
variable {K : Type*} [CommRing K] {P Nd : Type*} [Fintype P] [Fintype Nd]

/-- **resultant**: with the partition of unity the nodal forces of an element sum to the quadrature of the
density — for every element type, every rule, every density -/
theorem resultant (wJ q : P → K) (N : P → Nd → K) (hN : ∀ p, ∑ n, N p n = 1) :
    ∑ n, elemLoad wJ q N n = ∑ p, wJ p * q p := by
  unfold elemLoad
  rw [sum_comm]
  refine sum_congr rfl fun p _ => ?_
  rw [← mul_sum, hN p, mul_one]

/-- **moment**: the first moment of the nodal forces is the quadrature of `x q` with `x` the isoparametric
position of the Gauss point (any coordinate, any origin, curved elements included) -/
theorem moment (wJ q : P → K) (N : P → Nd → K) (x : Nd → K) :
    ∑ n, x n * elemLoad wJ q N n = ∑ p, wJ p * q p * gaussCoord x N p := by
  unfold elemLoad gaussCoord
  simp_rw [mul_sum]
  rw [sum_comm]
  refine sum_congr rfl fun p _ => sum_congr rfl fun n _ => by ring

/-- moment about any point `c`, written for one pair of coordinates `(i, j)` of the cross product -/
theorem moment_cross (wJ qi qj : P → K) (N : P → Nd → K) (xi xj : Nd → K) (ci cj : K) (hN : ∀ p, ∑ n, N p n = 1) :
    ∑ n, ((xi n - ci) * elemLoad wJ qj N n - (xj n - cj) * elemLoad wJ qi N n)
      = ∑ p, wJ p * ((gaussCoord xi N p - ci) * qj p - (gaussCoord xj N p - cj) * qi p) := by
  have h1 := moment wJ qj N xi
  have h2 := moment wJ qi N xj
  have r1 := resultant wJ qj N hN
  have r2 := resultant wJ qi N hN
  have eL : ∀ n, (xi n - ci) * elemLoad wJ qj N n - (xj n - cj) * elemLoad wJ qi N n
      = xi n * elemLoad wJ qj N n - ci * elemLoad wJ qj N n - (xj n * elemLoad wJ qi N n - cj * elemLoad wJ qi N n) :=
    fun n => by ring
  have eR : ∀ p, wJ p * ((gaussCoord xi N p - ci) * qj p - (gaussCoord xj N p - cj) * qi p)
      = wJ p * qj p * gaussCoord xi N p - ci * (wJ p * qj p) - (wJ p * qi p * gaussCoord xj N p - cj * (wJ p * qi p)) :=
    fun p => by ring
  simp_rw [eL, eR, sum_sub_distrib, ← mul_sum, h1, h2, r1, r2]

/-- nodal arrays: the density integrated is the finite-element interpolant of the nodal values -/
theorem nodal_resultant (wJ : P → K) (qn : Nd → K) (N : P → Nd → K) (hN : ∀ p, ∑ n, N p n = 1) :
    ∑ n, elemLoadNodal wJ qn N n = ∑ p, wJ p * interpGauss qn N p := resultant wJ _ N hN

theorem nodal_moment (wJ : P → K) (qn : Nd → K) (N : P → Nd → K) (x : Nd → K) :
    ∑ n, x n * elemLoadNodal wJ qn N n = ∑ p, wJ p * interpGauss qn N p * gaussCoord x N p := moment wJ _ N x

/-- a constant density: resultant = density × measure of the element (Σ wJ, see C07 `weights_sum`);
the thickness of `add_surfLoad` / `add_volumeLoad` in 2D and the magnitude of a pressure are such factors -/
theorem constant_resultant (wJ : P → K) (c : K) (N : P → Nd → K) (hN : ∀ p, ∑ n, N p n = 1) :
    ∑ n, elemLoad wJ (fun _ => c) N n = c * ∑ p, wJ p := by
  rw [resultant wJ _ N hN, mul_sum]; exact sum_congr rfl fun p _ => by ring

theorem thickness_factor (t : K) (wJ q : P → K) (N : P → Nd → K) (n : Nd) :
    t * elemLoad wJ q N n = elemLoad wJ (fun p => t * q p) N n := by
  unfold elemLoad; rw [mul_sum]; exact sum_congr rfl fun p _ => by ring

/-- a pressure on a planar face (the same unit normal `ν` at every node): each component of the resultant
is `pressure × area × ν_j` -/
theorem pressure_planar (wJ : P → K) (pr ν : K) (N : P → Nd → K) (hN : ∀ p, ∑ n, N p n = 1) :
    ∑ n, elemLoadNodal wJ (fun _ => ν * pr) N n = pr * (∑ p, wJ p) * ν := by
  rw [nodal_resultant wJ _ N hN]
  have : ∀ p, interpGauss (fun _ => ν * pr) N p = ν * pr := fun p => by
    unfold interpGauss; rw [← mul_sum, hN p, mul_one]
  simp only [this, ← sum_mul]; ring

/-- the nodal-array branch before the repair (`"ep,en,pin->epn"`): the resultant was right … -/
theorem lumped_resultant (wJ : P → K) (qn : Nd → K) (N : P → Nd → K) :
    ∑ n, elemLoadLumped wJ qn N n = ∑ p, wJ p * interpGauss qn N p := by
  unfold elemLoadLumped interpGauss
  rw [sum_comm]
  refine sum_congr rfl fun p _ => ?_
  rw [mul_sum]; exact sum_congr rfl fun n _ => by ring

end element

/-- … but its moment was wrong. Witness (replayed on the real code, see known_findings.txt): SEG2 on [0,1]
with Simpson's rule (exact to degree 3) and the nodal density `q = x`: the consistent forces have the exact
moment `∫ x·x = 1/3`, the lumped forces `(0·½, 1·½)` have moment ½. -/
theorem lumped_moment_wrong :
    let N : Fin 3 → Fin 2 → ℚ := fun p n => if n = 0 then 1 - (p.val : ℚ) / 2 else (p.val : ℚ) / 2
    let wJ : Fin 3 → ℚ := fun p => if p = 1 then 2 / 3 else 1 / 6
    let x : Fin 2 → ℚ := fun n => n.val
    (∑ n, x n * elemLoadNodal wJ x N n = 1 / 3) ∧ (∑ n, x n * elemLoadLumped wJ x N n = 1 / 2) := by
  refine ⟨?_, ?_⟩ <;>
    simp [elemLoadNodal, elemLoad, elemLoadLumped, interpGauss, Fin.sum_univ_two, Fin.sum_univ_three] <;> norm_num

/-! ### the whole load vector -/

section assembled
variable {K : Type*} [CommRing K] {P Nd E I : Type*} [Fintype P] [Fintype Nd] [Fintype E] [Fintype I] [DecidableEq I]

/-- the entries of `Bc_vector_Neumann` sum to the sum of all element nodal forces -/
theorem assembled_resultant (conn : E → Nd → I) (f : E → Nd → K) :
    ∑ i, assemble conn f i = ∑ e, ∑ n, f e n := by
  unfold assemble
  rw [sum_comm]
  refine sum_congr rfl fun e _ => ?_
  rw [sum_comm]
  refine sum_congr rfl fun n _ => ?_
  simp

/-- and their first moment (with the coordinates of the global nodes) to the sum of the element moments -/
theorem assembled_moment (conn : E → Nd → I) (f : E → Nd → K) (X : I → K) :
    ∑ i, X i * assemble conn f i = ∑ e, ∑ n, X (conn e n) * f e n := by
  unfold assemble
  simp_rw [mul_sum]
  rw [sum_comm]
  refine sum_congr rfl fun e _ => ?_
  rw [sum_comm]
  refine sum_congr rfl fun n _ => ?_
  simp [mul_ite]

/-- **the load vector of a whole mesh**: resultant = Σ_e Σ_p wJ q, for any mesh, any set of loaded elements
(`sel`), any density — elements that are not selected contribute nothing -/
theorem mesh_resultant (conn : E → Nd → I) (sel : E → Prop) [DecidablePred sel]
    (wJ q : E → P → K) (N : P → Nd → K) (hN : ∀ p, ∑ n, N p n = 1) :
    ∑ i, assemble conn (fun e n => if sel e then elemLoad (wJ e) (q e) N n else 0) i
      = ∑ e, if sel e then ∑ p, wJ e p * q e p else 0 := by
  rw [assembled_resultant]
  refine sum_congr rfl fun e _ => ?_
  by_cases h : sel e <;> simp [h, resultant _ _ N hN]

theorem mesh_moment (conn : E → Nd → I) (sel : E → Prop) [DecidablePred sel]
    (wJ q : E → P → K) (N : P → Nd → K) (X : I → K) :
    ∑ i, X i * assemble conn (fun e n => if sel e then elemLoad (wJ e) (q e) N n else 0) i
      = ∑ e, if sel e then ∑ p, wJ e p * q e p * gaussCoord (fun n => X (conn e n)) N p else 0 := by
  rw [assembled_moment]
  refine sum_congr rfl fun e _ => ?_
  by_cases h : sel e
  · simp only [h, if_true]; exact moment (wJ e) (q e) N fun n => X (conn e n)
  · simp [h]

/-- a node that belongs to no loaded element receives nothing -/
theorem unused_node_gets_nothing (conn : E → Nd → I) (sel : E → Prop) [DecidablePred sel] (f : E → Nd → K) (i : I)
    (h : ∀ e n, sel e → conn e n ≠ i) :
    assemble conn (fun e n => if sel e then f e n else 0) i = 0 := by
  unfold assemble
  refine sum_eq_zero fun e _ => sum_eq_zero fun n _ => ?_
  by_cases hs : sel e
  · simp [h e n hs]
  · simp [hs]

end assembled

/-! ### which elements are loaded: `Get_Elements_Nodes(nodes, exclusively=True)` -/

section selection
variable {Nd E I : Type*} [Fintype Nd] [Fintype E] [DecidableEq I] [DecidableEq E]

/-- an element is loaded iff **all** its nodes are selected (and it has a node) -/
theorem exclusive_iff (conn : E → Nd → I) (S : Finset I) (e : E) :
    e ∈ exclusive conn S ↔ (∃ n, conn e n ∈ S) ∧ ∀ n, conn e n ∈ S := by
  unfold exclusive intruders touched
  simp only [mem_sdiff, mem_filter, mem_univ, true_and, mem_biUnion, mem_image, not_exists, not_and]
  constructor
  · rintro ⟨ht, hi⟩
    refine ⟨ht, fun n => ?_⟩
    by_contra hn
    exact hi n ⟨e, ht, n, rfl⟩ hn
  · rintro ⟨ht, hall⟩
    exact ⟨ht, fun n _ => by simpa using hall n⟩

/-- stray nodes (selected nodes none of whose elements is fully selected) do not change the selection's
contribution: the selection only depends on which elements are fully covered -/
theorem exclusive_mono_irrelevant (conn : E → Nd → I) (S T : Finset I)
    (h : ∀ e, ((∃ n, conn e n ∈ S) ∧ ∀ n, conn e n ∈ S) ↔ ((∃ n, conn e n ∈ T) ∧ ∀ n, conn e n ∈ T)) :
    exclusive conn S = exclusive conn T := by
  ext e; rw [exclusive_iff, exclusive_iff, h]

end selection

/-! ### concentrated loads -/

/-- `__Bc_pointLoad`: a constant value is divided by the number of selected nodes, so the total is the value -/
theorem point_load_total {K : Type*} [Field K] [CharZero K] {I : Type*} (S : Finset I) (hS : S.Nonempty) (v : K) :
    ∑ _i ∈ S, v / (S.card : K) = v := by
  rw [sum_const, nsmul_eq_mul]
  have : (S.card : K) ≠ 0 := by exact_mod_cast (Finset.card_pos.mpr hS).ne'
  field_simp

/-! ### non-vacuity: SEG2 with the values of its shape functions at two points; q = (1, 4) at those points -/
example :
    let N : Fin 2 → Fin 2 → ℚ := fun p n => if p = n then 3 / 4 else 1 / 4
    let wJ : Fin 2 → ℚ := fun _ => 1
    (∀ p, ∑ n, N p n = 1) ∧ ∑ n, elemLoad wJ (fun p => if p = 0 then 1 else 4) N n = 5 := by
  refine ⟨fun p => ?_, ?_⟩
  · fin_cases p <;> simp [Fin.sum_univ_two] <;> norm_num
  · simp [elemLoad, Fin.sum_univ_two]; norm_num

end EasyFEAVerif.Props.C09
