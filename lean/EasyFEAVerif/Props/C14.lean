/-
Property C14 — after any sequence of changes a simulation behaves like a freshly built one.
State-machine model (`Model/Coherence.lean`) + invariant by induction over operations.
The model's wiring table is tied to the code by the correspondence harness (flag after every
operation) and by comparing, at every read, matrices / solution / results with a simulation
built directly in the final configuration.
-/
import EasyFEAVerif.Model.Coherence
import Mathlib.Tactic.Linarith
import Mathlib.Data.List.Basic

namespace EasyFEAVerif.Props.C14
open EasyFEAVerif.Coherence

/-- operations that refer to a mesh object refer to one that exists and that the simulation has held -/
def OpOK (s : State) : Op → Prop
  | .backToMesh m => m ∈ s.observed
  | _ => True

theorem step_wired (s : State) (op : Op) (hw : Wired s) (hop : OpOK s op) : Wired (step s op) := by
  obtain ⟨h1, h2, h3⟩ := hw
  cases op with
  | setParam => exact ⟨h1, h2, h3⟩
  | moveMesh m =>
    simp only [step]
    split <;> exact ⟨h1, h2, h3⟩
  | replaceMesh =>
    refine ⟨by simp [step], ?_, by simp [step]⟩
    intro m hm
    simp only [step, List.mem_cons] at hm ⊢
    rcases hm with rfl | hm
    · omega
    · have := h2 m hm; omega
  | backToMesh m =>
    exact ⟨hop, h2, h2 m hop⟩
  | bcLagrange => exact ⟨h1, h2, h3⟩
  | bcOther => exact ⟨h1, h2, h3⟩
  | setAlgo => exact ⟨h1, h2, h3⟩
  | read =>
    simp only [step]
    split <;> exact ⟨h1, h2, h3⟩

/-- One step: every public operation either leaves the cached system up to date or raises the flag. -/
theorem step_coherent (s : State) (op : Op) (hw : Wired s) (hc : Coherent s) : Coherent (step s op) := by
  cases op with
  | setParam => left; rfl
  | moveMesh m =>
    simp only [step]
    split
    · left; rfl
    · rename_i hobs
      rcases hc with hc | ⟨a, b, c, d⟩
      · left; exact hc
      · right
        have hne : s.cur.meshId ≠ m := by
          intro h
          apply hobs
          rw [← h]
          simpa using hw.1
        refine ⟨a, b, ?_, d⟩
        simp only [coordBump, hne, if_false]
        exact c
  | replaceMesh => left; rfl
  | backToMesh m => left; rfl
  | bcLagrange => left; rfl
  | bcOther => exact hc
  | setAlgo =>
    rcases hc with hc | ⟨a, b, c, d⟩
    · left; exact hc
    · right; exact ⟨a, b, c, d⟩
  | read =>
    simp only [step]
    split
    · right; exact ⟨rfl, rfl, rfl, rfl⟩
    · rename_i hn
      rcases hc with hc | hc
      · exact absurd hc hn
      · right; exact hc

/-- every reachable state is wired and coherent -/
theorem reachable_coherent (ops : List Op) (s0 : State) (hw : Wired s0) (hc : Coherent s0)
    (hops : ∀ (pre : List Op) (op : Op) (post : List Op), ops = pre ++ op :: post → OpOK (pre.foldl step s0) op) :
    Wired (ops.foldl step s0) ∧ Coherent (ops.foldl step s0) := by
  induction ops generalizing s0 with
  | nil => exact ⟨hw, hc⟩
  | cons op ops ih =>
    have hop : OpOK s0 op := hops [] op ops rfl
    apply ih (step s0 op) (step_wired s0 op hw hop) (step_coherent s0 op hw hc)
    intro pre o post h
    have := hops (op :: pre) o post (by rw [h]; rfl)
    simpa using this

/-- **After any finite sequence of operations, the next read serves exactly the system a simulation
built directly in the final configuration would assemble.** -/
theorem read_eq_fresh (ops : List Op)
    (hops : ∀ (pre : List Op) (op : Op) (post : List Op), ops = pre ++ op :: post → OpOK (pre.foldl step init) op) :
    Fresh (step (ops.foldl step init) .read) := by
  have hw0 : Wired init := ⟨by simp [init], by intro m hm; simp [init] at hm; subst hm; simp [init], by simp [init]⟩
  have hc0 : Coherent init := Or.inl rfl
  obtain ⟨_, hc⟩ := reachable_coherent ops init hw0 hc0 hops
  simp only [step]
  split
  · exact ⟨rfl, rfl, rfl, rfl⟩
  · rename_i hn
    rcases hc with hc | hc
    · exact absurd hc hn
    · exact hc

/-- The wiring BEFORE the repairs violated the property: replacing the mesh, reading, then moving
the new mesh left a stale system (the defect fixed in /repo, see known_findings.txt). -/
theorem unfixed_wiring_is_stale :
    ¬ Fresh (stepUnfixed (([Op.replaceMesh, .read, .moveMesh 1].foldl stepUnfixed init)) .read) := by
  intro h
  have := h.2.2.1
  simp [stepUnfixed, step, init, coordBump] at this

/-- … and so did dropping the Lagrange conditions. -/
theorem unfixed_bcinit_is_stale :
    ¬ Fresh (stepUnfixed (([Op.read, .bcLagrange].foldl stepUnfixed init)) .read) := by
  intro h
  have := h.2.2.2
  simp [stepUnfixed, step, init] at this

/-- non-vacuity: a non-trivial history satisfies the hypotheses -/
example : Fresh (step ([Op.read, .setParam, .replaceMesh, .read, .moveMesh 1, .bcLagrange, .backToMesh 0, .moveMesh 0].foldl step init) .read) := by
  refine ⟨rfl, rfl, ?_, rfl⟩
  simp [step, init, coordBump]

end EasyFEAVerif.Props.C14
