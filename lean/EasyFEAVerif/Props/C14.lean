/-
Property C14 — after any sequence of changes a simulation behaves like a freshly built one.
State-machine model (`Model/Coherence.lean`) + invariant by induction over operations.
The model's wiring table is tied to the code by the correspondence harness (flag after every
operation) and by comparing, at every read, matrices / solution / results with a simulation
built directly in the final configuration.
-/
import EasyFEAVerif.Model.Coherence
import EasyFEAVerif.Model.Sources
import EasyFEAVerif.Gen.C14.Observers
import Mathlib.Tactic.Linarith
import Mathlib.Data.List.Basic

namespace EasyFEAVerif.Props.C14
open EasyFEAVerif.Coherence

/-- operations that refer to a mesh object refer to one that exists and that the simulation has held -/
def OpOK (s : State) : Op → Prop
  | .backToMesh m => m ∈ s.observed
  | _ => True

theorem step_wired (s : State) (op : Op) (hw : Wired s) (hop : OpOK s op) : Wired (step s op) := by
  obtain ⟨h1, h2, h3⟩ := hw
  cases op with
  | setParam => exact ⟨h1, h2, h3⟩
  | moveMesh m =>
    simp only [step]
    split <;> exact ⟨h1, h2, h3⟩
  | replaceMesh =>
    refine ⟨by simp [step], ?_, by simp [step]⟩
    intro m hm
    simp only [step, List.mem_cons] at hm ⊢
    rcases hm with rfl | hm
    · omega
    · have := h2 m hm; omega
  | backToMesh m =>
    exact ⟨hop, h2, h2 m hop⟩
  | bcLagrange => exact ⟨h1, h2, h3⟩
  | bcOther => exact ⟨h1, h2, h3⟩
  | setAlgo => exact ⟨h1, h2, h3⟩
  | read =>
    simp only [step]
    split <;> exact ⟨h1, h2, h3⟩

/-- One step: every public operation either leaves the cached system up to date or raises the flag. -/
theorem step_coherent (s : State) (op : Op) (hw : Wired s) (hc : Coherent s) : Coherent (step s op) := by
  cases op with
  | setParam => left; rfl
  | moveMesh m =>
    simp only [step]
    split
    · left; rfl
    · rename_i hobs
      rcases hc with hc | ⟨a, b, c, d⟩
      · left; exact hc
      · right
        have hne : s.cur.meshId ≠ m := by
          intro h
          apply hobs
          rw [← h]
          simpa using hw.1
        refine ⟨a, b, ?_, d⟩
        simp only [coordBump, hne, if_false]
        exact c
  | replaceMesh => left; rfl
  | backToMesh m => left; rfl
  | bcLagrange => left; rfl
  | bcOther => exact hc
  | setAlgo =>
    rcases hc with hc | ⟨a, b, c, d⟩
    · left; exact hc
    · right; exact ⟨a, b, c, d⟩
  | read =>
    simp only [step]
    split
    · right; exact ⟨rfl, rfl, rfl, rfl⟩
    · rename_i hn
      rcases hc with hc | hc
      · exact absurd hc hn
      · right; exact hc

/-- every reachable state is wired and coherent -/
theorem reachable_coherent (ops : List Op) (s0 : State) (hw : Wired s0) (hc : Coherent s0)
    (hops : ∀ (pre : List Op) (op : Op) (post : List Op), ops = pre ++ op :: post → OpOK (pre.foldl step s0) op) :
    Wired (ops.foldl step s0) ∧ Coherent (ops.foldl step s0) := by
  induction ops generalizing s0 with
  | nil => exact ⟨hw, hc⟩
  | cons op ops ih =>
    have hop : OpOK s0 op := hops [] op ops rfl
    apply ih (step s0 op) (step_wired s0 op hw hop) (step_coherent s0 op hw hc)
    intro pre o post h
    have := hops (op :: pre) o post (by rw [h]; rfl)
    simpa using this

/-- **After any finite sequence of operations, the next read serves exactly the system a simulation
built directly in the final configuration would assemble.** -/
theorem read_eq_fresh (ops : List Op)
    (hops : ∀ (pre : List Op) (op : Op) (post : List Op), ops = pre ++ op :: post → OpOK (pre.foldl step init) op) :
    Fresh (step (ops.foldl step init) .read) := by
  have hw0 : Wired init := ⟨by simp [init], by intro m hm; simp [init] at hm; subst hm; simp [init], by simp [init]⟩
  have hc0 : Coherent init := Or.inl rfl
  obtain ⟨_, hc⟩ := reachable_coherent ops init hw0 hc0 hops
  simp only [step]
  split
  · exact ⟨rfl, rfl, rfl, rfl⟩
  · rename_i hn
    rcases hc with hc | hc
    · exact absurd hc hn
    · exact hc

/-- The wiring BEFORE the repairs violated the property: replacing the mesh, reading, then moving
the new mesh left a stale system (the defect fixed in /repo, see known_findings.txt). -/
theorem unfixed_wiring_is_stale :
    ¬ Fresh (stepUnfixed (([Op.replaceMesh, .read, .moveMesh 1].foldl stepUnfixed init)) .read) := by
  intro h
  have := h.2.2.1
  simp [stepUnfixed, step, init, coordBump] at this

/-- … and so did dropping the Lagrange conditions. -/
theorem unfixed_bcinit_is_stale :
    ¬ Fresh (stepUnfixed (([Op.read, .bcLagrange].foldl stepUnfixed init)) .read) := by
  intro h
  have := h.2.2.2
  simp [stepUnfixed, step, init] at this

/-- non-vacuity: a non-trivial history satisfies the hypotheses -/
example : Fresh (step ([Op.read, .setParam, .replaceMesh, .read, .moveMesh 1, .bcLagrange, .backToMesh 0, .moveMesh 0].foldl step init) .read) := by
  refine ⟨rfl, rfl, ?_, rfl⟩
  simp [step, init, coordBump]


/-! ### Who observes whom (Model/Sources.lean, registrations extracted by tools/py2lean/gen_c14.py) -/

section Wiring
open EasyFEAVerif

def wiringOf (c : String) : Sources.Wiring :=
  { deps := ((Sources.depsOf.lookup c).getD []).map Sources.idOf, observed := ((Gen.C14.observersOf.lookup c).getD []).map Sources.idOf }

def classes : List String := Sources.depsOf.map (·.1)

/-- the two tables speak about the same classes and only about numbered Sources.holders (the numbering is injective on them) -/
theorem tables_wellformed :
    Gen.C14.observersOf.map (·.1) = classes ∧
    (Sources.depsOf.all fun e => e.2.all Sources.holders.contains) = true ∧
    (Gen.C14.observersOf.all fun e => e.2.all Sources.holders.contains) = true ∧ Sources.holders.Nodup := by
  decide

/-- **every parameter holder a simulation's matrices are computed from is observed by that simulation**
(on the registrations extracted from the constructors of the current source) -/
theorem observers_cover_dependencies : ∀ c ∈ classes, ∀ d ∈ (wiringOf c).deps, d ∈ (wiringOf c).observed := by
  decide

/-- consequence, for every simulation class and every sequence of parameter assignments (on any of the Sources.holders, observed
or not) and reads: what a read returns was assembled from the current parameters -/
theorem class_read_fresh (c : String) (hc : c ∈ classes) (ops : List Sources.Op) :
    Sources.Fresh (wiringOf c) (Sources.step (wiringOf c) (Sources.run (wiringOf c) Sources.init ops) .read) :=
  Sources.read_fresh _ (observers_cover_dependencies c hc) ops

/-- the wiring of `InElastic` before the `fix:` commit 93c1cd0 (the elastic law inside the behavior was not observed):
[read, assign a parameter of that law, read] returns stale matrices -/
theorem inelastic_unfixed_is_stale :
    ¬ Sources.Fresh { deps := (wiringOf "InElastic").deps, observed := [Sources.idOf "model", Sources.idOf "mesh"] }
        (Sources.run { deps := (wiringOf "InElastic").deps, observed := [Sources.idOf "model", Sources.idOf "mesh"] } Sources.init
          [.read, .set (Sources.idOf "model.elastic"), .read]) :=
  Sources.unobserved_dep_goes_stale _ _ (by decide) (by decide)

example : (wiringOf "InElastic").deps = [0, 1, 3] ∧ (wiringOf "PhaseField").observed = [0, 1, 4] := by decide

/-- the descriptor `_Parameter.__set__` as extracted: check, store, then `Need_Update` for every `Updatable` instance, with no
"unchanged" test in between (the body of the function is exactly these three statements) -/
theorem descriptor_always_notifies :
    Gen.C14.notifyForms.lookup "_Parameter.__set__" =
      some ["self._checker(value)", "instance.__dict__[self.__name] = value", "if isinstance(instance, Updatable):\n    instance.Need_Update()"] := by
  decide

/-- a read of a parameter hands out a copy of the stored value (the body of `_Parameter.__get__` is exactly this statement): what a
caller does with the array it was handed cannot change the value behind the notification (seed C11_Q returned the stored object) -/
theorem reads_hand_out_copies :
    Gen.C14.notifyForms.lookup "_Parameter.__get__" = some ["return copy.copy(instance.__dict__[self.__name])"] := by
  decide

/-- `Observable` defines its four methods and nothing else: no `__getstate__` / `__reduce__` / `__deepcopy__` customises what a copy or a
pickle of an observable carries, so the list of observers - an ordinary attribute - travels with a copied or reloaded model / mesh
(seed C14_Q dropped it in `__getstate__`: a reloaded simulation was no longer notified) -/
theorem registrations_travel_with_copies :
    Gen.C14.notifyForms.lookup "Observable.methods" = some ["_Add_observer", "_Notify", "_Remove_observer", "observers"] := by
  decide

/-- consequence (value-based model `Sources.V`, notification test `fun _ _ => true`): for every simulation class and every
sequence of assignments of VALUES and reads, a read serves matrices assembled from the current values; and any test that lets
one real change through (a tolerance as in seed C11_H, an identity test on an array edited in place as in seed C14_H) serves stale ones -/
theorem class_read_fresh_values (c : String) (hc : c ∈ classes) (ops : List Sources.V.Op) :
    Sources.V.Fresh (wiringOf c) (Sources.V.step (wiringOf c) (fun _ _ => true) (Sources.V.run (wiringOf c) (fun _ _ => true) Sources.V.init ops) .read) :=
  Sources.V.read_fresh _ _ (observers_cover_dependencies c hc) Sources.V.always_notify_exact ops

theorem skipping_a_real_change_is_stale (notify : Nat → Nat → Bool) (a b : Nat) (hab : a ≠ b) (hskip : notify a b = false) :
    ¬ Sources.V.Fresh (wiringOf "Elastic") (Sources.V.run (wiringOf "Elastic") notify Sources.V.init [.assign (Sources.idOf "model") a, .read, .assign (Sources.idOf "model") b, .read]) :=
  Sources.V.inexact_test_goes_stale _ _ _ a b (by decide) hab hskip

/-- **every mesh object that becomes the simulation's mesh is subscribed to**: `self.__mesh` is assigned in the mesh setter and in
`__Update_mesh` only (the translator refuses any other place; the MPI gatherer `_Gather` is not modelled), and both subscribe the
simulation to the object they install — `__Update_mesh` in the branch where the mesh is a new object read back from the disk
(the mesh objects still in memory were subscribed to by the setter). Before fix d2c78d6 the second entry had no subscription. -/
theorem mesh_installers_subscribe :
    Gen.C14.meshInstallers.map (·.1) = ["mesh.setter", "__Update_mesh"] ∧
    (∀ f ∈ Gen.C14.meshInstallers, f.2.contains "mesh._Add_observer(self)" = true ∧ f.2.contains "self.__mesh = mesh" = true) ∧
    (Gen.C14.meshInstallers.lookup "__Update_mesh").map (fun l => l.take 2) = some ["mesh = self.__Load_mesh(mesh)", "mesh._Add_observer(self)"] := by
  decide

/-- what the subscription is for: a mesh object installed without it is a dependency nobody observes, and moving it leaves the
cached matrices in place (instance of `Sources.unobserved_dep_goes_stale`: dependency 1 is the mesh) -/
theorem unsubscribed_mesh_goes_stale :
    ¬ Sources.Fresh ⟨[0, 1], [0]⟩ (Sources.run ⟨[0, 1], [0]⟩ Sources.init [.read, .set 1, .read]) :=
  Sources.unobserved_dep_goes_stale _ _ (by decide) (by decide)

end Wiring

end EasyFEAVerif.Props.C14
