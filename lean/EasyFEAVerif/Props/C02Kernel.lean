/-
Property C02, the clause "on any CONNECTED mesh the zero-energy modes are exactly the physical ones".

`Props/C02.lean` proves `K u = 0 ⟺ the strain of u vanishes at every sample` (positive weights, positive-definite
law), and `Props/C07.lean` certifies per element type that a nodal vector whose gradient vanishes at the element's
samples is constant on the element. What was left to the real code only is the step from the elements to the mesh.
This file proves that step for every mesh, every element type and every number of elements:

  if on every element the field coincides with SOME member of a family of "physical modes" (a constant, an
  infinitesimal rigid motion), and the elements are connected through pairs that share enough nodes to pin the mode
  down, then ONE mode fits every element — the kernel is no larger than the physical one.

"Enough nodes" is proved to be: one node for constants (heat conduction), two nodes at distinct positions for plane
rigid motions, three non-collinear nodes for rigid motions in space (so face-connected tetrahedra / hexahedra /
prisms and edge-connected triangles / quadrangles). Meshes hinged at a single node in 2D, or along an edge in 3D,
are not covered — and there the statement is false (each part can rotate on its own).

For the 3-node triangle the element-level premise is proved here as well (`tri3_zero_strain_is_rigid`): every nodal
vector on a non-degenerate triangle is the restriction of an affine field, its gradient is what the element computes
(C01 `linear_field_gradient`), and a skew gradient is an infinitesimal rotation.
-/
import Mathlib.Logic.Relation
import Mathlib.Tactic.Ring
import Mathlib.Tactic.LinearCombination
import Mathlib.Tactic.FieldSimp
import Mathlib.Tactic.Linarith
import Mathlib.Algebra.Field.Basic
import Mathlib.Data.Set.Basic
import Mathlib.Tactic.FinCases
import Mathlib.Data.Fintype.Basic
import Mathlib.Data.Fin.VecNotation
import Mathlib.Data.Rat.Defs
import Mathlib.Algebra.Order.Field.Rat

set_option linter.unusedSectionVars false

namespace EasyFEAVerif.Props.C02Kernel

/-! ### from the elements to the mesh -/
section lifting
variable {N E M V : Type*}

/-- on the nodes of element `e` the field `u` is the mode `m` -/
def Fits (nodes : E → Set N) (ev : M → N → V) (u : N → V) (e : E) (m : M) : Prop :=
  ∀ n ∈ nodes e, u n = ev m n

/-- a mode is pinned down by its values on the set `S` of nodes -/
def Determines (ev : M → N → V) (S : Set N) : Prop :=
  ∀ m m' : M, (∀ n ∈ S, ev m n = ev m' n) → m = m'

/-- two elements share enough nodes to pin a mode down -/
def Adjacent (nodes : E → Set N) (ev : M → N → V) (e e' : E) : Prop :=
  Determines ev (nodes e ∩ nodes e')

theorem same_mode_of_adjacent {nodes : E → Set N} {ev : M → N → V} {u : N → V} {e e' : E} {m m' : M}
    (h : Adjacent nodes ev e e') (he : Fits nodes ev u e m) (he' : Fits nodes ev u e' m') : m = m' :=
  h m m' fun n hn => by rw [← he n hn.1, ← he' n hn.2]

/-- **the kernel of a connected mesh is no larger than the physical one**: a field that is a physical mode on every
element (possibly a different one on each) is one and the same mode on all of them, whenever every element can be
reached from `e₀` through adjacent pairs. Any number of elements, any element types. -/
theorem global_of_local {nodes : E → Set N} {ev : M → N → V} {u : N → V}
    (hloc : ∀ e, ∃ m, Fits nodes ev u e m) (e₀ : E)
    (hconn : ∀ e, Relation.ReflTransGen (Adjacent nodes ev) e₀ e) :
    ∃ m, ∀ e, Fits nodes ev u e m := by
  obtain ⟨m₀, h₀⟩ := hloc e₀
  refine ⟨m₀, fun e => ?_⟩
  induction hconn e with
  | refl => exact h₀
  | tail _ hab ih =>
    obtain ⟨m', hm'⟩ := hloc _
    have := same_mode_of_adjacent hab ih hm'
    subst this
    exact hm'

/-- … hence at every node that belongs to an element the field is that mode -/
theorem global_of_local_nodes {nodes : E → Set N} {ev : M → N → V} {u : N → V}
    (hloc : ∀ e, ∃ m, Fits nodes ev u e m) (e₀ : E)
    (hconn : ∀ e, Relation.ReflTransGen (Adjacent nodes ev) e₀ e) :
    ∃ m, ∀ n, (∃ e, n ∈ nodes e) → u n = ev m n := by
  obtain ⟨m, hm⟩ := global_of_local hloc e₀ hconn
  exact ⟨m, fun n ⟨e, hn⟩ => hm e n hn⟩

/-- the connectivity hypothesis cannot be dropped: with two elements that share no node and modes that are not all
equal, a field can be a mode on each element without being one mode on the mesh -/
theorem disconnected_mesh_has_more_modes {m₁ m₂ : M} {ev : M → Bool → V} (hne : ev m₁ true ≠ ev m₂ true) :
    let nodes : Bool → Set Bool := fun e => {e}
    let u : Bool → V := fun n => if n then ev m₁ true else ev m₂ false
    (∀ e, ∃ m, Fits nodes ev u e m) ∧ ¬ ∃ m, (∀ e, Fits nodes ev u e m) ∧ (m = m₁ ∧ m = m₂) := by
  intro nodes u
  refine ⟨fun e => ?_, ?_⟩
  · cases e
    · exact ⟨m₂, fun n hn => by simp [nodes] at hn; subst hn; simp [u]⟩
    · exact ⟨m₁, fun n hn => by simp [nodes] at hn; subst hn; simp [u]⟩
  · rintro ⟨m, -, h1, h2⟩
    exact hne (by rw [← h1, h2])

end lifting

/-! ### how many shared nodes pin a mode down -/
section determination
/-- constants (heat conduction): the mode space is the value space itself -/
def evConst {K N : Type*} : K → N → K := fun c _ => c

theorem determines_const {K N : Type*} {S : Set N} {n : N} (hn : n ∈ S) : Determines (evConst : K → N → K) S :=
  fun _ _ h => h n hn

variable {K : Type*} [Field K] {N : Type*}

/-- infinitesimal rigid motions of the plane: `(a₁, a₂, ω) ↦ (a₁ − ω y, a₂ + ω x)` -/
def evRigid2 (pos : N → K × K) (m : K × K × K) (n : N) : K × K :=
  (m.1 - m.2.2 * (pos n).2, m.2.1 + m.2.2 * (pos n).1)

/-- two nodes at distinct positions pin a plane rigid motion down -/
theorem determines_rigid2 (pos : N → K × K) {S : Set N} {n₁ n₂ : N} (h₁ : n₁ ∈ S) (h₂ : n₂ ∈ S)
    (hne : pos n₁ ≠ pos n₂) : Determines (evRigid2 pos) S := by
  rintro ⟨a₁, a₂, ω⟩ ⟨b₁, b₂, θ⟩ h
  have e₁ := h n₁ h₁
  have e₂ := h n₂ h₂
  simp only [evRigid2, Prod.mk.injEq] at e₁ e₂
  obtain ⟨e₁x, e₁y⟩ := e₁
  obtain ⟨e₂x, e₂y⟩ := e₂
  have hω : ω = θ := by
    by_contra hd
    have hd' : ω - θ ≠ 0 := sub_ne_zero.mpr hd
    apply hne
    have hy : (pos n₁).2 = (pos n₂).2 := by
      have : (ω - θ) * ((pos n₁).2 - (pos n₂).2) = 0 := by linear_combination e₂x - e₁x
      rcases mul_eq_zero.mp this with h0 | h0
      · exact absurd h0 hd'
      · exact sub_eq_zero.mp h0
    have hx : (pos n₁).1 = (pos n₂).1 := by
      have : (ω - θ) * ((pos n₁).1 - (pos n₂).1) = 0 := by linear_combination e₁y - e₂y
      rcases mul_eq_zero.mp this with h0 | h0
      · exact absurd h0 hd'
      · exact sub_eq_zero.mp h0
    exact Prod.ext hx hy
  subst hω
  have ha : a₁ = b₁ := by linear_combination e₁x
  have hb : a₂ = b₂ := by linear_combination e₁y
  subst ha hb
  rfl

/-- one node is NOT enough in the plane: two parts hinged at a node can rotate independently -/
theorem hinge_does_not_determine_rigid2 :
    ¬ Determines (evRigid2 (fun _ : Unit => ((0 : ℚ), (0 : ℚ)))) Set.univ := by
  intro h
  have := h (0, 0, 0) (0, 0, 1) (fun n _ => by simp [evRigid2])
  simp at this

/-- vectors of space as triples -/
abbrev V3 (K : Type*) := K × K × K

def cross (a b : V3 K) : V3 K :=
  (a.2.1 * b.2.2 - a.2.2 * b.2.1, a.2.2 * b.1 - a.1 * b.2.2, a.1 * b.2.1 - a.2.1 * b.1)

def sub3 (a b : V3 K) : V3 K := (a.1 - b.1, a.2.1 - b.2.1, a.2.2 - b.2.2)

/-- infinitesimal rigid motions of space: `(a, ω) ↦ a + ω × x` -/
def evRigid3 (pos : N → V3 K) (m : V3 K × V3 K) (n : N) : V3 K :=
  let c := cross m.2 (pos n)
  (m.1.1 + c.1, m.1.2.1 + c.2.1, m.1.2.2 + c.2.2)

/-- a vector whose cross products with two vectors `p`, `q` vanish is annihilated by every component of `p × q` -/
theorem cross_zero_of_two (w p q : V3 K) (hp : cross w p = (0, 0, 0)) (hq : cross w q = (0, 0, 0)) :
    (w.1 * (cross p q).1 = 0 ∧ w.2.1 * (cross p q).1 = 0 ∧ w.2.2 * (cross p q).1 = 0) ∧
    (w.1 * (cross p q).2.1 = 0 ∧ w.2.1 * (cross p q).2.1 = 0 ∧ w.2.2 * (cross p q).2.1 = 0) ∧
    (w.1 * (cross p q).2.2 = 0 ∧ w.2.1 * (cross p q).2.2 = 0 ∧ w.2.2 * (cross p q).2.2 = 0) := by
  obtain ⟨w1, w2, w3⟩ := w
  obtain ⟨p1, p2, p3⟩ := p
  obtain ⟨q1, q2, q3⟩ := q
  simp only [cross, Prod.mk.injEq] at hp hq
  obtain ⟨hp1, hp2, hp3⟩ := hp
  obtain ⟨hq1, hq2, hq3⟩ := hq
  simp only [cross]
  refine ⟨⟨?_, ?_, ?_⟩, ⟨?_, ?_, ?_⟩, ⟨?_, ?_, ?_⟩⟩
  · linear_combination q3 * hp3 + q2 * hp2 + p1 * hq1
  · linear_combination p2 * hq1 - q2 * hp1
  · linear_combination p3 * hq1 - q3 * hp1
  · linear_combination p1 * hq2 - q1 * hp2
  · linear_combination q1 * hp1 + q3 * hp3 + p2 * hq2
  · linear_combination p3 * hq2 - q3 * hp2
  · linear_combination p1 * hq3 - q1 * hp3
  · linear_combination p2 * hq3 - q2 * hp3
  · linear_combination q2 * hp2 + q1 * hp1 + p3 * hq3

/-- … so it vanishes when `p` and `q` are not parallel -/
theorem eq_zero_of_cross_zero_of_two (w p q : V3 K) (hp : cross w p = (0, 0, 0)) (hq : cross w q = (0, 0, 0))
    (hpq : cross p q ≠ (0, 0, 0)) : w = (0, 0, 0) := by
  obtain ⟨⟨a1, b1, c1⟩, ⟨a2, b2, c2⟩, ⟨a3, b3, c3⟩⟩ := cross_zero_of_two w p q hp hq
  by_cases h1 : (cross p q).1 = 0
  · by_cases h2 : (cross p q).2.1 = 0
    · by_cases h3 : (cross p q).2.2 = 0
      · exact absurd (Prod.ext h1 (Prod.ext h2 h3)) hpq
      · exact Prod.ext ((mul_eq_zero.mp a3).resolve_right h3)
          (Prod.ext ((mul_eq_zero.mp b3).resolve_right h3) ((mul_eq_zero.mp c3).resolve_right h3))
    · exact Prod.ext ((mul_eq_zero.mp a2).resolve_right h2)
        (Prod.ext ((mul_eq_zero.mp b2).resolve_right h2) ((mul_eq_zero.mp c2).resolve_right h2))
  · exact Prod.ext ((mul_eq_zero.mp a1).resolve_right h1)
      (Prod.ext ((mul_eq_zero.mp b1).resolve_right h1) ((mul_eq_zero.mp c1).resolve_right h1))

/-- three non-collinear nodes pin a rigid motion of space down -/
theorem determines_rigid3 (pos : N → V3 K) {S : Set N} {n₀ n₁ n₂ : N} (h₀ : n₀ ∈ S) (h₁ : n₁ ∈ S) (h₂ : n₂ ∈ S)
    (hnc : cross (sub3 (pos n₁) (pos n₀)) (sub3 (pos n₂) (pos n₀)) ≠ (0, 0, 0)) : Determines (evRigid3 pos) S := by
  rintro ⟨a, ω⟩ ⟨b, θ⟩ h
  have e₀ := h n₀ h₀
  have e₁ := h n₁ h₁
  have e₂ := h n₂ h₂
  have hw : sub3 ω θ = (0, 0, 0) := by
    apply eq_zero_of_cross_zero_of_two _ _ _ _ _ hnc
    · obtain ⟨a1, a2, a3⟩ := a; obtain ⟨b1, b2, b3⟩ := b
      obtain ⟨w1, w2, w3⟩ := ω; obtain ⟨t1, t2, t3⟩ := θ
      simp only [evRigid3, cross, Prod.mk.injEq] at e₀ e₁
      obtain ⟨x0, y0, z0⟩ := e₀
      obtain ⟨x1, y1, z1⟩ := e₁
      simp only [cross, sub3, Prod.mk.injEq]
      refine ⟨?_, ?_, ?_⟩
      · linear_combination x1 - x0
      · linear_combination y1 - y0
      · linear_combination z1 - z0
    · obtain ⟨a1, a2, a3⟩ := a; obtain ⟨b1, b2, b3⟩ := b
      obtain ⟨w1, w2, w3⟩ := ω; obtain ⟨t1, t2, t3⟩ := θ
      simp only [evRigid3, cross, Prod.mk.injEq] at e₀ e₂
      obtain ⟨x0, y0, z0⟩ := e₀
      obtain ⟨x2, y2, z2⟩ := e₂
      simp only [cross, sub3, Prod.mk.injEq]
      refine ⟨?_, ?_, ?_⟩
      · linear_combination x2 - x0
      · linear_combination y2 - y0
      · linear_combination z2 - z0
  obtain ⟨a1, a2, a3⟩ := a; obtain ⟨b1, b2, b3⟩ := b
  obtain ⟨w1, w2, w3⟩ := ω; obtain ⟨t1, t2, t3⟩ := θ
  simp only [sub3, Prod.mk.injEq] at hw
  obtain ⟨hw1, hw2, hw3⟩ := hw
  have q1 : w1 = t1 := sub_eq_zero.mp hw1
  have q2 : w2 = t2 := sub_eq_zero.mp hw2
  have q3 : w3 = t3 := sub_eq_zero.mp hw3
  subst q1 q2 q3
  simp only [evRigid3, cross, Prod.mk.injEq] at e₀
  obtain ⟨x0, y0, z0⟩ := e₀
  have r1 : a1 = b1 := by linear_combination x0
  have r2 : a2 = b2 := by linear_combination y0
  have r3 : a3 = b3 := by linear_combination z0
  subst r1 r2 r3
  rfl

/-- two nodes are NOT enough in space: parts joined along an edge can rotate about it independently -/
theorem edge_does_not_determine_rigid3 :
    ¬ Determines (evRigid3 (fun b : Bool => if b then ((1 : ℚ), (0 : ℚ), (0 : ℚ)) else (0, 0, 0))) Set.univ := by
  intro h
  have := h ((0, 0, 0), (0, 0, 0)) ((0, 0, 0), (1, 0, 0)) (fun n _ => by cases n <;> simp [evRigid3, cross])
  simp at this

end determination

/-! ### the three kinds of problems -/
section corollaries
variable {K : Type*} [Field K] {N E : Type*}

theorem rtg_mono {α : Type*} {r p : α → α → Prop} (h : ∀ a b, r a b → p a b) {a b : α}
    (hab : Relation.ReflTransGen r a b) : Relation.ReflTransGen p a b := by
  induction hab with
  | refl => exact Relation.ReflTransGen.refl
  | tail _ hbc ih => exact Relation.ReflTransGen.tail ih (h _ _ hbc)

/-- **heat conduction**: on a mesh whose elements are connected through shared nodes, a field that is constant on
every element (C07 `conduction_kernel_is_constants`: that is what a vanishing gradient at the element's samples
means, for all 19 element types; C02 `kernel_iff_zero_strain`: that is what `K u = 0` means) is one constant. -/
theorem conduction_kernel_connected (nodes : E → Set N) (u : N → K)
    (hloc : ∀ e, ∃ c : K, ∀ n ∈ nodes e, u n = c) (e₀ : E)
    (hconn : ∀ e, Relation.ReflTransGen (fun e e' => (nodes e ∩ nodes e').Nonempty) e₀ e) :
    ∃ c : K, ∀ n, (∃ e, n ∈ nodes e) → u n = c := by
  refine global_of_local_nodes (ev := (evConst : K → N → K)) hloc e₀ fun e => ?_
  exact rtg_mono (fun a b ⟨n, hn⟩ => determines_const hn) (hconn e)

/-- **plane elasticity**: elements connected through pairs sharing two nodes at distinct positions (an edge) -/
theorem elastic_kernel_connected_2D (nodes : E → Set N) (pos : N → K × K) (u : N → K × K)
    (hloc : ∀ e, ∃ m, Fits nodes (evRigid2 pos) u e m) (e₀ : E)
    (hconn : ∀ e, Relation.ReflTransGen
      (fun e e' => ∃ n₁ ∈ nodes e ∩ nodes e', ∃ n₂ ∈ nodes e ∩ nodes e', pos n₁ ≠ pos n₂) e₀ e) :
    ∃ m, ∀ n, (∃ e, n ∈ nodes e) → u n = evRigid2 pos m n := by
  refine global_of_local_nodes hloc e₀ fun e => ?_
  exact rtg_mono (fun a b ⟨n₁, h₁, n₂, h₂, hne⟩ => determines_rigid2 pos h₁ h₂ hne) (hconn e)

/-- **elasticity in space**: elements connected through pairs sharing three non-collinear nodes (a face) -/
theorem elastic_kernel_connected_3D (nodes : E → Set N) (pos : N → V3 K) (u : N → V3 K)
    (hloc : ∀ e, ∃ m, Fits nodes (evRigid3 pos) u e m) (e₀ : E)
    (hconn : ∀ e, Relation.ReflTransGen
      (fun e e' => ∃ n₀ ∈ nodes e ∩ nodes e', ∃ n₁ ∈ nodes e ∩ nodes e', ∃ n₂ ∈ nodes e ∩ nodes e',
        cross (sub3 (pos n₁) (pos n₀)) (sub3 (pos n₂) (pos n₀)) ≠ (0, 0, 0)) e₀ e) :
    ∃ m, ∀ n, (∃ e, n ∈ nodes e) → u n = evRigid3 pos m n := by
  refine global_of_local_nodes hloc e₀ fun e => ?_
  exact rtg_mono (fun a b ⟨n₀, h₀, n₁, h₁, n₂, h₂, hnc⟩ => determines_rigid3 pos h₀ h₁ h₂ hnc) (hconn e)

end corollaries

/-! ### the element-level premise for the 3-node triangle -/
section tri3
variable {K : Type*} [Field K]

/-- twice the signed area of the triangle -/
def det3 (p : Fin 3 → K × K) : K :=
  ((p 1).1 - (p 0).1) * ((p 2).2 - (p 0).2) - ((p 2).1 - (p 0).1) * ((p 1).2 - (p 0).2)

/-- the affine field `x ↦ a + G x` -/
def affine (a : K × K) (g11 g12 g21 g22 : K) (x : K × K) : K × K :=
  (a.1 + g11 * x.1 + g12 * x.2, a.2 + g21 * x.1 + g22 * x.2)

/-- every nodal vector on a non-degenerate triangle is the restriction of an affine field (Cramer's rule); by C01
`linear_field_gradient` the gradient the element computes from these nodal values is that field's `G` -/
theorem tri3_affine_interpolant (p u : Fin 3 → K × K) (hdet : det3 p ≠ 0) :
    ∃ a g11 g12 g21 g22, ∀ i, u i = affine a g11 g12 g21 g22 (p i) := by
  have hd : ((p 1).1 - (p 0).1) * ((p 2).2 - (p 0).2) - ((p 2).1 - (p 0).1) * ((p 1).2 - (p 0).2) ≠ 0 := hdet
  refine ⟨((u 0).1
      - (((u 1).1 - (u 0).1) * ((p 2).2 - (p 0).2) - ((u 2).1 - (u 0).1) * ((p 1).2 - (p 0).2)) / det3 p * (p 0).1
      - (((p 1).1 - (p 0).1) * ((u 2).1 - (u 0).1) - ((p 2).1 - (p 0).1) * ((u 1).1 - (u 0).1)) / det3 p * (p 0).2,
    (u 0).2
      - (((u 1).2 - (u 0).2) * ((p 2).2 - (p 0).2) - ((u 2).2 - (u 0).2) * ((p 1).2 - (p 0).2)) / det3 p * (p 0).1
      - (((p 1).1 - (p 0).1) * ((u 2).2 - (u 0).2) - ((p 2).1 - (p 0).1) * ((u 1).2 - (u 0).2)) / det3 p * (p 0).2),
    (((u 1).1 - (u 0).1) * ((p 2).2 - (p 0).2) - ((u 2).1 - (u 0).1) * ((p 1).2 - (p 0).2)) / det3 p,
    (((p 1).1 - (p 0).1) * ((u 2).1 - (u 0).1) - ((p 2).1 - (p 0).1) * ((u 1).1 - (u 0).1)) / det3 p,
    (((u 1).2 - (u 0).2) * ((p 2).2 - (p 0).2) - ((u 2).2 - (u 0).2) * ((p 1).2 - (p 0).2)) / det3 p,
    (((p 1).1 - (p 0).1) * ((u 2).2 - (u 0).2) - ((p 2).1 - (p 0).1) * ((u 1).2 - (u 0).2)) / det3 p, fun i => ?_⟩
  fin_cases i
  · refine Prod.ext ?_ ?_ <;> simp only [affine, Fin.zero_eta] <;> ring
  · refine Prod.ext ?_ ?_ <;> simp only [affine, Fin.mk_one] <;> field_simp <;> simp only [det3] <;> ring
  · refine Prod.ext ?_ ?_ <;> simp only [affine, Fin.reduceFinMk] <;> field_simp <;> simp only [det3] <;> ring

/-- an affine field with vanishing strain (`∂ₓuₓ = 0`, `∂ᵧuᵧ = 0`, `∂ᵧuₓ + ∂ₓuᵧ = 0`) is an infinitesimal rigid
motion -/
theorem zero_strain_affine_is_rigid (a : K × K) (g11 g12 g21 g22 : K) (h11 : g11 = 0) (h22 : g22 = 0)
    (h12 : g12 + g21 = 0) (pos : Fin 3 → K × K) (i : Fin 3) :
    affine a g11 g12 g21 g22 (pos i) = evRigid2 pos (a.1, a.2, g21) i := by
  subst h11 h22
  have : g12 = -g21 := by linear_combination h12
  subst this
  refine Prod.ext ?_ ?_ <;> simp only [affine, evRigid2] <;> ring

/-- **TRI3**: a nodal vector whose (constant) strain vanishes on a non-degenerate triangle is an infinitesimal rigid
motion of that triangle: the premise `hloc` of `elastic_kernel_connected_2D` holds on every mesh of 3-node triangles,
so on an edge-connected TRI3 mesh `K u = 0` implies that `u` is a rigid motion. -/
theorem tri3_zero_strain_is_rigid (p u : Fin 3 → K × K) (hdet : det3 p ≠ 0)
    (hstrain : ∀ a g11 g12 g21 g22, (∀ i, u i = affine a g11 g12 g21 g22 (p i)) →
      g11 = 0 ∧ g22 = 0 ∧ g12 + g21 = 0) :
    ∃ m, ∀ i, u i = evRigid2 p m i := by
  obtain ⟨a, g11, g12, g21, g22, h⟩ := tri3_affine_interpolant p u hdet
  obtain ⟨h11, h22, h12⟩ := hstrain a g11 g12 g21 g22 h
  exact ⟨(a.1, a.2, g21), fun i => by rw [h i]; exact zero_strain_affine_is_rigid a g11 g12 g21 g22 h11 h22 h12 p i⟩

end tri3

/-! ### non-vacuity: two triangles sharing an edge, rotated by `ω = 2` about the origin -/
section example_
def exPos : Fin 4 → ℚ × ℚ := ![(0, 0), (1, 0), (0, 1), (1, 1)]
def exNodes : Bool → Set (Fin 4) := fun b => if b then {1, 2, 3} else {0, 1, 2}

example : ∃ m, ∀ n, (∃ e, n ∈ exNodes e) → (fun n => evRigid2 exPos (3, 5, 2) n) n = evRigid2 exPos m n := by
  refine elastic_kernel_connected_2D exNodes exPos _ (fun e => ⟨(3, 5, 2), fun n _ => rfl⟩) false fun e => ?_
  cases e
  · exact Relation.ReflTransGen.refl
  · refine Relation.ReflTransGen.single ⟨1, ?_, 2, ?_, ?_⟩
    · simp [exNodes]
    · simp [exNodes]
    · simp [exPos]
end example_

end EasyFEAVerif.Props.C02Kernel
