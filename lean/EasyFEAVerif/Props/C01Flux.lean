import Mathlib.Algebra.BigOperators.Intervals
import Mathlib.Algebra.Order.Field.Basic
import Mathlib.Tactic.Ring
import Mathlib.Tactic.FieldSimp
import Mathlib.Tactic.Linarith
import Mathlib.Tactic.IntervalCases
import Mathlib.Tactic.NormNum
import Mathlib.Algebra.Order.Field.Rat

/-! Flux closure (level L3 of C01) for linear simplices: the hypothesis `FluxClosed` of `patch_test_partial` is a theorem at
every interior node of a 1D chain of SEG2 elements and of a TRI3 mesh whose elements around the node form a closed,
consistently oriented fan. -/
namespace EasyFEAVerif.Props.C01.Flux
open Finset

variable {K : Type*} [Field K]

/-! #### TRI3: jacobian `F = dN_pg @ coord` with `dN = [[-1, 1, 0], [-1, 0, 1]]`, physical gradients `invF @ dN`, weight `det F / 2` -/

/-- `det F` for the triangle (a, b, c): twice the signed area -/
def det2 (a b c : K × K) : K := (b.1 - a.1) * (c.2 - a.2) - (b.2 - a.2) * (c.1 - a.1)

/-- physical gradient of the shape function of vertex `a` (first node): `invF @ (-1, -1)` with the explicit 2×2 inverse -/
def gradFirst (a b c : K × K) : K × K :=
  ((-(c.2 - a.2) + (b.2 - a.2)) / det2 a b c, ((c.1 - a.1) - (b.1 - a.1)) / det2 a b c)

/-- of the second node: `invF @ (1, 0)` -/
def gradSecond (a b c : K × K) : K × K := ((c.2 - a.2) / det2 a b c, -(c.1 - a.1) / det2 a b c)

/-- of the third node: `invF @ (0, 1)` -/
def gradThird (a b c : K × K) : K × K := (-(b.2 - a.2) / det2 a b c, (b.1 - a.1) / det2 a b c)

/-- the three gradients are those of the affine functions that are 1 at their vertex and 0 at the other two -/
theorem gradFirst_is_hat_gradient (a b c : K × K) (h : det2 a b c ≠ 0) :
    (gradFirst a b c).1 * (b.1 - a.1) + (gradFirst a b c).2 * (b.2 - a.2) = -1 ∧
    (gradFirst a b c).1 * (c.1 - a.1) + (gradFirst a b c).2 * (c.2 - a.2) = -1 := by
  unfold gradFirst
  constructor <;> field_simp <;> unfold det2 <;> ring

/-- area-weighted gradient (what one element adds to `Σ_q w_q B_q`): half the opposite edge turned by a quarter turn,
whatever the position of the vertex itself -/
theorem weighted_gradFirst (a b c : K × K) (h : det2 a b c ≠ 0) (h2 : (2 : K) ≠ 0) :
    (det2 a b c / 2 * (gradFirst a b c).1, det2 a b c / 2 * (gradFirst a b c).2) = ((b.2 - c.2) / 2, (c.1 - b.1) / 2) := by
  unfold gradFirst
  ext <;> simp only <;> field_simp <;> ring

theorem weighted_gradSecond (a b c : K × K) (h : det2 a b c ≠ 0) (h2 : (2 : K) ≠ 0) :
    (det2 a b c / 2 * (gradSecond a b c).1, det2 a b c / 2 * (gradSecond a b c).2) = ((c.2 - a.2) / 2, (a.1 - c.1) / 2) := by
  unfold gradSecond
  ext <;> simp only <;> field_simp <;> ring

theorem weighted_gradThird (a b c : K × K) (h : det2 a b c ≠ 0) (h2 : (2 : K) ≠ 0) :
    (det2 a b c / 2 * (gradThird a b c).1, det2 a b c / 2 * (gradThird a b c).2) = ((a.2 - b.2) / 2, (b.1 - a.1) / 2) := by
  unfold gradThird
  ext <;> simp only <;> field_simp <;> ring

/-- renumbering the nodes of an element cyclically does not change its determinant: whichever local number the node has in
each element of its star, its weighted gradient is half the opposite edge (taken in the element's orientation) turned -/
theorem det2_cyclic (a b c : K × K) : det2 b c a = det2 a b c ∧ det2 c a b = det2 a b c := by
  unfold det2; constructor <;> ring

/-- **flux closure at an interior node of a TRI3 mesh**: the elements around node `x` are the triangles
`(x, p k, p (k+1))`, `k < n`, all with the same orientation, and the fan is closed (`p n = p 0`). Then
`Σ_e w_e ∇N_x = 0`: the rows of `K u_lin` at an interior node vanish (hypothesis `FluxClosed` of `patch_test_partial`). -/
theorem tri3_star_flux_closed (n : ℕ) (x : K × K) (p : ℕ → K × K) (hclosed : p n = p 0)
    (hdet : ∀ k < n, det2 x (p k) (p (k + 1)) ≠ 0) (h2 : (2 : K) ≠ 0) :
    (∑ k ∈ range n, det2 x (p k) (p (k + 1)) / 2 * (gradFirst x (p k) (p (k + 1))).1 = 0) ∧
    (∑ k ∈ range n, det2 x (p k) (p (k + 1)) / 2 * (gradFirst x (p k) (p (k + 1))).2 = 0) := by
  have e1 : ∀ k ∈ range n, det2 x (p k) (p (k + 1)) / 2 * (gradFirst x (p k) (p (k + 1))).1 = (p k).2 / 2 - (p (k + 1)).2 / 2 := by
    intro k hk
    have := congrArg Prod.fst (weighted_gradFirst x (p k) (p (k + 1)) (hdet k (mem_range.mp hk)) h2)
    simp only at this
    rw [this]; ring
  have e2 : ∀ k ∈ range n, det2 x (p k) (p (k + 1)) / 2 * (gradFirst x (p k) (p (k + 1))).2 = (p (k + 1)).1 / 2 - (p k).1 / 2 := by
    intro k hk
    have := congrArg Prod.snd (weighted_gradFirst x (p k) (p (k + 1)) (hdet k (mem_range.mp hk)) h2)
    simp only at this
    rw [this]; ring
  constructor
  · rw [sum_congr rfl e1, Finset.sum_range_sub', hclosed]; ring
  · rw [sum_congr rfl e2, Finset.sum_range_sub (fun k => (p k).1 / 2), hclosed]; ring

/-! #### SEG2 chain: nodes `x 0 < x 1 < … `; element `k` = `[x k, x (k+1)]`, weight = length, `dN/dx = ∓ 1 / length` -/

/-- **flux closure at an interior node of a 1D chain**: node `k+1` belongs to the elements `k` (as second node, gradient
`+1/len`) and `k+1` (as first node, `-1/len`); the length-weighted gradients cancel -/
theorem seg2_interior_flux_closed (x : ℕ → K) (k : ℕ) (h1 : x (k + 1) - x k ≠ 0) (h2 : x (k + 2) - x (k + 1) ≠ 0) :
    (x (k + 1) - x k) * (1 / (x (k + 1) - x k)) + (x (k + 2) - x (k + 1)) * (-1 / (x (k + 2) - x (k + 1))) = 0 := by
  field_simp
  ring

/-- non-vacuity: a square fan of four triangles around the origin satisfies the hypotheses -/
def squareFan (k : ℕ) : ℚ × ℚ := if k = 1 then (0, 1) else if k = 2 then (-1, 0) else if k = 3 then (0, -1) else (1, 0)

example : squareFan 4 = squareFan 0 ∧ ∀ k < 4, det2 ((0, 0) : ℚ × ℚ) (squareFan k) (squareFan (k + 1)) ≠ 0 := by
  refine ⟨by decide, ?_⟩
  intro k hk
  interval_cases k <;> simp [det2, squareFan]

end EasyFEAVerif.Props.C01.Flux
