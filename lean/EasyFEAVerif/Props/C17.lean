/-
Property C17 — phase-field splits partition stress and energy; the damage history never decreases.

The formulas by which every split builds its positive / negative stiffness from the spectral projectors, and the
irreversibility updates, are matched statement by statement against the source on every run (`Gen/C17/Forms.lean`).
Proved here, for every strain state (no case distinction on repeated or vanishing principal values is needed):
  * `Rp + Rm = 1` for every trace, zero included (`sign 0 = 0` gives ½ + ½);
  * with `P⁺ + P⁻ = I` (the code sets `projM = I − projP`), `cP + cM = C` for all 14 splits: Bourdin, Amor, Miehe, the four
    strain variants, Zhang, the four stress variants (with `S C = I`, `Cᵀ = C`), Miehe-in-stress (from the compliance
    partition `sP + sM = S`), He (`P = C^{-1/2} P̃ C^{1/2}`); hence `σ⁺ + σ⁻ = C ε` and `ψ⁺ + ψ⁻ = ½ ε·C ε`;
  * the 2D projector formula `projP = β I + γ₁ m₁⊗m₁ + γ₂ m₂⊗m₂` applied to `ε = v₁ m₁ + v₂ m₂` gives
    `⟨v₁⟩₊ m₁ + ⟨v₂⟩₊ m₂` for ANY value of `β` (it cancels; the code's division by 1 when `v₁ = v₂` is harmless for the value);
  * the history update keeps the larger value: along ANY sequence of steps the history field and the HistoryDamage
    damage never decrease, and they stay zero when every driving energy is zero.
Finite values, agreement of the projectors with an independent eigen-decomposition and the behaviour at degenerate
states in floating point are decided on the real code by the harness.
-/
import EasyFEAVerif.Gen.C17.Forms
import Mathlib.LinearAlgebra.Matrix.NonsingularInverse
import Mathlib.Data.Matrix.Mul
import Mathlib.Algebra.Order.Field.Basic
import Mathlib.Data.Sign.Basic
import Mathlib.Tactic.Ring
import Mathlib.Tactic.Linarith
import Mathlib.Tactic.FieldSimp
import Mathlib.Tactic.NormNum
import Mathlib.Tactic.LinearCombination
import Mathlib.Tactic.Abel

set_option linter.unusedSectionVars false

namespace EasyFEAVerif.Props.C17

open Matrix EasyFEAVerif.Gen

theorem forms_spec : (C17.forms.map Prod.fst) =
    ["Rp_Rm", "Split_Bourdin", "Split_Amor", "Split_Strain", "Split_Stress", "Split_He", "Spectral_Decomposition",
     "Calc_psi", "history", "history_damage"] := rfl

/-! ### the switches `Rp`, `Rm` -/

section switches
variable {K : Type*} [Field K] [LinearOrder K] [IsStrictOrderedRing K]

/-- `np.sign` -/
def sgn (t : K) : K := if 0 < t then 1 else if t < 0 then -1 else 0

def Rp (t : K) : K := (1 + sgn t) / 2
def Rm (t : K) : K := (1 + sgn (-t)) / 2

/-- **`Rp + Rm = 1` for every trace**, zero included -/
theorem Rp_add_Rm (t : K) : Rp t + Rm t = 1 := by
  unfold Rp Rm sgn
  rcases lt_trichotomy t 0 with h | h | h
  · have h1 : ¬ (0 < t) := not_lt.mpr h.le
    have h2 : 0 < -t := neg_pos.mpr h
    simp only [h1, h, h2, if_true, if_false]; norm_num
  · subst h; simp only [lt_irrefl, neg_zero, if_false]; norm_num
  · have h1 : ¬ (t < 0) := not_lt.mpr h.le
    have h2 : ¬ (0 < -t) := by simpa using h.le
    have h3 : -t < 0 := by simpa using h
    simp only [h, h1, h2, h3, if_true, if_false]; norm_num

theorem Rp_Rm_values (t : K) : (Rp t = 1 ∧ Rm t = 0) ∨ (Rp t = 1 / 2 ∧ Rm t = 1 / 2) ∨ (Rp t = 0 ∧ Rm t = 1) := by
  unfold Rp Rm sgn
  rcases lt_trichotomy t 0 with h | h | h
  · have h1 : ¬ (0 < t) := not_lt.mpr h.le
    have h2 : 0 < -t := neg_pos.mpr h
    right; right; simp only [h1, h, h2, if_true, if_false]; norm_num
  · subst h; right; left; simp only [lt_irrefl, neg_zero, if_false]; norm_num
  · have h1 : ¬ (t < 0) := not_lt.mpr h.le
    have h2 : ¬ (0 < -t) := by simpa using h.le
    have h3 : -t < 0 := by simpa using h
    left; simp only [h, h1, h2, h3, if_true, if_false]; norm_num

end switches

/-! ### `cP + cM = C` for every split, from `P⁺ + P⁻ = I` and `Rp + Rm = 1` -/

section partition
variable {K : Type*} [Field K] {n : Type*} [Fintype n] [DecidableEq n]

/-- Bourdin -/
theorem bourdin (C : Matrix n n K) : C + (0 : Matrix n n K) = C := add_zero C

/-- Amor: `cP = κ Rp I⊗I + 2μ (I − I⊗I/d)`, `cM = κ Rm I⊗I` -/
theorem amor (bulk mu rp rm dinv : K) (IxI : Matrix n n K) (h : rp + rm = 1) :
    (bulk • (rp • IxI) + (2 * mu) • ((1 : Matrix n n K) - dinv • IxI)) + bulk • (rm • IxI)
      = bulk • IxI + (2 * mu) • ((1 : Matrix n n K) - dinv • IxI) := by
  have : bulk • (rp • IxI) + bulk • (rm • IxI) = bulk • IxI := by
    rw [← smul_add, ← add_smul, h, one_smul]
  rw [add_right_comm, this]

/-- Miehe: `cP = λ Rp I⊗I + 2μ P⁺`, `cM = λ Rm I⊗I + 2μ P⁻` -/
theorem miehe (lam mu rp rm : K) (IxI Pp Pm : Matrix n n K) (h : rp + rm = 1) (hP : Pp + Pm = 1) :
    (lam • (rp • IxI) + (2 * mu) • Pp) + (lam • (rm • IxI) + (2 * mu) • Pm) = lam • IxI + (2 * mu) • (1 : Matrix n n K) := by
  have h1 : lam • (rp • IxI) + lam • (rm • IxI) = lam • IxI := by rw [← smul_add, ← add_smul, h, one_smul]
  have h2 : (2 * mu) • Pp + (2 * mu) • Pm = (2 * mu) • (1 : Matrix n n K) := by rw [← smul_add, hP]
  rw [← h1, ← h2]; abel

/-- the four blocks `Cpp + Cpm + Cmp + Cmm` of the strain variants sum to `C` -/
theorem strain_blocks (C Pp Pm : Matrix n n K) (hP : Pp + Pm = 1) :
    Ppᵀ * C * Pp + Ppᵀ * C * Pm + Pmᵀ * C * Pp + Pmᵀ * C * Pm = C := by
  have hT : Ppᵀ + Pmᵀ = 1 := by rw [← Matrix.transpose_add, hP, Matrix.transpose_one]
  calc Ppᵀ * C * Pp + Ppᵀ * C * Pm + Pmᵀ * C * Pp + Pmᵀ * C * Pm
      = (Ppᵀ + Pmᵀ) * C * (Pp + Pm) := by simp only [Matrix.add_mul, Matrix.mul_add]; abel
    _ = C := by rw [hT, hP, Matrix.one_mul, Matrix.mul_one]

/-- AnisotStrain, _PM, _MP, _NoCross: each is a regrouping of the four blocks -/
theorem anisot_strain (C Pp Pm : Matrix n n K) (hP : Pp + Pm = 1) :
    let Cpp := Ppᵀ * C * Pp; let Cpm := Ppᵀ * C * Pm; let Cmp := Pmᵀ * C * Pp; let Cmm := Pmᵀ * C * Pm
    (Cpp + Cpm + Cmp) + Cmm = C ∧ (Cpp + Cpm) + (Cmm + Cmp) = C ∧ (Cpp + Cmp) + (Cmm + Cpm) = C ∧ Cpp + (Cmm + Cpm + Cmp) = C := by
  intro Cpp Cpm Cmp Cmm
  have h := strain_blocks C Pp Pm hP
  refine ⟨?_, ?_, ?_, ?_⟩ <;> (convert h using 1 <;> abel)

/-- Zhang: `cP = P⁺ C`, `cM = P⁻ C` -/
theorem zhang (C Pp Pm : Matrix n n K) (hP : Pp + Pm = 1) : Pp * C + Pm * C = C := by
  rw [← Matrix.add_mul, hP, Matrix.one_mul]

/-- the stress variants: with `Cp = P⁺ C`, `Cm = P⁻ C`, the four blocks `Cpᵀ S Cp + …` sum to `Cᵀ S C = C` -/
theorem stress_blocks (C S Pp Pm : Matrix n n K) (hP : Pp + Pm = 1) (hS : S * C = 1) (hC : Cᵀ = C) :
    (Pp * C)ᵀ * S * (Pp * C) + (Pp * C)ᵀ * S * (Pm * C) + (Pm * C)ᵀ * S * (Pp * C) + (Pm * C)ᵀ * S * (Pm * C) = C := by
  have hsum : Pp * C + Pm * C = C := zhang C Pp Pm hP
  have hT : (Pp * C)ᵀ + (Pm * C)ᵀ = C := by rw [← Matrix.transpose_add, hsum, hC]
  calc (Pp * C)ᵀ * S * (Pp * C) + (Pp * C)ᵀ * S * (Pm * C) + (Pm * C)ᵀ * S * (Pp * C) + (Pm * C)ᵀ * S * (Pm * C)
      = ((Pp * C)ᵀ + (Pm * C)ᵀ) * S * (Pp * C + Pm * C) := by simp only [Matrix.add_mul, Matrix.mul_add]; abel
    _ = C := by rw [hT, hsum, Matrix.mul_assoc, hS, Matrix.mul_one]

theorem anisot_stress (C S Pp Pm : Matrix n n K) (hP : Pp + Pm = 1) (hS : S * C = 1) (hC : Cᵀ = C) :
    let Cp := Pp * C; let Cm := Pm * C
    let Cpp := Cpᵀ * S * Cp; let Cpm := Cpᵀ * S * Cm; let Cmp := Cmᵀ * S * Cp; let Cmm := Cmᵀ * S * Cm
    (Cpp + Cpm + Cmp) + Cmm = C ∧ (Cpp + Cpm) + (Cmm + Cmp) = C ∧ (Cpp + Cmp) + (Cmm + Cpm) = C ∧ Cpp + (Cmm + Cpm + Cmp) = C := by
  intro Cp Cm Cpp Cpm Cmp Cmm
  have h := stress_blocks C S Pp Pm hP hS hC
  refine ⟨?_, ?_, ?_, ?_⟩ <;> (convert h using 1 <;> abel)

/-- Miehe in stress: `sP = a P⁺ − b Rp I⊗I`, `sM = a P⁻ − b Rm I⊗I`, `cP = Cᵀ sP C`, `cM = Cᵀ sM C`; when the compliance is
`S = a I − b I⊗I` (isotropic law: `a = (1+ν)/E`, `b = ν/E` or `ν(1+ν)/E`; `a = 1/2μ` in 3D) the parts sum to `C` -/
theorem stress_miehe (a b rp rm : K) (IxI C S Pp Pm : Matrix n n K) (h : rp + rm = 1) (hP : Pp + Pm = 1)
    (hSdef : S = a • (1 : Matrix n n K) - b • IxI) (hS : S * C = 1) (hC : Cᵀ = C) :
    Cᵀ * (a • Pp - (b * rp) • IxI) * C + Cᵀ * (a • Pm - (b * rm) • IxI) * C = C := by
  have hs : (a • Pp - (b * rp) • IxI) + (a • Pm - (b * rm) • IxI) = S := by
    rw [hSdef]
    have h1 : a • Pp + a • Pm = a • (1 : Matrix n n K) := by rw [← smul_add, hP]
    have h2 : (b * rp) • IxI + (b * rm) • IxI = b • IxI := by rw [← add_smul, ← mul_add, h, mul_one]
    rw [← h1, ← h2]; abel
  rw [← Matrix.add_mul, ← Matrix.mul_add, hs, Matrix.mul_assoc, hS, Matrix.mul_one, hC]

/-- He: `P± = C^{-1/2} P̃± C^{1/2}`, `cP = C P⁺`, `cM = C P⁻` -/
theorem he (C sqrtC invSqrtC Ptp Ptm : Matrix n n K) (hP : Ptp + Ptm = 1) (hinv : invSqrtC * sqrtC = 1) :
    C * (invSqrtC * Ptp * sqrtC) + C * (invSqrtC * Ptm * sqrtC) = C := by
  rw [← Matrix.mul_add, ← Matrix.add_mul, ← Matrix.mul_add, hP, Matrix.mul_one, hinv, Matrix.mul_one]

/-- consequences for the stresses and the energies: `σ⁺ + σ⁻ = C ε` and `ψ⁺ + ψ⁻ = ½ ε·C ε` -/
theorem stress_partition (cP cM C : Matrix n n K) (h : cP + cM = C) (e : n → K) : cP *ᵥ e + cM *ᵥ e = C *ᵥ e := by
  rw [← Matrix.add_mulVec, h]

theorem energy_partition (cP cM C : Matrix n n K) (h : cP + cM = C) (e : n → K) :
    (1 / 2 : K) * (e ⬝ᵥ (cP *ᵥ e)) + (1 / 2 : K) * (e ⬝ᵥ (cM *ᵥ e)) = (1 / 2 : K) * (e ⬝ᵥ (C *ᵥ e)) := by
  rw [← mul_add, ← dotProduct_add, stress_partition cP cM C h]

end partition

/-! ### the 2D spectral projector on a strain in its eigenbasis -/

section projector
variable {K : Type*} [Field K] [LinearOrder K] [IsStrictOrderedRing K] {n : Type*} [Fintype n] [DecidableEq n]

/-- `valp = (v + |v|)/2`, `dvalp = heaviside(v, 0.5)` -/
def pos (v : K) : K := (v + |v|) / 2
def heav (v : K) : K := if 0 < v then 1 else if v < 0 then 0 else 1 / 2

theorem heav_mul (v : K) : heav v * v = pos v := by
  unfold heav pos
  rcases lt_trichotomy v 0 with h | h | h
  · have h1 : ¬ (0 < v) := not_lt.mpr h.le
    simp [h1, h, abs_of_neg h]
  · subst h; simp
  · simp [h, abs_of_pos h]

/-- **the projector of the code maps the strain to its positive part**: for `ε = v₁ m₁ + v₂ m₂` with orthonormal Kelvin
eigen-vectors, and ANY value of `β` (it cancels): the value the code gives to `β` when `v₁ = v₂` (it divides by 1
there) cannot spoil the positive part — only the tangent depends on it -/
theorem projP_apply_2D (v1 v2 β : K) (m1 m2 : n → K) (h11 : m1 ⬝ᵥ m1 = 1) (h22 : m2 ⬝ᵥ m2 = 1) (h12 : m1 ⬝ᵥ m2 = 0)
 :
    (β • (1 : Matrix n n K) + (heav v1 - β) • Matrix.vecMulVec m1 m1 + (heav v2 - β) • Matrix.vecMulVec m2 m2)
        *ᵥ (v1 • m1 + v2 • m2) = pos v1 • m1 + pos v2 • m2 := by
  have h21 : m2 ⬝ᵥ m1 = 0 := by rw [dotProduct_comm]; exact h12
  funext i
  simp only [Matrix.add_mulVec, Matrix.smul_mulVec, Matrix.one_mulVec, Matrix.mulVec_add, Matrix.mulVec_smul,
    Pi.add_apply, Pi.smul_apply, smul_eq_mul]
  have e1 : ∀ (a b : n → K), (Matrix.vecMulVec a a *ᵥ b) i = a i * (a ⬝ᵥ b) := by
    intro a b
    simp only [Matrix.mulVec, Matrix.vecMulVec_apply, dotProduct]
    rw [Finset.mul_sum]; exact Finset.sum_congr rfl fun j _ => by ring
  rw [e1 m1 m1, e1 m1 m2, e1 m2 m1, e1 m2 m2, h11, h22, h12, h21]
  have p1 := heav_mul v1
  have p2 := heav_mul v2
  linear_combination m1 i * p1 + m2 i * p2

end projector

/-! ### irreversibility along any history -/

section history

/-- `psiP[inc_H < 0] = old_psiP`: the history field keeps the larger of the old value and the new driving energy;
`d = max(old_damage, d_new)` for the HistoryDamage solver -/
def histStep {K : Type*} [Field K] [LinearOrder K] (H ψ : K) : K := if ψ - H < 0 then H else ψ

theorem histStep_eq_max {K : Type*} [Field K] [LinearOrder K] [IsStrictOrderedRing K] (H ψ : K) : histStep H ψ = max H ψ := by
  unfold histStep
  by_cases h : ψ - H < 0
  · rw [if_pos h]; exact (max_eq_left (by linarith)).symm
  · rw [if_neg h]; exact (max_eq_right (by linarith)).symm

variable {K : Type*} [LinearOrder K]

/-- along ANY sequence of driving energies the history never decreases (each saved step), at every integration point -/
theorem history_monotone (H0 : K) (ψs : List K) : H0 ≤ ψs.foldl max H0 := by
  induction ψs generalizing H0 with
  | nil => exact le_refl _
  | cons a l ih => exact le_trans (le_max_left H0 a) (ih (max H0 a))

theorem history_monotone_prefix (H0 : K) (ψs ψs' : List K) : ψs.foldl max H0 ≤ (ψs ++ ψs').foldl max H0 := by
  rw [List.foldl_append]; exact history_monotone _ _

/-- with no loading the history (hence the damage source) stays zero -/
theorem history_zero {K : Type*} [LinearOrder K] [Zero K] (ψs : List K) (h : ∀ ψ ∈ ψs, ψ = 0) : ψs.foldl max (0 : K) = 0 := by
  induction ψs with
  | nil => rfl
  | cons a l ih =>
    have ha : a = 0 := h a (List.mem_cons_self)
    simp only [List.foldl_cons, ha, max_self]
    exact ih fun ψ hψ => h ψ (List.mem_cons_of_mem _ hψ)

end history

/-! ### non-vacuity -/
example : Rp (0 : ℚ) = 1 / 2 ∧ Rm (0 : ℚ) = 1 / 2 ∧ heav (0 : ℚ) = 1 / 2 ∧ pos (-3 : ℚ) = 0 ∧ pos (3 : ℚ) = 3 := by
  refine ⟨?_, ?_, ?_, ?_, ?_⟩ <;> simp [Rp, Rm, sgn, heav, pos]

end EasyFEAVerif.Props.C17
