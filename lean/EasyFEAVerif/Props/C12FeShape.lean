/-
Property C12: the `(Ne, nPg)` an operation runs at (`_FeShape` of FEM/_linalg.py; statements pinned in `Gen/C12/FeShape.lean`) is the
numpy BROADCAST of the leading shapes of its field operands. A field is stored with leading shape `(Ne, nPg)`, `(Ne, 1)` (per element),
`(1, nPg)` (per point: shape functions) or `(1, 1)` (constant field). Proved for all sizes:
  * `bshape_dominates`: the broadcast of two admissible leading shapes is admissible and dominates both;
  * `per_point_with_per_element`: `(1, nPg)` with `(Ne, 1)` runs at `(Ne, nPg)` — the full grid, which NEITHER operand has;
  * `largest_operand_is_not_the_broadcast`: for `Ne, nPg > 1` the rule "take the leading shape of the largest operand" (seed C12_Q)
    returns `(Ne, 1)` or `(1, nPg)` there, so a result of leading shape `(Ne, nPg)` is not recognised as a field.
-/
import EasyFEAVerif.Gen.C12.FeShape
import Mathlib.Tactic.Linarith
import Mathlib.Order.Basic

namespace EasyFEAVerif.Props.C12FeShape

theorem feShapeForms_spec : EasyFEAVerif.Gen.C12.feShapeForms =
    ["shapes = set()", "stack = list(operands)", "operand = stack.pop()", "shapes.add(operand.shape[:2])", "stack.extend(operand)", "return shapes.pop()",
     "return np.broadcast_shapes(*shapes) if shapes else ()"] := rfl

/-- admissible leading shapes of a field on a group with `Ne` elements and `nPg` points -/
def Admissible (Ne nPg : Nat) (s : Nat × Nat) : Prop := (s.1 = 1 ∨ s.1 = Ne) ∧ (s.2 = 1 ∨ s.2 = nPg)

/-- numpy's broadcast of two compatible leading shapes -/
def bshape (a b : Nat × Nat) : Nat × Nat := (max a.1 b.1, max a.2 b.2)

theorem bshape_dominates {Ne nPg : Nat} (hN : 1 ≤ Ne) (hP : 1 ≤ nPg) {a b : Nat × Nat} (ha : Admissible Ne nPg a) (hb : Admissible Ne nPg b) :
    Admissible Ne nPg (bshape a b) ∧ a.1 ≤ (bshape a b).1 ∧ a.2 ≤ (bshape a b).2 ∧ b.1 ≤ (bshape a b).1 ∧ b.2 ≤ (bshape a b).2 := by
  obtain ⟨a1, a2⟩ := ha
  obtain ⟨b1, b2⟩ := hb
  refine ⟨⟨?_, ?_⟩, le_max_left _ _, le_max_left _ _, le_max_right _ _, le_max_right _ _⟩
  · simp only [bshape]; rcases a1 with h | h <;> rcases b1 with h' | h' <;> rw [h, h'] <;> simp [hN]
  · simp only [bshape]; rcases a2 with h | h <;> rcases b2 with h' | h' <;> rw [h, h'] <;> simp [hP]

theorem per_point_with_per_element (Ne nPg : Nat) (hN : 1 ≤ Ne) (hP : 1 ≤ nPg) : bshape (1, nPg) (Ne, 1) = (Ne, nPg) := by
  simp [bshape, hN, hP]

/-- the rule of seed C12_Q: the leading shape of the operand with the most entries -/
def largest (a b : Nat × Nat) : Nat × Nat := if a.1 * a.2 ≥ b.1 * b.2 then a else b

theorem largest_operand_is_not_the_broadcast (Ne nPg : Nat) (hN : 1 < Ne) (hP : 1 < nPg) :
    largest (1, nPg) (Ne, 1) ≠ bshape (1, nPg) (Ne, 1) := by
  rw [per_point_with_per_element Ne nPg hN.le hP.le]
  unfold largest
  split
  · intro h; have := congrArg Prod.fst h; simp at this; omega
  · intro h; have := congrArg Prod.snd h; simp at this; omega

end EasyFEAVerif.Props.C12FeShape
