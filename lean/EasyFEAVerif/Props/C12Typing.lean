/-
Property C12 — "a result remains a finite-element array exactly when the leading element and integration-point axes
are preserved ... irrespective of coincidences". For the functions of its reducer table the library reads the axis argument
(`keepsAxis_iff` in Props/C12.lean); for every other numpy function `FeArray.__wrap` types the result from its shape.
This file proves that no rule reading shapes only can be right when Ne = nPg, that the rule of `__wrap` is right without
coincidence, and exhibits the case it gets wrong (known finding "typed FeArray by shape coincidence", known_findings.txt).
Tie: the statements and tests of `__wrap` are pinned by `Gen/C12/Align.lean` (`C12Align.alignForms_spec`); the C12 harness runs the real functions on shapes with and without coincidence and finds exactly
this behaviour (block "the type of the result of numpy functions that consume or move an FE axis").
-/
import Mathlib.Tactic.Linarith

namespace EasyFEAVerif.Props.C12Typing


/-- two operations on an array of shape `(a, b, c)`: leave it alone, or exchange its first two axes -/
inductive AxOp | keep | swap01
deriving DecidableEq

def AxOp.result : AxOp → List Nat → List Nat
  | .keep, s => s
  | .swap01, (a :: b :: r) => b :: a :: r
  | .swap01, s => s

/-- does the operation preserve the leading (element, integration point) axes? -/
def AxOp.preserves : AxOp → Bool
  | .keep => true
  | .swap01 => false

/-- Whatever function of (result shape, (Ne, nPg)) is used to type the result, it is wrong for one of the two operations
on every array with `Ne = nPg`: the two results have the same shape. -/
theorem shape_only_typing_is_wrong (rule : List Nat → Nat × Nat → Bool) (n : Nat) (r : List Nat) :
    ∃ op : AxOp, rule (op.result (n :: n :: r)) (n, n) ≠ op.preserves := by
  by_cases h : rule (n :: n :: r) (n, n) = true
  · exact ⟨.swap01, by simp [AxOp.result, AxOp.preserves, h]⟩
  · exact ⟨.keep, by simpa [AxOp.result, AxOp.preserves] using h⟩

/-- the rule of `FeArray.__wrap`: the result is a finite-element array when its two leading sizes are (Ne, nPg) -/
def wrapRule (shape : List Nat) (fe : Nat × Nat) : Bool :=
  match shape with
  | a :: b :: _ => a == fe.1 && b == fe.2
  | _ => false

/-- without coincidence the rule is right for both operations … -/
theorem wrapRule_exact_without_coincidence (a b : Nat) (r : List Nat) (h : a ≠ b) (op : AxOp) :
    wrapRule (op.result (a :: b :: r)) (a, b) = op.preserves := by
  cases op <;> simp [AxOp.result, AxOp.preserves, wrapRule, h, Ne.symm h]

/-- … and with `Ne = nPg` it types the exchanged array as a finite-element array (the recorded finding) -/
theorem wrapRule_wrong_on_coincidence (n : Nat) (r : List Nat) :
    wrapRule (AxOp.swap01.result (n :: n :: r)) (n, n) = true ∧ AxOp.swap01.preserves = false := by
  simp [AxOp.result, AxOp.preserves, wrapRule]

end EasyFEAVerif.Props.C12Typing
