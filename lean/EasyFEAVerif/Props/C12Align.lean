/-
Property C12 — "any arithmetic ... applied to finite-element arrays equals the same tensor operation carried out
independently at each element and integration point, with plain arrays acting as constant tensors - irrespective of
coincidences between the number of elements, of integration points and tensor dimensions".
Element-wise operations go through `FeArray._align`, which pads the tensor rank of every field up to the widest one
(axes of size 1 inserted right after the two finite-element axes) and then lets numpy broadcast once. This file models
numpy's broadcasting at the level of indices and proves, for ALL sizes:
* `field_read_per_point`: for the entry (e, p, tidx) of the result, a padded field is read at its own point (e, p) and at the
  tensor index that numpy's rule gives for its own tensor shape against tidx;
* `constant_read_ignores_point`: a plain array of rank at most the widest one is read at an index that does not depend on (e, p);
* `unpadded_reads_another_point`: without the padding, a scalar field against a vector field with Ne = nPg = d is read at the
  wrong point (and numpy raises nothing).
Tie: statement-level (`Gen/C12/Align.lean`, regenerated on every run: the body of `_align`, the statements and tests of
`__wrap`; `alignForms_spec`) + correspondence (the expression programs of the C12 harness compare every operation with
explicit (e, p) loops on shapes with and without coincidences). numpy's broadcasting rule itself is modelled from its
documentation (trusted base).
-/
import EasyFEAVerif.Gen.C12.Align
import Mathlib.Tactic.Linarith

namespace EasyFEAVerif.Props.C12Align
open EasyFEAVerif.Gen.C12

/-- the statements the model below was written from -/
theorem alignForms_spec : alignForms =
    [("_align", ["shape = operands[0].shape if isinstance(operands[0], FeArray) else None",
                 "operands = tuple((_Evaluate(op) for op in operands))",
                 "ranks = [op.ndim - 2 if isinstance(op, FeArray) else np.ndim(op) for op in operands]",
                 "nt = max(ranks)",
                 "return tuple((op[(slice(None), slice(None)) + (None,) * (nt - rank)] if isinstance(op, FeArray) and rank < nt else op for op, rank in zip(operands, ranks)))",
                 "return operands"]),
     ("__wrap", ["return res", "return res.view(FeArray)", "return np.asarray(res)"]),
     ("__wrap tests", ["not isinstance(res, np.ndarray)", "res.ndim >= 2 and res.shape[:2] == feShape"])] := by
  decide +kernel

/-- numpy broadcasting, index level: the entry of an operand of shape `s` that is read for the entry `idx` of the result
(`s` is aligned with the END of `idx`; an axis of size 1 is read at 0) -/
def g (d i : Nat) : Nat := if d = 1 then 0 else i

def bidx (s idx : List Nat) : List Nat := List.zipWith g s (idx.drop (idx.length - s.length))

/-- the shape of a field of tensor shape `t` after `FeArray._align` padded it to the widest tensor rank `nt`:
`op[(slice(None), slice(None)) + (None,) * (nt - rank)]` -/
def alignShape (nt Ne nPg : Nat) (t : List Nat) : List Nat := [Ne, nPg] ++ List.replicate (nt - t.length) 1 ++ t

/-- the padded array is a view: its entry `i` is the entry of the field without the inserted axes -/
def unpad (k : Nat) (i : List Nat) : List Nat := i.take 2 ++ i.drop (2 + k)

theorem zipWith_g_replicate_one (k : Nat) (l : List Nat) (h : l.length = k) :
    List.zipWith g (List.replicate k 1) l = List.replicate k 0 := by
  induction k generalizing l with
  | zero => simp
  | succ k ih =>
    cases l with
    | nil => simp at h
    | cons a l => simp [List.replicate_succ, g, ih l (by simpa using h)]

theorem drop_two_add (k a b : Nat) (L R : List Nat) (hL : L.length = k) :
    List.drop (2 + k) (a :: b :: (L ++ R)) = R := by
  rw [show 2 + k = k + 1 + 1 by omega, List.drop_succ_cons, List.drop_succ_cons, ← hL, List.drop_left]

/-- **a field**: for the entry `(e, p, tidx)` of the result, the padded field is read at its own finite-element point
(`e`, `p`, or 0 along an axis of size 1) and at the tensor index numpy's rule gives for ITS tensor shape `t` against `tidx` —
whatever the values of `Ne`, `nPg` and the tensor sizes -/
theorem field_read_per_point (nt Ne nPg : Nat) (t : List Nat) (e p : Nat) (tidx : List Nat)
    (hn : tidx.length = nt) (ht : t.length ≤ nt) :
    unpad (nt - t.length) (bidx (alignShape nt Ne nPg t) (e :: p :: tidx)) = [g Ne e, g nPg p] ++ bidx t tidx := by
  have hlen : (alignShape nt Ne nPg t).length = nt + 2 := by simp [alignShape]; omega
  have hsplit : tidx = tidx.take (nt - t.length) ++ tidx.drop (nt - t.length) := (List.take_append_drop _ _).symm
  have htake : (tidx.take (nt - t.length)).length = nt - t.length := by simp [hn]
  have h1 : bidx (alignShape nt Ne nPg t) (e :: p :: tidx)
      = g Ne e :: g nPg p :: (List.replicate (nt - t.length) 0 ++ List.zipWith g t (tidx.drop (nt - t.length))) := by
    unfold bidx
    rw [hlen]
    have : (e :: p :: tidx).length - (nt + 2) = 0 := by simp [hn]
    rw [this, List.drop_zero]
    unfold alignShape
    simp only [List.cons_append, List.nil_append, List.zipWith_cons_cons]
    conv_lhs => rw [hsplit]
    rw [List.zipWith_append (by simp [htake])]
    rw [zipWith_g_replicate_one _ _ htake]
  rw [h1]
  unfold unpad
  rw [drop_two_add _ _ _ _ _ (by simp)]
  unfold bidx
  rw [hn]
  rfl

/-- **a plain array** (a constant tensor of rank at most `nt`) never sees the finite-element indices -/
theorem constant_read_ignores_point (nt : Nat) (s : List Nat) (e p : Nat) (tidx : List Nat)
    (hn : tidx.length = nt) (hs : s.length ≤ nt) :
    bidx s (e :: p :: tidx) = bidx s tidx := by
  unfold bidx
  have h : (e :: p :: tidx).length - s.length = (tidx.length - s.length) + 2 := by simp; omega
  rw [h, show tidx.length - s.length + 2 = (tidx.length - s.length) + 1 + 1 from rfl, List.drop_succ_cons, List.drop_succ_cons]

/-- without the padding, numpy's rule reads a scalar field `(n, n)` against a vector field `(n, n, n)` at the point
`(p, i)` instead of `(e, p)`: the result would be wrong without any error -/
theorem unpadded_reads_another_point : bidx [3, 3] [0, 1, 2] = [1, 2] ∧ unpad 1 (bidx (alignShape 1 3 3 []) [0, 1, 2]) = [0, 1] := by
  decide +kernel

end EasyFEAVerif.Props.C12Align
