/-
Property C20 — "gives each part exactly its own elements plus every element touching a node it owns". The model of
Props/C20.lean follows the code: element types are processed one after the other, and the ghost search of a type only looks
at the nodes the rank takes DURING that pass (`ownedNodes`), not at the nodes it already owns from the types processed
before (`P.pre r`). For a mesh with a single type of the main dimension the two coincide (`part_iff`). With two types
they do not: an element of the second type that belongs to another rank and touches a node the rank owns through the first
type only is not held by the part (known finding "ghost layer mixed element types", known_findings.txt).
Tie: same model as Props/C20.lean (hand model + correspondence on every group of real gmsh splits); the C20 harness shows the
missing ghosts on a TRI3 square glued to a recombined square.
-/
import EasyFEAVerif.Props.C20

namespace EasyFEAVerif.Props.C20

open Finset

variable {E I Nd : Type*} [Fintype E] [Fintype Nd] [DecidableEq I] [DecidableEq E]
variable (P : Pre I)

/-- An element of another rank none of whose nodes belongs to an element of rank `r` OF THE TYPE BEING PROCESSED is not held
by the part of rank `r` — whether or not rank `r` already owns one of its nodes from an earlier type. -/
theorem part_blind_to_nodes_owned_before (conn : E → Nd → I) (rankOf : E → ℕ) (r : ℕ) (e : E)
    (hrank : rankOf e ≠ r) (hno : ∀ n, conn e n ∉ elemNodes conn rankOf r) :
    e ∉ part P conn rankOf r := by
  rw [part_iff]
  push Not
  exact ⟨hrank, fun n h => hno n (owned_subset P conn rankOf r h)⟩

/-- the situation exists: two ranks; rank 0 owns node 5 through the first element type (`pre 0 = {5}`); the only element of
the second type touches node 5 and belongs to rank 1. The part of rank 0 does not hold it. -/
theorem mixed_types_lose_a_ghost :
    let P : Pre ℕ := { R := 2, pre := fun r => if r = 0 then {5} else ∅ }
    let conn : Fin 1 → Fin 1 → ℕ := fun _ _ => 5
    let rankOf : Fin 1 → ℕ := fun _ => 1
    (5 ∈ P.pre 0) ∧ (∃ n, conn 0 n = 5) ∧ (0 : Fin 1) ∉ part P conn rankOf 0 := by
  intro P conn rankOf
  refine ⟨by simp [P], ⟨0, rfl⟩, ?_⟩
  apply part_blind_to_nodes_owned_before
  · simp [rankOf]
  · intro n
    simp [elemNodes, rankOf]

end EasyFEAVerif.Props.C20
