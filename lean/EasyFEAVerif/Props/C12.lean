/-
Property C12 — finite-element arrays compute the per-element, per-Gauss-point tensor
operation.  Proof part: the closed-form Det / Inv / Trace formulas, the einsum subscripts
of dot / ddot / TensorProd, the axis rule that decides whether a reduction keeps the
(Ne, nPg) axes, and the decision list of `FeArray.broadcast` (with a declared tensor rank a constant, a
per-element and a full coefficient are told apart by their leading axes only, whatever sizes coincide)
— all translated from /repo/EasyFEA/FEM/_linalg.py on every run.
The alignment / dispatch behaviour on actual arrays is validated against explicit
(e, p) loops by the correspondence harness.
-/
import EasyFEAVerif.Gen.C12.Broadcast
import EasyFEAVerif.Core.PExprSound
import EasyFEAVerif.Gen.C12.Linalg
import Mathlib.LinearAlgebra.Matrix.Determinant.Basic
import Mathlib.LinearAlgebra.Matrix.Notation
import Mathlib.Tactic.FinCases
import Mathlib.Tactic.Linarith

namespace EasyFEAVerif.Props.C12
open EasyFEAVerif EasyFEAVerif.Gen.C12

variable {K : Type*} [Field K] [CharZero K]

/-! ### determinant -/

theorem det1_is_det (x : Nat → K) : PExpr.eval x det1 = Matrix.det !![x 0] := by
  simp [det1, PExpr.eval]

theorem det2_is_det (x : Nat → K) : PExpr.eval x det2 = Matrix.det !![x 0, x 1; x 2, x 3] := by
  simp only [det2, PExpr.eval, Matrix.det_fin_two_of]
  ring

theorem det3_is_det (x : Nat → K) :
    PExpr.eval x det3 = Matrix.det !![x 0, x 1, x 2; x 3, x 4, x 5; x 6, x 7, x 8] := by
  rw [Matrix.det_fin_three]
  simp [det3, PExpr.eval]
  ring

/-! ### inverse: `mat · adj = det · I`, hence `mat · (adj / det) = I` when det ≠ 0 -/

/-- entry (i, j) of `mat · adj` as a polynomial in the entries of `mat` -/
def prodEntry (n : Nat) (adj : List (List PExpr)) (i j : Nat) : PExpr :=
  PExpr.sum ((List.range n).map fun k => PExpr.mul (.var (i * n + k)) ((adj.getD k []).getD j (.const 0)))

def adjOK (n : Nat) (det : PExpr) (adj : List (List PExpr)) : Bool :=
  (List.range n).all fun i => (List.range n).all fun j =>
    PExpr.eqv (prodEntry n adj i j) (if i = j then det else .const 0)

theorem adj2_ok : adjOK 2 det2 adj2 = true := by decide +kernel
theorem adj3_ok : adjOK 3 det3 adj3 = true := by decide +kernel

theorem adj_times_mat {n : Nat} {det : PExpr} {adj : List (List PExpr)} (h : adjOK n det adj = true)
    (x : Nat → K) {i j : Nat} (hi : i < n) (hj : j < n) :
    PExpr.eval x (prodEntry n adj i j) = if i = j then PExpr.eval x det else 0 := by
  simp only [adjOK, List.all_eq_true, List.mem_range] at h
  have := PExpr.eqv_sound (K := K) (h i hi j hj) x
  rw [this]
  split <;> simp [PExpr.eval]

/-- `Inv` (dim 2): the returned matrix `adj / det` is a right inverse of `mat` whenever det ≠ 0. -/
theorem inv2_is_inverse (x : Nat → K) (hdet : PExpr.eval x det2 ≠ 0) {i j : Nat} (hi : i < 2) (hj : j < 2) :
    (PExpr.eval x (prodEntry 2 adj2 i j)) / PExpr.eval x det2 = if i = j then 1 else 0 := by
  rw [adj_times_mat adj2_ok x hi hj]
  split <;> simp [hdet]

/-- `Inv` (dim 3). -/
theorem inv3_is_inverse (x : Nat → K) (hdet : PExpr.eval x det3 ≠ 0) {i j : Nat} (hi : i < 3) (hj : j < 3) :
    (PExpr.eval x (prodEntry 3 adj3 i j)) / PExpr.eval x det3 = if i = j then 1 else 0 := by
  rw [adj_times_mat adj3_ok x hi hj]
  split <;> simp [hdet]

/-- non-vacuity: a concrete 3×3 matrix with determinant 18 -/
example : PExpr.evalQ (fun i => [2, 0, 1, 1, 3, 2, 1, 1, 4].getD i 0) det3 = 18 := by decide +kernel

/-! ### einsum subscripts -/

/-- split a list of characters at the first occurrence of `c` -/
def splitAt1 (c : Char) : List Char → Option (List Char × List Char)
  | [] => none
  | x :: xs => if x = c then some ([], xs) else (splitAt1 c xs).map fun p => (x :: p.1, p.2)

def stripDots : List Char → Option (List Char)
  | '.' :: '.' :: '.' :: r => some r
  | _ => none

/-- `"...<idx1>,...<idx2>->...<out>"` split into its three label lists -/
def parseSub (s : List Char) : Option (List Char × List Char × List Char) := do
  let (a, r) ← splitAt1 ',' s
  let (b, r2) ← splitAt1 '-' r
  let out ← match r2 with
    | '>' :: o => some o
    | _ => none
  let a ← stripDots a
  let b ← stripDots b
  let out ← stripDots out
  return (a, b, out)

/-- single contraction: last label of the first operand = first label of the second, every
other label distinct and kept, in order (`A·B` contracts the last axis of A with the first of B) -/
def dotOK (e : Nat × Nat × List Char) : Bool :=
  match parseSub e.2.2 with
  | some (a, b, out) =>
    a.length == e.1 && b.length == e.2.1 && a.getLast? == b.head? && a.getLast?.isSome &&
    out == a.dropLast ++ b.tail && (a ++ b.tail).Nodup
  | none => false

/-- double contraction: the last two labels of the first = the first two of the second -/
def ddotOK (e : Nat × Nat × List Char) : Bool :=
  match parseSub e.2.2 with
  | some (a, b, out) =>
    a.length == e.1 && b.length == e.2.1 && 2 ≤ a.length && 2 ≤ b.length &&
    a.drop (a.length - 2) == b.take 2 &&
    out == a.take (a.length - 2) ++ b.drop 2 && (a ++ b.drop 2).Nodup
  | none => false

/-- every admissible rank pair (vectors, matrices, 4th-order tensors) is covered and builds
the subscript of the single contraction -/
theorem dot_subscripts_contract_last_with_first :
    dotSubscripts.map (fun e => (e.1, e.2.1)) = [(1, 1), (1, 2), (1, 4), (2, 1), (2, 2), (2, 4), (4, 1), (4, 2), (4, 4)]
    ∧ dotSubscripts.all dotOK = true := by decide +kernel

theorem ddot_subscripts_contract_last_two_with_first_two :
    ddotSubscripts.map (fun e => (e.1, e.2.1)) = [(2, 2), (2, 4), (4, 2), (4, 4)]
    ∧ ddotSubscripts.all ddotOK = true := by decide +kernel

/-- `TensorProd`: a_i b_j ; the symmetric product ½(A_ik B_jl + A_il B_jk) ; A_ij B_kl. -/
theorem tensorprod_subscripts :
    tensorProdSubscripts.map String.ofList
      = ["...i,...j->...ij", "...ik,...jl->...ijkl", "...il,...jk->...ijkl", "...ij,...kl->...ijkl"] := by
  decide +kernel

theorem trace_subscript : traceSubscripts.map String.ofList = ["...ii->..."] := by decide +kernel

/-! ### a reduction keeps the (Ne, nPg) axes exactly when every reduced axis is a tensor axis -/

/-- For every array rank and every valid axis (negative axes count from the end), the test of
`_KeepsFeAxes` says "keep" exactly when the normalised axis is ≥ 2. -/
theorem keepsAxis_iff (a ndim : Int) (h1 : -ndim ≤ a) (h2 : a < ndim) :
    keepsAxis a ndim = true ↔ 2 ≤ (if 0 ≤ a then a else a + ndim) := by
  unfold keepsAxis
  by_cases h : 0 ≤ a
  · simp [h]
  · simp [h]

/-! ### coefficient broadcasting (`FeArray.broadcast`, decision list translated from the source) -/

section broadcast
open EasyFEAVerif.Broadcast

theorem lead_append (l t : List Nat) : lead (l ++ t) t.length = l := by
  simp [lead]
theorem tail_append (l t : List Nat) : tail (l ++ t) t.length = t := by
  simp [tail]

/-- with a declared tensor rank the classification only looks at the leading axes -/
theorem declared_classify (l t : List Nat) (Ne nPg : Nat) (ht : 0 < t.length) :
    classify broadcastRules ⟨false, l ++ t⟩ Ne nPg t.length =
      some (if l = [Ne, nPg] then .full else if l = [Ne] then .perElem else if l = [] then .const else .error) := by
  simp only [classify, broadcastRules, List.find?, List.all_cons, List.all_nil, Bool.and_true, Cond.holds, lead_append, ht, decide_true]
  by_cases h1 : l = [Ne, nPg]
  · simp [h1]
  · by_cases h2 : l = [Ne]
    · simp [h2]
    · by_cases h3 : l = []
      · simp [h3]
      · have e1 : (l == [Ne, nPg]) = false := by simpa using h1
        have e2 : (l == [Ne]) = false := by simpa using h2
        have e3 : (l == ([] : List Nat)) = false := by simpa using h3
        simp [h1, h2, h3, e1, e2, e3]

/-- **no ambiguity once the tensor rank is declared**: a constant tensor, a per-element tensor and a full field are told
apart by their leading axes only — whatever the sizes of the tensor axes (`nPg = n`, `Ne = nPg = n`, …) -/
theorem declared_unambiguous (t : List Nat) (Ne nPg : Nat) (ht : 0 < t.length) :
    classify broadcastRules ⟨false, t⟩ Ne nPg t.length = some .const ∧
    classify broadcastRules ⟨false, Ne :: t⟩ Ne nPg t.length = some .perElem ∧
    classify broadcastRules ⟨false, Ne :: nPg :: t⟩ Ne nPg t.length = some .full := by
  refine ⟨?_, ?_, ?_⟩
  · have := declared_classify [] t Ne nPg ht
    simpa using this
  · have := declared_classify [Ne] t Ne nPg ht
    simpa using this
  · have := declared_classify [Ne, nPg] t Ne nPg ht
    simpa using this

/-- … and the result always has the shape `(Ne, nPg) + tail` -/
theorem declared_shape (t : List Nat) (Ne nPg : Nat) (ht : 0 < t.length) :
    resultShape .const t Ne nPg t.length = some ([Ne, nPg] ++ t) ∧
    resultShape .perElem (Ne :: t) Ne nPg t.length = some ([Ne, nPg] ++ t) ∧
    resultShape .full (Ne :: nPg :: t) Ne nPg t.length = some ([Ne, nPg] ++ t) := by
  have h0 : t.length ≠ 0 := by omega
  refine ⟨?_, ?_, ?_⟩
  · have := tail_append [] t
    simp only [List.nil_append] at this
    simp [resultShape, h0, this]
  · simp [resultShape]
  · simp [resultShape]

/-- any other leading shape is rejected when the rank is declared -/
theorem declared_rejects (l t : List Nat) (Ne nPg : Nat) (ht : 0 < t.length) (h1 : l ≠ [Ne, nPg]) (h2 : l ≠ [Ne]) (h3 : l ≠ []) :
    classify broadcastRules ⟨false, l ++ t⟩ Ne nPg t.length = some .error := by
  rw [declared_classify l t Ne nPg ht]; simp [h1, h2, h3]

/-- the colliding sizes of TRI6 in 2D (nPg = nstrain = 3): a per-element Hooke matrix (7, 3, 3) is read per element -/
example : classify broadcastRules ⟨false, [7, 3, 3]⟩ 7 3 2 = some .perElem ∧ classify broadcastRules ⟨false, [3, 3]⟩ 3 3 2 = some .const := by
  decide

/-- without a declared rank the documented priority applies: Python number, then full field, then `(Ne,)`, then `(nPg,)`, then a constant -/
theorem undeclared_classify (shape : List Nat) (Ne nPg : Nat) :
    classify broadcastRules ⟨false, shape⟩ Ne nPg 0 =
      some (if shape.take 2 = [Ne, nPg] then .full
            else if shape = [Ne] then .perElem
            else if shape = [nPg] then .perPoint else .const) := by
  simp only [classify, broadcastRules, List.find?, List.all_cons, List.all_nil, Bool.and_true, Cond.holds, Nat.lt_irrefl, decide_false,
    Bool.false_and]
  by_cases h1 : shape.take 2 = [Ne, nPg]
  · simp [h1]
  · have e1 : (shape.take 2 == [Ne, nPg]) = false := by simpa using h1
    match shape, h1, e1 with
    | [], _, _ => simp
    | [a], _, _ =>
      by_cases ha : a = Ne
      · simp [ha]
      · have ea : (a == Ne) = false := by simpa using ha
        by_cases hb : a = nPg
        · subst hb; simp [ha, ea]
        · have eb : (a == nPg) = false := by simpa using hb
          simp [ha, hb, ea, eb]
    | a :: b :: r, h1, e1 =>
      simp only [List.take] at e1 h1
      simp [e1, h1]

theorem scalar_classify (shape : List Nat) (Ne nPg tn : Nat) : classify broadcastRules ⟨true, shape⟩ Ne nPg tn = some .scalar := by
  simp [classify, broadcastRules, Cond.holds]

end broadcast

end EasyFEAVerif.Props.C12
