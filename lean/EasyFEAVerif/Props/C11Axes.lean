/-
Property C11 — "with material axes of any length ... yields the same law". The constructors of TransverselyIsotropic,
Orthotropic and Anisotropic first test that the two axes are perpendicular. After fix 61f897d the test is made on the unit
vectors and on the absolute value: |â·b̂| ≤ tol, modelled here (squared, to stay in ℚ) as (a·b)² ≤ tol² |a|² |b|².
Theorems: the verdict does not depend on the lengths of the axes; the test before the fix did, and accepted obtuse pairs.
Tie: hand model; the C11 harness builds every law with axes of length 1e-3 … 4000 (block "rotated axes = rotated tensor").
-/
import Mathlib.Tactic.Linarith
import Mathlib.Tactic.Positivity
import Mathlib.Tactic.NormNum

namespace EasyFEAVerif.Props.C11Axes


/-- the quantity tested after fix 61f897d, squared to stay rational: (a·b)² ≤ tol² |a|² |b|² -/
def perpOK (ab aa bb tol : ℚ) : Prop := ab ^ 2 ≤ tol ^ 2 * (aa * bb)

/-- scaling the two axes by any non-zero factors does not change the verdict -/
theorem perpOK_scale_invariant (ab aa bb tol s t : ℚ) (hs : s ≠ 0) (ht : t ≠ 0) :
    perpOK (s * t * ab) (s ^ 2 * aa) (t ^ 2 * bb) tol ↔ perpOK ab aa bb tol := by
  unfold perpOK
  have h : (0 : ℚ) < (s * t) ^ 2 := by positivity
  constructor
  · intro H
    have : (s * t) ^ 2 * ab ^ 2 ≤ (s * t) ^ 2 * (tol ^ 2 * (aa * bb)) := by nlinarith [H]
    exact le_of_mul_le_mul_left this h
  · intro H
    have : (s * t) ^ 2 * ab ^ 2 ≤ (s * t) ^ 2 * (tol ^ 2 * (aa * bb)) := mul_le_mul_of_nonneg_left H h.le
    nlinarith [this]

/-- the test before the fix, `a·b ≤ tol` on the vectors as given … -/
def perpOld (ab tol : ℚ) : Prop := ab ≤ tol

/-- … rejects a pair it accepts once both axes are 1000 times longer (round-off of 1e-13 in the scalar product) … -/
theorem perpOld_depends_on_length : perpOld (1 / 10 ^ 13) (1 / 10 ^ 12) ∧ ¬ perpOld (1000 * 1000 * (1 / 10 ^ 13)) (1 / 10 ^ 12) := by
  unfold perpOld; constructor <;> norm_num

/-- … and accepts unit axes at 120 degrees, which the new test refuses -/
theorem perpOld_accepts_obtuse : perpOld (-1 / 2) (1 / 10 ^ 12) ∧ ¬ perpOK (-1 / 2) 1 1 (1 / 10 ^ 12) := by
  unfold perpOld perpOK; constructor <;> norm_num

end EasyFEAVerif.Props.C11Axes
