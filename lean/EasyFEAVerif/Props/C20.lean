/-
Property C20 — any partition of a mesh is a true partition and assembles row-complete systems.

Model of the bookkeeping of `Mesher.__Get_partitioned_groupElems` (EasyFEA/FEM/_mesher.py) for one element
type, for ANY element → rank map (gmsh's partitioner is external: whatever it returns, the bookkeeping is right):
ranks are processed in increasing order; rank `r` owns the nodes of its elements that no lower rank has taken during
this pass and no other rank owned from the element types processed before (`Pre`),
its ghost elements are the elements of other ranks that touch a node it owns, and its part is owned ∪ ghost.
Theorems (any number of ranks, elements, nodes per element):
  * the owned node sets are pairwise disjoint and cover exactly the nodes used by the elements: every node has
    exactly one owner (the lowest rank among the elements around it);
  * every element has exactly one owner; a part holds every element touching a node it owns;
  * row completeness: the system assembled on one part alone equals the global system on the rows of the nodes
    that part owns; quantities summed over owned rows of all parts equal the global sums.
-/
import Mathlib.Algebra.BigOperators.Group.Finset.Basic
import Mathlib.Algebra.BigOperators.Ring.Finset
import Mathlib.Data.Finset.Lattice.Fold
import Mathlib.Data.Finset.Union
import Mathlib.Data.Fintype.Basic
import Mathlib.Order.Interval.Finset.Nat
import Mathlib.Tactic.Ring
import Mathlib.Algebra.Order.BigOperators.Group.Finset

set_option linter.unusedSectionVars false

namespace EasyFEAVerif.Props.C20

open Finset

variable {E I Nd : Type*} [Fintype E] [Fintype Nd] [DecidableEq I] [DecidableEq E]

/-- nodes of the elements owned by rank `r` -/
def elemNodes (conn : E → Nd → I) (rankOf : E → ℕ) (r : ℕ) : Finset I :=
  (univ.filter fun e => rankOf e = r).biUnion fun e => univ.image (conn e)

/-- The state of `dict_rank_nodes` when an element type is processed: `pre r` are the nodes rank `r` already owns
from the element types processed before (empty for the first type), `R` is the number of ranks. -/
structure Pre (I : Type*) where
  R : ℕ
  pre : ℕ → Finset I

variable (P : Pre I)

/-- nodes owned by the other ranks before this pass -/
def preOther (r : ℕ) : Finset I := ((range P.R).filter (· ≠ r)).biUnion P.pre

/-- nodes taken during this pass by the ranks below `r` (ranks are processed in increasing order) -/
def lowerNew (conn : E → Nd → I) (rankOf : E → ℕ) : ℕ → Finset I
  | 0 => ∅
  | r + 1 => lowerNew conn rankOf r ∪ (elemNodes conn rankOf r \ (preOther P r ∪ lowerNew conn rankOf r))

/-- `nodes = set(connect_r.ravel()) - otherRankNodes`: the nodes of the group that rank `r` owns -/
def ownedNodes (conn : E → Nd → I) (rankOf : E → ℕ) (r : ℕ) : Finset I :=
  elemNodes conn rankOf r \ (preOther P r ∪ lowerNew P conn rankOf r)

/-- ghost elements of rank `r`: elements of other ranks touching an owned node -/
def ghosts (conn : E → Nd → I) (rankOf : E → ℕ) (r : ℕ) : Finset E :=
  univ.filter fun e => rankOf e ≠ r ∧ ∃ n, conn e n ∈ ownedNodes P conn rankOf r

theorem mem_ghosts_iff (conn : E → Nd → I) (rankOf : E → ℕ) (r : ℕ) (e : E) :
    e ∈ ghosts P conn rankOf r ↔ rankOf e ≠ r ∧ ∃ n, conn e n ∈ ownedNodes P conn rankOf r := by
  simp [ghosts]

/-- the elements a part holds -/
def part (conn : E → Nd → I) (rankOf : E → ℕ) (r : ℕ) : Finset E :=
  (univ.filter fun e => rankOf e = r) ∪ ghosts P conn rankOf r

theorem lowerNew_succ (conn : E → Nd → I) (rankOf : E → ℕ) (r : ℕ) :
    lowerNew P conn rankOf (r + 1) = lowerNew P conn rankOf r ∪ ownedNodes P conn rankOf r := rfl

theorem owned_subset_lowerNew (conn : E → Nd → I) (rankOf : E → ℕ) {r r' : ℕ} (h : r < r') :
    ownedNodes P conn rankOf r ⊆ lowerNew P conn rankOf r' := by
  induction r' with
  | zero => omega
  | succ k ih =>
    rw [lowerNew_succ]
    rcases Nat.lt_succ_iff_lt_or_eq.mp h with hlt | heq
    · exact (ih hlt).trans subset_union_left
    · subst heq; exact subset_union_right

theorem lowerNew_subset (conn : E → Nd → I) (rankOf : E → ℕ) (r : ℕ) (i : I) (h : i ∈ lowerNew P conn rankOf r) :
    ∃ r' < r, i ∈ ownedNodes P conn rankOf r' := by
  induction r with
  | zero => simp [lowerNew] at h
  | succ k ih =>
    rw [lowerNew_succ, mem_union] at h
    rcases h with h | h
    · obtain ⟨r', hr', hi⟩ := ih h
      exact ⟨r', Nat.lt_succ_of_lt hr', hi⟩
    · exact ⟨k, Nat.lt_succ_self k, h⟩

/-- the loop of the code, ranks `0 … r-1`: (owned node sets so far, nodes taken so far) — what the driver evaluates -/
def run (conn : E → Nd → I) (rankOf : E → ℕ) : ℕ → List (Finset I) × Finset I
  | 0 => ([], ∅)
  | r + 1 =>
    let prev := run conn rankOf r
    let own := elemNodes conn rankOf r \ (preOther P r ∪ prev.2)
    (prev.1 ++ [own], prev.2 ∪ own)

theorem run_spec (conn : E → Nd → I) (rankOf : E → ℕ) (r : ℕ) :
    run P conn rankOf r = ((List.range r).map (ownedNodes P conn rankOf), lowerNew P conn rankOf r) := by
  induction r with
  | zero => simp [run, lowerNew]
  | succ k ih => simp [run, ih, List.range_succ, lowerNew_succ, ownedNodes]

/-- **the owned node sets of the group are pairwise disjoint** -/
theorem owned_disjoint (conn : E → Nd → I) (rankOf : E → ℕ) {r r' : ℕ} (h : r < r') :
    Disjoint (ownedNodes P conn rankOf r) (ownedNodes P conn rankOf r') := by
  rw [Finset.disjoint_left]
  intro i hi hi'
  have := owned_subset_lowerNew P conn rankOf h hi
  simp only [ownedNodes, mem_sdiff, mem_union, not_or] at hi'
  exact hi'.2.2 this

theorem owner_unique (conn : E → Nd → I) (rankOf : E → ℕ) (i : I) {r r' : ℕ}
    (h : i ∈ ownedNodes P conn rankOf r) (h' : i ∈ ownedNodes P conn rankOf r') : r = r' := by
  rcases lt_trichotomy r r' with hlt | heq | hgt
  · exact absurd h' (Finset.disjoint_left.mp (owned_disjoint P conn rankOf hlt) h)
  · exact heq
  · exact absurd h (Finset.disjoint_left.mp (owned_disjoint P conn rankOf hgt) h')

/-- a rank never takes a node another rank owned before the pass -/
theorem owned_not_pre (conn : E → Nd → I) (rankOf : E → ℕ) {r r' : ℕ} (hr' : r' < P.R) (hne : r' ≠ r) (i : I)
    (h : i ∈ ownedNodes P conn rankOf r) : i ∉ P.pre r' := by
  simp only [ownedNodes, mem_sdiff, mem_union, not_or] at h
  intro hp
  exact h.2.1 (mem_biUnion.mpr ⟨r', by simp [hr', hne], hp⟩)

/-- **every used node has an owner**: a node of an element of rank `r` is owned, for this group, by a rank `≤ r`, or
was already owned by another rank before the pass -/
theorem owned_cover (conn : E → Nd → I) (rankOf : E → ℕ) (e : E) (n : Nd) :
    (∃ r ≤ rankOf e, conn e n ∈ ownedNodes P conn rankOf r) ∨ conn e n ∈ preOther P (rankOf e) := by
  have hmem : conn e n ∈ elemNodes conn rankOf (rankOf e) :=
    mem_biUnion.mpr ⟨e, by simp, mem_image.mpr ⟨n, mem_univ _, rfl⟩⟩
  by_cases hp : conn e n ∈ preOther P (rankOf e)
  · exact Or.inr hp
  · left
    by_cases hl : conn e n ∈ lowerNew P conn rankOf (rankOf e)
    · obtain ⟨r', hr', hi⟩ := lowerNew_subset P conn rankOf _ _ hl
      exact ⟨r', hr'.le, hi⟩
    · exact ⟨rankOf e, le_refl _, by simp only [ownedNodes, mem_sdiff, mem_union, not_or]; exact ⟨hmem, hp, hl⟩⟩

/-- when the earlier passes are consistent with this one (a node owned before by rank `r'` and used by this group is
a node of one of `r'`'s elements of this group; the earlier owners are pairwise disjoint), every used node is owned, for
this group, by exactly one rank -/
theorem owned_cover_consistent (conn : E → Nd → I) (rankOf : E → ℕ)
    (hdisj : ∀ r r', r < P.R → r' < P.R → r ≠ r' → Disjoint (P.pre r) (P.pre r'))
    (hcons : ∀ r' < P.R, ∀ i ∈ P.pre r', (∃ e n, conn e n = i) → i ∈ elemNodes conn rankOf r')
    (e : E) (n : Nd) : ∃ r, conn e n ∈ ownedNodes P conn rankOf r := by
  rcases owned_cover P conn rankOf e n with ⟨r, _, h⟩ | h
  · exact ⟨r, h⟩
  · simp only [preOther, mem_biUnion, mem_filter, mem_range] at h
    obtain ⟨r', ⟨hr', hne⟩, hi⟩ := h
    refine ⟨r', ?_⟩
    simp only [ownedNodes, mem_sdiff, mem_union, not_or]
    refine ⟨hcons r' hr' _ hi ⟨e, n, rfl⟩, ?_, ?_⟩
    · simp only [preOther, mem_biUnion, mem_filter, mem_range, not_exists, not_and, and_imp]
      intro r'' hr'' hne'' hi''
      exact Finset.disjoint_left.mp (hdisj r' r'' hr' hr'' (Ne.symm hne'')) hi hi''
    · intro hl
      obtain ⟨r'', hlt, ho⟩ := lowerNew_subset P conn rankOf _ _ hl
      exact owned_not_pre P conn rankOf hr' (Nat.ne_of_gt hlt) _ ho hi

theorem owned_subset (conn : E → Nd → I) (rankOf : E → ℕ) (r : ℕ) :
    ownedNodes P conn rankOf r ⊆ elemNodes conn rankOf r := sdiff_subset

/-- **a part holds every element touching a node it owns** -/
theorem part_complete (conn : E → Nd → I) (rankOf : E → ℕ) (r : ℕ) (e : E) (n : Nd)
    (h : conn e n ∈ ownedNodes P conn rankOf r) : e ∈ part P conn rankOf r := by
  by_cases he : rankOf e = r
  · exact mem_union_left _ (by simp [he])
  · exact mem_union_right _ (by simp only [ghosts, mem_filter, mem_univ, true_and]; exact ⟨he, n, h⟩)

/-- and nothing else: a part is exactly its own elements plus the elements touching an owned node -/
theorem part_iff (conn : E → Nd → I) (rankOf : E → ℕ) (r : ℕ) (e : E) :
    e ∈ part P conn rankOf r ↔ rankOf e = r ∨ ∃ n, conn e n ∈ ownedNodes P conn rankOf r := by
  simp only [part, ghosts, mem_union, mem_filter, mem_univ, true_and]
  constructor
  · rintro (h | ⟨_, h⟩)
    · exact Or.inl h
    · exact Or.inr h
  · rintro (h | h)
    · exact Or.inl h
    · by_cases he : rankOf e = r
      · exact Or.inl he
      · exact Or.inr ⟨he, h⟩

/-! ### row completeness -/

section rows
variable {K : Type*} [CommRing K]

/-- row `i` of a system assembled over a set of elements (scatter-add, C03): `f e n` is the contribution of
element `e` to the row of its `n`-th node (already summed over the columns or applied to a vector) -/
def rowOver (conn : E → Nd → I) (f : E → Nd → K) (S : Finset E) (i : I) : K :=
  ∑ e ∈ S, ∑ n, if conn e n = i then f e n else 0

/-- **the system assembled on one part alone is the global system on the rows the part owns** -/
theorem row_complete (conn : E → Nd → I) (rankOf : E → ℕ) (f : E → Nd → K) (r : ℕ) (i : I)
    (hi : i ∈ ownedNodes P conn rankOf r) :
    rowOver conn f (part P conn rankOf r) i = rowOver conn f univ i := by
  unfold rowOver
  symm
  refine (sum_subset (subset_univ _) fun e _ he => ?_).symm
  refine sum_eq_zero fun n _ => ?_
  by_cases hn : conn e n = i
  · exact absurd (part_complete P conn rankOf r e n (hn ▸ hi)) he
  · simp [hn]

/-- **owned-row sums over the parts equal the global sums** (energies, reactions): for the `R` ranks that own
all the nodes of a set `S` -/
theorem owned_rows_sum (conn : E → Nd → I) (rankOf : E → ℕ) (R : ℕ) (S : Finset I) (g : I → K)
    (hS : ∀ i ∈ S, ∃ r < R, i ∈ ownedNodes P conn rankOf r) :
    ∑ r ∈ range R, ∑ i ∈ S.filter (fun i => i ∈ ownedNodes P conn rankOf r), g i = ∑ i ∈ S, g i := by
  rw [← sum_biUnion]
  · refine sum_congr ?_ fun _ _ => rfl
    ext i
    simp only [mem_biUnion, mem_range, mem_filter]
    constructor
    · rintro ⟨r, _, hi, _⟩; exact hi
    · intro hi
      obtain ⟨r, hr, hio⟩ := hS i hi
      exact ⟨r, hr, hi, hio⟩
  · intro r _ r' _ hne
    rw [Function.onFun, Finset.disjoint_left]
    intro i hi hi'
    simp only [mem_filter] at hi hi'
    exact hne (owner_unique P conn rankOf i hi.2 hi'.2)

end rows

/-! ### `Mesh.Merge`: the concatenated numbering is a bijection (inverse bookkeeping) -/

/-- `offsets = concatenate(([0], cumsum(sizes[:-1])))` -/
def offset (sizes : ℕ → ℕ) (k : ℕ) : ℕ := ∑ k' ∈ range k, sizes k'

theorem offset_mono (sizes : ℕ → ℕ) {k k' : ℕ} (h : k ≤ k') : offset sizes k ≤ offset sizes k' :=
  sum_le_sum_of_subset (range_subset_range.mpr h)

/-- node `j` of mesh `k` receives the index `offset k + j`: distinct (mesh, node) pairs receive distinct indices, so
the returned mapping can be inverted -/
theorem merge_index_injective (sizes : ℕ → ℕ) {k k' j j' : ℕ} (hj : j < sizes k) (hj' : j' < sizes k')
    (h : offset sizes k + j = offset sizes k' + j') : k = k' ∧ j = j' := by
  have key : ∀ {a b ja jb : ℕ}, a < b → ja < sizes a → offset sizes a + ja ≠ offset sizes b + jb := by
    intro a b ja jb hab hja heq
    have h1 : offset sizes (a + 1) ≤ offset sizes b := offset_mono sizes hab
    have h2 : offset sizes (a + 1) = offset sizes a + sizes a := by simp [offset, sum_range_succ]
    omega
  rcases lt_trichotomy k k' with hlt | heq | hgt
  · exact absurd h (key hlt hj)
  · subst heq; exact ⟨rfl, by omega⟩
  · exact absurd h.symm (key hgt hj')

/-- every index below the total is reached -/
theorem merge_index_surjective (sizes : ℕ → ℕ) (M : ℕ) (i : ℕ) (hi : i < offset sizes M) :
    ∃ k < M, ∃ j < sizes k, offset sizes k + j = i := by
  induction M with
  | zero => simp [offset] at hi
  | succ M ih =>
    by_cases h : i < offset sizes M
    · obtain ⟨k, hk, j, hj, e⟩ := ih h
      exact ⟨k, Nat.lt_succ_of_lt hk, j, hj, e⟩
    · have h2 : offset sizes (M + 1) = offset sizes M + sizes M := by simp [offset, sum_range_succ]
      exact ⟨M, Nat.lt_succ_self M, i - offset sizes M, by omega, by omega⟩

/-! ### non-vacuity: three elements on a line, two ranks, first pass (nothing owned before) -/
example :
    let conn : Fin 3 → Fin 2 → ℕ := fun e n => e.val + n.val
    let rankOf : Fin 3 → ℕ := fun e => if e.val < 2 then 0 else 1
    let P : Pre ℕ := ⟨2, fun _ => ∅⟩
    ownedNodes P conn rankOf 0 = {0, 1, 2} ∧ ownedNodes P conn rankOf 1 = {3} ∧ part P conn rankOf 1 = {2} ∧
    part P conn rankOf 0 = {0, 1, 2} := by
  decide

end EasyFEAVerif.Props.C20
