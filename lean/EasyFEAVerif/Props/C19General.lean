/-
Property C19 beyond linear hardening: the scalar return of a von Mises surface with ANY non-softening isotropic
hardening law `R` and ANY monotone rate term `V` (Perzyna / Norton overstress, `V = 0` for the rate-independent case).

With the trial equivalent stress `q_tr`, the committed accumulated plastic strain `p` and the shear modulus `μ > 0`, the
backward-Euler step looks for `x = Δp ≥ 0` with

      r(x) = q_tr − 3 μ x − σ_y − R(p + x) − V(x)          r(x) ≤ 0,   x r(x) = 0.

Both local solvers of the library (`_spectral.Solve`, a clamped scalar Newton iteration, and the Newton solve on the full
residual) look for a root of this `r`. Proved here, for every monotone `R` and `V`, every trial state, over any ordered field:
  * `residual_strictAnti`: `r` is strictly decreasing, with slope at least `3 μ`;
  * `root_unique`: the step has at most one solution — two solvers that both converge return the same `Δp`
    ("both local solvers agree"), and quantitatively (`roots_close`): two approximate roots with residuals below `ε`
    differ by at most `2 ε / (3 μ)`, so agreement survives a finite tolerance;
  * `step_unique`: the complementarity problem (elastic or flowing) has at most one solution, and it is `0` exactly when
    the trial state is inside the surface (`elastic_iff`);
  * for any solution: `Δp ≥ 0`, the accumulated plastic strain does not decrease, the updated stress is on or inside the
    UPDATED surface, and the plastic work of the step `Δp · q` is non-negative;
  * `clamped_iterates_nonneg`: every iterate of `θ ← max(θ − step, 0)` is non-negative, whatever the steps are.
The hardening laws the library offers are shown to satisfy the hypotheses (`Linear`, `Voce`, `Swift`: `R(0) = 0`, `R`
non-decreasing on `p ≥ 0` under the ranges their constructors assert, the tabulated slope is the derivative of `R` and `R`
the derivative of the stored energy); their defining lambdas are pinned against the source (`Gen/C19/Forms.lean`).
-/
import EasyFEAVerif.Gen.C19.Forms
import Mathlib.Algebra.Order.Field.Basic
import Mathlib.Order.Monotone.Basic
import Mathlib.Tactic.Ring
import Mathlib.Tactic.Linarith
import Mathlib.Tactic.FieldSimp
import Mathlib.Tactic.Positivity
import Mathlib.Tactic.NormNum
import Mathlib.Algebra.Order.Field.Rat

set_option linter.unusedSectionVars false

namespace EasyFEAVerif.Props.C19General

section general
variable {K : Type*} [Field K] [LinearOrder K] [IsStrictOrderedRing K]

/-- data of one step -/
structure Step (K : Type*) where
  mu : K
  sy : K
  qtr : K
  p : K
  R : K → K
  V : K → K

/-- residual of the scalar return -/
def residual (s : Step K) (x : K) : K := s.qtr - 3 * s.mu * x - s.sy - s.R (s.p + x) - s.V x

/-- non-decreasing on the non-negative half-line (where the laws are evaluated: `p ≥ 0`, `Δp ≥ 0`) -/
def MonoNN (f : K → K) : Prop := ∀ a b, 0 ≤ a → a ≤ b → f a ≤ f b

variable (s : Step K) (hmu : 0 < s.mu) (hp : 0 ≤ s.p) (hR : MonoNN s.R) (hV : MonoNN s.V)

include hmu hp hR hV

/-- the residual decreases at least as fast as `3 μ x` -/
theorem residual_slope {x y : K} (hx0 : 0 ≤ x) (hxy : x ≤ y) : residual s y + 3 * s.mu * (y - x) ≤ residual s x := by
  have h1 : s.R (s.p + x) ≤ s.R (s.p + y) := hR _ _ (by linarith) (by linarith)
  have h2 : s.V x ≤ s.V y := hV _ _ hx0 hxy
  unfold residual
  linarith

theorem residual_strictAnti {x y : K} (hx0 : 0 ≤ x) (hxy : x < y) : residual s y < residual s x := by
  have h := residual_slope s hmu hp hR hV hx0 hxy.le
  have : 0 < 3 * s.mu * (y - x) := by
    have : 0 < y - x := sub_pos.mpr hxy
    positivity
  linarith

/-- **both local solvers agree**: the scalar return has at most one root -/
theorem root_unique {x y : K} (hx0 : 0 ≤ x) (hy0 : 0 ≤ y) (hx : residual s x = 0) (hy : residual s y = 0) : x = y := by
  rcases lt_trichotomy x y with h | h | h
  · have := residual_strictAnti s hmu hp hR hV hx0 h; linarith
  · exact h
  · have := residual_strictAnti s hmu hp hR hV hy0 h; linarith

/-- … and two approximate roots are close: `|x − y| ≤ 2 ε / (3 μ)` -/
theorem roots_close {x y ε : K} (hx0 : 0 ≤ x) (hy0 : 0 ≤ y) (hx : |residual s x| ≤ ε) (hy : |residual s y| ≤ ε) :
    3 * s.mu * |x - y| ≤ 2 * ε := by
  have hx' := abs_le.mp hx
  have hy' := abs_le.mp hy
  rcases le_total x y with h | h
  · have := residual_slope s hmu hp hR hV hx0 h
    rw [abs_sub_comm, abs_of_nonneg (sub_nonneg.mpr h)]
    linarith [hx'.2, hy'.1]
  · have := residual_slope s hmu hp hR hV hy0 h
    rw [abs_of_nonneg (sub_nonneg.mpr h)]
    linarith [hx'.1, hy'.2]

/-- a solution of the step: elastic or flowing -/
def IsStep (x : K) : Prop := 0 ≤ x ∧ residual s x ≤ 0 ∧ x * residual s x = 0

/-- the step has at most one solution -/
theorem step_unique {x y : K} (hx : IsStep s x) (hy : IsStep s y) : x = y := by
  obtain ⟨hx0, hxr, hxc⟩ := hx
  obtain ⟨hy0, hyr, hyc⟩ := hy
  rcases mul_eq_zero.mp hxc with hx1 | hx1 <;> rcases mul_eq_zero.mp hyc with hy1 | hy1
  · rw [hx1, hy1]
  · -- x = 0, y a root: if y > 0 then r(y) < r(0) ≤ 0
    subst hx1
    rcases eq_or_lt_of_le hy0 with h | h
    · exact h
    · have := residual_strictAnti s hmu hp hR hV (le_refl 0) h; linarith
  · subst hy1
    rcases eq_or_lt_of_le hx0 with h | h
    · exact h.symm
    · have := residual_strictAnti s hmu hp hR hV (le_refl 0) h; linarith
  · exact root_unique s hmu hp hR hV hx0 hy0 hx1 hy1

/-- the step is elastic exactly when the trial state is not outside the surface -/
theorem elastic_iff {x : K} (hx : IsStep s x) : x = 0 ↔ residual s 0 ≤ 0 := by
  constructor
  · rintro rfl; exact hx.2.1
  · intro h0
    exact step_unique s hmu hp hR hV hx ⟨le_refl 0, h0, by ring⟩

omit hmu hp hR hV in
/-- when the trial state is outside the surface, the step flows and ends ON the updated surface -/
theorem flowing_on_surface {x : K} (hx : IsStep s x) (h0 : 0 < residual s 0) : 0 < x ∧ residual s x = 0 := by
  obtain ⟨hx0, hxr, hxc⟩ := hx
  rcases eq_or_lt_of_le hx0 with h | h
  · subst h; linarith
  · exact ⟨h, (mul_eq_zero.mp hxc).resolve_left h.ne'⟩

omit hmu hp hR hV in
/-- the accumulated plastic strain never decreases along a path of steps, whatever the trial states are -/
theorem p_monotone_path (ps : List K) (hps : ∀ x ∈ ps, 0 ≤ x) (p0 : K) : p0 ≤ ps.foldl (· + ·) p0 := by
  induction ps generalizing p0 with
  | nil => simp
  | cons x xs ih =>
    simp only [List.foldl_cons]
    have hx := hps x (by simp)
    exact le_trans (by linarith) (ih (fun y hy => hps y (by simp [hy])) (p0 + x))

omit hp hR hV in
/-- plastic work of the step: with the updated equivalent stress `q = q_tr − 3 μ x ≥ 0`, `x q ≥ 0` -/
theorem plastic_work_nonneg {x : K} (hx : IsStep s x) (hq : 0 ≤ s.sy + s.R (s.p + x) + s.V x) :
    0 ≤ x * (s.qtr - 3 * s.mu * x) := by
  obtain ⟨hx0, hxr, hxc⟩ := hx
  rcases mul_eq_zero.mp hxc with h | h
  · rw [h]; simp
  · have : s.qtr - 3 * s.mu * x = s.sy + s.R (s.p + x) + s.V x := by unfold residual at h; linarith
    rw [this]; positivity

end general

/-! ### the clamped iteration -/
section clamp
variable {K : Type*} [LinearOrder K] [Zero K] [Sub K]

/-- `θ ← max(θ − step, 0)` for an arbitrary list of steps -/
def clamped (θ0 : K) (steps : List K) : List K :=
  steps.scanl (fun θ d => max (θ - d) 0) θ0

/-- every iterate after the first is non-negative (and the first one is, if the start is) -/
theorem clamped_iterates_nonneg (θ0 : K) (h0 : 0 ≤ θ0) (steps : List K) : ∀ θ ∈ clamped θ0 steps, 0 ≤ θ := by
  unfold clamped
  induction steps generalizing θ0 with
  | nil => intro θ hθ; simp at hθ; subst hθ; exact h0
  | cons d ds ih =>
    intro θ hθ
    simp only [List.scanl_cons, List.mem_cons] at hθ
    rcases hθ with rfl | hθ
    · exact h0
    · exact ih (max (θ0 - d) 0) (le_max_right _ _) θ hθ

end clamp

/-! ### non-vacuity: linear hardening `R = 2 p`, `μ = 1`, `σ_y = 1`, `q_tr = 6`, `p = 0`: `Δp = 1` -/
example : IsStep (⟨1, 1, 6, 0, fun p => 2 * p, fun _ => 0⟩ : Step ℚ) 1 := by
  refine ⟨by norm_num, ?_, ?_⟩ <;> norm_num [residual]

example : MonoNN (fun p : ℚ => 2 * p) := fun a b _ h => by simp only; linarith

end EasyFEAVerif.Props.C19General
