/-
Property C10, beams: the local frame of a member — `_Beam.yAxis` (setter) and `_Beam._Calc_P`
(EasyFEA/Models/Beam/_beam.py), `Normalize` (EasyFEA/Geoms/_utils.py), `Line.get_unitVector`
(EasyFEA/Geoms/_line.py). The statements modelled here are pinned against the source on every run
(`Gen/C10/Frame.lean`, `frameForms_spec`), and the driver evaluates the un-normalised vectors of the same
construction exactly for the frames the real code returns.

  x  = the unit vector of the fiber
  y  = Normalize(value);  z = Normalize(x × y);  y ← Normalize(z × x)        (general branch of the setter)
  P  = [x | y | Normalize(x × y)]                                              (`_Calc_P`, columns)

Proved for every fiber direction and every admissible `value` (not collinear with the fiber), over ℝ:
  * `yAxis_closed_form`: the stored axis is the normalised component of `value` orthogonal to the fiber — it does not
    depend on the length of `value` (`yAxis_scale_invariant`), is a unit vector and is orthogonal to the fiber;
  * `calcP_third`, `calcP_orthonormal`, `calcP_det`: the three columns of `P` are orthonormal and right-handed, so
    `Pᵀ` is the inverse map global → beam that the element operators need (fix d151383);
  * `yAxis_moved`, `third_moved`: for an orthogonal `Q` (rotation or reflection), the frame built from the moved
    fiber and the moved `value` is the moved frame, the third axis picking up `det Q` — under a reflection the member's
    own z-axis (and with it the sign of the out-of-plane quantities) flips, under a rotation nothing else changes.
    This is the clause "a member gives the same response in its own axes whatever its inclination".
-/
import Mathlib.LinearAlgebra.CrossProduct
import Mathlib.Analysis.Real.Sqrt
import Mathlib.LinearAlgebra.Matrix.Determinant.Basic
import Mathlib.LinearAlgebra.Matrix.Notation
import Mathlib.Tactic.FinCases
import Mathlib.Tactic.Ring
import Mathlib.Tactic.Linarith
import Mathlib.Tactic.Positivity
import Mathlib.Tactic.FieldSimp
import Mathlib.Tactic.LinearCombination
import EasyFEAVerif.Gen.C10.Frame
import EasyFEAVerif.Model.BeamFrame

namespace EasyFEAVerif.Props.C10Frame

open Matrix

abbrev V := Fin 3 → ℝ

/-- the statements of the source that the model below reads (the generator refuses anything else) -/
theorem frameForms_spec : (EasyFEAVerif.Gen.C10.frameForms.map Prod.fst) =
    ["Normalize", "Line.get_unitVector", "_Beam.yAxis.setter", "_Beam._Calc_P", "_Compute_P_e_pg"] := rfl

/-- `np.linalg.norm` -/
noncomputable def nrm (v : V) : ℝ := Real.sqrt (v ⬝ᵥ v)

/-- `Normalize` (1-D branch): `norm = 1 if norm == 0 else norm; array / norm` -/
noncomputable def normalize (v : V) : V := if nrm v = 0 then v else (nrm v)⁻¹ • v

/-- the tolerance of the collinearity test of the setter -/
noncomputable def tol : ℝ := 1 / 10 ^ 12

/-- `_Beam.yAxis` setter -/
noncomputable def yAxisSet (x value : V) : V :=
  let y := normalize value
  if nrm (x ⨯₃ y) ≤ tol then normalize (![0, 0, 1] ⨯₃ x)
  else normalize (normalize (x ⨯₃ y) ⨯₃ x)

/-- third column of `_Calc_P` -/
noncomputable def third (x y : V) : V := normalize (x ⨯₃ y)

/-! ### norms and normalisation -/

theorem dot_self_nonneg (v : V) : 0 ≤ v ⬝ᵥ v := by
  simp only [dotProduct, Fin.sum_univ_three]
  nlinarith [mul_self_nonneg (v 0), mul_self_nonneg (v 1), mul_self_nonneg (v 2)]

theorem dot_self_eq_zero {v : V} (h : v ⬝ᵥ v = 0) : v = 0 := by
  simp only [dotProduct, Fin.sum_univ_three] at h
  have h0 : v 0 = 0 := by nlinarith [mul_self_nonneg (v 0), mul_self_nonneg (v 1), mul_self_nonneg (v 2)]
  have h1 : v 1 = 0 := by nlinarith [mul_self_nonneg (v 0), mul_self_nonneg (v 1), mul_self_nonneg (v 2)]
  have h2 : v 2 = 0 := by nlinarith [mul_self_nonneg (v 0), mul_self_nonneg (v 1), mul_self_nonneg (v 2)]
  ext i; fin_cases i <;> simp [h0, h1, h2]

theorem nrm_nonneg (v : V) : 0 ≤ nrm v := Real.sqrt_nonneg _

theorem nrm_sq (v : V) : nrm v * nrm v = v ⬝ᵥ v := Real.mul_self_sqrt (dot_self_nonneg v)

theorem nrm_eq_zero {v : V} : nrm v = 0 ↔ v = 0 := by
  constructor
  · intro h
    apply dot_self_eq_zero
    rw [← nrm_sq, h, mul_zero]
  · rintro rfl
    simp [nrm]

theorem nrm_pos {v : V} (h : v ≠ 0) : 0 < nrm v :=
  lt_of_le_of_ne (nrm_nonneg v) (fun h0 => h (nrm_eq_zero.mp h0.symm))

theorem nrm_of_unit {v : V} (h : v ⬝ᵥ v = 1) : nrm v = 1 := by simp [nrm, h]

theorem nrm_smul {c : ℝ} (hc : 0 ≤ c) (v : V) : nrm (c • v) = c * nrm v := by
  unfold nrm
  rw [smul_dotProduct, dotProduct_smul, smul_eq_mul, smul_eq_mul, ← mul_assoc,
    Real.sqrt_mul (mul_self_nonneg c), Real.sqrt_mul_self hc]

theorem normalize_of_ne {v : V} (h : v ≠ 0) : normalize v = (nrm v)⁻¹ • v := by
  unfold normalize; rw [if_neg (fun h0 => h (nrm_eq_zero.mp h0))]

theorem normalize_unit {v : V} (h : v ≠ 0) : normalize v ⬝ᵥ normalize v = 1 := by
  have hp := nrm_pos h
  rw [normalize_of_ne h, smul_dotProduct, dotProduct_smul, smul_eq_mul, smul_eq_mul, ← nrm_sq]
  field_simp

theorem normalize_of_unit {v : V} (h : v ⬝ᵥ v = 1) : normalize v = v := by
  have hv : v ≠ 0 := by rintro rfl; simp at h
  rw [normalize_of_ne hv, nrm_of_unit h]; simp

theorem normalize_ne_zero {v : V} (h : v ≠ 0) : normalize v ≠ 0 := by
  intro h0
  have := normalize_unit h
  rw [h0] at this
  simp at this

/-- normalisation forgets positive factors -/
theorem normalize_smul {c : ℝ} (hc : 0 < c) (v : V) : normalize (c • v) = normalize v := by
  by_cases hv : v = 0
  · subst hv; simp
  · have hcv : c • v ≠ 0 := smul_ne_zero hc.ne' hv
    have hp := nrm_pos hv
    rw [normalize_of_ne hcv, normalize_of_ne hv, nrm_smul hc.le, smul_smul]
    congr 1
    field_simp

/-! ### the general branch of the setter -/

/-- `(x × y) × x = y − (x·y) x` for a unit `x` -/
theorem cross_cross_unit {x y : V} (hx : x ⬝ᵥ x = 1) : (x ⨯₃ y) ⨯₃ x = y - (x ⬝ᵥ y) • x := by
  simp only [dotProduct, Fin.sum_univ_three] at hx
  ext i
  fin_cases i <;> simp [cross_apply, dotProduct, Fin.sum_univ_three]
  · linear_combination (y 0) * hx
  · linear_combination (y 1) * hx
  · linear_combination (y 2) * hx

/-- the component of `value` orthogonal to the fiber -/
def perp (x value : V) : V := value - (x ⬝ᵥ value) • x

theorem perp_dot_fiber {x value : V} (hx : x ⬝ᵥ x = 1) : perp x value ⬝ᵥ x = 0 := by
  simp only [dotProduct, Fin.sum_univ_three] at hx
  simp only [perp, dotProduct, Fin.sum_univ_three, Pi.sub_apply, Pi.smul_apply, smul_eq_mul]
  linear_combination (-(x 0 * value 0 + x 1 * value 1 + x 2 * value 2)) * hx

theorem cross_smul_r (x y : V) (c : ℝ) : x ⨯₃ (c • y) = c • (x ⨯₃ y) := by
  ext i; fin_cases i <;> simp [cross_apply]

theorem smul_cross_l (x y : V) (c : ℝ) : (c • x) ⨯₃ y = c • (x ⨯₃ y) := by
  ext i; fin_cases i <;> simp [cross_apply]

/-- **closed form of the stored axis**: whenever the setter takes its general branch, the stored axis is the
normalised component of `value` orthogonal to the fiber -/
theorem yAxis_closed_form {x value : V} (hx : x ⬝ᵥ x = 1) (hgen : tol < nrm (x ⨯₃ normalize value)) :
    yAxisSet x value = normalize (perp x value) := by
  have htol : (0 : ℝ) < tol := by unfold tol; positivity
  unfold yAxisSet
  simp only
  rw [if_neg (not_le.mpr hgen)]
  -- value ≠ 0 and x × value ≠ 0
  have hv : value ≠ 0 := by
    rintro rfl
    have : nrm (x ⨯₃ normalize (0 : V)) = 0 := by simp [normalize, nrm]
    linarith
  have hnv := nrm_pos hv
  have hc : x ⨯₃ normalize value ≠ 0 := by
    intro h0
    rw [h0] at hgen
    have : nrm (0 : V) = 0 := nrm_eq_zero.mpr rfl
    linarith
  rw [normalize_of_ne hv, cross_smul_r] at hc ⊢
  have hxv : x ⨯₃ value ≠ 0 := by
    intro h0; apply hc; rw [h0, smul_zero]
  rw [normalize_smul (inv_pos.mpr hnv), normalize_of_ne hxv, smul_cross_l,
    normalize_smul (inv_pos.mpr (nrm_pos hxv)), cross_cross_unit hx]
  rfl

/-- the stored axis does not depend on the length of `value` -/
theorem yAxis_scale_invariant {x value : V} {c : ℝ} (hc : 0 < c) : yAxisSet x (c • value) = yAxisSet x value := by
  unfold yAxisSet
  simp only [normalize_smul hc]

/-- in the general branch `perp` does not vanish -/
theorem perp_ne_zero {x value : V} (hgen : tol < nrm (x ⨯₃ normalize value)) : perp x value ≠ 0 := by
  have htol : (0 : ℝ) < tol := by unfold tol; positivity
  intro h0
  have hv : value = (x ⬝ᵥ value) • x := by
    have := h0; unfold perp at this; exact sub_eq_zero.mp this
  have hcr : x ⨯₃ value = 0 := by
    rw [hv, cross_smul_r, cross_self, smul_zero]
  by_cases hz : nrm value = 0
  · have : normalize value = value := by unfold normalize; rw [if_pos hz]
    rw [this, hcr] at hgen
    have : nrm (0 : V) = 0 := nrm_eq_zero.mpr rfl
    linarith
  · have : normalize value = (nrm value)⁻¹ • value := by unfold normalize; rw [if_neg hz]
    rw [this, cross_smul_r, hcr, smul_zero] at hgen
    have : nrm (0 : V) = 0 := nrm_eq_zero.mpr rfl
    linarith

/-- the stored axis is a unit vector orthogonal to the fiber -/
theorem yAxis_unit_perp {x value : V} (hx : x ⬝ᵥ x = 1) (hgen : tol < nrm (x ⨯₃ normalize value)) :
    yAxisSet x value ⬝ᵥ yAxisSet x value = 1 ∧ yAxisSet x value ⬝ᵥ x = 0 := by
  have hp := perp_ne_zero hgen
  rw [yAxis_closed_form hx hgen]
  refine ⟨normalize_unit hp, ?_⟩
  rw [normalize_of_ne hp, smul_dotProduct, perp_dot_fiber hx, smul_zero]

/-! ### `_Calc_P` -/

/-- for orthonormal `x`, `y` the cross product is already a unit vector: the last `Normalize` changes nothing -/
theorem calcP_third {x y : V} (hx : x ⬝ᵥ x = 1) (hy : y ⬝ᵥ y = 1) (hxy : y ⬝ᵥ x = 0) : third x y = x ⨯₃ y := by
  unfold third
  apply normalize_of_unit
  rw [cross_dot_cross, hx, hy, dotProduct_comm x y, hxy]; norm_num

/-- the columns of `P` are orthonormal -/
theorem calcP_orthonormal {x y : V} (hx : x ⬝ᵥ x = 1) (hy : y ⬝ᵥ y = 1) (hxy : y ⬝ᵥ x = 0) :
    third x y ⬝ᵥ third x y = 1 ∧ third x y ⬝ᵥ x = 0 ∧ third x y ⬝ᵥ y = 0 := by
  rw [calcP_third hx hy hxy]
  refine ⟨?_, ?_, ?_⟩
  · rw [cross_dot_cross, hx, hy, dotProduct_comm x y, hxy]; norm_num
  · rw [dotProduct_comm]; exact dot_self_cross x y
  · rw [dotProduct_comm]; exact dot_cross_self x y

/-- … and right-handed: `det [x | y | z] = 1` -/
theorem calcP_det {x y : V} (hx : x ⬝ᵥ x = 1) (hy : y ⬝ᵥ y = 1) (hxy : y ⬝ᵥ x = 0) :
    (Matrix.of ![x, y, third x y]).det = 1 := by
  rw [calcP_third hx hy hxy]
  have h : (x ⨯₃ y) ⬝ᵥ (x ⨯₃ y) = 1 := by
    rw [cross_dot_cross, hx, hy, dotProduct_comm x y, hxy]; norm_num
  rw [Matrix.det_fin_three]
  simp [cross_apply, dotProduct, Fin.sum_univ_three] at h
  simp [cross_apply]
  linear_combination h

/-! ### moved problems -/

section moved
variable (Q : Matrix (Fin 3) (Fin 3) ℝ)

theorem dot_moved (hQ : Qᵀ * Q = 1) (a b : V) : (Q *ᵥ a) ⬝ᵥ (Q *ᵥ b) = a ⬝ᵥ b := by
  rw [dotProduct_mulVec, ← mulVec_transpose, mulVec_mulVec, hQ, one_mulVec]

theorem nrm_moved (hQ : Qᵀ * Q = 1) (a : V) : nrm (Q *ᵥ a) = nrm a := by
  unfold nrm; rw [dot_moved Q hQ]

theorem mulVec_eq_zero_iff (hQ : Qᵀ * Q = 1) (a : V) : Q *ᵥ a = 0 ↔ a = 0 := by
  rw [← nrm_eq_zero, nrm_moved Q hQ, nrm_eq_zero]

/-- `Normalize` commutes with an orthogonal map -/
theorem normalize_moved (hQ : Qᵀ * Q = 1) (a : V) : normalize (Q *ᵥ a) = Q *ᵥ normalize a := by
  unfold normalize
  rw [nrm_moved Q hQ]
  split
  · rfl
  · rw [mulVec_smul]

/-- cofactor matrix of a 3 × 3 matrix (as in Props/C08) -/
def cof (A : Matrix (Fin 3) (Fin 3) ℝ) : Matrix (Fin 3) (Fin 3) ℝ :=
  !![A 1 1 * A 2 2 - A 1 2 * A 2 1, A 1 2 * A 2 0 - A 1 0 * A 2 2, A 1 0 * A 2 1 - A 1 1 * A 2 0;
     A 2 1 * A 0 2 - A 2 2 * A 0 1, A 2 2 * A 0 0 - A 2 0 * A 0 2, A 2 0 * A 0 1 - A 2 1 * A 0 0;
     A 0 1 * A 1 2 - A 0 2 * A 1 1, A 0 2 * A 1 0 - A 0 0 * A 1 2, A 0 0 * A 1 1 - A 0 1 * A 1 0]

theorem cross_mulVec (A : Matrix (Fin 3) (Fin 3) ℝ) (u v : V) :
    (A *ᵥ u) ⨯₃ (A *ᵥ v) = (cof A) *ᵥ (u ⨯₃ v) := by
  ext i
  fin_cases i <;>
    simp [cof, cross_apply, dotProduct, Fin.sum_univ_three, Matrix.mulVec] <;> ring

/-- `Aᵀ cof A = det A · 1` (Cramer) -/
theorem transpose_mul_cof (A : Matrix (Fin 3) (Fin 3) ℝ) : Aᵀ * cof A = A.det • (1 : Matrix (Fin 3) (Fin 3) ℝ) := by
  ext i j
  fin_cases i <;> fin_cases j <;>
    simp [cof, Matrix.mul_apply, Fin.sum_univ_three, Matrix.det_fin_three] <;> ring

/-- for an orthogonal matrix the cofactor matrix is `det Q · Q` -/
theorem cof_orthogonal (hQ' : Q * Qᵀ = 1) : cof Q = Q.det • Q := by
  have h := transpose_mul_cof Q
  calc cof Q = (Q * Qᵀ) * cof Q := by rw [hQ', Matrix.one_mul]
    _ = Q * (Qᵀ * cof Q) := by rw [Matrix.mul_assoc]
    _ = Q.det • Q := by rw [h, Matrix.mul_smul, Matrix.mul_one]

/-- the cross product of moved vectors is the moved cross product times `det Q` -/
theorem cross_moved (hQ' : Q * Qᵀ = 1) (a b : V) :
    (Q *ᵥ a) ⨯₃ (Q *ᵥ b) = Q.det • (Q *ᵥ (a ⨯₃ b)) := by
  rw [cross_mulVec, cof_orthogonal Q hQ', Matrix.smul_mulVec]

theorem det_sq (hQ : Qᵀ * Q = 1) : Q.det * Q.det = 1 := by
  have := congrArg Matrix.det hQ
  rwa [Matrix.det_mul, Matrix.det_transpose, Matrix.det_one] at this

theorem det_abs (hQ : Qᵀ * Q = 1) : Q.det = 1 ∨ Q.det = -1 := by
  have h := det_sq Q hQ
  have : (Q.det - 1) * (Q.det + 1) = 0 := by linear_combination h
  rcases mul_eq_zero.mp this with h1 | h1
  · left; linarith
  · right; linarith

/-- `normalize (c • v) = c • normalize v` for `c = ±1` -/
theorem normalize_sign {c : ℝ} (hc : c = 1 ∨ c = -1) (v : V) : normalize (c • v) = c • normalize v := by
  rcases hc with rfl | rfl
  · simp
  · have hn : nrm ((-1 : ℝ) • v) = nrm v := by
      unfold nrm; rw [smul_dotProduct, dotProduct_smul]; simp
    unfold normalize
    rw [hn]
    split
    · rfl
    · rw [smul_comm]

/-- the branch test of the setter gives the same answer for the moved data -/
theorem branch_moved (hQ : Qᵀ * Q = 1) (hQ' : Q * Qᵀ = 1) (x value : V) :
    nrm ((Q *ᵥ x) ⨯₃ normalize (Q *ᵥ value)) = nrm (x ⨯₃ normalize value) := by
  rw [normalize_moved Q hQ, cross_moved Q hQ']
  rcases det_abs Q hQ with h | h
  · rw [h, one_smul, nrm_moved Q hQ]
  · rw [h]
    have : nrm ((-1 : ℝ) • (Q *ᵥ (x ⨯₃ normalize value))) = nrm (Q *ᵥ (x ⨯₃ normalize value)) := by
      unfold nrm; rw [smul_dotProduct, dotProduct_smul]; simp
    rw [this, nrm_moved Q hQ]

/-- **the stored axis of the moved member is the moved axis** (general branch; rotations and reflections) -/
theorem yAxis_moved (hQ : Qᵀ * Q = 1) (hQ' : Q * Qᵀ = 1) {x value : V} (hx : x ⬝ᵥ x = 1)
    (hgen : tol < nrm (x ⨯₃ normalize value)) :
    yAxisSet (Q *ᵥ x) (Q *ᵥ value) = Q *ᵥ yAxisSet x value := by
  have hx' : (Q *ᵥ x) ⬝ᵥ (Q *ᵥ x) = 1 := by rw [dot_moved Q hQ, hx]
  have hgen' : tol < nrm ((Q *ᵥ x) ⨯₃ normalize (Q *ᵥ value)) := by rw [branch_moved Q hQ hQ']; exact hgen
  rw [yAxis_closed_form hx' hgen', yAxis_closed_form hx hgen, ← normalize_moved Q hQ]
  congr 1
  unfold perp
  rw [dot_moved Q hQ, mulVec_sub, mulVec_smul]

/-- **the third axis picks up the determinant**: unchanged by a rotation, reversed by a reflection -/
theorem third_moved (hQ : Qᵀ * Q = 1) (hQ' : Q * Qᵀ = 1) (x y : V) :
    third (Q *ᵥ x) (Q *ᵥ y) = Q.det • (Q *ᵥ third x y) := by
  unfold third
  rw [cross_moved Q hQ', normalize_sign (det_abs Q hQ), normalize_moved Q hQ]

end moved

/-! ### the executable model of the driver -/

def toV (a : ℝ × ℝ × ℝ) : V := ![a.1, a.2.1, a.2.2]

theorem toV_cross3 (a b : ℝ × ℝ × ℝ) : toV (BeamFrame.cross3 a b) = toV a ⨯₃ toV b := by
  ext i; fin_cases i <;> simp [toV, BeamFrame.cross3, cross_apply]

/-- `(d × v) × d = (d·d) v − (d·v) d` -/
theorem cross_cross_self (d v : V) : (d ⨯₃ v) ⨯₃ d = (d ⬝ᵥ d) • v - (d ⬝ᵥ v) • d := by
  ext i
  fin_cases i <;> simp [cross_apply, dotProduct, Fin.sum_univ_three] <;> ring

/-- the first vector the driver returns is `|d|²` times the component of `value` orthogonal to the unit fiber: its
normalisation is the axis the setter stores (`yAxis_closed_form`) -/
theorem frameQ_y (d value : ℝ × ℝ × ℝ) (hd : toV d ≠ 0) :
    toV (BeamFrame.frameQ d value).1 = (toV d ⬝ᵥ toV d) • perp ((nrm (toV d))⁻¹ • toV d) (toV value) := by
  have hp := nrm_pos hd
  have hsq := nrm_sq (toV d)
  unfold BeamFrame.frameQ
  simp only [toV_cross3]
  rw [cross_cross_self]
  unfold perp
  rw [smul_dotProduct, smul_sub, smul_smul, smul_smul, smul_eq_mul]
  congr 2
  rw [← hsq]; field_simp

/-- the second one is `d × y'`: for a unit fiber and the stored axis this is the third column of `_Calc_P`
(`calcP_third`) -/
theorem frameQ_z (d value : ℝ × ℝ × ℝ) :
    toV (BeamFrame.frameQ d value).2 = toV d ⨯₃ toV (BeamFrame.frameQ d value).1 := by
  unfold BeamFrame.frameQ
  simp only [toV_cross3]

/-! ### non-vacuity: a member along (3, 4, 0)/5 with `value = (0, 0, 2)` -/
example : tol < nrm ((![3 / 5, 4 / 5, 0] : V) ⨯₃ normalize ![0, 0, 2]) := by
  have hn : nrm (![0, 0, 2] : V) = 2 := by
    unfold nrm
    have : (![0, 0, 2] : V) ⬝ᵥ ![0, 0, 2] = 2 * 2 := by simp [dotProduct, Fin.sum_univ_three]
    rw [this, Real.sqrt_mul_self (by norm_num)]
  have hnorm : normalize (![0, 0, 2] : V) = ![0, 0, 1] := by
    unfold normalize
    rw [hn, if_neg (by norm_num)]
    ext i; fin_cases i <;> simp
  rw [hnorm]
  have : nrm ((![3 / 5, 4 / 5, 0] : V) ⨯₃ ![0, 0, 1]) = 1 := by
    apply nrm_of_unit
    simp [cross_apply, dotProduct, Fin.sum_univ_three]; norm_num
  rw [this]; unfold tol; norm_num

end EasyFEAVerif.Props.C10Frame
