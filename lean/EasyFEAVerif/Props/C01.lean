/-
Property C01 — patch test: any linear field is reproduced exactly by the full solve pipeline.

The patch test factors into three links.
  L1 (element level, proved for every element type, any node positions with det F ≠ 0, curved or
      distorted elements included): the interpolant of `u(x) = a + G x` has physical gradient exactly `G`
      at every point, hence `B u_e` is the constant Kelvin–Mandel strain of `G` with the layout that
      `Get_B_e_pg` writes (read from the source on every run), and `σ = C ε`, `Wdef = ½ ε:C:ε |Ω|`.
  L2 (solve level, from C04): if the interpolant satisfies the free rows and the reduced matrix is
      injective, the solver returns the interpolant.
  L3 (mesh level): the free rows of a linear field vanish iff the mesh is *flux closed* at the free
      nodes: `Σ_e Σ_p wJ ∇N_i = 0` — the discrete divergence theorem, true for conforming meshes.
      It is the explicit hypothesis `FluxClosed` of `patch_test_partial`; the harness evaluates it on
      every mesh it solves on. It is not proved here for all 2D/3D meshes (that needs a formal theory of
      conforming triangulations): this is the part named *partial*.
-/
import EasyFEAVerif.Model.Patch
import EasyFEAVerif.Gen.C01.Layout
import EasyFEAVerif.Props.C04
import EasyFEAVerif.Props.C06
import Mathlib.Tactic.Ring
import Mathlib.Tactic.Linarith
import Mathlib.Tactic.FieldSimp
import Mathlib.Algebra.BigOperators.Fin
import Mathlib.Tactic.IntervalCases
import Mathlib.Tactic.LinearCombination
import Mathlib.Tactic.FinCases
import Mathlib.LinearAlgebra.Matrix.Notation

set_option linter.unusedSectionVars false

namespace EasyFEAVerif.Props.C01

open Matrix Finset EasyFEAVerif.Patch EasyFEAVerif.Gen

/-! ### the code's orientation conventions are the ones the model reads -/

theorem orientation_spec : C01.jacobianExpr = "dN_pg @ coord" ∧ C01.physicalExpr = "invF @ dN_pg" := ⟨rfl, rfl⟩

theorem layout_spec :
    C01.layout2 = [(0, 0, 0, false), (1, 1, 1, false), (2, 0, 1, true), (2, 1, 0, true)] ∧
    C01.layout3 = [(0, 0, 0, false), (1, 1, 1, false), (2, 2, 2, false), (3, 1, 2, true), (3, 2, 1, true),
                   (4, 0, 2, true), (4, 2, 0, true), (5, 0, 1, true), (5, 1, 0, true)] := ⟨rfl, rfl⟩

/-! ### L1 — element level -/

section element
variable {K : Type*} [Field K] {d : ℕ} {Nd : Type*} [Fintype Nd] [DecidableEq Nd]

/-- Cramer's rule: what the driver evaluates is the model's `invF @ dN` -/
theorem dNphys_eq_exec (dN : Matrix (Fin d) Nd K) (x : Matrix Nd (Fin d) K) (_h : (jac dN x).det ≠ 0) :
    dNphys dN x = dNphysExec dN x := by
  unfold dNphys dNphysExec
  rw [Matrix.inv_def, Ring.inverse_eq_inv', Matrix.smul_mul]

/-- **gradient of a linear field**: for any element whose reference derivatives sum to zero (all element
types, `dN_table_sums_to_zero` below), any node positions with an invertible Jacobian at the point, the
interpolant of `u_c(x) = a_c + Σ_l G[c,l] x_l` has the gradient `∂u_c/∂x_j = G[c,j]` -/
theorem linear_field_gradient {c : ℕ} (dN : Matrix (Fin d) Nd K) (x : Matrix Nd (Fin d) K)
    (hsum : ∀ k, ∑ i, dN k i = 0) (hdet : (jac dN x).det ≠ 0)
    (a : Fin c → K) (G : Matrix (Fin c) (Fin d) K) :
    grad dN x (Matrix.of fun i c => a c + ∑ l, G c l * x i l) = Gᵀ := by
  have key : dN * (Matrix.of fun i c => a c + ∑ l, G c l * x i l) = jac dN x * Gᵀ := by
    ext k c
    simp only [Matrix.mul_apply, Matrix.of_apply, jac, Matrix.transpose_apply]
    simp_rw [mul_add, sum_add_distrib, ← sum_mul, hsum k, zero_mul, zero_add, mul_sum, sum_mul]
    rw [sum_comm]
    refine sum_congr rfl fun l _ => sum_congr rfl fun i _ => by ring
  unfold grad dNphys
  rw [Matrix.mul_assoc, key, ← Matrix.mul_assoc,
    Matrix.nonsing_inv_mul _ (isUnit_iff_ne_zero.mpr hdet), Matrix.one_mul]

/-- a constant field has zero gradient -/
theorem constant_field_gradient {c : ℕ} (dN : Matrix (Fin d) Nd K) (x : Matrix Nd (Fin d) K)
    (hsum : ∀ k, ∑ i, dN k i = 0) (hdet : (jac dN x).det ≠ 0) (a : Fin c → K) :
    grad dN x (Matrix.of fun _ c => a c) = 0 := by
  have := linear_field_gradient dN x hsum hdet a (0 : Matrix (Fin c) (Fin d) K)
  simpa using this

/-- `B u_e` is the strain read off the gradient `dNphys · u_e` with the same layout -/
theorem Bu_eq_strainOf (layout : List (Entry d)) (s : K) (dNp : Matrix (Fin d) Nd K) (u : Matrix Nd (Fin d) K) (r : Nat) :
    Bu layout s dNp u r = strainOf layout s (dNp * u) r := by
  unfold Bu strainOf Bentry
  induction layout with
  | nil => simp
  | cons e l ih =>
    by_cases hr : e.1 = r
    · have hfilt : ∀ comp : Fin d, (List.filter (fun e' : Entry d => decide (e'.1 = r ∧ e'.2.1 = comp)) (e :: l))
          = if e.2.1 = comp then e :: List.filter (fun e' : Entry d => decide (e'.1 = r ∧ e'.2.1 = comp)) l
            else List.filter (fun e' : Entry d => decide (e'.1 = r ∧ e'.2.1 = comp)) l := by
        intro comp; by_cases hc : e.2.1 = comp <;> simp [hr, hc]
      simp only [hfilt]
      rw [List.filter_cons_of_pos (by simpa using hr), List.map_cons, List.sum_cons, ← ih]
      have : ∀ i comp, ((if e.2.1 = comp then e :: List.filter (fun e' : Entry d => decide (e'.1 = r ∧ e'.2.1 = comp)) l
            else List.filter (fun e' : Entry d => decide (e'.1 = r ∧ e'.2.1 = comp)) l).map
              fun e => dNp e.2.2.1 i * scale s e.2.2.2).sum * u i comp
          = (if e.2.1 = comp then dNp e.2.2.1 i * scale s e.2.2.2 * u i comp else 0)
            + ((List.filter (fun e' : Entry d => decide (e'.1 = r ∧ e'.2.1 = comp)) l).map
              fun e => dNp e.2.2.1 i * scale s e.2.2.2).sum * u i comp := by
        intro i comp; by_cases hc : e.2.1 = comp <;> simp [hc, add_mul]
      simp_rw [this, sum_add_distrib]
      congr 1
      simp only [sum_ite_eq, mem_univ, if_true, Matrix.mul_apply, sum_mul]
      exact sum_congr rfl fun i _ => by ring
    · have hfilt : ∀ comp : Fin d, (List.filter (fun e' : Entry d => decide (e'.1 = r ∧ e'.2.1 = comp)) (e :: l))
          = List.filter (fun e' : Entry d => decide (e'.1 = r ∧ e'.2.1 = comp)) l := by
        intro comp; simp [hr]
      simp only [hfilt]
      rw [List.filter_cons_of_neg (by simpa using hr)]
      exact ih

end element

/-! ### the strain of a linear field with the layout of the code (s = 1/√2) -/

section strain
variable {K : Type*} [Field K]

theorem typed_layout2 : typed 2 C01.layout2 = [(0, 0, 0, false), (1, 1, 1, false), (2, 0, 1, true), (2, 1, 0, true)] := by
  decide
theorem typed_layout3 : typed 3 C01.layout3 =
    [(0, 0, 0, false), (1, 1, 1, false), (2, 2, 2, false), (3, 1, 2, true), (3, 2, 1, true),
     (4, 0, 2, true), (4, 2, 0, true), (5, 0, 1, true), (5, 1, 0, true)] := by decide

/-- 2D: `(ε_xx, ε_yy, √2 ε_xy)` of the gradient `g[axis, comp]` -/
theorem strain2D (s : K) (g : Matrix (Fin 2) (Fin 2) K) :
    strainOf (typed 2 C01.layout2) s g 0 = g 0 0 ∧ strainOf (typed 2 C01.layout2) s g 1 = g 1 1 ∧
    strainOf (typed 2 C01.layout2) s g 2 = s * (g 1 0 + g 0 1) := by
  rw [typed_layout2]
  refine ⟨?_, ?_, ?_⟩ <;> simp [strainOf, scale] <;> ring

/-- 3D: `(ε_xx, ε_yy, ε_zz, √2 ε_yz, √2 ε_xz, √2 ε_xy)` -/
theorem strain3D (s : K) (g : Matrix (Fin 3) (Fin 3) K) :
    strainOf (typed 3 C01.layout3) s g 0 = g 0 0 ∧ strainOf (typed 3 C01.layout3) s g 1 = g 1 1 ∧
    strainOf (typed 3 C01.layout3) s g 2 = g 2 2 ∧ strainOf (typed 3 C01.layout3) s g 3 = s * (g 2 1 + g 1 2) ∧
    strainOf (typed 3 C01.layout3) s g 4 = s * (g 2 0 + g 0 2) ∧ strainOf (typed 3 C01.layout3) s g 5 = s * (g 1 0 + g 0 1) := by
  rw [typed_layout3]
  refine ⟨?_, ?_, ?_, ?_, ?_, ?_⟩ <;> simp [strainOf, scale] <;> ring

/-- **constant strain**: `B u_e` of the interpolant of a linear field is the Kelvin–Mandel strain of `G`,
at every Gauss point of every element, whatever the node positions (2D; `s = 1/√2`) -/
theorem B_of_linear_field_2D {Nd : Type*} [Fintype Nd] [DecidableEq Nd] (s : K)
    (dN : Matrix (Fin 2) Nd K) (x : Matrix Nd (Fin 2) K)
    (hsum : ∀ k, ∑ i, dN k i = 0) (hdet : (jac dN x).det ≠ 0) (a : Fin 2 → K) (G : Matrix (Fin 2) (Fin 2) K) :
    let u := Matrix.of fun i c => a c + ∑ l, G c l * x i l
    Bu (typed 2 C01.layout2) s (dNphys dN x) u 0 = G 0 0 ∧ Bu (typed 2 C01.layout2) s (dNphys dN x) u 1 = G 1 1 ∧
    Bu (typed 2 C01.layout2) s (dNphys dN x) u 2 = s * (G 0 1 + G 1 0) := by
  intro u
  have hg : dNphys dN x * u = Gᵀ := linear_field_gradient dN x hsum hdet a G
  simp only [Bu_eq_strainOf, hg]
  have := strain2D s Gᵀ
  simpa [Matrix.transpose_apply] using this

theorem B_of_linear_field_3D {Nd : Type*} [Fintype Nd] [DecidableEq Nd] (s : K)
    (dN : Matrix (Fin 3) Nd K) (x : Matrix Nd (Fin 3) K)
    (hsum : ∀ k, ∑ i, dN k i = 0) (hdet : (jac dN x).det ≠ 0) (a : Fin 3 → K) (G : Matrix (Fin 3) (Fin 3) K) :
    let u := Matrix.of fun i c => a c + ∑ l, G c l * x i l
    let B := Bu (typed 3 C01.layout3) s (dNphys dN x) u
    B 0 = G 0 0 ∧ B 1 = G 1 1 ∧ B 2 = G 2 2 ∧ B 3 = s * (G 1 2 + G 2 1) ∧ B 4 = s * (G 0 2 + G 2 0) ∧
    B 5 = s * (G 0 1 + G 1 0) := by
  intro u B
  have hg : dNphys dN x * u = Gᵀ := linear_field_gradient dN x hsum hdet a G
  simp only [B, Bu_eq_strainOf, hg]
  have := strain3D s Gᵀ
  simpa [Matrix.transpose_apply] using this

/-- an infinitesimal rigid motion (skew `G`) has zero strain (used by C02: rigid motions lie in the kernel) -/
theorem rigid_motion_strain_2D (s : K) (h2 : (2 : K) ≠ 0) (G : Matrix (Fin 2) (Fin 2) K) (hskew : ∀ i j, G i j = - G j i)
    (r : Nat) (hr : r < 3) : strainOf (typed 2 C01.layout2) s Gᵀ r = 0 := by
  obtain ⟨h0, h1, h2'⟩ := strain2D s Gᵀ
  have diag : ∀ i, G i i = 0 := fun i => by
    have h := hskew i i
    have : (2 : K) * G i i = 0 := by linear_combination h
    exact (mul_eq_zero.mp this).resolve_left h2
  interval_cases r
  · rw [h0]; simpa using diag 0
  · rw [h1]; simpa using diag 1
  · rw [h2']; simp only [Matrix.transpose_apply]; rw [hskew 0 1]; ring

theorem rigid_motion_strain_3D (s : K) (h2 : (2 : K) ≠ 0) (G : Matrix (Fin 3) (Fin 3) K) (hskew : ∀ i j, G i j = - G j i)
    (r : Nat) (hr : r < 6) : strainOf (typed 3 C01.layout3) s Gᵀ r = 0 := by
  obtain ⟨h0, h1, h2', h3, h4, h5⟩ := strain3D s Gᵀ
  have diag : ∀ i, G i i = 0 := fun i => by
    have h := hskew i i
    have : (2 : K) * G i i = 0 := by linear_combination h
    exact (mul_eq_zero.mp this).resolve_left h2
  interval_cases r
  · rw [h0]; simpa using diag 0
  · rw [h1]; simpa using diag 1
  · rw [h2']; simpa using diag 2
  · rw [h3]; simp only [Matrix.transpose_apply]; rw [hskew 1 2]; ring
  · rw [h4]; simp only [Matrix.transpose_apply]; rw [hskew 0 2]; ring
  · rw [h5]; simp only [Matrix.transpose_apply]; rw [hskew 0 1]; ring

end strain

/-! ### link with C06: the reference derivative tables of all 19 element types sum to zero everywhere -/

theorem list_sum_eq_range {α β : Type*} [AddCommMonoid β] (l : List α) (f : α → β) (dflt : α) :
    (l.map f).sum = ∑ i ∈ range l.length, f (l.getD i dflt) := by
  induction l with
  | nil => simp
  | cons a l ih =>
    rw [List.map_cons, List.sum_cons, List.length_cons, sum_range_succ', ih]
    simp [add_comm]

/-- `Σ_i ∂N_i/∂ξ_a = 0` at every real point, for the `_dN` table of every element type of the catalogue —
the hypothesis `hsum` of the theorems above -/
theorem dN_table_sums_to_zero : ∀ E ∈ C06.allElems, ∀ a, a < E.dim → ∀ x : Nat → ℝ,
    ∑ i ∈ range E.nPe, PExpr.eval x (ElemData.tab E.dN i a) = 0 := by
  intro E hE a ha x
  have hchk := C06.allElems_check E hE
  have hder : HasDerivAt (fun t : ℝ => ∑ i ∈ range E.nPe, PExpr.eval (Function.update x a t) (E.Ni i))
      (∑ i ∈ range E.nPe, PExpr.eval x (ElemData.tab E.dN i a)) (x a) :=
    HasDerivAt.fun_sum fun i hi => ElemData.dN_is_derivative hchk (mem_range.mp hi) ha x
  have hlen : E.N.length = E.nPe := by
    have := (ElemData.check_parts hchk).1
    simp only [ElemData.shapeOK, Bool.and_eq_true, beq_iff_eq] at this
    exact this.1.1.1.1.2
  have hconst : (fun t : ℝ => ∑ i ∈ range E.nPe, PExpr.eval (Function.update x a t) (E.Ni i)) = fun _ => (1 : ℝ) := by
    funext t
    have := ElemData.partition_of_unity (K := ℝ) hchk (Function.update x a t)
    rw [list_sum_eq_range _ _ (PExpr.const 0), hlen] at this
    exact this
  rw [hconst] at hder
  exact hder.unique (hasDerivAt_const (x a) (1 : ℝ))

/-! ### L3 and L2 — mesh level and solve level -/

section mesh
variable {K : Type*} [Field K] {Q ι R : Type*} [Fintype Q] [Fintype ι] [Fintype R] [DecidableEq ι]

/-- rows of `K u` for a field whose strain is the same vector `ε` at every quadrature sample:
`(K u)_i = Σ_q w_q Σ_r B_q[r,i] σ_r` with `σ = C ε` -/
theorem rows_of_constant_strain_field (w : Q → K) (B : Q → R → ι → K) (C : R → R → K) (u : ι → K) (ε : R → K)
    (hε : ∀ q r, ∑ j, B q r j * u j = ε r) (i : ι) :
    ∑ j, stiffness w B C i j * u j = ∑ q, w q * ∑ r, B q r i * ∑ s, C r s * ε s := by
  unfold stiffness
  calc ∑ j, (∑ q, w q * ∑ r, ∑ s, B q r i * C r s * B q s j) * u j
      = ∑ j, ∑ q, w q * ∑ r, ∑ s, B q r i * C r s * (B q s j * u j) := by
        refine sum_congr rfl fun j _ => ?_
        rw [sum_mul]
        refine sum_congr rfl fun q _ => ?_
        rw [mul_assoc, sum_mul]
        congr 1
        refine sum_congr rfl fun r _ => ?_
        rw [sum_mul]
        exact sum_congr rfl fun s _ => by ring
    _ = ∑ q, w q * ∑ j, ∑ r, ∑ s, B q r i * C r s * (B q s j * u j) := by
        rw [sum_comm]; exact sum_congr rfl fun q _ => by rw [mul_sum]
    _ = ∑ q, w q * ∑ r, ∑ s, ∑ j, B q r i * C r s * (B q s j * u j) := by
        refine sum_congr rfl fun q _ => ?_
        congr 1
        rw [sum_comm]
        exact sum_congr rfl fun r _ => sum_comm
    _ = ∑ q, w q * ∑ r, B q r i * ∑ s, C r s * ε s := by
        refine sum_congr rfl fun q _ => ?_
        congr 1
        refine sum_congr rfl fun r _ => ?_
        rw [mul_sum]
        refine sum_congr rfl fun s _ => ?_
        rw [← mul_sum, hε q s]; ring

/-- the mesh (with its quadrature) is flux closed at dof `i`: `Σ_e Σ_p wJ B[r,i] = 0` for every strain row,
i.e. `Σ_e Σ_p wJ ∇N_i = 0` — the discrete divergence theorem at an interior node -/
def FluxClosed (w : Q → K) (B : Q → R → ι → K) (i : ι) : Prop := ∀ r, ∑ q, w q * B q r i = 0

theorem free_row_vanishes (w : Q → K) (B : Q → R → ι → K) (C : R → R → K) (u : ι → K) (ε : R → K)
    (hε : ∀ q r, ∑ j, B q r j * u j = ε r) (i : ι) (hflux : FluxClosed w B i) :
    ∑ j, stiffness w B C i j * u j = 0 := by
  rw [rows_of_constant_strain_field w B C u ε hε i]
  have : ∀ q, w q * ∑ r, B q r i * ∑ s, C r s * ε s = ∑ r, (w q * B q r i) * ∑ s, C r s * ε s := by
    intro q; rw [mul_sum]; exact sum_congr rfl fun r _ => by ring
  simp_rw [this]
  rw [sum_comm]
  refine sum_eq_zero fun r _ => ?_
  rw [← sum_mul, hflux r, zero_mul]

/-- **patch test (partial: flux closure is a hypothesis)**. `uLin` is the vector of nodal values of the linear
field (constant strain `ε` at every sample by L1); the solver's result `x` holds the prescribed values on the
constrained dofs and satisfies the free rows with no load (C04 `elimination_sound`); the reduced matrix is
injective (C02); the mesh is flux closed at the free dofs. Then the solver returns the linear field at
every node. -/
theorem patch_test_partial (known : ι → Prop) (w : Q → K) (B : Q → R → ι → K) (C : R → R → K)
    (uLin x : ι → K) (ε : R → K)
    (hε : ∀ q r, ∑ j, B q r j * uLin j = ε r)
    (hflux : ∀ i, ¬ known i → FluxClosed w B i)
    (hinj : C04.ReducedInjective known (stiffness w B C))
    (hbc : ∀ j, known j → x j = uLin j)
    (hx : ∀ i, ¬ known i → C04.mulRow (stiffness w B C) x i = 0) :
    x = uLin := by
  refine C04.solution_unique known (stiffness w B C) (fun _ => 0) x uLin hinj hbc hx fun i hi => ?_
  exact free_row_vanishes w B C uLin ε hε i (hflux i hi)

/-- the full statement (no flux hypothesis) — NOT proved for 2D/3D meshes: it needs the divergence theorem on
conforming meshes; kept visible next to the partial one -/
def PatchTestFull : Prop :=
  ∀ (known : ι → Prop) (w : Q → K) (B : Q → R → ι → K) (C : R → R → K) (uLin x : ι → K) (ε : R → K),
    (∀ q r, ∑ j, B q r j * uLin j = ε r) → C04.ReducedInjective known (stiffness w B C) →
    (∀ j, known j → x j = uLin j) → (∀ i, ¬ known i → C04.mulRow (stiffness w B C) x i = 0) → x = uLin

/-- the energy reported for a constant-strain field: `Wdef = ½ ε:C:ε · Σ_q w_q` (Σ w = measure × thickness) -/
theorem energy_of_constant_strain_field (w : Q → K) (B : Q → R → ι → K) (C : R → R → K) (u : ι → K) (ε : R → K)
    (hε : ∀ q r, ∑ j, B q r j * u j = ε r) :
    energy w B C u = (1 / 2) * (∑ r, ∑ s, ε r * C r s * ε s) * ∑ q, w q := by
  unfold energy
  rw [mul_assoc]
  congr 1
  calc ∑ i, u i * ∑ j, stiffness w B C i j * u j
      = ∑ i, u i * ∑ q, w q * ∑ r, B q r i * ∑ s, C r s * ε s :=
        sum_congr rfl fun i _ => by rw [rows_of_constant_strain_field w B C u ε hε i]
    _ = ∑ i, ∑ q, ∑ r, w q * ((B q r i * u i) * ∑ s, C r s * ε s) := by
        refine sum_congr rfl fun i _ => ?_
        rw [mul_sum]
        refine sum_congr rfl fun q _ => ?_
        rw [mul_sum, mul_sum]
        exact sum_congr rfl fun r _ => by ring
    _ = ∑ q, ∑ r, ∑ i, w q * ((B q r i * u i) * ∑ s, C r s * ε s) := by
        rw [sum_comm]; exact sum_congr rfl fun q _ => sum_comm
    _ = ∑ q, ∑ r, w q * (ε r * ∑ s, C r s * ε s) := by
        refine sum_congr rfl fun q _ => sum_congr rfl fun r _ => ?_
        rw [← mul_sum, ← sum_mul, hε q r]
    _ = (∑ r, ∑ s, ε r * C r s * ε s) * ∑ q, w q := by
        rw [mul_sum]
        refine sum_congr rfl fun q _ => ?_
        rw [← mul_sum, mul_comm]
        congr 1
        refine sum_congr rfl fun r _ => ?_
        rw [mul_sum]
        exact sum_congr rfl fun s _ => by ring

/-- `FluxClosed` from the gradient sums: when column `i` of `B` is, at every sample, a fixed combination of the two
components of `∇N_i` (this is the layout read from the source: rows xx, yy, xy of a displacement dof hold `∂N/∂x`, `∂N/∂y`
with constant coefficients), flux closure at `i` follows from `Σ_q w_q ∂N_i/∂x = 0` and `Σ_q w_q ∂N_i/∂y = 0` — proved for
the interior nodes of TRI3 fans and SEG2 chains in `Props/C01Flux.lean` -/
theorem fluxClosed_of_gradient_sums (w : Q → K) (B : Q → R → ι → K) (i : ι) (gx gy : Q → K) (α β : R → K)
    (hB : ∀ q r, B q r i = α r * gx q + β r * gy q)
    (hx : ∑ q, w q * gx q = 0) (hy : ∑ q, w q * gy q = 0) : FluxClosed w B i := by
  intro r
  have : ∀ q, w q * B q r i = α r * (w q * gx q) + β r * (w q * gy q) := by
    intro q; rw [hB q r]; ring
  simp_rw [this]
  rw [sum_add_distrib, ← mul_sum, ← mul_sum, hx, hy]
  ring

end mesh

/-! ### non-vacuity: one SEG2-like 2D triangle with the linear field u = (1 + 2x + 3y, 4 - x + 5y) -/
example :
    let dN : Matrix (Fin 2) (Fin 3) ℚ := !![-1, 1, 0; -1, 0, 1]
    let x : Matrix (Fin 3) (Fin 2) ℚ := !![0, 0; 2, 0; 1, 3]
    (∀ k, ∑ i, dN k i = 0) ∧ (jac dN x).det ≠ 0 := by
  refine ⟨fun k => ?_, ?_⟩
  · fin_cases k <;> simp [Fin.sum_univ_three]
  · simp [jac, Matrix.det_fin_two, Matrix.mul_apply, Fin.sum_univ_three]

end EasyFEAVerif.Props.C01
