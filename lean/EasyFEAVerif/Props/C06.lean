/-
Property C06 — shape functions interpolate and their derivative tables are the
true derivatives.  Property theorems only; the data (`Gen.C06.*`) is regenerated
from /repo on every run, the lifting lemmas are in `Core/ElemSound.lean`.
-/
import EasyFEAVerif.Core.ElemSound
import EasyFEAVerif.Gen.C06.All

namespace EasyFEAVerif.Props.C06
open EasyFEAVerif EasyFEAVerif.Gen.C06

/-- The translator found exactly the 19 Lagrange classes with the expected
(dimension, order, nodes per element): nothing was dropped or added. -/
theorem catalogue :
    allElems.map (fun E => (E.name, E.dim, E.order, E.nPe)) =
      [("SEG2", 1, 1, 2), ("SEG3", 1, 2, 3), ("SEG4", 1, 3, 4), ("SEG5", 1, 4, 5),
       ("TRI3", 2, 1, 3), ("TRI6", 2, 2, 6), ("TRI10", 2, 3, 10), ("TRI15", 2, 4, 15),
       ("QUAD4", 2, 1, 4), ("QUAD8", 2, 2, 8), ("QUAD9", 2, 2, 9),
       ("TETRA4", 3, 1, 4), ("TETRA10", 3, 2, 10),
       ("HEXA8", 3, 1, 8), ("HEXA20", 3, 2, 20), ("HEXA27", 3, 2, 27),
       ("PRISM6", 3, 1, 6), ("PRISM15", 3, 2, 15), ("PRISM18", 3, 2, 18)] := by
  decide

/-- … and the 4 Hermite families (shared by the Timoshenko classes), with the
tolerance under which their nodal interpolation is claimed: exact for the
2- and 3-node families, 10⁻¹² for the 4- and 5-node families whose coefficients
are decimal roundings in the source. -/
theorem catalogue_hermite :
    allHermite.map (fun H => (H.1.name, H.1.nPe, H.2)) =
      [("EULER_BERNOULLI2", 2, 0), ("EULER_BERNOULLI3", 3, 0),
       ("EULER_BERNOULLI4", 4, 1 / 1000000000000), ("EULER_BERNOULLI5", 5, 1 / 1000000000000),
       ("TIMOSHENKO2", 2, 0), ("TIMOSHENKO3", 3, 0),
       ("TIMOSHENKO4", 4, 1 / 1000000000000), ("TIMOSHENKO5", 5, 1 / 1000000000000)] := by
  decide +kernel

variable {K : Type*} [Field K] [CharZero K]

/-- Basis functions are one at their own node and zero at the others. -/
theorem kronecker : ∀ E ∈ allElems, ∀ i j, i < E.nPe → j < E.nPe →
    (E.Ni i).evalQ (E.node j) = if i = j then 1 else 0 :=
  fun E hE _ _ hi hj => ElemData.kronecker (allElems_check E hE) hi hj

/-- Basis functions sum to one everywhere (every point of every field of
characteristic zero, in particular ℝ and ℚ). -/
theorem partition_of_unity : ∀ E ∈ allElems, ∀ x : Nat → K,
    (E.N.map (PExpr.eval x)).sum = 1 :=
  fun E hE x => ElemData.partition_of_unity (allElems_check E hE) x

/-- The basis spans the polynomials of the element's order: every monomial of the
space `E.mons` (total degree ≤ order; the full tensor space for QUAD4/9, HEXA8/27;
P_k(r,s)⊗P_k(t) for PRISM6/18) equals its own nodal interpolant, at every point.
By linearity the same holds for every polynomial of the space. -/
theorem reproduces : ∀ E ∈ allElems, ∀ m ∈ E.mons, ∀ x : Nat → K,
    PExpr.eval x (E.interp m) = PExpr.eval x (monExpr m) :=
  fun E hE _ hm x => ElemData.reproduces (allElems_check E hE) hm x

/-- The spaces are not trivial: e.g. HEXA27 reproduces 27 monomials, TRI15 15. -/
example : (HEXA27.mons.length, TRI15.mons.length, PRISM18.mons.length, QUAD8.mons.length) = (27, 15, 18, 6) := by
  decide

/-- The tabulated first … fourth derivatives are the derivatives of the previous
table at EVERY real point (not only at integration points). -/
theorem dN_is_derivative : ∀ E ∈ allElems, ∀ i a, i < E.nPe → a < E.dim → ∀ x : Nat → ℝ,
    HasDerivAt (fun t : ℝ => PExpr.eval (Function.update x a t) (E.Ni i))
      (PExpr.eval x (ElemData.tab E.dN i a)) (x a) :=
  fun E hE _ _ hi ha x => ElemData.dN_is_derivative (allElems_check E hE) hi ha x

theorem ddN_is_derivative : ∀ E ∈ allElems, ∀ i a, i < E.nPe → a < E.dim → ∀ x : Nat → ℝ,
    HasDerivAt (fun t : ℝ => PExpr.eval (Function.update x a t) (ElemData.tab E.dN i a))
      (PExpr.eval x (ElemData.tab E.ddN i a)) (x a) :=
  fun E hE _ _ hi ha x => ElemData.ddN_is_derivative (allElems_check E hE) hi ha x

theorem dddN_is_derivative : ∀ E ∈ allElems, ∀ i a, i < E.nPe → a < E.dim → ∀ x : Nat → ℝ,
    HasDerivAt (fun t : ℝ => PExpr.eval (Function.update x a t) (ElemData.tab E.ddN i a))
      (PExpr.eval x (ElemData.tab E.dddN i a)) (x a) :=
  fun E hE _ _ hi ha x => ElemData.dddN_is_derivative (allElems_check E hE) hi ha x

theorem ddddN_is_derivative : ∀ E ∈ allElems, ∀ i a, i < E.nPe → a < E.dim → ∀ x : Nat → ℝ,
    HasDerivAt (fun t : ℝ => PExpr.eval (Function.update x a t) (ElemData.tab E.dddN i a))
      (PExpr.eval x (ElemData.tab E.ddddN i a)) (x a) :=
  fun E hE _ _ hi ha x => ElemData.ddddN_is_derivative (allElems_check E hE) hi ha x

/-- Corollary used by C01/C09: the first derivatives sum to zero everywhere. -/
theorem sum_dN_zero : ∀ E ∈ allElems, ∀ a, ∀ x : Nat → ℝ,
    PExpr.eval x (PExpr.pd a (PExpr.sum E.N)) = 0 :=
  fun E hE a x => ElemData.sum_dN_zero (allElems_check E hE) a x

/-- Hermite functions: the derivative tables are the true derivatives everywhere. -/
theorem hermite_dN_is_derivative : ∀ H ∈ allHermite, ∀ i, i < 2 * H.1.nPe → ∀ x : Nat → ℝ,
    HasDerivAt (fun t : ℝ => PExpr.eval (Function.update x 0 t) (HermiteData.f H.1.N i))
      (PExpr.eval x (HermiteData.f H.1.dN i)) (x 0) :=
  fun H hH _ hi x => HermiteData.dN_is_derivative (allHermite_check H hH) hi x

theorem hermite_ddN_is_derivative : ∀ H ∈ allHermite, ∀ i, i < 2 * H.1.nPe → ∀ x : Nat → ℝ,
    HasDerivAt (fun t : ℝ => PExpr.eval (Function.update x 0 t) (HermiteData.f H.1.dN i))
      (PExpr.eval x (HermiteData.f H.1.ddN i)) (x 0) :=
  fun H hH _ hi x => HermiteData.ddN_is_derivative (allHermite_check H hH) hi x

theorem hermite_dddN_is_derivative : ∀ H ∈ allHermite, ∀ i, i < 2 * H.1.nPe → ∀ x : Nat → ℝ,
    HasDerivAt (fun t : ℝ => PExpr.eval (Function.update x 0 t) (HermiteData.f H.1.ddN i))
      (PExpr.eval x (HermiteData.f H.1.dddN i)) (x 0) :=
  fun H hH _ hi x => HermiteData.dddN_is_derivative (allHermite_check H hH) hi x

/-- Hermite functions interpolate nodal value and nodal slope (to within the
tolerance fixed in `catalogue_hermite`): each φ has unit value, each ψ unit
physical slope (2ψ' in reference coordinates, see `HermiteData.interpOK`) at its
own node, and zero value and slope at all other nodes. -/
theorem hermite_interpolates : ∀ H ∈ allHermite, ∀ i j, i < H.1.nPe → j < H.1.nPe →
    let d : Rat := if i = j then 1 else 0
    |(HermiteData.f H.1.N (2 * i)).evalQ (H.1.nodeAt j) - d| ≤ H.2 ∧
    |(HermiteData.f H.1.dN (2 * i)).evalQ (H.1.nodeAt j)| ≤ H.2 ∧
    |(HermiteData.f H.1.N (2 * i + 1)).evalQ (H.1.nodeAt j)| ≤ H.2 ∧
    |2 * (HermiteData.f H.1.dN (2 * i + 1)).evalQ (H.1.nodeAt j) - d| ≤ H.2 :=
  fun H hH _ _ hi hj => HermiteData.interpolates (allHermite_check H hH) hi hj

/-- Non-vacuity: concrete values away from the nodes. -/
example : (TRI6.Ni 3).evalQ (pt [1/4, 1/4]) = 1/2 := by decide +kernel
example : (ElemData.tab HEXA20.dN 0 2).evalQ (pt [1/2, 1/2, 1/2]) = 3/32 := by decide +kernel

end EasyFEAVerif.Props.C06
