/-
Property C05 — each time scheme satisfies its update rule and its discrete equation
of motion; the system-matrix weights are the derivatives of the evaluation-point
states.  The definitions `Gen.C05.*` are translated from the four case tables of
/repo/EasyFEA/Simulations/_simu.py on every run; everything here holds for every
field 𝕜 of characteristic zero, every 𝕜-module V (any number of dofs), all linear
K, C, M (Rayleigh damping or not), all prior states, loads and parameters, under
exactly the guards the code divides by.
-/
import EasyFEAVerif.Gen.C05.Schemes
import Mathlib.Tactic.Module
import Mathlib.Tactic.FieldSimp
import Mathlib.Tactic.Ring
import Mathlib.Tactic.LinearCombination
import Mathlib.Tactic.Abel
import Mathlib.Tactic.NormNum
import Mathlib.Algebra.Module.LinearMap.Basic
import Mathlib.Algebra.CharZero.Defs

namespace EasyFEAVerif.Props.C05
open EasyFEAVerif.Gen.C05

variable {𝕜 : Type*} [Field 𝕜] [CharZero 𝕜] {V : Type*} [AddCommGroup V] [Module 𝕜 V]

/-- the code returns `None` for an absent velocity/acceleration: read it as 0 -/
def ov (o : Option V) : V := o.getD 0

/-- closes identities between module expressions built from the generated formulas -/
syntax "scheme_identity" "[" Lean.Parser.Tactic.simpLemma,* "]" : tactic
macro_rules
  | `(tactic| scheme_identity [$ls,*]) =>
    `(tactic| (simp only [$ls,*]
               try simp only [ov, Option.getD_some, Option.getD_none, LinearMap.add_apply,
                 LinearMap.smul_apply, LinearMap.sub_apply, map_add, map_sub, map_smul, map_zero, map_neg]
               try (match_scalars <;> (try field_simp) <;> (try ring))))

/-! ## 1. Discrete equation of motion: `A u − b = K u_t + C v_t + M a_t − F`

`A = coefK·K + coefC·C + coefM·M` is the system matrix, `b` the right-hand side built by
`_Solver_Apply_Neumann` (history terms included) and `(u_t, v_t, a_t)` the evaluation-point
states of `_Solver_Evaluate_u_v_a_for_time_scheme` at the solve variable. The identity holds
for ALL vectors; in particular on every free dof a solution of `A u = b` satisfies the
equation of motion with the total load `fN + F` (see `eom_on_free_dofs`). -/

theorem parabolic_eom (dt β γ α : 𝕜) (hdt : dt ≠ 0) (hα : α ≠ 0) (K C M : V →ₗ[𝕜] V)
    (fN F u_n v_n a_n u : V) :
    ((parabolic_coefs dt β γ α).1 • K + (parabolic_coefs dt β γ α).2.1 • C
        + (parabolic_coefs dt β γ α).2.2 • M) u - parabolic_rhs dt β γ α K C M fN F u_n v_n a_n
      = K (parabolic_eval dt β γ α u_n v_n a_n u).1 + C (ov (parabolic_eval dt β γ α u_n v_n a_n u).2.1)
        + M (ov (parabolic_eval dt β γ α u_n v_n a_n u).2.2) - (fN + F) := by
  scheme_identity [parabolic_coefs, parabolic_eval, parabolic_rhs]

theorem newmark_eom (dt β γ α : 𝕜) (hdt : dt ≠ 0) (hβ : β ≠ 0) (K C M : V →ₗ[𝕜] V)
    (fN F u_n v_n a_n u : V) :
    ((newmark_coefs dt β γ α).1 • K + (newmark_coefs dt β γ α).2.1 • C
        + (newmark_coefs dt β γ α).2.2 • M) u - newmark_rhs dt β γ α K C M fN F u_n v_n a_n
      = K (newmark_eval dt β γ α u_n v_n a_n u).1 + C (ov (newmark_eval dt β γ α u_n v_n a_n u).2.1)
        + M (ov (newmark_eval dt β γ α u_n v_n a_n u).2.2) - (fN + F) := by
  scheme_identity [newmark_coefs, newmark_eval, newmark_rhs]

theorem hht_eom (dt β γ α : 𝕜) (hdt : dt ≠ 0) (hβ : β ≠ 0) (K C M : V →ₗ[𝕜] V)
    (fN F u_n v_n a_n u : V) :
    ((hht_coefs dt β γ α).1 • K + (hht_coefs dt β γ α).2.1 • C
        + (hht_coefs dt β γ α).2.2 • M) u - hht_rhs dt β γ α K C M fN F u_n v_n a_n
      = K (hht_eval dt β γ α u_n v_n a_n u).1 + C (ov (hht_eval dt β γ α u_n v_n a_n u).2.1)
        + M (ov (hht_eval dt β γ α u_n v_n a_n u).2.2) - (fN + F) := by
  scheme_identity [hht_coefs, hht_eval, hht_rhs]

theorem hht_newmark_eom (dt β γ α : 𝕜) (hdt : dt ≠ 0) (hβ : β ≠ 0) (K C M : V →ₗ[𝕜] V)
    (fN F u_n v_n a_n u : V) :
    ((hht_newmark_coefs dt β γ α).1 • K + (hht_newmark_coefs dt β γ α).2.1 • C
        + (hht_newmark_coefs dt β γ α).2.2 • M) u - hht_newmark_rhs dt β γ α K C M fN F u_n v_n a_n
      = K (hht_newmark_eval dt β γ α u_n v_n a_n u).1 + C (ov (hht_newmark_eval dt β γ α u_n v_n a_n u).2.1)
        + M (ov (hht_newmark_eval dt β γ α u_n v_n a_n u).2.2) - (fN + F) := by
  scheme_identity [hht_newmark_coefs, hht_newmark_eval, hht_newmark_rhs]

theorem midpoint_eom (dt β γ α : 𝕜) (hdt : dt ≠ 0) (K C M : V →ₗ[𝕜] V)
    (fN F u_n v_n a_n u : V) :
    ((midpoint_coefs dt β γ α).1 • K + (midpoint_coefs dt β γ α).2.1 • C
        + (midpoint_coefs dt β γ α).2.2 • M) u - midpoint_rhs dt β γ α K C M fN F u_n v_n a_n
      = K (midpoint_eval dt β γ α u_n v_n a_n u).1 + C (ov (midpoint_eval dt β γ α u_n v_n a_n u).2.1)
        + M (ov (midpoint_eval dt β γ α u_n v_n a_n u).2.2) - (fN + F) := by
  scheme_identity [midpoint_coefs, midpoint_eval, midpoint_rhs]

theorem euler_implicit_eom (dt β γ α : 𝕜) (hdt : dt ≠ 0) (K C M : V →ₗ[𝕜] V)
    (fN F u_n v_n a_n u : V) :
    ((euler_implicit_coefs dt β γ α).1 • K + (euler_implicit_coefs dt β γ α).2.1 • C
        + (euler_implicit_coefs dt β γ α).2.2 • M) u - euler_implicit_rhs dt β γ α K C M fN F u_n v_n a_n
      = K (euler_implicit_eval dt β γ α u_n v_n a_n u).1 + C (ov (euler_implicit_eval dt β γ α u_n v_n a_n u).2.1)
        + M (ov (euler_implicit_eval dt β γ α u_n v_n a_n u).2.2) - (fN + F) := by
  scheme_identity [euler_implicit_coefs, euler_implicit_eval, euler_implicit_rhs]

/-- Forward Euler: the solve variable is the acceleration `a` at time n; the system is
`M a = F − K u_n − C v_n`, evaluated at the state (u_n, v_n). -/
theorem euler_explicit_eom (dt β γ α : 𝕜) (K C M : V →ₗ[𝕜] V) (fN F u_n v_n a_n a : V) :
    ((euler_explicit_coefs dt β γ α).1 • K + (euler_explicit_coefs dt β γ α).2.1 • C
        + (euler_explicit_coefs dt β γ α).2.2 • M) a - euler_explicit_rhs dt β γ α K C M fN F u_n v_n a_n
      = K (euler_explicit_eval dt β γ α u_n v_n a_n a).1 + C (ov (euler_explicit_eval dt β γ α u_n v_n a_n a).2.1)
        + M a - (fN + F) := by
  scheme_identity [euler_explicit_coefs, euler_explicit_eval, euler_explicit_rhs]

/-- Restriction to the free dofs: for any linear "restriction to free dofs" `P`, a
solution of the constrained system `P (A u − b) = 0` satisfies `P (K u_t + C v_t + M a_t − F) = 0`.
(Stated once, generically: instantiate `h` with any of the `_eom` identities above.) -/
theorem eom_on_free_dofs {W : Type*} [AddCommGroup W] [Module 𝕜 W] (P : V →ₗ[𝕜] W)
    {lhs rhs res : V} (h : lhs - rhs = res) (hsol : P (lhs - rhs) = 0) : P res = 0 := by
  rw [← h]; exact hsol

/-! ## 2. The corrector satisfies the documented update relations -/

/-- Newmark (docstring of `AlgoType.newmark`):
`a₁ = (u₁ − ũ)/(β dt²)`, `v₁ = v_n + dt[(1−γ)a_n + γ a₁]`, `ũ = u_n + dt v_n + dt²/2 (1−2β) a_n`. -/
theorem newmark_update_spec (dt β γ α : 𝕜) (hdt : dt ≠ 0) (hβ : β ≠ 0) (u_n v_n a_n u : V) :
    let r := newmark_update dt β γ α u_n v_n a_n u
    r.1 = u ∧
    ov r.2.2 = (β * dt ^ 2)⁻¹ • (u - (u_n + dt • v_n + (dt ^ 2 / 2 * (1 - 2 * β)) • a_n)) ∧
    ov r.2.1 = v_n + dt • ((1 - γ) • a_n + γ • ov r.2.2) := by
  refine ⟨rfl, ?_, ?_⟩
  · scheme_identity [newmark_update]
  · scheme_identity [newmark_update]

/-- HHT-α: "Update: identical to newmark". -/
theorem hht_update_eq_newmark (dt β γ α : 𝕜) (hdt : dt ≠ 0) (hβ : β ≠ 0) (u_n v_n a_n u : V) :
    (hht_update dt β γ α u_n v_n a_n u).1 = (newmark_update dt β γ α u_n v_n a_n u).1 ∧
    ov (hht_update dt β γ α u_n v_n a_n u).2.1 = ov (newmark_update dt β γ α u_n v_n a_n u).2.1 ∧
    ov (hht_update dt β γ α u_n v_n a_n u).2.2 = ov (newmark_update dt β γ α u_n v_n a_n u).2.2 := by
  refine ⟨rfl, ?_, ?_⟩
  · scheme_identity [hht_update, newmark_update]
  · scheme_identity [hht_update, newmark_update]

/-- HHT-Newmark shares Newmark's corrector. -/
theorem hht_newmark_update_eq_newmark (dt β γ α : 𝕜) (u_n v_n a_n u : V) :
    hht_newmark_update dt β γ α u_n v_n a_n u = newmark_update dt β γ α u_n v_n a_n u := rfl

/-- … with β and γ imposed by α: `β = (1+α)²/4`, `γ = 1/2 + α`. -/
theorem hht_newmark_params_spec (α : 𝕜) :
    hht_newmark_params α = ((1 + α) ^ 2 / 4, 1 / 2 + α) := by
  simp only [hht_newmark_params, Prod.mk.injEq]
  exact ⟨by ring, trivial⟩

/-- Midpoint: `v₁ = 2/dt (u₁ − u_n) − v_n`, `a₁ = 2/dt (v₁ − v_n) − a_n`. -/
theorem midpoint_update_spec (dt β γ α : 𝕜) (hdt : dt ≠ 0) (u_n v_n a_n u : V) :
    let r := midpoint_update dt β γ α u_n v_n a_n u
    r.1 = u ∧ ov r.2.1 = (2 / dt) • (u - u_n) - v_n ∧ ov r.2.2 = (2 / dt) • (ov r.2.1 - v_n) - a_n := by
  refine ⟨rfl, ?_, ?_⟩
  · scheme_identity [midpoint_update]
  · scheme_identity [midpoint_update]

/-- Backward Euler: `v₁ = (u₁ − u_n)/dt`, `a₁ = (v₁ − v_n)/dt`. -/
theorem euler_implicit_update_spec (dt β γ α : 𝕜) (hdt : dt ≠ 0) (u_n v_n a_n u : V) :
    let r := euler_implicit_update dt β γ α u_n v_n a_n u
    r.1 = u ∧ ov r.2.1 = dt⁻¹ • (u - u_n) ∧ ov r.2.2 = dt⁻¹ • (ov r.2.1 - v_n) := by
  refine ⟨rfl, ?_, ?_⟩
  · scheme_identity [euler_implicit_update]
  · scheme_identity [euler_implicit_update]

/-- Forward Euler: `u₁ = u_n + dt v_n`, `v₁ = v_n + dt a`, with `a` the solve variable. -/
theorem euler_explicit_update_spec (dt β γ α : 𝕜) (u_n v_n a_n a : V) :
    let r := euler_explicit_update dt β γ α u_n v_n a_n a
    r.1 = u_n + dt • v_n ∧ ov r.2.1 = v_n + dt • a ∧ ov r.2.2 = a := by
  refine ⟨rfl, ?_, rfl⟩
  scheme_identity [euler_explicit_update]

/-- Parabolic θ-scheme: `u₁ = u_n + dt v^{n+α}` with `v^{n+α} = (1−α) v_n + α v₁`. -/
theorem parabolic_update_spec (dt β γ α : 𝕜) (hdt : dt ≠ 0) (hα : α ≠ 0) (u_n v_n a_n u : V) :
    let r := parabolic_update dt β γ α u_n v_n a_n u
    r.1 = u ∧ u = u_n + dt • ((1 - α) • v_n + α • ov r.2.1) := by
  refine ⟨rfl, ?_⟩
  scheme_identity [parabolic_update]

/-! ## 3. The evaluation-point states are those of the scheme, built on the corrector's output -/

theorem newmark_eval_eq_update (dt β γ α : 𝕜) (u_n v_n a_n u : V) :
    newmark_eval dt β γ α u_n v_n a_n u = newmark_update dt β γ α u_n v_n a_n u := rfl

/-- HHT-α: `u_t = (1−α)u₁ + αu_n`, `v_t = (1−α)v₁ + αv_n`, `a_t = (1−α)a₁ + αa_n`. -/
theorem hht_eval_spec (dt β γ α : 𝕜) (hdt : dt ≠ 0) (hβ : β ≠ 0) (u_n v_n a_n u : V) :
    let e := hht_eval dt β γ α u_n v_n a_n u
    let r := hht_update dt β γ α u_n v_n a_n u
    e.1 = (1 - α) • r.1 + α • u_n ∧ ov e.2.1 = (1 - α) • ov r.2.1 + α • v_n ∧
      ov e.2.2 = (1 - α) • ov r.2.2 + α • a_n := by
  refine ⟨rfl, ?_, ?_⟩
  · scheme_identity [hht_eval, hht_update]
  · scheme_identity [hht_eval, hht_update]

/-- HHT-Newmark: only the displacement is shifted: `u_t = (1−α)u₁ + αu_n`, `v_t = v₁`, `a_t = a₁`. -/
theorem hht_newmark_eval_spec (dt β γ α : 𝕜) (hdt : dt ≠ 0) (hβ : β ≠ 0) (u_n v_n a_n u : V) :
    let e := hht_newmark_eval dt β γ α u_n v_n a_n u
    let r := hht_newmark_update dt β γ α u_n v_n a_n u
    e.1 = (1 - α) • r.1 + α • u_n ∧ ov e.2.1 = ov r.2.1 ∧ ov e.2.2 = ov r.2.2 := by
  refine ⟨rfl, ?_, ?_⟩
  · scheme_identity [hht_newmark_eval, hht_newmark_update]
  · scheme_identity [hht_newmark_eval, hht_newmark_update]

/-- Midpoint: all three states at the middle of the step. -/
theorem midpoint_eval_spec (dt β γ α : 𝕜) (hdt : dt ≠ 0) (u_n v_n a_n u : V) :
    let e := midpoint_eval dt β γ α u_n v_n a_n u
    let r := midpoint_update dt β γ α u_n v_n a_n u
    e.1 = (2 : 𝕜)⁻¹ • (r.1 + u_n) ∧ ov e.2.1 = (2 : 𝕜)⁻¹ • (ov r.2.1 + v_n) ∧
      ov e.2.2 = (2 : 𝕜)⁻¹ • (ov r.2.2 + a_n) := by
  refine ⟨?_, ?_, ?_⟩
  · scheme_identity [midpoint_eval, midpoint_update]
  · scheme_identity [midpoint_eval, midpoint_update]
  · scheme_identity [midpoint_eval, midpoint_update]

theorem euler_implicit_eval_eq_update (dt β γ α : 𝕜) (u_n v_n a_n u : V) :
    euler_implicit_eval dt β γ α u_n v_n a_n u = euler_implicit_update dt β γ α u_n v_n a_n u := rfl

theorem parabolic_eval_eq_update (dt β γ α : 𝕜) (u_n v_n a_n u : V) :
    parabolic_eval dt β γ α u_n v_n a_n u = parabolic_update dt β γ α u_n v_n a_n u := rfl

/-! ## 4. The weights of K, C, M are the derivatives of (u_t, v_t, a_t) w.r.t. the unknown

The evaluation-point states are affine in the unknown, so "derivative" is exact:
moving the unknown by δ moves (u_t, v_t, a_t) by (coefK·δ, coefC·δ, coefM·δ). This is what
makes a Newton step on the residual `K u_t + C v_t + M a_t − F` solve the direct system. -/

theorem parabolic_coefs_are_derivatives (dt β γ α : 𝕜) (hdt : dt ≠ 0) (hα : α ≠ 0) (u_n v_n a_n u δ : V) :
    (parabolic_eval dt β γ α u_n v_n a_n (u + δ)).1 - (parabolic_eval dt β γ α u_n v_n a_n u).1
        = (parabolic_coefs dt β γ α).1 • δ ∧
    ov (parabolic_eval dt β γ α u_n v_n a_n (u + δ)).2.1 - ov (parabolic_eval dt β γ α u_n v_n a_n u).2.1
        = (parabolic_coefs dt β γ α).2.1 • δ ∧
    ov (parabolic_eval dt β γ α u_n v_n a_n (u + δ)).2.2 - ov (parabolic_eval dt β γ α u_n v_n a_n u).2.2
        = (parabolic_coefs dt β γ α).2.2 • δ := by
  refine ⟨?_, ?_, ?_⟩ <;> scheme_identity [parabolic_eval, parabolic_coefs]

theorem newmark_coefs_are_derivatives (dt β γ α : 𝕜) (hdt : dt ≠ 0) (hβ : β ≠ 0) (u_n v_n a_n u δ : V) :
    (newmark_eval dt β γ α u_n v_n a_n (u + δ)).1 - (newmark_eval dt β γ α u_n v_n a_n u).1
        = (newmark_coefs dt β γ α).1 • δ ∧
    ov (newmark_eval dt β γ α u_n v_n a_n (u + δ)).2.1 - ov (newmark_eval dt β γ α u_n v_n a_n u).2.1
        = (newmark_coefs dt β γ α).2.1 • δ ∧
    ov (newmark_eval dt β γ α u_n v_n a_n (u + δ)).2.2 - ov (newmark_eval dt β γ α u_n v_n a_n u).2.2
        = (newmark_coefs dt β γ α).2.2 • δ := by
  refine ⟨?_, ?_, ?_⟩ <;> scheme_identity [newmark_eval, newmark_coefs]

theorem hht_coefs_are_derivatives (dt β γ α : 𝕜) (hdt : dt ≠ 0) (hβ : β ≠ 0) (u_n v_n a_n u δ : V) :
    (hht_eval dt β γ α u_n v_n a_n (u + δ)).1 - (hht_eval dt β γ α u_n v_n a_n u).1
        = (hht_coefs dt β γ α).1 • δ ∧
    ov (hht_eval dt β γ α u_n v_n a_n (u + δ)).2.1 - ov (hht_eval dt β γ α u_n v_n a_n u).2.1
        = (hht_coefs dt β γ α).2.1 • δ ∧
    ov (hht_eval dt β γ α u_n v_n a_n (u + δ)).2.2 - ov (hht_eval dt β γ α u_n v_n a_n u).2.2
        = (hht_coefs dt β γ α).2.2 • δ := by
  refine ⟨?_, ?_, ?_⟩ <;> scheme_identity [hht_eval, hht_coefs]

theorem hht_newmark_coefs_are_derivatives (dt β γ α : 𝕜) (hdt : dt ≠ 0) (hβ : β ≠ 0) (u_n v_n a_n u δ : V) :
    (hht_newmark_eval dt β γ α u_n v_n a_n (u + δ)).1 - (hht_newmark_eval dt β γ α u_n v_n a_n u).1
        = (hht_newmark_coefs dt β γ α).1 • δ ∧
    ov (hht_newmark_eval dt β γ α u_n v_n a_n (u + δ)).2.1 - ov (hht_newmark_eval dt β γ α u_n v_n a_n u).2.1
        = (hht_newmark_coefs dt β γ α).2.1 • δ ∧
    ov (hht_newmark_eval dt β γ α u_n v_n a_n (u + δ)).2.2 - ov (hht_newmark_eval dt β γ α u_n v_n a_n u).2.2
        = (hht_newmark_coefs dt β γ α).2.2 • δ := by
  refine ⟨?_, ?_, ?_⟩ <;> scheme_identity [hht_newmark_eval, hht_newmark_coefs]

theorem midpoint_coefs_are_derivatives (dt β γ α : 𝕜) (hdt : dt ≠ 0) (u_n v_n a_n u δ : V) :
    (midpoint_eval dt β γ α u_n v_n a_n (u + δ)).1 - (midpoint_eval dt β γ α u_n v_n a_n u).1
        = (midpoint_coefs dt β γ α).1 • δ ∧
    ov (midpoint_eval dt β γ α u_n v_n a_n (u + δ)).2.1 - ov (midpoint_eval dt β γ α u_n v_n a_n u).2.1
        = (midpoint_coefs dt β γ α).2.1 • δ ∧
    ov (midpoint_eval dt β γ α u_n v_n a_n (u + δ)).2.2 - ov (midpoint_eval dt β γ α u_n v_n a_n u).2.2
        = (midpoint_coefs dt β γ α).2.2 • δ := by
  refine ⟨?_, ?_, ?_⟩ <;> scheme_identity [midpoint_eval, midpoint_coefs]

theorem euler_implicit_coefs_are_derivatives (dt β γ α : 𝕜) (hdt : dt ≠ 0) (u_n v_n a_n u δ : V) :
    (euler_implicit_eval dt β γ α u_n v_n a_n (u + δ)).1 - (euler_implicit_eval dt β γ α u_n v_n a_n u).1
        = (euler_implicit_coefs dt β γ α).1 • δ ∧
    ov (euler_implicit_eval dt β γ α u_n v_n a_n (u + δ)).2.1 - ov (euler_implicit_eval dt β γ α u_n v_n a_n u).2.1
        = (euler_implicit_coefs dt β γ α).2.1 • δ ∧
    ov (euler_implicit_eval dt β γ α u_n v_n a_n (u + δ)).2.2 - ov (euler_implicit_eval dt β γ α u_n v_n a_n u).2.2
        = (euler_implicit_coefs dt β γ α).2.2 • δ := by
  refine ⟨?_, ?_, ?_⟩ <;> scheme_identity [euler_implicit_eval, euler_implicit_coefs]

/-- Consistency of the incremental (Newton) path with the direct one: if `u` is any iterate
and `δ` solves the Newton system `A δ = −(K u_t + C v_t + M a_t − F)(u)`, then `u + δ`
solves the direct system `A (u+δ) = b`. Stated for Newmark; the other schemes follow from
their `_eom` identity in the same way (`newton_step_solves_direct`). -/
theorem newton_step_solves_direct {A : V →ₗ[𝕜] V} {b : V} {res : V → V}
    (hres : ∀ u, A u - b = res u) (u δ : V) (hδ : A δ = - res u) : A (u + δ) = b := by
  have := hres u
  rw [map_add, hδ, ← this]
  abel

/-! ## 5. Non-vacuity: one concrete step with numbers (𝕜 = V = ℚ, K = 3, C = 1/2, M = 2) -/

example :
    let K : ℚ →ₗ[ℚ] ℚ := (3 : ℚ) • LinearMap.id
    let C : ℚ →ₗ[ℚ] ℚ := (1 / 2 : ℚ) • LinearMap.id
    let M : ℚ →ₗ[ℚ] ℚ := (2 : ℚ) • LinearMap.id
    let c := newmark_coefs (1 / 2 : ℚ) (1 / 4) (1 / 2) 0
    (c.1, c.2.1, c.2.2) = (1, 4, 16) ∧
    newmark_rhs (1 / 2 : ℚ) (1 / 4) (1 / 2) 0 K C M 1 0 1 2 (-1) = 66 := by
  simp only [newmark_coefs, newmark_rhs, LinearMap.smul_apply, LinearMap.id_apply, LinearMap.add_apply,
    smul_eq_mul]
  norm_num

end EasyFEAVerif.Props.C05
