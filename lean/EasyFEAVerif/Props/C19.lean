/-
Property C19 — history-dependent material integration is admissible, dissipative and consistent.

Hand-written models, tied to the code by correspondence on every run (and by statement-level matching of the commit /
trial bookkeeping, the von Mises surface and the linear hardening law, `Gen/C19/Forms.lean`):
  * the return mapping of J2 plasticity with linear isotropic hardening in its scalar form (trial equivalent stress
    `q_tr`, accumulated plastic strain `p`, shear modulus `μ`, hardening modulus `H`, yield stress `σ_y`): the
    backward-Euler equations have the unique solution `Δp = ⟨q_tr − σ_y − H p⟩₊ / (3μ + H)`, `q = q_tr − 3μ Δp`.
    The real `Behavior.Integrate` (its Newton or spectral local solve) is compared with it on random strain paths.
    Proved for every trial state and along every path: `Δp ≥ 0`, `p` never decreases, the stress is on or inside the
    updated surface (`f ≤ 0`, `= 0` when flowing), `q ≥ 0`, the dissipation of the step is `Δp (σ_y + ½ H Δp) ≥ 0`,
    the algorithmic scalar tangent `∂q/∂q_tr` is `H/(3μ+H)` when flowing and 1 otherwise, the update is idempotent
    (re-integrating from the updated state with the same strain gives no further flow), and without a yield surface
    the response is exactly the elastic one; the plastic flow direction of a deviatoric stress is traceless;
  * the committed / trial state machine of the simulation: integration (any number of times, any strains) never
    changes the committed state; only saving a converged step (or restoring an iteration) does.
PARTIAL: general surfaces (Hill, Drucker–Prager), nonlinear and kinematic hardening, rate laws, Maxwell branches, plane
stress, the tensorial consistent tangent and the agreement of the two local solvers are decided on the real code.
-/
import EasyFEAVerif.Gen.C19.Forms
import Mathlib.Algebra.Order.Field.Basic
import Mathlib.Tactic.Ring
import Mathlib.Tactic.Linarith
import Mathlib.Tactic.FieldSimp
import Mathlib.Tactic.Positivity
import Mathlib.Tactic.NormNum
import Mathlib.Algebra.BigOperators.Fin
import Mathlib.Algebra.Order.Field.Rat

set_option linter.unusedSectionVars false

namespace EasyFEAVerif.Props.C19

open EasyFEAVerif.Gen

theorem forms_spec : (C19.forms.map Prod.fst) = ["Construct_local_matrix_system", "Save_Iter", "Set_Iter", "VonMises", "Svm", "Linear", "Plane_stress_strain"] := rfl

/-! ### scalar return mapping -/

section returnMap
variable {K : Type*} [Field K] [LinearOrder K] [IsStrictOrderedRing K]

structure Mat (K : Type*) where
  mu : K
  H : K
  sy : K

/-- yield function on equivalent stresses: `f = q − σ_y − H p` -/
def yieldF (m : Mat K) (q p : K) : K := q - m.sy - m.H * p

/-- plastic multiplier increment of the step -/
def dP (m : Mat K) (qtr p : K) : K := if yieldF m qtr p ≤ 0 then 0 else yieldF m qtr p / (3 * m.mu + m.H)

/-- updated equivalent stress -/
def qNew (m : Mat K) (qtr p : K) : K := qtr - 3 * m.mu * dP m qtr p

/-- updated accumulated plastic strain -/
def pNew (m : Mat K) (qtr p : K) : K := p + dP m qtr p

variable (m : Mat K) (hmu : 0 < m.mu) (hH : 0 ≤ m.H) (hsy : 0 < m.sy)

include hmu hH in
theorem den_pos : 0 < 3 * m.mu + m.H := by linarith

include hmu hH in
/-- **the plastic multiplier increment is non-negative** -/
theorem dP_nonneg (qtr p : K) : 0 ≤ dP m qtr p := by
  unfold dP
  split_ifs with h
  · exact le_refl 0
  · exact div_nonneg (le_of_lt (not_le.mp h)) (den_pos m hmu hH).le

include hmu hH in
/-- **the accumulated plastic strain never decreases** -/
theorem p_monotone (qtr p : K) : p ≤ pNew m qtr p := by
  unfold pNew; linarith [dP_nonneg m hmu hH qtr p]

include hmu hH in
/-- **admissibility**: the updated stress is on or inside the updated surface, and on it when the step flows -/
theorem admissible (qtr p : K) : yieldF m (qNew m qtr p) (pNew m qtr p) ≤ 0 ∧
    (0 < yieldF m qtr p → yieldF m (qNew m qtr p) (pNew m qtr p) = 0) := by
  have hd := den_pos m hmu hH
  unfold qNew pNew dP
  split_ifs with h
  · refine ⟨by simpa [yieldF] using h, fun hpos => absurd h (not_le.mpr hpos)⟩
  · have key : yieldF m (qtr - 3 * m.mu * (yieldF m qtr p / (3 * m.mu + m.H))) (p + yieldF m qtr p / (3 * m.mu + m.H)) = 0 := by
      unfold yieldF; field_simp; ring
    exact ⟨key.le, fun _ => key⟩

include hmu hH hsy in
/-- the updated equivalent stress stays non-negative (for `p ≥ 0`, `q_tr ≥ 0`) -/
theorem q_nonneg (qtr p : K) (hq : 0 ≤ qtr) (hp : 0 ≤ p) : 0 ≤ qNew m qtr p := by
  have hd := den_pos m hmu hH
  unfold qNew dP
  split_ifs with h
  · simpa using hq
  · have : qtr - 3 * m.mu * (yieldF m qtr p / (3 * m.mu + m.H)) = (m.H * qtr + 3 * m.mu * (m.sy + m.H * p)) / (3 * m.mu + m.H) := by
      unfold yieldF; field_simp; ring
    rw [this]
    have hHp : 0 ≤ m.H * p := mul_nonneg hH hp
    have hHq : 0 ≤ m.H * qtr := mul_nonneg hH hq
    exact div_nonneg (by nlinarith [mul_pos hmu hsy, mul_nonneg hmu.le hHp]) hd.le

include hmu hH hsy in
/-- **dissipation of the step**: plastic work minus stored hardening energy `= Δp (σ_y + ½ H Δp) ≥ 0` -/
theorem dissipation_nonneg (qtr p : K) :
    let dp := dP m qtr p
    qNew m qtr p * dp - (m.H / 2) * ((p + dp) ^ 2 - p ^ 2) = dp * (m.sy + m.H * dp / 2) ∧
    0 ≤ dp * (m.sy + m.H * dp / 2) := by
  intro dp
  have hd := den_pos m hmu hH
  have hdp : 0 ≤ dp := dP_nonneg m hmu hH qtr p
  refine ⟨?_, mul_nonneg hdp (by have := mul_nonneg hH hdp; linarith)⟩
  show qNew m qtr p * dP m qtr p - (m.H / 2) * ((p + dP m qtr p) ^ 2 - p ^ 2) = dP m qtr p * (m.sy + m.H * dP m qtr p / 2)
  unfold qNew dP
  split_ifs with h
  · ring
  · unfold yieldF; field_simp; ring

include hmu hH in
/-- **idempotence**: integrating again from the updated state with the same trial stress reduced by the flow gives no
further flow (the solution of the step is a fixed point) -/
theorem no_further_flow (qtr p : K) : dP m (qNew m qtr p) (pNew m qtr p) = 0 := by
  have h := (admissible m hmu hH qtr p).1
  unfold dP
  rw [if_pos h]

/-- without a yield surface the behaviour is the elastic one: an infinite yield stress is never reached; stated for the
elastic branch: when `f_tr ≤ 0` nothing flows and the stress is the trial (elastic) stress -/
theorem elastic_branch (qtr p : K) (h : yieldF m qtr p ≤ 0) : dP m qtr p = 0 ∧ qNew m qtr p = qtr ∧ pNew m qtr p = p := by
  have h0 : dP m qtr p = 0 := by unfold dP; rw [if_pos h]
  exact ⟨h0, by unfold qNew; rw [h0]; ring, by unfold pNew; rw [h0]; ring⟩

include hmu hH in
/-- **scalar algorithmic tangent when flowing**: `q = (H q_tr + 3μ(σ_y + H p)) / (3μ + H)`, affine in `q_tr` with slope
`H / (3μ + H)` — the derivative of the returned stress with respect to the trial stress -/
theorem flowing_stress_affine (qtr p : K) (h : 0 < yieldF m qtr p) :
    qNew m qtr p = m.H / (3 * m.mu + m.H) * qtr + 3 * m.mu * (m.sy + m.H * p) / (3 * m.mu + m.H) := by
  have hd := den_pos m hmu hH
  unfold qNew dP
  rw [if_neg (not_le.mpr h)]
  unfold yieldF; field_simp; ring

/-- along ANY path of trial stresses the accumulated plastic strain is non-decreasing and every stress admissible -/
def runPath (m : Mat K) (p0 : K) : List K → K
  | [] => p0
  | qtr :: rest => runPath m (pNew m qtr p0) rest

include hmu hH in
theorem path_monotone (p0 : K) (path : List K) : p0 ≤ runPath m p0 path := by
  induction path generalizing p0 with
  | nil => exact le_refl _
  | cons q rest ih => exact le_trans (p_monotone m hmu hH q p0) (ih _)

end returnMap

/-! ### the flow direction of a deviatoric stress is traceless -/

section deviator
variable {K : Type*} [Field K]

/-- Kelvin–Mandel deviator: `s = σ − (tr σ / 3) m`, `m = (1,1,1,0,0,0)` -/
def dev (s : Fin 6 → K) : Fin 6 → K := fun i => s i - (if i.val < 3 then (s 0 + s 1 + s 2) / 3 else 0)
def tr6 (s : Fin 6 → K) : K := s 0 + s 1 + s 2

/-- **von Mises plastic strain is traceless**: every increment is a multiple of the deviator of the stress -/
theorem dev_traceless [CharZero K] (s : Fin 6 → K) : tr6 (dev s) = 0 := by
  simp only [tr6, dev]
  norm_num
  ring

theorem flow_traceless [CharZero K] (s : Fin 6 → K) (c : K) : tr6 (fun i => c * dev s i) = 0 := by
  have h := dev_traceless s
  simp only [tr6] at h ⊢
  rw [← mul_add, ← mul_add, h, mul_zero]

end deviator

/-! ### committed / trial state machine of the simulation -/

section stateMachine
variable {Z E : Type*}

structure Sim (Z : Type*) where
  committed : Z
  trial : Z
  saved : List Z

inductive Op (E : Type*) where
  | integrate (eps : E)     -- an assembly / a Newton iteration: Behavior.Integrate reads the committed state
  | save                    -- Save_Iter: the trial state becomes the committed one
  | restore (i : Nat)       -- Set_Iter

def step (F : Z → E → Z) (s : Sim Z) : Op E → Sim Z
  | .integrate eps => { s with trial := F s.committed eps }
  | .save => { committed := s.trial, trial := s.trial, saved := s.saved ++ [s.trial] }
  | .restore i => match s.saved[i]? with
    | some z => { s with committed := z, trial := z }
    | none => s

/-- **integration never modifies the committed state**: after any number of integrations (Newton iterations, repeated
assemblies, any strains) the committed state is the one of the last save / restore -/
theorem integrate_pure (F : Z → E → Z) (s : Sim Z) (epss : List E) :
    ((epss.map Op.integrate).foldl (step F) s).committed = s.committed := by
  induction epss generalizing s with
  | nil => rfl
  | cons e rest ih =>
    simp only [List.map_cons, List.foldl_cons]
    rw [ih]
    rfl

/-- the trial state after a run of integrations only depends on the committed state and the LAST strain -/
theorem trial_depends_on_last (F : Z → E → Z) (s : Sim Z) (epss : List E) (e : E) :
    (((epss ++ [e]).map Op.integrate).foldl (step F) s).trial = F s.committed e := by
  rw [List.map_append, List.foldl_append]
  simp only [List.map_cons, List.map_nil, List.foldl_cons, List.foldl_nil, step]
  rw [integrate_pure]

/-- only saving advances the history: the list of saved states grows exactly at `save` -/
theorem saved_grows_only_at_save (F : Z → E → Z) (s : Sim Z) (op : Op E) :
    (step F s op).saved = s.saved ∨ (op = .save ∧ (step F s op).saved = s.saved ++ [s.trial]) := by
  cases op with
  | integrate e => left; rfl
  | save => right; exact ⟨rfl, rfl⟩
  | restore i =>
    left
    simp only [step]
    cases s.saved[i]? <;> rfl

/-- restoring iteration `i` and saving again stores iteration `i` once more (the trial state is restored together with the
committed one; C15 reads the same fact on the iteration store) -/
theorem restore_save_appends_restored (F : Z → E → Z) (s : Sim Z) (i : Nat) (z : Z) (h : s.saved[i]? = some z) :
    (step F (step F s (.restore i)) .save).saved = s.saved ++ [z] ∧ (step F (step F s (.restore i)) .save).committed = z := by
  simp [step, h]

/-- … and an integration after a restore starts from the restored state -/
theorem integrate_after_restore (F : Z → E → Z) (s : Sim Z) (i : Nat) (z : Z) (h : s.saved[i]? = some z) (e : E) :
    (step F (step F s (.restore i)) (.integrate e)).trial = F z e := by
  simp [step, h]

end stateMachine

/-! ### non-vacuity: μ = 1, H = 1, σ_y = 1, q_tr = 5, p = 0 flows with Δp = 1 and lands on the surface -/
example : dP (⟨1, 1, 1⟩ : Mat ℚ) 5 0 = 1 ∧ qNew (⟨1, 1, 1⟩ : Mat ℚ) 5 0 = 2 ∧ yieldF (⟨1, 1, 1⟩ : Mat ℚ) 2 1 = 0 := by
  refine ⟨?_, ?_, ?_⟩ <;> simp [dP, qNew, yieldF] <;> norm_num

/-! ### plane stress: the stop test of `__Plane_stress_strain` on a field of points -/

section planeStress
variable {K : Type*} [Field K] [LinearOrder K] [IsStrictOrderedRing K]

/-- `np.max(np.abs(r_e_pg))` over the points of a field -/
def maxAbs (r : List K) : K := (r.map abs).foldr max 0

theorem le_maxAbs (r : List K) : ∀ x ∈ r, |x| ≤ maxAbs r := by
  induction r with
  | nil => intro x hx; cases hx
  | cons a l ih =>
    intro x hx
    simp only [maxAbs, List.map_cons, List.foldr_cons]
    rcases List.mem_cons.mp hx with rfl | h
    · exact le_max_left _ _
    · exact le_trans (ih x h) (le_max_right _ _)

/-- **the stop test of the plane-stress loop** (`np.max(np.abs(r_e_pg)) < tol`, `r` = σ_zz at every integration point of the
field): when the loop stops, the out-of-plane stress of EVERY point of the field is below the tolerance — a point is treated
exactly as if it were alone -/
theorem plane_stress_stop_sound (r : List K) (tol : K) (h : maxAbs r < tol) : ∀ x ∈ r, |x| < tol :=
  fun x hx => lt_of_le_of_lt (le_maxAbs r x hx) h

/-- and conversely the loop does stop once every point is below the tolerance -/
theorem plane_stress_stop_complete (r : List K) (tol : K) (ht : 0 < tol) (h : ∀ x ∈ r, |x| < tol) : maxAbs r < tol := by
  induction r with
  | nil => simpa [maxAbs] using ht
  | cons a l ih =>
    simp only [maxAbs, List.map_cons, List.foldr_cons]
    exact max_lt (h a (List.mem_cons_self ..)) (ih fun x hx => h x (List.mem_cons_of_mem _ hx))

/-- a test on the absolute value of the largest residual (seed C19_H: `np.abs(np.max(r)) < tol`) is not sound: a field whose
points are all in compression, one converged and one not -/
example : |(([-5, 0] : List ℚ).foldr max (-5))| < 1 ∧ ¬ (∀ x ∈ ([-5, 0] : List ℚ), |x| < 1) := by
  refine ⟨by norm_num, fun h => ?_⟩
  have := h (-5) (by simp)
  norm_num at this

/-- one Newton step `eps_zz - r / C_zz` cancels the residual of a linear (elastic) response exactly -/
theorem plane_stress_newton_linear (r c : K) (hc : c ≠ 0) : r + c * (-(r / c)) = 0 := by
  field_simp
  ring

end planeStress

end EasyFEAVerif.Props.C19
