/-
Property C03 / C20: what the cache key of the reduction map must contain.

`__Get_csr_map` is cached under `(dof_n, isMatrix, Ndof, group objects)`; a group object never changes its connectivity, so the key
determines the pattern (`Props/C03.cached_eq_fresh`). A key that forgets WHICH groups and keeps what the groups look like - their
element types, i.e. the number of nodes per element, and even their number of elements - is not enough: two meshes of the same
element types and sizes, numbered differently (a renumbered copy; two equal-sized parts of one partition, which also share `Ndof`),
get the same key and different maps (`coarse_key_collides`), and a cache keyed that way serves the map of the first mesh for the
data of the second (`coarse_cache_serves_a_stale_map`: seeds C03_P, C20_P).
-/
import EasyFEAVerif.Props.C03

namespace EasyFEAVerif.Props.C03Key

open EasyFEAVerif.Props.C03

/-- what a key by element types and sizes retains of a key by group objects -/
def coarse (k : Key) : Nat × Bool × Nat × List (Nat × List Nat) :=
  (k.dofN, k.isMatrix, k.ndof, k.groups.map fun g => (g.length, g.map List.length))

/-- one triangle on the nodes 0 1 2, and the same triangle after a renumbering of the nodes -/
def k₁ : Key := { dofN := 1, isMatrix := true, ndof := 3, groups := [[[0, 1, 2]]] }
def k₂ : Key := { dofN := 1, isMatrix := true, ndof := 3, groups := [[[2, 0, 1]]] }

/-- same element type, same number of elements, same `Ndof`: the coarse keys coincide, the reduction maps do not -/
theorem coarse_key_collides : coarse k₁ = coarse k₂ ∧ compute k₁ ≠ compute k₂ := by decide

/-- a cache looked up by the coarse key -/
def coarseGet (c : List (Key × (Nat × List Nat × List Nat))) (k : Key) : Nat × List Nat × List Nat :=
  match c.find? (fun kv => coarse kv.1 = coarse k) with
  | some kv => kv.2
  | none => compute k

/-- … so after an assembly on the first mesh, the assembly on the second is handed the map of the first -/
theorem coarse_cache_serves_a_stale_map : coarseGet [(k₁, compute k₁)] k₂ ≠ compute k₂ := by decide

/-- the key by group objects tells them apart -/
example : k₁ ≠ k₂ := by decide

end EasyFEAVerif.Props.C03Key
