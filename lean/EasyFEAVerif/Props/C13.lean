/-
Property C13 — user-written weak forms assemble the same matrices as the built-in operators.

What a form is evaluated on is read from the source (`Gen/C13/Forms.lean`, statement-level tie): for the active
(node, dof) a field is the basis function `φ = N_node e_dof`, its gradient has the single non-zero column
`∂N_node` at `dof`, `Integrate_e` loops over ALL pairs of dofs and stores `data[i, j] = Σ_p wJ_p form(φ_i, φ_j)_p`,
`Assemble` scatters with `Get_rows_e / Get_columns_e` (C03). For every element type, every quadrature:
  * `u·v` gives the entries of `UV`, `∇u·∇v` those of `GradUGradV` (and `∇u·A∇v` those of `GradU_A_GradV`);
  * the Kelvin–Mandel strain of a basis function is the corresponding column of the `B` matrix of the code
    (layout read from the source in C01), and the Kelvin–Mandel vector is an isometry (`ε:ε' = k(ε)·k(ε')`);
    so the form `λ tr ε(u) tr ε(v) + 2μ ε(u):ε(v)` has exactly the entries of `LinearizedElasticity` with the
    isotropic law, in 2D and 3D;
  * a linear form `f·v` gives the entries of `Linear.V`;
  * the matrix represents the form: `Σ_ij U_i data[i,j] V_j = Σ_p wJ_p form(u_h, v_h)` for any bilinear integrand.
-/
import EasyFEAVerif.Model.Patch
import EasyFEAVerif.Gen.C13.Forms
import EasyFEAVerif.Props.C01
import Mathlib.Tactic.Ring
import Mathlib.Tactic.LinearCombination
import Mathlib.Tactic.FieldSimp
import Mathlib.Tactic.NormNum
import Mathlib.Analysis.Real.Sqrt

set_option linter.unusedSectionVars false
set_option linter.unusedSimpArgs false

namespace EasyFEAVerif.Props.C13

open Matrix Finset EasyFEAVerif.Patch EasyFEAVerif.Gen

theorem forms_spec : (C13.forms.map Prod.fst) =
    ["BiLinearForm.Integrate_e", "BiLinearForm.Assemble", "LinearForm.Integrate_e", "LinearForm.Assemble",
     "Field.__call__", "Field.grad", "Sym_Grad", "WeakForms.Construct_local_matrix_system"] := rfl

section basis
variable {K : Type*} [Field K] {d c : ℕ} {Nd P : Type*} [Fintype Nd] [Fintype P]

/-- `Field.__call__` at one Gauss point: the basis function `N_node e_dof` -/
def phi (N : Nd → K) (node : Nd) (dof : Fin c) : Fin c → K := fun k => if k = dof then N node else 0

/-- `Field.grad` at one Gauss point: `grad[axis, comp] = ∂_axis N_node` if `comp = dof`, else 0 -/
def gradPhi (dN : Matrix (Fin d) Nd K) (node : Nd) (dof : Fin c) : Matrix (Fin d) (Fin c) K :=
  fun k c' => if c' = dof then dN k node else 0

/-- `BiLinearForm.Integrate_e`: entry of the element array for the dof pair `(i, j)` -/
def integrate (w : P → K) (f : P → K) : K := ∑ p, w p * f p

/-- `u.dot(v)` on basis functions: the entries of `UV` (`wJ Nᵀ N` with the block-diagonal `N`) -/
theorem uv_entry (N : Nd → K) (a b : Nd) (da db : Fin c) :
    ∑ k, phi N a da k * phi N b db k = if da = db then N a * N b else 0 := by
  unfold phi
  by_cases h : da = db
  · subst h; simp [Finset.sum_ite_eq', ← ite_and, mul_ite, ite_mul]
  · simp only [h, if_false]
    refine sum_eq_zero fun k _ => ?_
    by_cases hk : k = da
    · have : k ≠ db := fun h' => h (hk ▸ h')
      simp [this]
    · simp [hk]

/-- `u.grad.ddot(v.grad)` (or `.dot` for scalar fields) on basis functions: the entries of `GradUGradV` -/
theorem gradgrad_entry (dN : Matrix (Fin d) Nd K) (a b : Nd) (da db : Fin c) :
    ∑ k, ∑ c', gradPhi dN a da k c' * gradPhi dN b db k c' = if da = db then ∑ k, dN k a * dN k b else 0 := by
  unfold gradPhi
  by_cases h : da = db
  · subst h
    simp only [if_true]
    refine sum_congr rfl fun k _ => ?_
    simp [← ite_and, mul_ite, ite_mul, Finset.sum_ite_eq']
  · simp only [h, if_false]
    refine sum_eq_zero fun k _ => sum_eq_zero fun c' _ => ?_
    by_cases hk : c' = da
    · have : c' ≠ db := fun h' => h (hk ▸ h')
      simp [this]
    · simp [hk]

/-- `∇u · A ∇v` for a scalar field: the entries of `GradU_A_GradV` -/
theorem grad_A_grad_entry (dN : Matrix (Fin d) Nd K) (A : Matrix (Fin d) (Fin d) K) (a b : Nd) :
    ∑ k, gradPhi dN a (0 : Fin 1) k 0 * ∑ l, A k l * gradPhi dN b (0 : Fin 1) l 0 = ∑ k, ∑ l, dN k a * A k l * dN l b := by
  unfold gradPhi
  refine sum_congr rfl fun k _ => ?_
  simp only [if_true, mul_sum]
  exact sum_congr rfl fun l _ => by ring

/-- a linear form `f · v` on a basis function: the entries of `Linear.V` -/
theorem source_entry (N : Nd → K) (a : Nd) (da : Fin c) (f : Fin c → K) :
    ∑ k, f k * phi N a da k = f da * N a := by
  unfold phi
  simp [mul_ite, Finset.sum_ite_eq']

/-- **the strain of a basis function is a column of `B`** (layout of `Get_B_e_pg`, C01) -/
theorem strain_of_basis_is_B_column (layout : List (Entry d)) (s : K) (dN : Matrix (Fin d) Nd K) (a : Nd) (da : Fin d) (r : Nat) :
    strainOf layout s (gradPhi dN a da) r = Bentry layout s dN r a da := by
  unfold strainOf Bentry gradPhi
  induction layout with
  | nil => simp
  | cons e l ih =>
    by_cases hr : e.1 = r
    · by_cases hc : e.2.1 = da
      · rw [List.filter_cons_of_pos (by simpa using hr), List.filter_cons_of_pos (by simp [hr, hc]),
          List.map_cons, List.map_cons, List.sum_cons, List.sum_cons, ih]
        simp [hc]
      · rw [List.filter_cons_of_pos (by simpa using hr), List.filter_cons_of_neg (by simp [hr, hc]),
          List.map_cons, List.sum_cons, ih]
        simp [hc]
    · rw [List.filter_cons_of_neg (by simpa using hr), List.filter_cons_of_neg (by simp [hr]), ih]

/-- the matrix represents the form: for an integrand bilinear in the nodal values,
`Σ_ij U_i data[i,j] V_j = Σ_p wJ_p form(Σ U_i φ_i, Σ V_j φ_j)` -/
theorem matrix_represents_form {ι : Type*} [Fintype ι] (w : P → K) (form : P → ι → ι → K) (U V : ι → K) :
    ∑ i, U i * ∑ j, integrate w (fun p => form p i j) * V j = integrate w fun p => ∑ i, ∑ j, U i * form p i j * V j := by
  unfold integrate
  calc ∑ i, U i * ∑ j, (∑ p, w p * form p i j) * V j
      = ∑ i, ∑ j, ∑ p, w p * (U i * form p i j * V j) := by
        refine sum_congr rfl fun i _ => ?_
        rw [mul_sum]
        refine sum_congr rfl fun j _ => ?_
        rw [sum_mul, mul_sum]
        exact sum_congr rfl fun p _ => by ring
    _ = ∑ i, ∑ p, ∑ j, w p * (U i * form p i j * V j) := sum_congr rfl fun i _ => sum_comm
    _ = ∑ p, ∑ i, ∑ j, w p * (U i * form p i j * V j) := sum_comm
    _ = ∑ p, w p * ∑ i, ∑ j, U i * form p i j * V j := by
        refine sum_congr rfl fun p _ => ?_
        rw [mul_sum]
        exact sum_congr rfl fun i _ => by rw [mul_sum]

end basis

/-! ### elasticity written by the user vs `LinearizedElasticity` -/

section elasticity
variable {K : Type*} [Field K]

/-- `Sym_Grad`: `ε = ½ (g + gᵀ)` -/
def symm {n : ℕ} (g : Matrix (Fin n) (Fin n) K) : Matrix (Fin n) (Fin n) K := (1 / 2 : K) • (g + gᵀ)

/-- the user's isotropic form `λ tr ε tr ε' + 2μ ε:ε'` on two displacement gradients -/
def isoForm {n : ℕ} (lam mu : K) (g g' : Matrix (Fin n) (Fin n) K) : K :=
  lam * (∑ i, symm g i i) * (∑ i, symm g' i i) + 2 * mu * ∑ i, ∑ j, symm g i j * symm g' i j

/-- **the Kelvin–Mandel vector is an isometry** (2D): `k(ε)·k(ε') = ε:ε'` with `s = 1/√2` -/
theorem kelvin_inner_2D (s : K) (hs : 2 * (s * s) = 1) (g g' : Matrix (Fin 2) (Fin 2) K) :
    ∑ r ∈ range 3, strainOf (typed 2 C01.layout2) s g r * strainOf (typed 2 C01.layout2) s g' r
      = ∑ i, ∑ j, symm g i j * symm g' i j := by
  obtain ⟨a0, a1, a2⟩ := C01.strain2D s g
  obtain ⟨b0, b1, b2⟩ := C01.strain2D s g'
  have h2 : (2 : K) ≠ 0 := fun h => by rw [h, zero_mul] at hs; exact zero_ne_one hs
  simp only [sum_range_succ, sum_range_zero, zero_add, a0, a1, a2, b0, b1, b2, Fin.sum_univ_two, symm,
    Matrix.smul_apply, Matrix.add_apply, Matrix.transpose_apply, smul_eq_mul]
  field_simp
  linear_combination ((g 1 0 + g 0 1) * (g' 1 0 + g' 0 1) * 2) * hs

theorem kelvin_inner_3D (s : K) (hs : 2 * (s * s) = 1) (g g' : Matrix (Fin 3) (Fin 3) K) :
    ∑ r ∈ range 6, strainOf (typed 3 C01.layout3) s g r * strainOf (typed 3 C01.layout3) s g' r
      = ∑ i, ∑ j, symm g i j * symm g' i j := by
  obtain ⟨a0, a1, a2, a3, a4, a5⟩ := C01.strain3D s g
  obtain ⟨b0, b1, b2, b3, b4, b5⟩ := C01.strain3D s g'
  have h2 : (2 : K) ≠ 0 := fun h => by rw [h, zero_mul] at hs; exact zero_ne_one hs
  simp only [sum_range_succ, sum_range_zero, zero_add, a0, a1, a2, a3, a4, a5, b0, b1, b2, b3, b4, b5,
    Fin.sum_univ_three, symm, Matrix.smul_apply, Matrix.add_apply, Matrix.transpose_apply, smul_eq_mul]
  field_simp
  linear_combination ((g 2 1 + g 1 2) * (g' 2 1 + g' 1 2) * 2 + (g 2 0 + g 0 2) * (g' 2 0 + g' 0 2) * 2
    + (g 1 0 + g 0 1) * (g' 1 0 + g' 0 1) * 2) * hs

/-- the isotropic law in Kelvin–Mandel form, 2D (plane strain): `C = λ m mᵀ + 2μ I`, `m = (1, 1, 0)` -/
def Ciso2 (lam mu : K) (r t : ℕ) : K := (if r < 2 ∧ t < 2 then lam else 0) + (if r = t then 2 * mu else 0)
def Ciso3 (lam mu : K) (r t : ℕ) : K := (if r < 3 ∧ t < 3 then lam else 0) + (if r = t then 2 * mu else 0)

/-- **the user's isotropic form is the `B^T C B` form** (2D): for any two displacement gradients -/
theorem iso_form_eq_kelvin_form_2D (s : K) (hs : 2 * (s * s) = 1) (lam mu : K) (g g' : Matrix (Fin 2) (Fin 2) K) :
    isoForm lam mu g g' = ∑ r ∈ range 3, ∑ t ∈ range 3,
      strainOf (typed 2 C01.layout2) s g r * Ciso2 lam mu r t * strainOf (typed 2 C01.layout2) s g' t := by
  have hk := kelvin_inner_2D s hs g g'
  obtain ⟨a0, a1, a2⟩ := C01.strain2D s g
  obtain ⟨b0, b1, b2⟩ := C01.strain2D s g'
  unfold isoForm
  rw [← hk]
  have h2 : (2 : K) ≠ 0 := fun h => by rw [h, zero_mul] at hs; exact zero_ne_one hs
  simp only [sum_range_succ, sum_range_zero, zero_add, a0, a1, a2, b0, b1, b2, Fin.sum_univ_two, symm, Ciso2,
    Matrix.smul_apply, Matrix.add_apply, Matrix.transpose_apply, smul_eq_mul]
  norm_num
  field_simp
  ring

theorem iso_form_eq_kelvin_form_3D (s : K) (hs : 2 * (s * s) = 1) (lam mu : K) (g g' : Matrix (Fin 3) (Fin 3) K) :
    isoForm lam mu g g' = ∑ r ∈ range 6, ∑ t ∈ range 6,
      strainOf (typed 3 C01.layout3) s g r * Ciso3 lam mu r t * strainOf (typed 3 C01.layout3) s g' t := by
  have hk := kelvin_inner_3D s hs g g'
  obtain ⟨a0, a1, a2, a3, a4, a5⟩ := C01.strain3D s g
  obtain ⟨b0, b1, b2, b3, b4, b5⟩ := C01.strain3D s g'
  unfold isoForm
  rw [← hk]
  have h2 : (2 : K) ≠ 0 := fun h => by rw [h, zero_mul] at hs; exact zero_ne_one hs
  simp only [sum_range_succ, sum_range_zero, zero_add, a0, a1, a2, a3, a4, a5, b0, b1, b2, b3, b4, b5,
    Fin.sum_univ_three, symm, Ciso3, Matrix.smul_apply, Matrix.add_apply, Matrix.transpose_apply, smul_eq_mul]
  norm_num
  field_simp
  ring

/-- **entries of the user's elasticity matrix = entries of `LinearizedElasticity`** (2D): for the basis functions
`(a, da)`, `(b, db)` at one Gauss point, `form(φ_a, φ_b) = Σ_rt B[r,(a,da)] C[r,t] B[t,(b,db)]` -/
theorem elastic_entry_2D {Nd : Type*} [Fintype Nd] (s : K) (hs : 2 * (s * s) = 1) (lam mu : K)
    (dN : Matrix (Fin 2) Nd K) (a b : Nd) (da db : Fin 2) :
    isoForm lam mu (gradPhi dN a da) (gradPhi dN b db)
      = ∑ r ∈ range 3, ∑ t ∈ range 3, Bentry (typed 2 C01.layout2) s dN r a da * Ciso2 lam mu r t
          * Bentry (typed 2 C01.layout2) s dN t b db := by
  rw [iso_form_eq_kelvin_form_2D s hs]
  simp only [strain_of_basis_is_B_column]

theorem elastic_entry_3D {Nd : Type*} [Fintype Nd] (s : K) (hs : 2 * (s * s) = 1) (lam mu : K)
    (dN : Matrix (Fin 3) Nd K) (a b : Nd) (da db : Fin 3) :
    isoForm lam mu (gradPhi dN a da) (gradPhi dN b db)
      = ∑ r ∈ range 6, ∑ t ∈ range 6, Bentry (typed 3 C01.layout3) s dN r a da * Ciso3 lam mu r t
          * Bentry (typed 3 C01.layout3) s dN t b db := by
  rw [iso_form_eq_kelvin_form_3D s hs]
  simp only [strain_of_basis_is_B_column]

end elasticity

/-! ### non-vacuity -/
example : (2 : ℝ) * ((Real.sqrt 2)⁻¹ * (Real.sqrt 2)⁻¹) = 1 := by
  rw [← mul_inv, Real.mul_self_sqrt (by norm_num)]; norm_num

end EasyFEAVerif.Props.C13
