/-
Property C19: the isotropic hardening laws of `Models/InElastic/IsotropicHardening.py` (`Linear`, `Voce`, `Swift`) as
real functions — the three lambdas of each constructor `(ψ_h, R, R')` are pinned against the source
(`Gen/C19/Forms.lean`: `hardeningForms`) and transcribed below. Proved under exactly the ranges the constructors assert:
  * `R` is the derivative of the stored hardening energy `ψ_h` and the tabulated slope `R'` the derivative of `R`
    (`HasDerivAt` at every `p ≥ 0`) — the slope is what the local Newton solvers and the algorithmic tangent use;
  * `R(0) = 0` (the initial yield stress belongs to the surface), and `R` is non-decreasing on `p ≥ 0`
    (`C19General.MonoNN`), which is the hypothesis under which the scalar return has a unique solution
    (`Props/C19General.lean`: `step_unique`, `root_unique`).
-/
import EasyFEAVerif.Props.C19General
import Mathlib.Analysis.SpecialFunctions.Pow.Deriv
import Mathlib.Analysis.SpecialFunctions.ExpDeriv
import Mathlib.Analysis.Calculus.Deriv.Pow

namespace EasyFEAVerif.Props.C19Hardening

open Real EasyFEAVerif.Props.C19General

theorem hardeningForms_spec : (EasyFEAVerif.Gen.C19.hardeningForms.map Prod.fst) = ["Linear", "Voce", "Swift"] := rfl

/-! ### Linear: `lambda p: 0.5 * H * p ** 2`, `lambda p: H * p`, `lambda p: H * (p * 0 + 1.0)` -/
section linear
variable (H : ℝ)
def linPsi (p : ℝ) : ℝ := 0.5 * H * p ^ 2
def linR (p : ℝ) : ℝ := H * p
def linDR (p : ℝ) : ℝ := H * (p * 0 + 1.0)

theorem linear_R_is_derivative (p : ℝ) : HasDerivAt (linPsi H) (linR H p) p := by
  have h := ((hasDerivAt_pow 2 p).const_mul (0.5 * H))
  refine h.congr_deriv ?_
  unfold linR; ring

theorem linear_slope_is_derivative (p : ℝ) : HasDerivAt (linR H) (linDR H p) p := by
  have h := (hasDerivAt_id p).const_mul H
  refine h.congr_deriv ?_
  unfold linDR; norm_num

theorem linear_R_zero : linR H 0 = 0 := by simp [linR]

theorem linear_mono (hH : 0 ≤ H) : MonoNN (linR H) := fun a b _ hab => by
  unfold linR; exact mul_le_mul_of_nonneg_left hab hH
end linear

/-! ### Voce: `Q * (p + np.exp(-b * p) / b - 1 / b)`, `Q * (1 - np.exp(-b * p))`, `Q * b * np.exp(-b * p)` -/
section voce
variable (Q b : ℝ)
noncomputable def vocePsi (p : ℝ) : ℝ := Q * (p + exp (-b * p) / b - 1 / b)
noncomputable def voceR (p : ℝ) : ℝ := Q * (1 - exp (-b * p))
noncomputable def voceDR (p : ℝ) : ℝ := Q * b * exp (-b * p)

theorem hasDerivAt_exp_neg (p : ℝ) : HasDerivAt (fun p => exp (-b * p)) (exp (-b * p) * -b) p := by
  have h1 : HasDerivAt (fun p : ℝ => -b * p) (-b) p := by
    simpa using (hasDerivAt_id p).const_mul (-b)
  exact (Real.hasDerivAt_exp (-b * p)).comp p h1

theorem voce_R_is_derivative (hb : b ≠ 0) (p : ℝ) : HasDerivAt (vocePsi Q b) (voceR Q b p) p := by
  have h := (((hasDerivAt_id p).add ((hasDerivAt_exp_neg b p).div_const b)).sub_const (1 / b)).const_mul Q
  refine h.congr_deriv ?_
  unfold voceR
  field_simp
  ring

theorem voce_slope_is_derivative (p : ℝ) : HasDerivAt (voceR Q b) (voceDR Q b p) p := by
  have h := ((hasDerivAt_exp_neg b p).const_sub 1).const_mul Q
  refine h.congr_deriv ?_
  unfold voceDR; ring

theorem voce_R_zero : voceR Q b 0 = 0 := by simp [voceR]

/-- under the constructor's assertion `Q ≥ 0 and b > 0` -/
theorem voce_mono (hQ : 0 ≤ Q) (hb : 0 < b) : MonoNN (voceR Q b) := fun x y _ hxy => by
  unfold voceR
  apply mul_le_mul_of_nonneg_left _ hQ
  have : exp (-b * y) ≤ exp (-b * x) := exp_le_exp.mpr (by nlinarith)
  linarith

/-- the slope is non-negative and the law saturates: `R ≤ Q` -/
theorem voce_saturates (hQ : 0 ≤ Q) (p : ℝ) : voceR Q b p ≤ Q := by
  unfold voceR
  have := exp_pos (-b * p)
  nlinarith
end voce

/-! ### Swift: `K * ((eps0 + p) ** (n + 1) - eps0 ** (n + 1)) / (n + 1) - K * eps0 ** n * p`,
`K * ((eps0 + p) ** n - eps0 ** n)`, `K * n * (eps0 + p) ** (n - 1)` -/
section swift
variable (K n e0 : ℝ)
noncomputable def swiftPsi (p : ℝ) : ℝ := K * ((e0 + p) ^ (n + 1) - e0 ^ (n + 1)) / (n + 1) - K * e0 ^ n * p
noncomputable def swiftR (p : ℝ) : ℝ := K * ((e0 + p) ^ n - e0 ^ n)
noncomputable def swiftDR (p : ℝ) : ℝ := K * n * (e0 + p) ^ (n - 1)

theorem hasDerivAt_shift_rpow (m : ℝ) {p : ℝ} (hp : e0 + p ≠ 0) :
    HasDerivAt (fun p => (e0 + p) ^ m) (m * (e0 + p) ^ (m - 1)) p := by
  have h1 : HasDerivAt (fun p : ℝ => e0 + p) 1 p := by
    simpa using (hasDerivAt_id p).const_add e0
  have h := h1.rpow_const (p := m) (Or.inl hp)
  refine h.congr_deriv ?_
  ring

theorem swift_R_is_derivative (hn : n + 1 ≠ 0) {p : ℝ} (hp : 0 < e0 + p) :
    HasDerivAt (swiftPsi K n e0) (swiftR K n e0 p) p := by
  have h1 := hasDerivAt_shift_rpow e0 (n + 1) hp.ne'
  have h := ((((h1.sub_const (e0 ^ (n + 1))).const_mul K).div_const (n + 1))).sub
    ((hasDerivAt_id p).const_mul (K * e0 ^ n))
  refine h.congr_deriv ?_
  unfold swiftR
  simp only [add_sub_cancel_right, mul_one]
  field_simp

theorem swift_slope_is_derivative {p : ℝ} (hp : 0 < e0 + p) : HasDerivAt (swiftR K n e0) (swiftDR K n e0 p) p := by
  have h := ((hasDerivAt_shift_rpow e0 n hp.ne').sub_const (e0 ^ n)).const_mul K
  refine h.congr_deriv ?_
  unfold swiftDR; ring

theorem swift_R_zero : swiftR K n e0 0 = 0 := by simp [swiftR]

/-- under the constructor's assertion `K > 0 and 0 < n < 1 and eps0 > 0` -/
theorem swift_mono (hK : 0 < K) (hn : 0 < n) (he : 0 < e0) : MonoNN (swiftR K n e0) := fun x y hx hxy => by
  unfold swiftR
  apply mul_le_mul_of_nonneg_left _ hK.le
  have : (e0 + x) ^ n ≤ (e0 + y) ^ n := rpow_le_rpow (by linarith) (by linarith) hn.le
  linarith
end swift

/-- **the return is unique for every hardening law of the library**: instantiation of `step_unique` -/
theorem step_unique_voce (Q b : ℝ) (hQ : 0 ≤ Q) (hb : 0 < b) (mu sy qtr p : ℝ) (hmu : 0 < mu) (hp : 0 ≤ p) {x y : ℝ}
    (hx : IsStep ⟨mu, sy, qtr, p, voceR Q b, fun _ => 0⟩ x) (hy : IsStep ⟨mu, sy, qtr, p, voceR Q b, fun _ => 0⟩ y) :
    x = y :=
  step_unique _ hmu hp (voce_mono Q b hQ hb) (fun _ _ _ _ => le_refl _) hx hy

theorem step_unique_swift (K n e0 : ℝ) (hK : 0 < K) (hn : 0 < n) (he : 0 < e0) (mu sy qtr p : ℝ) (hmu : 0 < mu)
    (hp : 0 ≤ p) {x y : ℝ}
    (hx : IsStep ⟨mu, sy, qtr, p, swiftR K n e0, fun _ => 0⟩ x) (hy : IsStep ⟨mu, sy, qtr, p, swiftR K n e0, fun _ => 0⟩ y) :
    x = y :=
  step_unique _ hmu hp (swift_mono K n e0 hK hn he) (fun _ _ _ _ => le_refl _) hx hy

end EasyFEAVerif.Props.C19Hardening
