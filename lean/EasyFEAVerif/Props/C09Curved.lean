/-
Property C09 (also C02, C07, C08): the measure of a curved element embedded in a higher-dimensional space.

`_GroupElem.Get_jacobian_e_pg` (EasyFEA/FEM/_group_elem.py), for a group with `dim != inDim`, used the determinant of the
coordinates PROJECTED on the element's own axis (a line in the plane or in space) or plane (a surface in space). For a line
with tangent `t = dx/dξ` and unit chord direction `i` that is `t · i`; the length element of the curve is `|t|`. Proved here, for
all vectors of ℝ³:
  * `lagrange`: `|t|² |i|² − (t·i)² = |t × i|²`;
  * `projected_le`: `(t·i)² ≤ t·t` for a unit `i` — the projection never over-measures;
  * `projected_eq_iff`: equality exactly when the tangent is parallel to the chord — so the code before fix 8f7dd87 under-measured
    EVERY Gauss point of a genuinely curved element (`projected_lt_of_not_parallel`), which is why a disc meshed with TRI6 had the
    boundary length of its chords (and, for surfaces, a warped 4-node quadrangle the area of its projection: fix 93b2b16);
  * `metric_line`: the measure used since the fix, `√det(T Tᵀ)` with `T` the 1 × 3 matrix of the tangent, is `|t|`;
  * surfaces: `gram_det_eq_cross` — `det(T Tᵀ) = |t₁ × t₂|²` for the 2 × 3 matrix of two tangents, the squared area element;
    `projected_area_le`: the determinant of the tangents projected on ANY orthonormal pair `(i, j)` of the element's plane,
    `(t₁·i)(t₂·j) − (t₁·j)(t₂·i)`, is the component of `t₁ × t₂` along `i × j` and its square is at most `|t₁ × t₂|²`.
The statements of `Get_jacobian_e_pg` that the model reads are pinned in `Gen/C09/Jacobian.lean` (`jacobianForms_spec`).
-/
import Mathlib.LinearAlgebra.CrossProduct
import Mathlib.Tactic.Ring
import Mathlib.Tactic.Linarith
import Mathlib.Tactic.LinearCombination
import Mathlib.Tactic.FinCases
import Mathlib.Algebra.Order.Field.Basic
import Mathlib.Data.Real.Basic
import EasyFEAVerif.Gen.C09.Jacobian

namespace EasyFEAVerif.Props.C09Curved

open Matrix

abbrev V := Fin 3 → ℝ

/-- the statements of the source that the model reads (the generator refuses anything else) -/
theorem jacobianForms_spec : (EasyFEAVerif.Gen.C09.jacobianForms.map Prod.fst) = ["Get_jacobian_e_pg", "Get_weightedJacobian_e_pg"] := rfl

/-- Lagrange's identity -/
theorem lagrange (t i : V) : (t ⬝ᵥ t) * (i ⬝ᵥ i) - (t ⬝ᵥ i) ^ 2 = (t ⨯₃ i) ⬝ᵥ (t ⨯₃ i) := by
  rw [cross_dot_cross]; rw [dotProduct_comm i t]; ring

theorem dot_self_nonneg (v : V) : 0 ≤ v ⬝ᵥ v := by
  simp only [dotProduct, Fin.sum_univ_three]
  nlinarith [mul_self_nonneg (v 0), mul_self_nonneg (v 1), mul_self_nonneg (v 2)]

theorem dot_self_eq_zero {v : V} (h : v ⬝ᵥ v = 0) : v = 0 := by
  simp only [dotProduct, Fin.sum_univ_three] at h
  have h0 : v 0 = 0 := by nlinarith [mul_self_nonneg (v 0), mul_self_nonneg (v 1), mul_self_nonneg (v 2)]
  have h1 : v 1 = 0 := by nlinarith [mul_self_nonneg (v 0), mul_self_nonneg (v 1), mul_self_nonneg (v 2)]
  have h2 : v 2 = 0 := by nlinarith [mul_self_nonneg (v 0), mul_self_nonneg (v 1), mul_self_nonneg (v 2)]
  ext k; fin_cases k <;> simp [h0, h1, h2]

/-- the projected length element never exceeds the length element -/
theorem projected_le (t i : V) (hi : i ⬝ᵥ i = 1) : (t ⬝ᵥ i) ^ 2 ≤ t ⬝ᵥ t := by
  have h := lagrange t i
  rw [hi, mul_one] at h
  have := dot_self_nonneg (t ⨯₃ i)
  linarith

/-- … with equality exactly when the tangent is parallel to the chord -/
theorem projected_eq_iff (t i : V) (hi : i ⬝ᵥ i = 1) : (t ⬝ᵥ i) ^ 2 = t ⬝ᵥ t ↔ t ⨯₃ i = 0 := by
  have h := lagrange t i
  rw [hi, mul_one] at h
  constructor
  · intro he
    apply dot_self_eq_zero
    linarith
  · intro hc
    rw [hc] at h
    simp at h
    linarith

/-- a genuinely curved element is under-measured at every point where its tangent leaves the chord (code before fix 8f7dd87) -/
theorem projected_lt_of_not_parallel (t i : V) (hi : i ⬝ᵥ i = 1) (hc : t ⨯₃ i ≠ 0) : (t ⬝ᵥ i) ^ 2 < t ⬝ᵥ t :=
  lt_of_le_of_ne (projected_le t i hi) (fun he => hc ((projected_eq_iff t i hi).mp he))

/-- the entries of `T Tᵀ` are the dot products of the rows of `T` (the tangent vectors) -/
theorem gram_entry {n : ℕ} (T : Matrix (Fin n) (Fin 3) ℝ) (a b : Fin n) : (T * Tᵀ) a b = T a ⬝ᵥ T b := rfl

/-- the Gram determinant of one tangent (1 × 3 matrix `T`): `det(T Tᵀ) = t·t`, the squared length element -/
theorem metric_line (T : Matrix (Fin 1) (Fin 3) ℝ) : (T * Tᵀ).det = T 0 ⬝ᵥ T 0 := by
  rw [Matrix.det_fin_one, gram_entry]

/-- the Gram determinant of two tangents (2 × 3 matrix `T`): `det(T Tᵀ) = |t₁ × t₂|²`, the squared area element -/
theorem gram_det_eq_cross (T : Matrix (Fin 2) (Fin 3) ℝ) : (T * Tᵀ).det = (T 0 ⨯₃ T 1) ⬝ᵥ (T 0 ⨯₃ T 1) := by
  rw [Matrix.det_fin_two, gram_entry, gram_entry, gram_entry, gram_entry, cross_dot_cross]

/-- the determinant of the tangents projected on the pair `(i, j)` is the component of `t₁ × t₂` along `i × j` -/
theorem projected_area (t₁ t₂ i j : V) :
    (t₁ ⬝ᵥ i) * (t₂ ⬝ᵥ j) - (t₁ ⬝ᵥ j) * (t₂ ⬝ᵥ i) = (t₁ ⨯₃ t₂) ⬝ᵥ (i ⨯₃ j) := by
  rw [cross_dot_cross]

/-- … so the projected area element never exceeds the area element, for any orthonormal pair spanning the element's plane -/
theorem projected_area_le (t₁ t₂ i j : V) (hi : i ⬝ᵥ i = 1) (hj : j ⬝ᵥ j = 1) (hij : i ⬝ᵥ j = 0) :
    ((t₁ ⬝ᵥ i) * (t₂ ⬝ᵥ j) - (t₁ ⬝ᵥ j) * (t₂ ⬝ᵥ i)) ^ 2 ≤ (t₁ ⨯₃ t₂) ⬝ᵥ (t₁ ⨯₃ t₂) := by
  rw [projected_area]
  have hn : (i ⨯₃ j) ⬝ᵥ (i ⨯₃ j) = 1 := by
    rw [cross_dot_cross, hi, hj, hij, dotProduct_comm j i, hij]; ring
  exact projected_le (t₁ ⨯₃ t₂) (i ⨯₃ j) hn

/-- non-vacuity: the tangent of a quadratic arc at an end point, against its chord -/
example : ((![1, 1, 0] : V) ⬝ᵥ ![1, 0, 0]) ^ 2 < (![1, 1, 0] : V) ⬝ᵥ ![1, 1, 0] := by
  simp [dotProduct, Fin.sum_univ_three]

end EasyFEAVerif.Props.C09Curved
