/-
Property C10 — frame indifference under reflections, for loads that depend on the boundary normals (`add_pressureLoad`).
`Props.C10.solution_moves`: if the load of the moved problem is the moved load, the solution is the moved solution.
`Mesh.Symmetry` keeps the connectivity, so every element is turned inside out and the normals the library computes from the
element orientation are MINUS the moved normals (`Props.C08.inward_mirrored`): the pressure load of the mirrored problem is
minus the moved load. This file proves the consequence for the linear problem: with clamped supports the solution of the
mirrored problem is minus the moved solution — exactly what the C10 harness finds (relative difference 2.0, same energy;
known finding "... load=pressure after an odd number of reflections"). With an even number of reflections the two signs
cancel (`even_number_of_flips`).
Tie: same hand model as Props/C10 (`solution_moves`) + the C10 harness (sequences of movers with pressure loads).
-/
import EasyFEAVerif.Props.C10

namespace EasyFEAVerif.Props.C10

open Finset

section pressure
variable {K : Type*} [Field K] {ι : Type*} [Fintype ι] [DecidableEq ι]

omit [DecidableEq ι] in
theorem mulRow_neg (A : ι → ι → K) (x : ι → K) (i : ι) : C04.mulRow A (fun k => - x k) i = - C04.mulRow A x i := by
  simp [C04.mulRow, Finset.sum_neg_distrib]

/-- **the load flips, the solution flips**: same hypotheses as `solution_moves`, but on the free rows the load of the moved
problem is MINUS the moved load (pressure on a mirrored mesh), the map `Rm` commutes with the sign, and the supports are
clamped (the prescribed values, zero, are their own opposites). -/
theorem solution_flips_with_the_load (known : ι → Prop) (A A' : ι → ι → K) (b b' x x' : ι → K) (Rm : (ι → K) → (ι → K))
    (hA : ∀ y i, ¬ known i → C04.mulRow A' (Rm y) i = Rm (fun k => C04.mulRow A y k) i)
    (hb : ∀ i, ¬ known i → b' i = - Rm b i)
    (hneg : ∀ y : ι → K, Rm (fun k => - y k) = fun k => - Rm y k)
    (hfree : ∀ y z : ι → K, (∀ i, ¬ known i → y i = z i) → ∀ i, ¬ known i → Rm y i = Rm z i)
    (hx : ∀ i, ¬ known i → C04.mulRow A x i = b i)
    (hinj : C04.ReducedInjective known A')
    (hc : ∀ j, known j → x' j = - Rm x j)
    (hx' : ∀ i, ¬ known i → C04.mulRow A' x' i = b' i) :
    x' = fun i => - Rm x i := by
  have h := solution_moves known A A' (fun k => - b k) b' (fun k => - x k) x' Rm hA
    (fun i hi => by rw [hb i hi, hneg b]) hfree
    (fun i hi => by rw [mulRow_neg, hx i hi]) hinj
    (fun j hj => by rw [hc j hj, hneg x]) hx'
  rw [h, hneg x]

/-- the sign of the computed normals after `n` reflections that keep the connectivity: (−1)ⁿ; an even number restores the
moved load, an odd number gives its opposite -/
theorem even_number_of_flips (n : ℕ) : ((-1 : K)) ^ (2 * n) = 1 ∧ ((-1 : K)) ^ (2 * n + 1) = -1 := by
  constructor
  · rw [pow_mul]; simp
  · rw [pow_succ, pow_mul]; simp

end pressure

end EasyFEAVerif.Props.C10
