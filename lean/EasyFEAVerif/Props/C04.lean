/-
Property C04 — constraints hold exactly and the returned solution solves the stated
system.  Linear algebra over an arbitrary field, any number of dofs (index type ι).
The glue (dof lookup, duplicate-summing Dirichlet vector, known/unknown split, bordered
Lagrange system, orphan diagonal) is the executable model `Model/Constraints.lean`,
compared with the real solver paths on every run.
The linear-solver backends are ASSUMED to return an exact solution of the system they
are handed; the harness measures their residual.
-/
import EasyFEAVerif.Gen.C04.Solver
import Mathlib.Algebra.Order.BigOperators.Ring.Finset
import Mathlib.Data.Real.Basic
import Mathlib.Tactic.Linarith
import Mathlib.Tactic.NormNum
import EasyFEAVerif.Model.Constraints
import Mathlib.Algebra.BigOperators.Group.Finset.Basic
import Mathlib.Algebra.BigOperators.Ring.Finset
import Mathlib.Algebra.Field.Basic
import Mathlib.Data.Fintype.BigOperators
import Mathlib.Tactic.Ring
import Mathlib.Tactic.Linarith
import Mathlib.Tactic.FieldSimp

namespace EasyFEAVerif.Props.C04
open Finset EasyFEAVerif.Constraints

variable {K : Type*} [Field K] {ι : Type*} [Fintype ι] [DecidableEq ι]

/-- matrix–vector product, row `i` -/
def mulRow (A : ι → ι → K) (x : ι → K) (i : ι) : K := ∑ j, A i j * x j

/-- the full vector assembled by the elimination solver: prescribed values on known dofs, the
reduced solution elsewhere -/
def combine (known : ι → Prop) [DecidablePred known] (xc xu : ι → K) : ι → K :=
  fun j => if known j then xc j else xu j

/-! ### 1. the Dirichlet vector sums repeated entries (documented convention of the elimination solver) -/

/-- `Bc_vector_Dirichlet` / the `x` of `__Solver_1`: entry `d` is the sum of ALL values entered
for dof `d`, in any order and with any overlap between conditions. -/
theorem dirichlet_vector_sums (size : Nat) (dofs : List Nat) (values : List Rat) (d : Nat) (hd : d < size) :
    (dirichletVector size dofs values).getD d 0
      = (((List.zip dofs values).filter (fun p => p.1 == d)).map Prod.snd).sum := by
  unfold dirichletVector
  rw [List.getD_eq_getElem?_getD, List.getElem?_map, List.getElem?_range hd]
  simp only [Option.map_some, Option.getD_some]
  induction (List.zip dofs values).filter (fun p => p.1 == d) with
  | nil => simp
  | cons p ps ih => simp [ih]

/-- a dof that no condition mentions is free (value 0 in the vector, and it is in the unknown list) -/
theorem unconstrained_dof_is_unknown (nDof : Nat) (dofsKnown : List Nat) (d : Nat) (hd : d < nDof)
    (h : d ∉ dofsKnown) : d ∈ (knownUnknown nDof dofsKnown).2 ∧ d ∉ (knownUnknown nDof dofsKnown).1 := by
  simp [knownUnknown, hd, h]

theorem constrained_dof_is_known (nDof : Nat) (dofsKnown : List Nat) (d : Nat) (hd : d < nDof)
    (h : d ∈ dofsKnown) : d ∈ (knownUnknown nDof dofsKnown).1 ∧ d ∉ (knownUnknown nDof dofsKnown).2 := by
  simp [knownUnknown, hd, h]

/-! ### 2. elimination: x_i = A_ii⁻¹ (b_i − A_ic x_c) -/

/-- If the reduced system holds on the unknown rows, the assembled vector satisfies the FULL
equations on every free dof and holds the prescribed values on every constrained dof. -/
theorem elimination_sound (known : ι → Prop) [DecidablePred known] (A : ι → ι → K) (b xc xu : ι → K)
    (hred : ∀ i, ¬ known i →
      ∑ j ∈ univ.filter (fun j => ¬ known j), A i j * xu j
        = b i - ∑ j ∈ univ.filter (fun j => known j), A i j * xc j) :
    (∀ i, ¬ known i → mulRow A (combine known xc xu) i = b i) ∧
    (∀ j, known j → combine known xc xu j = xc j) := by
  refine ⟨fun i hi => ?_, fun j hj => by simp [combine, hj]⟩
  unfold mulRow
  rw [← Finset.sum_filter_add_sum_filter_not univ (fun j => known j)]
  have h1 : ∑ j ∈ univ.filter (fun j => known j), A i j * combine known xc xu j
      = ∑ j ∈ univ.filter (fun j => known j), A i j * xc j := by
    apply Finset.sum_congr rfl
    intro j hj
    simp [combine, (Finset.mem_filter.mp hj).2]
  have h2 : ∑ j ∈ univ.filter (fun j => ¬ known j), A i j * combine known xc xu j
      = ∑ j ∈ univ.filter (fun j => ¬ known j), A i j * xu j := by
    apply Finset.sum_congr rfl
    intro j hj
    simp [combine, (Finset.mem_filter.mp hj).2]
  rw [h1, h2, hred i hi]
  ring

/-! ### 3. uniqueness: every exact backend returns the same solution -/

/-- "The reduced matrix is non-singular", stated as injectivity on vectors supported on the free dofs. -/
def ReducedInjective (known : ι → Prop) (A : ι → ι → K) : Prop :=
  ∀ y : ι → K, (∀ j, known j → y j = 0) → (∀ i, ¬ known i → mulRow A y i = 0) → y = 0

/-- Two vectors that hold the same prescribed values and both satisfy the equations on the free
dofs coincide: whichever backend (direct, cg, gmres, bounded least squares, …) produced them. -/
theorem solution_unique (known : ι → Prop) (A : ι → ι → K) (b x x' : ι → K)
    (hA : ReducedInjective known A)
    (hc : ∀ j, known j → x j = x' j)
    (hx : ∀ i, ¬ known i → mulRow A x i = b i) (hx' : ∀ i, ¬ known i → mulRow A x' i = b i) :
    x = x' := by
  have := hA (fun j => x j - x' j) (fun j hj => by simp [hc j hj]) (fun i hi => by
    have h1 := hx i hi
    have h2 := hx' i hi
    unfold mulRow at *
    simp only [mul_sub, Finset.sum_sub_distrib, h1, h2, sub_self])
  funext j
  have hj := congrFun this j
  simp only [Pi.zero_apply] at hj
  exact sub_eq_zero.mp hj

/-! ### 4. Lagrange multipliers: the bordered system enforces the constraints exactly and
leaves equilibrium intact in every admissible direction -/

/-- The bordered system of `__Solver_2` with scaling α:
`A x + α Lᵀ λ = b` and `α L x = α c`, for ANY constraint matrix `L` (rows = Dirichlet
conditions `e_d` and multi-point conditions such as connections `[1, −1]`). -/
theorem lagrange_constraints_and_equilibrium {κ : Type*} [Fintype κ]
    (A : ι → ι → K) (L : κ → ι → K) (b x : ι → K) (c lam : κ → K) (α : K) (hα : α ≠ 0)
    (hrow : ∀ i, mulRow A x i + α * ∑ k, L k i * lam k = b i)
    (hcon : ∀ k, α * ∑ j, L k j * x j = α * c k) :
    -- constraints hold exactly
    (∀ k, ∑ j, L k j * x j = c k) ∧
    -- virtual work: the residual A x − b is orthogonal to every admissible variation
    (∀ y : ι → K, (∀ k, ∑ j, L k j * y j = 0) → ∑ i, y i * (mulRow A x i - b i) = 0) := by
  refine ⟨fun k => mul_left_cancel₀ hα (hcon k), fun y hy => ?_⟩
  have h1 : ∀ i, mulRow A x i - b i = -(α * ∑ k, L k i * lam k) := by
    intro i; rw [← hrow i]; ring
  simp only [h1]
  have : ∑ i, y i * -(α * ∑ k, L k i * lam k) = -(α * ∑ k, lam k * ∑ i, L k i * y i) := by
    simp only [mul_neg, Finset.sum_neg_distrib, neg_inj, Finset.mul_sum]
    rw [Finset.sum_comm]
    apply Finset.sum_congr rfl
    intro k _
    apply Finset.sum_congr rfl
    intro i _
    ring
  rw [this]
  simp [hy]

/-- Dirichlet conditions through multipliers: a dof that no constraint row touches satisfies
its equation, exactly as with elimination — so (with `solution_unique`) both solvers return
the same displacement. -/
theorem lagrange_free_rows {κ : Type*} [Fintype κ]
    (A : ι → ι → K) (L : κ → ι → K) (b x : ι → K) (lam : κ → K) (α : K)
    (hrow : ∀ i, mulRow A x i + α * ∑ k, L k i * lam k = b i)
    (i : ι) (hfree : ∀ k, L k i = 0) : mulRow A x i = b i := by
  have := hrow i
  simpa [hfree] using this

/-- A dof constrained by two identical rows makes the bordered system inconsistent unless the two
values agree: the sum convention of the elimination solver cannot be reproduced by multipliers.
(This is the known finding recorded for the Lagrange path; the elimination path sums.) -/
theorem lagrange_duplicate_rows_inconsistent {κ : Type*} [Fintype κ]
    (L : κ → ι → K) (x : ι → K) (c : κ → K) (α : K) (hα : α ≠ 0) (k k' : κ) (hL : L k = L k')
    (hcon : ∀ k, α * ∑ j, L k j * x j = α * c k) : c k = c k' := by
  have h1 := mul_left_cancel₀ hα (hcon k)
  have h2 := mul_left_cancel₀ hα (hcon k')
  rw [hL] at h1
  rw [← h1, ← h2]

/-! ### 5. orphan nodes -/

/-- Nodes attached to no element have zero rows and columns; adding a unit diagonal there
decouples them: the equations of all other dofs are unchanged (and the orphan dofs get `b`,
i.e. 0), so orphans never make the system singular. -/
theorem orphans_harmless (orphan : ι → Prop) [DecidablePred orphan] (A : ι → ι → K) (x : ι → K)
    (hrow : ∀ i j, orphan i → A i j = 0) (hcol : ∀ i j, orphan j → A i j = 0) (i : ι) :
    mulRow (fun r s => A r s + if r = s ∧ orphan r then 1 else 0) x i
      = if orphan i then x i else mulRow A x i := by
  unfold mulRow
  by_cases hi : orphan i
  · simp only [hi, if_true]
    rw [Finset.sum_eq_single i]
    · simp [hrow i i hi]
    · intro j _ hji
      have hne : i ≠ j := fun h => hji h.symm
      simp [hrow i j hi, hne]
    · simp
  · simp only [hi, if_false]
    apply Finset.sum_congr rfl
    intro j _
    simp [hi]

/-! ### 6. Newton iterations: incremental Dirichlet values -/

/-- The incremental solve prescribes `Δu_d = v_d − u_d` on a constrained dof: after the update the
dof holds its prescribed value, at every Newton iteration (for a dof entered once). -/
theorem newton_dirichlet (u v : K) : u + (v - u) = v := by ring

/-- For a dof entered `m` times with values summing to `s`, the code subtracts the current value
once per entry: the updated dof holds `s − (m−1)·u`, which is the prescribed sum only if the
dof was entered once or its current value is 0. -/
theorem newton_dirichlet_repeated (u s : K) (m : ℕ) : u + (s - m * u) = s - ((m : K) - 1) * u := by ring

/-! ### non-vacuity: the executable model on a 3-dof system -/

example : solver1 [[2, 1, 0], [1, 3, 1], [0, 1, 2]] [1, 2, 3] [0, 0] [1 / 4, 1 / 4] = some [1 / 2, 0, 3 / 2] := by
  decide +kernel

example : (solver2 [[2, 1, 0], [1, 3, 1], [0, 1, 2]] [1, 2, 3] 3 [0] [1 / 2] []).map (·.1) = some [1 / 2, 0, 3 / 2] := by
  decide +kernel


section boundedBackend
variable {ι : Type*} [Fintype ι]

/-! ### 7. the bounded least-squares backend (`lsq_linear`, used by the BoundConstrain damage solver) -/

/-- squared residual of the reduced system -/
noncomputable def resid2 (A : ι → ι → ℝ) (b y : ι → ℝ) : ℝ := ∑ i, (mulRow A y i - b i) ^ 2

/-- When the system has a solution inside the box, every minimiser of the residual over the box solves the system: with
inactive bounds the bounded least-squares backend returns a solution of the equations it is given, like the other backends
(uniqueness then follows from `solution_unique`). -/
theorem bounded_lsq_solves (A : ι → ι → ℝ) (b lb ub x y : ι → ℝ)
    (hx : ∀ i, mulRow A x i = b i) (_hxbox : ∀ i, lb i ≤ x i ∧ x i ≤ ub i)
    (hmin : ∀ z : ι → ℝ, (∀ i, lb i ≤ z i ∧ z i ≤ ub i) → resid2 A b y ≤ resid2 A b z) :
    ∀ i, mulRow A y i = b i := by
  have h0 : resid2 A b x = 0 := by simp [resid2, hx]
  have hle : resid2 A b y ≤ 0 := h0 ▸ hmin x _hxbox
  have hnn : ∀ i ∈ (univ : Finset ι), 0 ≤ (mulRow A y i - b i) ^ 2 := fun i _ => sq_nonneg _
  have hz : resid2 A b y = 0 := le_antisymm hle (Finset.sum_nonneg hnn)
  intro i
  have := (Finset.sum_eq_zero_iff_of_nonneg hnn).mp hz i (mem_univ i)
  have h2 : mulRow A y i - b i = 0 := by simpa using this
  linarith

omit [Fintype ι] in
/-- the reduced system keeps the bounds of the unknown dofs (this is what `__Solver_1` hands to the backend since the `fix:`
commit 0415817): the assembled vector then holds the prescribed values and respects the bounds on every free dof -/
theorem bounded_combine (known : ι → Prop) [DecidablePred known] (lb ub xc xu : ι → ℝ)
    (hbox : ∀ j, ¬ known j → lb j ≤ xu j ∧ xu j ≤ ub j) :
    (∀ j, known j → combine known xc xu j = xc j) ∧
    (∀ j, ¬ known j → lb j ≤ combine known xc xu j ∧ combine known xc xu j ≤ ub j) := by
  refine ⟨fun j hj => by simp [combine, hj], fun j hj => ?_⟩
  simpa [combine, hj] using hbox j hj

/-- the two arrays handed to the backend have one entry per unknown (the shape the backend requires) -/
theorem reduced_bounds_length (lb : EasyFEAVerif.Constraints.Vec) (unknown : List Nat) :
    (EasyFEAVerif.Constraints.subVec lb unknown).length = unknown.length := by
  simp [EasyFEAVerif.Constraints.subVec]

/-- non-vacuity: the 1 x 1 system 2 x = 1 with box [0, 1] -/
example : mulRow (fun (_ _ : Fin 1) => (2 : ℝ)) (fun _ => 1 / 2) 0 = 1 ∧ (0 : ℝ) ≤ 1 / 2 ∧ (1 / 2 : ℝ) ≤ 1 := by
  refine ⟨by simp [mulRow], by norm_num, by norm_num⟩

end boundedBackend

/-- the statements of the elimination solver the theorems of this file were written from (regenerated on every run) -/
theorem solverForms_spec : (EasyFEAVerif.Gen.C04.solverForms.map Prod.fst) = ["__Solver_1", "_Solve_Axb"] ∧
    (EasyFEAVerif.Gen.C04.solverForms.lookup "__Solver_1").map (fun l => l.contains "lb, ub = (lb[dofsUnknown], ub[dofsUnknown])" && l.contains "bi -= Aic @ xc" && l.contains "x[dofsUnknown] = xi") = some true := by
  decide

end EasyFEAVerif.Props.C04
