/-
Property C04 — "after a solve, every constrained degree of freedom holds its prescribed value". With
`AlgoType.euler_explicit` the unknown of the linear solve is the acceleration aⁿ; `_Solver_Apply_Dirichlet` replaces the
prescribed values by zeros ("constrained DOFs have zero acceleration") and `_Solver_Update_solutions` advances
u ← u + dt v, v ← v + dt a. On a constrained dof the prescribed value g therefore enters nowhere:
* `constrained_dof_after_steps`: after k steps the dof holds u₀ + k dt v₀, whatever g is;
* `from_rest_never_reaches_value`: from the state of rest it stays 0, so it holds a prescribed g ≠ 0 after no number of steps;
* `zero_value_held`: a zero prescribed value on a dof at rest is held (which is why only non-zero values show the defect).
This is the known finding "constrained value algo=euler_explicit" (known_findings.txt). The implicit schemes are covered by
Props/C05 (`equation of motion on free dofs`) and Props/C04 (`elimination_sound`).
Tie: statement-level (`Gen/C04/Explicit.lean`, regenerated on every run; `explicitForms_spec`) + the C04 harness, which steps
every hyperbolic scheme with a non-zero prescribed displacement.
-/
import EasyFEAVerif.Gen.C04.Explicit
import Mathlib.Tactic.Ring
import Mathlib.Tactic.Linarith

namespace EasyFEAVerif.Props.C04Explicit
open EasyFEAVerif.Gen.C04

theorem explicitForms_spec : explicitForms =
    [("_Solver_Apply_Dirichlet", ["if algo == AlgoType.euler_explicit:\n    dofsValues = np.zeros_like(dofsValues)",
                                  "A, x = self.__Solver_Get_Dirichlet_A_x(problemType, resolution, A, b, dofsValues)"]),
     ("_Solver_Update_solutions", ["a_np1 = u_np1", "u_np1 = u_n + dt * v_n", "v_np1 = v_n + dt * a_np1"])] := by
  decide +kernel

/-- state (u, v) of one constrained dof; the acceleration solved for it is the "prescribed" one: 0 -/
def stepConstrained (dt : ℚ) (s : ℚ × ℚ) : ℚ × ℚ := (s.1 + dt * s.2, s.2 + dt * 0)

def run (dt : ℚ) (s : ℚ × ℚ) : Nat → ℚ × ℚ
  | 0 => s
  | k + 1 => stepConstrained dt (run dt s k)

theorem constrained_dof_after_steps (dt u0 v0 : ℚ) (k : Nat) : run dt (u0, v0) k = (u0 + k * dt * v0, v0) := by
  induction k with
  | zero => simp [run]
  | succ k ih =>
    simp only [run, ih, stepConstrained]
    ext
    · push_cast; ring
    · ring

/-- the prescribed value `g` appears in none of the statements above: from rest the dof never reaches it -/
theorem from_rest_never_reaches_value (dt g : ℚ) (hg : g ≠ 0) (k : Nat) : (run dt (0, 0) k).1 ≠ g := by
  rw [constrained_dof_after_steps]
  simpa using hg.symm

theorem zero_value_held (dt : ℚ) (k : Nat) : (run dt (0, 0) k).1 = 0 := by
  rw [constrained_dof_after_steps]; simp

end EasyFEAVerif.Props.C04Explicit
