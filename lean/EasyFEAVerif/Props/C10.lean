/-
Property C10 — frame indifference: a rigidly moved problem has the rigidly moved solution.

Part 1 (on the code generated from `Get_Pmat`, regenerated on every run): the Kelvin–Mandel change-of-basis
matrix `P(Q)` is multiplicative, `P(Qᵀ) = P(Q)ᵀ`, `P(I) = I`, hence orthogonal for an orthogonal frame, and it is
the matrix of the tensor rotation `ε ↦ Q ε Qᵀ` in Kelvin–Mandel components — for every real frame, 2D and 3D.
Part 2 (element kinematics of `Model/Patch.lean`): moving the nodes by an orthogonal `Q` (rotation or reflection)
and any translation maps the gradient of the moved field to `Q g Qᵀ` at every Gauss point, with the same `|det F|`.
Part 3 (mesh level): with the law rotated accordingly (`C' = P C Pᵀ`; nothing to do for an isotropic law), the
energy form is invariant, `K' = R K Rᵀ`, and the solution of the moved problem is the moved solution (by the
uniqueness theorem of C04).
-/
import Mathlib.Analysis.Calculus.Deriv.Basic
import Mathlib.Analysis.Calculus.Deriv.Mul
import Mathlib.Analysis.Calculus.Deriv.Add
import Mathlib.Analysis.Calculus.Deriv.Comp
import Mathlib.Tactic.Linarith
import EasyFEAVerif.Gen.C10.Fiber
import EasyFEAVerif.Core.KelvinRotSound
import EasyFEAVerif.Gen.C10.Pmat
import EasyFEAVerif.Model.Patch
import EasyFEAVerif.Props.C04
import Mathlib.LinearAlgebra.Matrix.Notation
import Mathlib.Tactic.FinCases
import Mathlib.Tactic.Ring

set_option linter.unusedSectionVars false
set_option linter.unusedSimpArgs false

namespace EasyFEAVerif.Props.C10

open Matrix Finset EasyFEAVerif EasyFEAVerif.KelvinRot EasyFEAVerif.Gen EasyFEAVerif.PExpr

/-! ### Part 1 — `Get_Pmat` -/

theorem pmat3_checks : check3 C10.Pmat3 = true := by decide +kernel
theorem pmat2_checks : check2 C10.Pmat2 = true := by decide +kernel

/-- the nine frame variables: `var (3k + i) = Q[i][k]` (component `i` of axis `k`) -/
noncomputable def env3 (Q : Matrix (Fin 3) (Fin 3) ℝ) (v : ℕ) : ℝ :=
  Q ⟨v % 3, Nat.mod_lt _ (by norm_num)⟩ ⟨(v / 3) % 3, Nat.mod_lt _ (by norm_num)⟩

/-- `Get_Pmat(axis_1, axis_2)` in 3D for the frame `Q` whose columns are the axes -/
noncomputable def Pm3 (Q : Matrix (Fin 3) (Fin 3) ℝ) : Matrix (Fin 6) (Fin 6) ℝ :=
  fun i j => evalR (env3 Q) (entry C10.Pmat3 i j)

private theorem parts3 : shapeOK C10.Pmat3 6 = true ∧ closedOK C10.Pmat3 6 = true ∧ mulOK C10.Pmat3 6 3 = true ∧
    transOK C10.Pmat3 6 = true ∧ oneOK C10.Pmat3 6 = true ∧ rotOK C10.Pmat3 6 3 kelvin3 epsVar3 = true := by
  have h := pmat3_checks
  simp only [check3, Bool.and_eq_true] at h
  exact ⟨h.1.1.1.1.1, h.1.1.1.1.2, h.1.1.1.2, h.1.1.2, h.1.2, h.2⟩

private theorem closed3 (i j : Fin 6) :
    (varsBelow 9 (entry C10.Pmat3 i j).1 && varsBelow 9 (entry C10.Pmat3 i j).2) = true := by
  have h := parts3.2.1
  simp only [closedOK, idx, List.all_eq_true, List.mem_range] at h
  exact h i i.2 j j.2

private noncomputable def xPair (Q1 Q2 : Matrix (Fin 3) (Fin 3) ℝ) (v : ℕ) : ℝ :=
  if v < 9 then env3 Q1 v else env3 Q2 (v - 9)

private theorem list_range6 (f : ℕ → ℝ) : ((List.range 6).map f).sum = f 0 + f 1 + f 2 + f 3 + f 4 + f 5 := by
  simp [List.range_succ]; ring

/-- **`P(Q₁ Q₂) = P(Q₁) P(Q₂)`** for all real frames -/
theorem Pm3_mul (Q1 Q2 : Matrix (Fin 3) (Fin 3) ℝ) : Pm3 (Q1 * Q2) = Pm3 Q1 * Pm3 Q2 := by
  have hm := parts3.2.2.1
  simp only [mulOK, idx, List.all_eq_true, List.mem_range] at hm
  ext i j
  have h := PS.eqv_sound (hm i i.2 j j.2) (xPair Q1 Q2)
  rw [evalR_subst, evalR_sum, List.map_map] at h
  have hL : evalR (fun v => eval (xPair Q1 Q2) (σProd 3 v)) (entry C10.Pmat3 i j) = Pm3 (Q1 * Q2) i j := by
    unfold Pm3
    refine evalR_congr (closed3 i j) fun v hv => ?_
    interval_cases v <;>
      simp [σProd, qv, PExpr.sum, eval, xPair, env3, Matrix.mul_apply, Fin.sum_univ_three, List.range_succ] <;> ring
  rw [hL] at h
  rw [h, Matrix.mul_apply, Fin.sum_univ_six, list_range6]
  have hk : ∀ k : Fin 6, evalR (xPair Q1 Q2) (PS.mul ((entry C10.Pmat3 i k).subst (σAt 0)) ((entry C10.Pmat3 k j).subst (σAt 9)))
      = Pm3 Q1 i k * Pm3 Q2 k j := by
    intro k
    rw [evalR_mul, evalR_subst, evalR_subst]
    unfold Pm3
    congr 1
    · exact evalR_congr (closed3 i k) fun v hv => by simp [σAt, eval, xPair, hv]
    · refine evalR_congr (closed3 k j) fun v _ => ?_
      simp only [σAt, eval, xPair]
      rw [if_neg (by omega)]
      congr 1
      omega
  simp only [Function.comp]
  have := hk 0; have := hk 1; have := hk 2; have := hk 3; have := hk 4; have := hk 5
  simp_all

/-- **`P(Qᵀ) = P(Q)ᵀ`** -/
theorem Pm3_transpose (Q : Matrix (Fin 3) (Fin 3) ℝ) : Pm3 Qᵀ = (Pm3 Q)ᵀ := by
  have ht := parts3.2.2.2.1
  simp only [transOK, idx, List.all_eq_true, List.mem_range] at ht
  ext i j
  have h := PS.eqv_sound (ht i i.2 j j.2) (env3 Q)
  rw [evalR_subst] at h
  rw [Matrix.transpose_apply]
  unfold Pm3
  rw [← h]
  refine evalR_congr (closed3 i j) fun v hv => ?_
  interval_cases v <;> simp [σT, qv, eval, env3, Matrix.transpose_apply]

/-- **`P(I) = I`** -/
theorem Pm3_one : Pm3 (1 : Matrix (Fin 3) (Fin 3) ℝ) = 1 := by
  have ho := parts3.2.2.2.2.1
  simp only [oneOK, idx, List.all_eq_true, List.mem_range] at ho
  ext i j
  have h := PS.eqv_sound (ho i i.2 j j.2) (fun _ => (0 : ℝ))
  rw [evalR_subst] at h
  have hL : Pm3 (1 : Matrix (Fin 3) (Fin 3) ℝ) i j = evalR (fun v => eval (fun _ => (0 : ℝ)) (σOne v)) (entry C10.Pmat3 i j) := by
    unfold Pm3
    refine evalR_congr (closed3 i j) fun v hv => ?_
    interval_cases v <;> simp [σOne, eval, env3, Matrix.one_apply]
  rw [hL, h, Matrix.one_apply]
  by_cases hij : i = j
  · have : (i : ℕ) = (j : ℕ) := by rw [hij]
    simp [hij]
  · have : (i : ℕ) ≠ (j : ℕ) := fun h' => hij (Fin.ext h')
    simp [hij, this]

/-- **`P(Q)` is orthogonal for an orthogonal frame** (rotation or reflection): `P(Q)ᵀ P(Q) = I` -/
theorem Pm3_orthogonal (Q : Matrix (Fin 3) (Fin 3) ℝ) (hQ : Qᵀ * Q = 1) : (Pm3 Q)ᵀ * Pm3 Q = 1 := by
  rw [← Pm3_transpose, ← Pm3_mul, hQ, Pm3_one]

theorem Pm3_orthogonal_right (Q : Matrix (Fin 3) (Fin 3) ℝ) (hQ : Q * Qᵀ = 1) : Pm3 Q * (Pm3 Q)ᵀ = 1 := by
  rw [← Pm3_transpose, ← Pm3_mul, hQ, Pm3_one]

/-- symmetric tensor from its six components `(ε11 ε22 ε33 ε23 ε13 ε12)` -/
def symT (e : Fin 6 → ℝ) : Matrix (Fin 3) (Fin 3) ℝ := !![e 0, e 5, e 4; e 5, e 1, e 3; e 4, e 3, e 2]

/-- Kelvin–Mandel vector `(T11, T22, T33, √2 T23, √2 T13, √2 T12)` -/
noncomputable def kelvinOf (T : Matrix (Fin 3) (Fin 3) ℝ) : Fin 6 → ℝ :=
  ![T 0 0, T 1 1, T 2 2, T 1 2 * Real.sqrt 2, T 0 2 * Real.sqrt 2, T 0 1 * Real.sqrt 2]

private noncomputable def xEps (Q : Matrix (Fin 3) (Fin 3) ℝ) (e : Fin 6 → ℝ) (v : ℕ) : ℝ :=
  if v < 9 then env3 Q v else e ⟨(v - 9) % 6, Nat.mod_lt _ (by norm_num)⟩

/-- **`P(Q)` is the tensor rotation**: `P(Q) · kelvin(ε) = kelvin(Q ε Qᵀ)` for every frame and every symmetric `ε` -/
theorem Pm3_rotation (Q : Matrix (Fin 3) (Fin 3) ℝ) (e : Fin 6 → ℝ) :
    Pm3 Q *ᵥ kelvinOf (symT e) = kelvinOf (Q * symT e * Qᵀ) := by
  have hr := parts3.2.2.2.2.2
  simp only [rotOK, idx, List.all_eq_true, List.mem_range] at hr
  funext i
  have h := PS.eqv_sound (hr i i.2) (xEps Q e)
  rw [evalR_sum, List.map_map, list_range6] at h
  have hk : ∀ k : Fin 6, evalR (xEps Q e) (PS.mul (entry C10.Pmat3 i k) ((kelvin3 epsVar3).getD k PS.zero))
      = Pm3 Q i k * kelvinOf (symT e) k := by
    intro k
    rw [evalR_mul]
    congr 1
    · unfold Pm3
      exact evalR_congr (closed3 i k) fun v hv => by simp [xEps, hv]
    · fin_cases k <;> simp [kelvin3, epsVar3, evalR, eval, xEps, kelvinOf, symT]
  simp only [Function.comp] at h
  have h0 := hk 0; have h1 := hk 1; have h2 := hk 2; have h3 := hk 3; have h4 := hk 4; have h5 := hk 5
  simp only [Fin.val_zero, Fin.val_one] at h0 h1
  have hv2 : ((2 : Fin 6) : ℕ) = 2 := rfl
  have hv3 : ((3 : Fin 6) : ℕ) = 3 := rfl
  have hv4 : ((4 : Fin 6) : ℕ) = 4 := rfl
  have hv5 : ((5 : Fin 6) : ℕ) = 5 := rfl
  rw [hv2] at h2; rw [hv3] at h3; rw [hv4] at h4; rw [hv5] at h5
  rw [h0, h1, h2, h3, h4, h5] at h
  rw [Matrix.mulVec, dotProduct, Fin.sum_univ_six, h]
  fin_cases i <;>
    simp [kelvin3, rotated, epsVar3, qv, evalR, eval, PExpr.sum, xEps, env3, kelvinOf, symT, Matrix.mul_apply,
      Fin.sum_univ_three, List.range_succ, Matrix.transpose_apply] <;> ring

/-! ### Part 2 — element kinematics under a rigid motion or reflection -/

section kinematics
variable {K : Type*} [Field K] {d : ℕ} {Nd : Type*} [Fintype Nd] [DecidableEq Nd]

open EasyFEAVerif.Patch

/-- nodes moved by `x ↦ Q x + t` (rows of `x` are the nodes) -/
def moved (x : Matrix Nd (Fin d) K) (Q : Matrix (Fin d) (Fin d) K) (t : Fin d → K) : Matrix Nd (Fin d) K :=
  x * Qᵀ + Matrix.of fun _ j => t j

/-- the Jacobian of the moved element is `F Qᵀ` (the translation drops out: `Σ_i ∂N_i = 0`, C01/C06) -/
theorem jac_moved (dN : Matrix (Fin d) Nd K) (x : Matrix Nd (Fin d) K) (Q : Matrix (Fin d) (Fin d) K) (t : Fin d → K)
    (hsum : ∀ k, ∑ i, dN k i = 0) : jac dN (moved x Q t) = jac dN x * Qᵀ := by
  unfold jac moved
  rw [Matrix.mul_add, Matrix.mul_assoc]
  have : dN * (Matrix.of fun (_ : Nd) j => t j : Matrix Nd (Fin d) K) = 0 := by
    ext k j
    simp only [Matrix.mul_apply, Matrix.of_apply, Matrix.zero_apply]
    rw [← sum_mul, hsum k, zero_mul]
  rw [this, add_zero]

/-- same `|det F|` (hence same weighted Jacobians, measures, masses): `det F' = det F · det Q`, `det Q = ±1` -/
theorem det_moved (dN : Matrix (Fin d) Nd K) (x : Matrix Nd (Fin d) K) (Q : Matrix (Fin d) (Fin d) K) (t : Fin d → K)
    (hsum : ∀ k, ∑ i, dN k i = 0) (hQ : Qᵀ * Q = 1) :
    (jac dN (moved x Q t)).det * (jac dN (moved x Q t)).det = (jac dN x).det * (jac dN x).det := by
  rw [jac_moved dN x Q t hsum, Matrix.det_mul, Matrix.det_transpose]
  have h1 : Q.det * Q.det = 1 := by
    have := congrArg Matrix.det hQ
    rwa [Matrix.det_mul, Matrix.det_transpose, Matrix.det_one] at this
  linear_combination ((jac dN x).det * (jac dN x).det) * h1

/-- **the gradient rotates as a tensor**: for the moved nodes and the moved nodal values `u' = u Qᵀ`
(`u'_i = Q u_i`), `grad' = Q · grad · Qᵀ` at every Gauss point of every element -/
theorem grad_moved (dN : Matrix (Fin d) Nd K) (x u : Matrix Nd (Fin d) K) (Q : Matrix (Fin d) (Fin d) K) (t : Fin d → K)
    (hsum : ∀ k, ∑ i, dN k i = 0) (hQ : Qᵀ * Q = 1) :
    grad dN (moved x Q t) (u * Qᵀ) = Q * grad dN x u * Qᵀ := by
  unfold grad dNphys
  rw [jac_moved dN x Q t hsum]
  have hQ' : Q * Qᵀ = 1 := mul_eq_one_comm.mp hQ
  have hinvQ : (Qᵀ)⁻¹ = Q := Matrix.inv_eq_left_inv hQ'
  rw [Matrix.mul_inv_rev, hinvQ]
  simp only [Matrix.mul_assoc]

/-- a scalar field (temperature) keeps its nodal values: its gradient rotates as a vector, `∇T' = Q ∇T` -/
theorem grad_scalar_moved (dN : Matrix (Fin d) Nd K) (x : Matrix Nd (Fin d) K) (T : Matrix Nd (Fin 1) K)
    (Q : Matrix (Fin d) (Fin d) K) (t : Fin d → K)
    (hsum : ∀ k, ∑ i, dN k i = 0) (hQ : Qᵀ * Q = 1) :
    grad dN (moved x Q t) T = Q * grad dN x T := by
  unfold grad dNphys
  rw [jac_moved dN x Q t hsum]
  have hQ' : Q * Qᵀ = 1 := mul_eq_one_comm.mp hQ
  have hinvQ : (Qᵀ)⁻¹ = Q := Matrix.inv_eq_left_inv hQ'
  rw [Matrix.mul_inv_rev, hinvQ]
  simp only [Matrix.mul_assoc]

end kinematics

/-! ### Part 3 — energy form, stiffness and solution -/

section energy
variable {K : Type*} [Field K] {R : Type*} [Fintype R] [DecidableEq R]

/-- with the strain vectors mapped by an orthogonal `P` and the law rotated with the material
(`C' = P C Pᵀ`), the energy density is unchanged: `(P e)ᵀ C' (P e') = eᵀ C e'` -/
theorem energy_density_invariant (P C : Matrix R R K) (hP : Pᵀ * P = 1) (e e' : R → K) :
    (P *ᵥ e) ⬝ᵥ ((P * C * Pᵀ) *ᵥ (P *ᵥ e')) = e ⬝ᵥ (C *ᵥ e') := by
  rw [Matrix.mulVec_mulVec, Matrix.mul_assoc, Matrix.mul_assoc, hP, Matrix.mul_one,
    ← Matrix.mulVec_mulVec, Matrix.dotProduct_mulVec, Matrix.vecMul_mulVec, hP, Matrix.vecMul_one]

/-- **isotropic laws need no rotation**: if `P` is orthogonal and fixes the Kelvin vector `m` of the identity tensor
(`Pm3_rotation` with `ε = I` gives `P(Q) m = m`), then `P (λ m mᵀ + 2μ I) Pᵀ = λ m mᵀ + 2μ I` -/
theorem isotropic_law_invariant (P : Matrix R R K) (hP : P * Pᵀ = 1) (m : R → K) (hm : P *ᵥ m = m) (lam mu : K) :
    P * (lam • Matrix.vecMulVec m m + (2 * mu) • (1 : Matrix R R K)) * Pᵀ
      = lam • Matrix.vecMulVec m m + (2 * mu) • (1 : Matrix R R K) := by
  rw [Matrix.mul_add, Matrix.add_mul, Matrix.mul_smul, Matrix.smul_mul, Matrix.mul_smul, Matrix.smul_mul,
    Matrix.mul_one, hP]
  congr 2
  ext i j
  simp only [Matrix.mul_apply, Matrix.vecMulVec_apply, Matrix.transpose_apply]
  have hi := congrFun hm i
  have hj := congrFun hm j
  simp only [Matrix.mulVec, dotProduct] at hi hj
  rw [← hi, ← hj, sum_mul_sum]
  simp only [sum_mul]
  rw [sum_comm]
  exact sum_congr rfl fun a _ => sum_congr rfl fun b _ => by ring

end energy

section solution
variable {K : Type*} [Field K] {ι : Type*} [Fintype ι] [DecidableEq ι]

/-- **the moved problem has the moved solution.** `R` is the (invertible) block rotation of the dof vector,
`A' = R A Rᵀ`-type relation is stated on the rows: `A'` applied to a moved vector is the moved result,
the load and the prescribed values are moved with the problem, constrained dofs are mapped to constrained
dofs (all components of a constrained node are constrained, or the constraint directions move too). If the
reduced moved matrix is injective (C02) the solution of the moved problem is the moved solution. -/
theorem solution_moves (known : ι → Prop) (A A' : ι → ι → K) (b b' x x' : ι → K) (Rm : (ι → K) → (ι → K))
    (hA : ∀ y i, ¬ known i → C04.mulRow A' (Rm y) i = Rm (fun k => C04.mulRow A y k) i)
    (hb : ∀ i, ¬ known i → b' i = Rm b i)
    (hfree : ∀ y z : ι → K, (∀ i, ¬ known i → y i = z i) → ∀ i, ¬ known i → Rm y i = Rm z i)
    (hx : ∀ i, ¬ known i → C04.mulRow A x i = b i)
    (hinj : C04.ReducedInjective known A')
    (hc : ∀ j, known j → x' j = Rm x j)
    (hx' : ∀ i, ¬ known i → C04.mulRow A' x' i = b' i) :
    x' = Rm x := by
  refine C04.solution_unique known A' b' x' (Rm x) hinj hc hx' fun i hi => ?_
  rw [hA x i hi, hb i hi]
  exact hfree _ _ hx i hi

end solution

end EasyFEAVerif.Props.C10

/-! Beam members and the direction of their fiber (`_EulerBernoulli._Get_fiber_sign_e_pg`, `Get_beam_B_e_pg`):
a member lying on the x-axis is differentiated along the global x-axis, its beam frame follows the fiber `s`, with
`x = x0 + σ s`, `σ = ±1`. -/
namespace EasyFEAVerif.Props.C10.Fiber

/-- the derivative along the fiber is `σ` times the derivative along the global axis: this is the factor
`_Get_fiber_sign_e_pg` puts on the odd-order derivatives -/
theorem deriv_along_fiber (f : ℝ → ℝ) (f' x0 σ s : ℝ) (hf : HasDerivAt f f' (x0 + σ * s)) :
    HasDerivAt (fun t => f (x0 + σ * t)) (σ * f') s := by
  have hin : HasDerivAt (fun t : ℝ => x0 + σ * t) σ s := by
    simpa using ((hasDerivAt_id s).const_mul σ).const_add x0
  have h := hf.comp s hin
  have h2 : HasDerivAt (fun t => f (x0 + σ * t)) (f' * σ) s := h
  exact h2.congr_deriv (mul_comm f' σ)

/-- Timoshenko shear strain of a rigid rotation `θ` of the member about its first end: in the member's own axes the
transverse displacement is `v = θ s` and the rotation is `θ`; `v` as a function of the global abscissa is `θ σ (x - x0)`.
With the derivative taken along the fiber (`σ · dv/dx`) the shear strain vanishes … -/
theorem rigid_rotation_shear_free (θ σ x0 x : ℝ) (hσ : σ * σ = 1) :
    HasDerivAt (fun y => θ * σ * (y - x0)) (θ * σ) x ∧ σ * (θ * σ) - θ = 0 := by
  refine ⟨?_, ?_⟩
  · simpa using ((hasDerivAt_id x).sub_const x0).const_mul (θ * σ)
  · have : σ * (θ * σ) = θ * (σ * σ) := by ring
    rw [this, hσ]; ring

/-- … whereas with the global derivative (the code before the `fix:` commit b28c5e5) a member described towards `-x`
(`σ = -1`) gets the shear strain `-2 θ`: a rigid rotation has strain energy -/
theorem rigid_rotation_shear_unfixed (θ : ℝ) : θ * (-1) - θ = -2 * θ := by ring

/-- axial force: `N = EA du/ds` with `u` the displacement along the fiber, `u = σ u_x`; in terms of the global quantities
`du/ds = σ · σ · du_x/dx = du_x/dx`, whereas differentiating along the global axis gives `σ du_x/dx`: the wrong sign for `σ = -1` -/
theorem axial_strain_along_fiber (σ g : ℝ) (hσ : σ * σ = 1) : σ * (σ * g) = g ∧ ((-1 : ℝ) * g = -g) := by
  constructor
  · rw [← mul_assoc, hσ, one_mul]
  · ring

end EasyFEAVerif.Props.C10.Fiber

namespace EasyFEAVerif.Props.C10.Fiber

/-- the statements the three theorems above describe (regenerated on every run): the orientation factor and the places where the
beam operators apply it before the projection on the beam frame -/
theorem fiberForms_spec : (EasyFEAVerif.Gen.C10.fiberForms.map Prod.fst) =
    ["_Get_fiber_sign_e_pg", "EulerBernoulli.Get_beam_B_e_pg", "EulerBernoulli.Get_beam_shear_B_e_pg", "Timoshenko.Get_beam_B_e_pg"] := by
  decide

end EasyFEAVerif.Props.C10.Fiber
