/-
Property C17 — "the history field never decreases". `Props.C17.history_monotone` is about ONE array of driving energies
updated by `H ← max H ψ`. `Simulations.PhaseField` keeps one such array for the whole simulation (`__old_psiP_e_pg`, replaced
at `Save_Iter` by the array of the LAST element group processed) and `__Calc_psiPlus_e_pg` restarts from zero when the stored
array has another shape ("the mesh has been changed"). With one element group of the main dimension this is the monotone
update. With two groups of different shapes, every group but the last finds the array of another group and restarts:
its history is the current energy, which decreases on unloading (known finding "history energy decreases mesh=TRI3+QUAD4").
Tie: hand model of the three statements quoted below (`__Calc_psiPlus_e_pg`, `Save_Iter`); the C17 harness runs load / unload
histories on a mesh of triangles glued to quadrangles and on single-type meshes.
-/
import EasyFEAVerif.Props.C17

namespace EasyFEAVerif.Props.C17History

/-- the stored history: the shape of the array and (one entry of) its content -/
structure Slot where
  shape : Nat
  val : ℚ

/-- `__Calc_psiPlus_e_pg` for a group of shape `shape` whose current energy is `ψ`:
`if old.shape != psiP.shape: old = zeros_like(psiP)`, then `psiP[inc_H < 0] = old[inc_H < 0]` -/
def call (old : Slot) (shape : Nat) (ψ : ℚ) : ℚ :=
  let o := if old.shape = shape then old.val else 0
  if ψ - o < 0 then o else ψ

/-- one saved step: every group is evaluated against the array stored at the last save; `Save_Iter` then stores the array
of the last group evaluated (`self.__old_psiP_e_pg = self.__psiP_e_pg`) -/
def step (old : Slot) : List (Nat × ℚ) → Slot × List ℚ
  | [] => (old, [])
  | [(s, ψ)] => (⟨s, call old s ψ⟩, [call old s ψ])
  | (s, ψ) :: rest => let r := step old rest; (r.1, call old s ψ :: r.2)

/-- with the matching array the update is `max` (for non-negative energies this is `history_monotone`'s update) -/
theorem call_same_shape (v ψ : ℚ) (s : Nat) : call ⟨s, v⟩ s ψ = max v ψ := by
  unfold call
  simp only [if_true]
  by_cases h : ψ - v < 0
  · rw [if_pos h, max_eq_left (by linarith)]
  · rw [if_neg h, max_eq_right (by linarith)]

/-- a group that finds the array of another group keeps no memory: its "history" is its current energy -/
theorem call_other_shape (v ψ : ℚ) (s s' : Nat) (h : s' ≠ s) (hψ : 0 ≤ ψ) : call ⟨s', v⟩ s ψ = ψ := by
  unfold call
  simp only [h, if_false]
  rw [if_neg (by linarith)]

/-- two groups (shapes 3 and 4), loaded then unloaded: the history of the first group goes 5 → 1 -/
theorem first_group_history_decreases :
    let s1 := step ⟨0, 0⟩ [(3, 5), (4, 5)]
    let s2 := step s1.1 [(3, 1), (4, 1)]
    s1.2 = [5, 5] ∧ s2.2 = [1, 5] := by
  decide +kernel

/-- one group: the same loading keeps 5 -/
theorem single_group_history_kept :
    let s1 := step ⟨0, 0⟩ [(3, 5)]
    let s2 := step s1.1 [(3, 1)]
    s1.2 = [5] ∧ s2.2 = [5] := by
  decide +kernel

end EasyFEAVerif.Props.C17History
