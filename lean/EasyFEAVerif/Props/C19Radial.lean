/-
Property C19: the tensorial return of a von Mises surface on an isotropic elastic law reduces to the scalar return of
`Props/C19General.lean` (the radial return). In the deviatoric space `E` (any real normed space: the Kelvin-Mandel deviators with their
Euclidean norm) the implicit step reads

      s = s_tr − 2 μ x n(s),     n(s) = (3/2) s / q(s),     q(s) = c ‖s‖   (c = √(3/2)),

with `x = Δp ≥ 0` the plastic multiplier increment. Proved for every trial deviator `s_tr ≠ 0`:
  * `radial_is_return`: `s = (1 − 3 μ x / q_tr) s_tr` solves the step whenever `3 μ x < q_tr`;
  * `q_radial`: its equivalent stress is `q_tr − 3 μ x`;
  * `return_is_radial`: every non-zero solution is that one — the tensorial step has no other solution than the radial one;
  * `yield_condition_is_scalar_residual`: the yield condition on the updated stress, `q(s) − σ_y − R(p + x) − V(x) = 0`, is the scalar
    equation `residual x = 0` whose uniqueness `Props/C19General.step_unique` proves.
What remains decided on the real code only: that `Behavior.Integrate` implements this step (the flow direction `_Normal_J2` and the
surface `Svm − σ_y − R` are pinned, `Gen/C19/Forms.lean`), the hydrostatic part, and every surface other than von Mises.
-/
import EasyFEAVerif.Props.C19General
import Mathlib.Analysis.Normed.Module.Basic
import Mathlib.Analysis.Normed.Group.Basic
import Mathlib.Tactic.Ring
import Mathlib.Tactic.Linarith
import Mathlib.Tactic.FieldSimp
import Mathlib.Tactic.Positivity

namespace EasyFEAVerif.Props.C19Radial

variable {E : Type*} [NormedAddCommGroup E] [NormedSpace ℝ E]

/-- equivalent stress of a deviator: `q = c ‖s‖` (`c = √(3/2)` for the Kelvin-Mandel norm) -/
def q (c : ℝ) (s : E) : ℝ := c * ‖s‖

/-- the stress update of the implicit step: `s = s_tr − 2 μ x n(s)` with the flow direction `n(s) = (3/2) s / q(s)` -/
def IsReturn (c mu x : ℝ) (str s : E) : Prop := s = str - (2 * mu * x * (3 / 2) / q c s) • s

variable (c mu x : ℝ) (str : E)

/-- the radial return: the deviator shrinks along the trial direction -/
noncomputable def radial : E := (1 - 3 * mu * x / q c str) • str

theorem q_radial (hc : 0 < c) (hstr : str ≠ 0) (hx : 3 * mu * x < q c str) :
    q c (radial c mu x str) = q c str - 3 * mu * x := by
  have hq : 0 < q c str := by unfold q; positivity
  have hpos : 0 < 1 - 3 * mu * x / q c str := by
    rw [sub_pos, div_lt_one hq]; exact hx
  unfold radial
  rw [q, norm_smul, Real.norm_of_nonneg hpos.le, ← mul_assoc, mul_comm c, mul_assoc]
  change (1 - 3 * mu * x / q c str) * q c str = _
  field_simp

/-- **the radial return solves the tensorial step**, and its equivalent stress is `q_tr − 3 μ x` — the scalar equation of Props/C19General -/
theorem radial_is_return (hc : 0 < c) (hstr : str ≠ 0) (hx : 3 * mu * x < q c str) :
    IsReturn c mu x str (radial c mu x str) := by
  have hq : 0 < q c str := by unfold q; positivity
  have hqr := q_radial c mu x str hc hstr hx
  have hqr_pos : 0 < q c (radial c mu x str) := by rw [hqr]; linarith
  unfold IsReturn
  rw [hqr]
  unfold radial
  rw [smul_smul]
  have key : ∀ a b : ℝ, a = 1 - b → a • str = str - b • str := by
    intro a b h; rw [h, sub_smul, one_smul]
  apply key
  have h1 : q c str - 3 * mu * x ≠ 0 := by linarith
  field_simp

/-- **and it is the only solution**: any non-zero deviator that solves the tensorial step (with `μ x ≥ 0`) is the radial return, and its
equivalent stress solves the scalar equation `q = q_tr − 3 μ x` -/
theorem return_is_radial (hc : 0 < c) (hmx : 0 ≤ mu * x) {s : E} (hs : s ≠ 0) (h : IsReturn c mu x str s) :
    q c s = q c str - 3 * mu * x ∧ s = radial c mu x str := by
  have hqs : 0 < q c s := by unfold q; positivity
  set k : ℝ := 2 * mu * x * (3 / 2) / q c s with hk
  have hk0 : 0 ≤ k := by
    rw [hk]; apply div_nonneg _ hqs.le; nlinarith
  have hstr : str = (1 + k) • s := by
    unfold IsReturn at h
    rw [add_smul, one_smul]
    rw [← hk] at h
    calc str = (str - k • s) + k • s := by abel
      _ = s + k • s := by rw [← h]
  have hnorm : ‖str‖ = (1 + k) * ‖s‖ := by
    rw [hstr, norm_smul, Real.norm_of_nonneg (by linarith)]
  have hqq : q c str = q c s + 3 * mu * x := by
    have hn : 0 < ‖s‖ := norm_pos_iff.mpr hs
    unfold q at *
    rw [hnorm, hk]
    field_simp
  have hqtr : 0 < q c str := by rw [hqq]; nlinarith
  refine ⟨by linarith, ?_⟩
  unfold radial
  rw [hstr, smul_smul]
  have : (1 - 3 * mu * x / q c ((1 + k) • s)) * (1 + k) = 1 := by
    rw [← hstr, hqq, hk]
    have : q c s + 3 * mu * x ≠ 0 := by rw [← hqq]; exact hqtr.ne'
    field_simp
    ring
  rw [this, one_smul]

/-- the yield condition on the radially returned stress is the scalar equation of `Props/C19General.lean` -/
theorem yield_condition_is_scalar_residual (hc : 0 < c) (hstr : str ≠ 0) (hx : 3 * mu * x < q c str) (sy p : ℝ) (R V : ℝ → ℝ) :
    q c (radial c mu x str) - sy - R (p + x) - V x = C19General.residual ⟨mu, sy, q c str, p, R, V⟩ x := by
  rw [q_radial c mu x str hc hstr hx]
  unfold C19General.residual
  ring

end EasyFEAVerif.Props.C19Radial
