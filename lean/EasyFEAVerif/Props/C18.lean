/-
Property C18 — hyperelastic stress, tangents and energy are consistent (law level and invariant level).

Translated from the source on every run (`Gen/C18/Laws.lean`): the invariants I1, I2, I3 of `C` with their gradient and
Hessian tables (Kelvin–Mandel, with the √2 factors of the code), and the laws NeoHookean, MooneyRivlin,
SaintVenantKirchhoff as Laurent polynomials in (I1, I2, w = I3^(1/6)) together with the way their derivatives are
combined. Decided by the reflected polynomial normaliser and given their meaning over ℝ:
  * the gradient tables are the gradients of the invariants, the Hessian tables the gradients of the gradient
    tables, and they are symmetric — at every `C`;
  * for each law, `dWdIk = ∂W/∂Ik` and `d2WdIkdIl = ∂(dWdIk)/∂Il` (with `∂/∂I3 = (1/6w⁵) ∂/∂w`), the second
    derivatives are symmetric, and the reference configuration is energy- and stress-free for all parameter values;
  * a superposed rigid rotation leaves `C = FᵀF`, hence every invariant and the energy, unchanged.
CiarletGeymonat carries a volumetric term `−K log √I3`: its energy is translated as a Laurent polynomial plus `L · log w`
and the same statements are proved with `d/dw log w = 1/w` (`ciarletGeymonat_*`).
PARTIAL: HolzapfelOgden (exponentials, fibre invariants), user energies through automatic
differentiation, the nonlinear element operators (tangent = derivative of the residual) and the discrete energy balance
of the midpoint scheme are decided on the real code by the harness (finite differences, long free-motion runs), not proved.
-/
import EasyFEAVerif.Core.HyperSound
import EasyFEAVerif.Gen.C18.Laws
import Mathlib.LinearAlgebra.Matrix.Notation
import Mathlib.Data.Matrix.Mul

namespace EasyFEAVerif.Props.C18

open EasyFEAVerif EasyFEAVerif.HyperLaws EasyFEAVerif.Gen EasyFEAVerif.PExpr

/-! ### decided identities -/

theorem invariants_checked :
    gradOK C18.I1 C18.dI1 = true ∧ gradOK C18.I2 C18.dI2 = true ∧ gradOK C18.I3 C18.dI3 = true ∧
    hessOK C18.dI1 C18.d2I1 = true ∧ hessOK C18.dI2 C18.d2I2 = true ∧ hessOK C18.dI3 C18.d2I3 = true := by
  refine ⟨?_, ?_, ?_, ?_, ?_, ?_⟩ <;> decide +kernel

theorem neoHookean_checked : lawOK C18.NeoHookean_W C18.NeoHookean_dW C18.NeoHookean_d2W = true := by decide +kernel
theorem mooneyRivlin_checked : lawOK C18.MooneyRivlin_W C18.MooneyRivlin_dW C18.MooneyRivlin_d2W = true := by decide +kernel
theorem saintVenantKirchhoff_checked :
    lawOK C18.SaintVenantKirchhoff_W C18.SaintVenantKirchhoff_dW C18.SaintVenantKirchhoff_d2W = true := by decide +kernel

theorem ciarletGeymonat_checked :
    lawLogOK C18.CiarletGeymonat_W C18.CiarletGeymonat_Wlog C18.CiarletGeymonat_dW C18.CiarletGeymonat_d2W = true := by decide +kernel

/-! ### meaning: invariants -/

/-- **`dI3dC` (and `dI1dC`, `dI2dC`) is the gradient of the invariant** with respect to the tensor components; the
factor `√2^(shear r)` is the Kelvin–Mandel scaling of the shear components -/
theorem dI1_is_gradient {r : Nat} (hr : r < 6) (x : Nat → ℝ) :
    HasDerivAt (fun t : ℝ => eval (Function.update x r t) C18.I1)
      (eval x (entry1 C18.dI1 r).1 * Real.sqrt 2 ^ ((entry1 C18.dI1 r).2 + shear r)) (x r) :=
  gradOK_sound invariants_checked.1 hr x

theorem dI2_is_gradient {r : Nat} (hr : r < 6) (x : Nat → ℝ) :
    HasDerivAt (fun t : ℝ => eval (Function.update x r t) C18.I2)
      (eval x (entry1 C18.dI2 r).1 * Real.sqrt 2 ^ ((entry1 C18.dI2 r).2 + shear r)) (x r) :=
  gradOK_sound invariants_checked.2.1 hr x

theorem dI3_is_gradient {r : Nat} (hr : r < 6) (x : Nat → ℝ) :
    HasDerivAt (fun t : ℝ => eval (Function.update x r t) C18.I3)
      (eval x (entry1 C18.dI3 r).1 * Real.sqrt 2 ^ ((entry1 C18.dI3 r).2 + shear r)) (x r) :=
  gradOK_sound invariants_checked.2.2.1 hr x

/-! ### meaning: laws (generic in the law tables) -/

/-- `dW[0] = ∂W/∂I1`, `dW[1] = ∂W/∂I2`, and `6 w⁵ dW[2] = ∂W/∂w` (i.e. `dW[2] = ∂W/∂I3` with `I3 = w⁶`) at the point `x` -/
def FirstDerivs (W : PExpr × Nat) (dW : List (PExpr × Nat)) (x : Nat → ℝ) : Prop :=
  HasDerivAt (fun t : ℝ => evalL (Function.update x 0 t) W) (evalL x (entry1 dW 0)) (x 0) ∧
  HasDerivAt (fun t : ℝ => evalL (Function.update x 1 t) W) (evalL x (entry1 dW 1)) (x 1) ∧
  HasDerivAt (fun w : ℝ => evalL (Function.update x 2 w) W) (6 * (x 2) ^ 5 * evalL x (entry1 dW 2)) (x 2)

/-- for any law whose tables pass `lawFirstOK`, at every point with `w ≠ 0` and for all parameter values -/
theorem law_first_derivatives {W : PExpr × Nat} {dW : List (PExpr × Nat)} (h : lawFirstOK W dW = true)
    (x : Nat → ℝ) (hw : x 2 ≠ 0) : FirstDerivs W dW x := by
  simp only [lawFirstOK, Bool.and_eq_true, List.all_eq_true, List.mem_range] at h
  have h0 := h.2 0 (by norm_num)
  have h1 := h.2 1 (by norm_num)
  have h2 := h.2 2 (by norm_num)
  simp only [partialOK] at h0 h1 h2
  exact ⟨dInvOK_sound (by norm_num) (by simpa using h0) x hw, dInvOK_sound (by norm_num) (by simpa using h1) x hw,
    dI3OK_sound (by simpa using h2) x hw⟩

/-- second derivatives: `d2W[a][b] = ∂(dW[a])/∂I_b` (same reading for `b = 2`) -/
theorem law_second_derivatives {dW : List (PExpr × Nat)} {d2W : List (List (PExpr × Nat))} (h : lawSecondOK dW d2W = true)
    {a : Nat} (ha : a < 3) (x : Nat → ℝ) (hw : x 2 ≠ 0) :
    FirstDerivs (entry1 dW a) [entry2 d2W a 0, entry2 d2W a 1, entry2 d2W a 2] x := by
  simp only [lawSecondOK, Bool.and_eq_true, List.all_eq_true, List.mem_range] at h
  have h0 := (h.2 a ha 0 (by norm_num)).1
  have h1 := (h.2 a ha 1 (by norm_num)).1
  have h2 := (h.2 a ha 2 (by norm_num)).1
  simp only [partialOK] at h0 h1 h2
  have e0 : entry1 [entry2 d2W a 0, entry2 d2W a 1, entry2 d2W a 2] 0 = entry2 d2W a 0 := rfl
  have e1 : entry1 [entry2 d2W a 0, entry2 d2W a 1, entry2 d2W a 2] 1 = entry2 d2W a 1 := rfl
  have e2 : entry1 [entry2 d2W a 0, entry2 d2W a 1, entry2 d2W a 2] 2 = entry2 d2W a 2 := rfl
  unfold FirstDerivs
  rw [e0, e1, e2]
  exact ⟨dInvOK_sound (by norm_num) (by simpa using h0) x hw, dInvOK_sound (by norm_num) (by simpa using h1) x hw,
    dI3OK_sound (by simpa using h2) x hw⟩

private theorem parts {W : PExpr × Nat} {dW : List (PExpr × Nat)} {d2W : List (List (PExpr × Nat))} (h : lawOK W dW d2W = true) :
    lawFirstOK W dW = true ∧ lawSecondOK dW d2W = true ∧ refOK W dW = true := by
  simp only [lawOK, Bool.and_eq_true] at h
  exact ⟨h.1.1, h.1.2, h.2⟩

/-- **the stress coefficients of the three translated laws are the derivatives of their energies** -/
theorem neoHookean_stress_is_derivative (x : Nat → ℝ) (hw : x 2 ≠ 0) : FirstDerivs C18.NeoHookean_W C18.NeoHookean_dW x :=
  law_first_derivatives (parts neoHookean_checked).1 x hw
theorem mooneyRivlin_stress_is_derivative (x : Nat → ℝ) (hw : x 2 ≠ 0) : FirstDerivs C18.MooneyRivlin_W C18.MooneyRivlin_dW x :=
  law_first_derivatives (parts mooneyRivlin_checked).1 x hw
theorem saintVenantKirchhoff_stress_is_derivative (x : Nat → ℝ) (hw : x 2 ≠ 0) :
    FirstDerivs C18.SaintVenantKirchhoff_W C18.SaintVenantKirchhoff_dW x :=
  law_first_derivatives (parts saintVenantKirchhoff_checked).1 x hw

/-- **and the tangent coefficients the derivatives of the stress coefficients** -/
theorem neoHookean_tangent_is_derivative {a : Nat} (ha : a < 3) (x : Nat → ℝ) (hw : x 2 ≠ 0) :
    FirstDerivs (entry1 C18.NeoHookean_dW a) [entry2 C18.NeoHookean_d2W a 0, entry2 C18.NeoHookean_d2W a 1, entry2 C18.NeoHookean_d2W a 2] x :=
  law_second_derivatives (parts neoHookean_checked).2.1 ha x hw
theorem mooneyRivlin_tangent_is_derivative {a : Nat} (ha : a < 3) (x : Nat → ℝ) (hw : x 2 ≠ 0) :
    FirstDerivs (entry1 C18.MooneyRivlin_dW a) [entry2 C18.MooneyRivlin_d2W a 0, entry2 C18.MooneyRivlin_d2W a 1, entry2 C18.MooneyRivlin_d2W a 2] x :=
  law_second_derivatives (parts mooneyRivlin_checked).2.1 ha x hw
theorem saintVenantKirchhoff_tangent_is_derivative {a : Nat} (ha : a < 3) (x : Nat → ℝ) (hw : x 2 ≠ 0) :
    FirstDerivs (entry1 C18.SaintVenantKirchhoff_dW a)
      [entry2 C18.SaintVenantKirchhoff_d2W a 0, entry2 C18.SaintVenantKirchhoff_d2W a 1, entry2 C18.SaintVenantKirchhoff_d2W a 2] x :=
  law_second_derivatives (parts saintVenantKirchhoff_checked).2.1 ha x hw

/-! ### CiarletGeymonat: energy with the term `−K log √I3 = −3K log w` -/

/-- first derivatives of an energy `P/w^m + L·log w` -/
def FirstDerivsLog (W : PExpr × Nat) (L : PExpr) (dW : List (PExpr × Nat)) (x : Nat → ℝ) : Prop :=
  HasDerivAt (fun t : ℝ => evalLlog (Function.update x 0 t) W L) (evalL x (entry1 dW 0)) (x 0) ∧
  HasDerivAt (fun t : ℝ => evalLlog (Function.update x 1 t) W L) (evalL x (entry1 dW 1)) (x 1) ∧
  HasDerivAt (fun w : ℝ => evalLlog (Function.update x 2 w) W L) (6 * (x 2) ^ 5 * evalL x (entry1 dW 2)) (x 2)

theorem law_first_derivatives_log {W : PExpr × Nat} {L : PExpr} {dW : List (PExpr × Nat)} (h : lawFirstLogOK W L dW = true)
    (x : Nat → ℝ) (hw : x 2 ≠ 0) : FirstDerivsLog W L dW x := by
  simp only [lawFirstLogOK, Bool.and_eq_true] at h
  obtain ⟨⟨⟨⟨_, h0⟩, h1⟩, h2⟩, hL⟩ := h
  exact ⟨dInvLog_sound (by norm_num) h0 hL x hw, dInvLog_sound (by norm_num) h1 hL x hw, dI3Log_sound h2 hL x hw⟩

private theorem partsLog {W : PExpr × Nat} {L : PExpr} {dW : List (PExpr × Nat)} {d2W : List (List (PExpr × Nat))}
    (h : lawLogOK W L dW d2W = true) : lawFirstLogOK W L dW = true ∧ lawSecondOK dW d2W = true ∧ refOK W dW = true := by
  simp only [lawLogOK, Bool.and_eq_true] at h
  exact ⟨h.1.1, h.1.2, h.2⟩

/-- the energy is `K(√I3 − log √I3 − 1) + K1 (I1 I3^(−1/3) − 3) + K2 (I2 I3^(−2/3) − 3)`: the log coefficient is `−3K` -/
theorem ciarletGeymonat_log_coefficient : PExpr.eqv C18.CiarletGeymonat_Wlog (.mul (.const (-3)) (.var 5)) = true := by decide +kernel

theorem ciarletGeymonat_stress_is_derivative (x : Nat → ℝ) (hw : x 2 ≠ 0) :
    FirstDerivsLog C18.CiarletGeymonat_W C18.CiarletGeymonat_Wlog C18.CiarletGeymonat_dW x :=
  law_first_derivatives_log (partsLog ciarletGeymonat_checked).1 x hw

theorem ciarletGeymonat_tangent_is_derivative {a : Nat} (ha : a < 3) (x : Nat → ℝ) (hw : x 2 ≠ 0) :
    FirstDerivs (entry1 C18.CiarletGeymonat_dW a)
      [entry2 C18.CiarletGeymonat_d2W a 0, entry2 C18.CiarletGeymonat_d2W a 1, entry2 C18.CiarletGeymonat_d2W a 2] x :=
  law_second_derivatives (partsLog ciarletGeymonat_checked).2.1 ha x hw

/-! ### rigid rotations -/

/-- **a superposed rigid rotation (or reflection) leaves `C = FᵀF` unchanged**, hence every invariant, the energy and
the second Piola–Kirchhoff stress -/
theorem C_invariant_under_rotation {K : Type*} [CommRing K] {n : Type*} [Fintype n] [DecidableEq n]
    (F Q : Matrix n n K) (hQ : Q.transpose * Q = 1) : (Q * F).transpose * (Q * F) = F.transpose * F := by
  rw [Matrix.transpose_mul, Matrix.mul_assoc, ← Matrix.mul_assoc Q.transpose, hQ, Matrix.one_mul]

end EasyFEAVerif.Props.C18
