/-
Property C07 — quadrature rules have the documented exactness and the right total
weight; the rule selected per (element type, matrix type) is rich enough.
Data (`Gen.C07.*`) is regenerated from /repo/EasyFEA/FEM/_gauss.py on every run
(the leggauss values are the exact binary64 numbers numpy returns on this machine).
-/
import EasyFEAVerif.Core.RefIntegral
import EasyFEAVerif.Core.RankSound
import EasyFEAVerif.Model.Factory
import EasyFEAVerif.Gen.C06.All
import EasyFEAVerif.Gen.C07.All

namespace EasyFEAVerif.Props.C07
open EasyFEAVerif EasyFEAVerif.Gen.C07 Finset

/-- Every point count each family accepts, with the degree of exactness proved
(k = total degree on simplices, per-direction degree on boxes; kz = degree along the
prism axis) and the tolerance (0 = exact in ℚ(√d); 10⁻¹⁴ for rules typed as decimal
literals or returned by numpy as binary64 numbers). These degrees are at least the
documented ones (the docstrings under-state the triangle and quadrangle rules). -/
theorem catalogue :
    allRules.map (fun r => (r.1, r.2.1.nPg, r.2.2.1, r.2.2.2.1, r.2.2.2.2)) =
      [("hexahedron_8", 8, 3, 0, 0), ("hexahedron_27", 27, 5, 0, 0),
       ("prism_6", 6, 2, 3, 0), ("prism_8", 8, 3, 3, 1 / 100000000000000), ("prism_21", 21, 5, 5, 0),
       ("quadrangle_4", 4, 3, 0, 0), ("quadrangle_9", 9, 5, 0, 1 / 100000000000000),
       ("segment_1", 1, 1, 0, 1 / 100000000000000), ("segment_2", 2, 3, 0, 1 / 100000000000000),
       ("segment_3", 3, 5, 0, 1 / 100000000000000), ("segment_4", 4, 7, 0, 1 / 100000000000000),
       ("segment_5", 5, 9, 0, 1 / 100000000000000), ("segment_6", 6, 11, 0, 1 / 100000000000000),
       ("segment_7", 7, 13, 0, 1 / 100000000000000), ("segment_8", 8, 15, 0, 1 / 100000000000000),
       ("tetrahedron_1", 1, 1, 0, 0), ("tetrahedron_4", 4, 2, 0, 0), ("tetrahedron_5", 5, 3, 0, 0),
       ("tetrahedron_15", 15, 5, 0, 0),
       ("triangle_1", 1, 1, 0, 0), ("triangle_3", 3, 2, 0, 0), ("triangle_6", 6, 4, 0, 1 / 100000000000000),
       ("triangle_7", 7, 5, 0, 1 / 100000000000000), ("triangle_12", 12, 6, 0, 1 / 100000000000000)] := by
  decide +kernel

/-- All points of every rule lie in the closed reference element. -/
theorem points_inside : ∀ r ∈ allRules, ∀ p ∈ r.2.1.pts, r.2.1.shape.InsideR (r.2.1.ptR p) :=
  fun r hr _ hp => Rule.inside_real (allRules_check r hr) hp

/-- The weights sum to the measure of the reference element. -/
theorem weights_sum : ∀ r ∈ allRules,
    |(r.2.1.w.map (QS.toReal r.2.1.d)).sum - (r.2.1.shape.measure : ℝ)| ≤ ((r.2.2.2.2 : Rat) : ℝ) :=
  fun r hr => Rule.weights_real (allRules_check r hr)

/-- Every monomial of the rule's polynomial space is integrated exactly (to within the
catalogue's tolerance): Σ_p w_p ξ_p^α = ∫_ref ξ^α. By linearity the same holds for every
polynomial of the space. `refMoment` is the closed-form moment of the reference
element; `Core/RefIntegral.lean` proves that it IS the integral of the monomial over the
reference element for the six shapes (`exact_integral` below restates the theorem with
Mathlib's integrals; the simplex formula α!β!γ!/(|α|+d)! is no longer assumed). -/
theorem exact : ∀ r ∈ allRules, ∀ α ∈ Rule.mons r.2.1.shape r.2.2.1 r.2.2.2.1,
    |r.2.1.quadR α - (r.2.1.shape.refMoment α : ℝ)| ≤ ((r.2.2.2.2 : Rat) : ℝ) :=
  fun r hr _ hα => Rule.exact_real (allRules_check r hr) hα

/-- **exactness against the integral itself**: for every rule of the catalogue and every monomial of its space,
`|Σ_p w_p ξ_p^α − ∫_ref ξ^α| ≤ eps` where the integral is Mathlib's (iterated interval integrals over `[-1, 1]^d`, the unit
triangle, the unit tetrahedron, the prism) -/
theorem exact_integral : ∀ r ∈ allRules, ∀ α ∈ Rule.mons r.2.1.shape r.2.2.1 r.2.2.2.1,
    |r.2.1.quadR α - RefIntegral.refIntegral r.2.1.shape α| ≤ ((r.2.2.2.2 : Rat) : ℝ) := by
  intro r hr α hα
  rw [← RefIntegral.refMoment_eq_integral]
  exact exact r hr α hα

/-- non-vacuity: the monomial spaces are the expected ones -/
example : ((Rule.mons .triangle 6 0).length, (Rule.mons .hexahedron 5 0).length,
    (Rule.mons .prism 5 5).length, (Rule.mons .segment 15 0).length) = (28, 216, 126, 16) := by decide +kernel

/-- element order per type, as read from the source by the C06 translator -/
def orderOf (et : String) : Nat :=
  ((Gen.C06.allElems.find? (fun E => E.name == et)).map (·.order)).getD 0

/-- The (element type, matrix type) pairs the factory accepts. -/
theorem factory_pairs :
    factory.map (fun f => (f.1, f.2.1)) =
      [("SEG2", "rigi"), ("SEG2", "mass"), ("SEG2", "beam"), ("SEG2", "beam_shear"),
       ("SEG3", "rigi"), ("SEG3", "mass"), ("SEG3", "beam"), ("SEG3", "beam_shear"),
       ("SEG4", "rigi"), ("SEG4", "mass"), ("SEG4", "beam"), ("SEG4", "beam_shear"),
       ("SEG5", "rigi"), ("SEG5", "mass"), ("SEG5", "beam"), ("SEG5", "beam_shear"),
       ("TRI3", "rigi"), ("TRI3", "mass"), ("TRI6", "rigi"), ("TRI6", "mass"),
       ("TRI10", "rigi"), ("TRI10", "mass"),
       ("TRI15", "rigi"), ("TRI15", "mass"), ("TRI15", "beam"), ("TRI15", "beam_shear"),
       ("QUAD4", "rigi"), ("QUAD4", "mass"), ("QUAD4", "beam"), ("QUAD4", "beam_shear"),
       ("QUAD8", "rigi"), ("QUAD8", "mass"),
       ("QUAD9", "rigi"), ("QUAD9", "mass"), ("QUAD9", "beam"), ("QUAD9", "beam_shear"),
       ("TETRA4", "rigi"), ("TETRA4", "mass"), ("TETRA10", "rigi"), ("TETRA10", "mass"),
       ("HEXA8", "rigi"), ("HEXA8", "mass"), ("HEXA8", "beam"), ("HEXA8", "beam_shear"),
       ("HEXA20", "rigi"), ("HEXA20", "mass"), ("HEXA20", "beam"), ("HEXA20", "beam_shear"),
       ("HEXA27", "rigi"), ("HEXA27", "mass"), ("HEXA27", "beam"), ("HEXA27", "beam_shear"),
       ("PRISM6", "rigi"), ("PRISM6", "mass"), ("PRISM6", "beam"), ("PRISM6", "beam_shear"),
       ("PRISM15", "rigi"), ("PRISM15", "mass"),
       ("PRISM18", "rigi"), ("PRISM18", "mass"), ("PRISM18", "beam"), ("PRISM18", "beam_shear")] := by
  decide +kernel

/-- Every rule the factory selects is one of the proved rules of the element's
reference shape, has only positive weights, and is exact to the degree
`Factory.requiredDegree` (2·order for 'mass', 2·(order−1) / 2·order per direction for
'rigi'), which makes lengths, areas, volumes, centroids and the element integrals on
straight-sided (affine) elements exact. -/
theorem factory_adequate : ∀ f ∈ factory, Factory.entryOK allRules orderOf f = true := by
  decide +kernel

/-- positivity of the selected weights, as real numbers -/
theorem factory_weights_positive : ∀ f ∈ factory, ∀ w ∈ f.2.2.w, QS.pos f.2.2.d w = true := by
  intro f hf w hw
  have h := factory_adequate f hf
  simp only [Factory.entryOK, Bool.and_eq_true, Rule.positiveOK, List.all_eq_true] at h
  exact h.1 w hw

/-- The Lagrange types whose 'mass' rule is certified to see every function of the
element: all of them except TRI15 (see `TRI15_mass_rule_too_poor`). -/
theorem mass_certified :
    massCerts.map (fun c => c.1.name) =
      ["SEG2", "SEG3", "SEG4", "SEG5", "TRI3", "TRI6", "TRI10", "QUAD4", "QUAD8", "QUAD9",
       "TETRA4", "TETRA10", "HEXA8", "HEXA20", "HEXA27", "PRISM6", "PRISM15", "PRISM18"] := by
  decide +kernel

/-- … and whose 'rigi' rule is certified: all 19. -/
theorem rigi_certified :
    rigiCerts.map (fun c => c.1.name) =
      ["SEG2", "SEG3", "SEG4", "SEG5", "TRI3", "TRI6", "TRI10", "TRI15", "QUAD4", "QUAD8", "QUAD9",
       "TETRA4", "TETRA10", "HEXA8", "HEXA20", "HEXA27", "PRISM6", "PRISM15", "PRISM18"] := by
  decide +kernel

/-- Rank adequacy of the mass rule: for ANY positive coefficients c_p (weight × |Jacobian|
at the Gauss points: any non-degenerate element, straight or curved) the element mass
form Σ_p c_p (Σ_i N_i(ξ_p) x_i)² vanishes only for x = 0: the consistent mass matrix of
every element is positive definite. -/
theorem mass_positive_definite : ∀ c ∈ massCerts, ∀ coef : Nat → ℝ,
    (∀ p < c.2.1.nPg, 0 < coef p) → ∀ x : Nat → ℝ,
    ∑ p ∈ range c.2.1.nPg, coef p *
      (∑ i ∈ range c.1.nPe, QMat.entryR c.2.1.d (QMat.evalMat c.1 c.2.1) p i * x i) ^ 2 = 0 →
    ∀ i < c.1.nPe, x i = 0 :=
  fun c hc coef hpos x hq _ hi => QMat.quadform_pos_def (massCerts_ok c hc) coef hpos x hq hi

/-- Rank adequacy of the stiffness rule for scalar (conduction-type) problems: a nodal
vector whose reference gradient vanishes at all Gauss points of the element is
constant — no spurious zero-energy mode at element level, for all 19 types. (The inverse
Jacobian is invertible, so the physical gradient vanishes iff the reference one does.) -/
theorem conduction_kernel_is_constants : ∀ c ∈ rigiCerts, ∀ x : Nat → ℝ,
    (∀ k < c.2.1.nPg * c.1.dim,
      ∑ i ∈ range c.1.nPe, QMat.entryR c.2.1.d (QMat.gradMat c.1 c.2.1) k i * x i = 0) →
    ∀ i < c.1.nPe, x i = (∑ j ∈ range c.1.nPe, x j) / c.1.nPe := by
  intro c hc x hx i hi
  have hn : 0 < c.1.nPe := by omega
  exact QMat.constant_of_cert hn (rigiCerts_ok c hc) x hx hi

/-- The only pair of the factory proved to be too poor (known finding, recorded in
known_findings.txt): the 12-point rule for the 15-node triangle's mass matrix. -/
theorem deficient_pairs : deficient = [("TRI15", "mass")] := by decide +kernel

/-- … with a witness: a non-zero nodal vector of TRI15 that vanishes at all 12 Gauss
points, so xᵀ M_e x = 0 on every element. -/
theorem TRI15_mass_rule_too_poor : ∀ r ∈ QMat.evalMat Gen.C06.TRI15 F_TRI15_mass,
    ∑ k ∈ range null_TRI15_mass.length,
      QS.toReal F_TRI15_mass.d (r.getD k QS.zero) * QS.toReal F_TRI15_mass.d (null_TRI15_mass.getD k QS.zero) = 0 :=
  fun _ hr => QMat.null_real null_TRI15_mass_ok hr

end EasyFEAVerif.Props.C07
