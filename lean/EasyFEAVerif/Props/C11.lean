/-
Property C11 — linear elastic laws are SPD, mutually inverse, notation- and
frame-consistent.  The constitutive matrices are translated from
/repo/EasyFEA/Models/Elastic/_laws.py on every run (`Gen.C11`).
-/
import EasyFEAVerif.Gen.C11.Laws
import Mathlib.LinearAlgebra.Matrix.Notation
import Mathlib.Data.Matrix.Mul
import Mathlib.Data.Fin.VecNotation
import Mathlib.Algebra.BigOperators.Fin
import Mathlib.Tactic.FinCases
import Mathlib.Tactic.FieldSimp
import Mathlib.Tactic.Ring
import Mathlib.Tactic.Linarith
import Mathlib.Tactic.Positivity
import Mathlib.Tactic.LinearCombination
import Mathlib.Algebra.Order.Field.Basic
import Mathlib.Algebra.CharZero.Defs
import Mathlib.Algebra.Order.BigOperators.Group.Finset
import Mathlib.Algebra.Field.Basic

namespace EasyFEAVerif.Props.C11
open EasyFEAVerif.Gen.C11 Matrix

variable {𝕜 : Type*} [Field 𝕜] [CharZero 𝕜]

/-! ### isotropic law -/

/-- Kelvin–Mandel compliance of the isotropic law (specification: Hooke's law
ε = (1+ν)/E σ − ν/E tr(σ) 1; shear components carry √2 on both sides, so S₄₄ = (1+ν)/E). -/
def isoS3 (E v : 𝕜) : Matrix (Fin 6) (Fin 6) 𝕜 :=
  !![1 / E, -v / E, -v / E, 0, 0, 0;
     -v / E, 1 / E, -v / E, 0, 0, 0;
     -v / E, -v / E, 1 / E, 0, 0, 0;
     0, 0, 0, (1 + v) / E, 0, 0;
     0, 0, 0, 0, (1 + v) / E, 0;
     0, 0, 0, 0, 0, (1 + v) / E]

/-- restriction of a 6×6 Kelvin–Mandel matrix to the in-plane components [11, 22, √2·12] = indices [0, 1, 5] -/
def planeRestrict (M : Matrix (Fin 6) (Fin 6) 𝕜) : Matrix (Fin 3) (Fin 3) 𝕜 :=
  !![M 0 0, M 0 1, M 0 5; M 1 0, M 1 1, M 1 5; M 5 0, M 5 1, M 5 5]

/-- 3D: the stiffness built by `Isotropic._Behavior` is the inverse of Hooke's compliance. -/
theorem iso3_C_mul_S (E v r2 : 𝕜) (hE : E ≠ 0) (h1 : 1 + v ≠ 0) (h2 : 1 - 2 * v ≠ 0) :
    iso_C_3d (iso_lambda_3d E v) (iso_mu_3d E v) r2 * isoS3 E v = 1 := by
  have h2' : (2 : 𝕜) ≠ 0 := two_ne_zero
  have h2'' : 1 - v * 2 ≠ 0 := by rwa [mul_comm]
  ext i j
  fin_cases i <;> fin_cases j <;>
    simp [iso_C_3d, isoS3, iso_lambda_3d, iso_mu_3d, Matrix.mul_apply, Fin.sum_univ_succ] <;>
    field_simp <;> ring

/-- 3D symmetry. -/
theorem iso3_symm (lmbda mu r2 : 𝕜) : (iso_C_3d lmbda mu r2)ᵀ = iso_C_3d lmbda mu r2 := by
  ext i j
  fin_cases i <;> fin_cases j <;> simp [iso_C_3d, Matrix.transpose_apply]

/-- Plane strain: the 2D stiffness is the restriction of the 3D stiffness to the in-plane
components (zero out-of-plane strain). -/
theorem plane_strain_is_restriction (E v r2 : 𝕜) :
    iso_C_pstrain (iso_lambda_pstrain E v) (iso_mu_pstrain E v) r2
      = planeRestrict (iso_C_3d (iso_lambda_3d E v) (iso_mu_3d E v) r2) := by
  ext i j
  fin_cases i <;> fin_cases j <;>
    simp [iso_C_pstrain, planeRestrict, iso_C_3d, iso_lambda_pstrain, iso_lambda_3d, iso_mu_pstrain, iso_mu_3d]

/-- Plane stress: the 2D stiffness is the inverse of the in-plane block of the 3D compliance
(zero out-of-plane stress). -/
theorem plane_stress_is_condensation (E v r2 : 𝕜) (hE : E ≠ 0) (h1 : 1 + v ≠ 0) (h3 : 1 - v ≠ 0) :
    iso_C_pstress (iso_lambda_pstress E v) (iso_mu_pstress E v) r2 * planeRestrict (isoS3 E v) = 1 := by
  have h2' : (2 : 𝕜) ≠ 0 := two_ne_zero
  have h4 : 1 - v ^ 2 ≠ 0 := by
    have : 1 - v ^ 2 = (1 - v) * (1 + v) := by ring
    rw [this]; exact mul_ne_zero h3 h1
  ext i j
  fin_cases i <;> fin_cases j <;>
    simp [iso_C_pstress, planeRestrict, isoS3, iso_lambda_pstress, iso_mu_pstress, Matrix.mul_apply, Fin.sum_univ_succ] <;>
    field_simp <;> ring

/-! ### transversely isotropic and orthotropic laws: C and S are mutually inverse, symmetric -/

theorem ti_symm (El Et vl vt Gl : 𝕜) : (ti_C El Et vl vt Gl)ᵀ = ti_C El Et vl vt Gl ∧ (ti_S El Et vl vt Gl)ᵀ = ti_S El Et vl vt Gl := by
  constructor <;> (ext i j; fin_cases i <;> fin_cases j <;> simp [ti_C, ti_S, Matrix.transpose_apply])

/-- `material_cM · material_sM = I` for every admissible transversely isotropic material
(non-zero moduli and non-vanishing denominator of k_t). -/
theorem ti_C_mul_S (El Et vl vt Gl : 𝕜) (hEl : El ≠ 0) (hEt : Et ≠ 0) (hGl : Gl ≠ 0) (hvt : 1 + vt ≠ 0)
    (hk : 2 * (1 - vt) * El - 4 * vl ^ 2 * Et ≠ 0) :
    ti_C El Et vl vt Gl * ti_S El Et vl vt Gl = 1 := by
  have h2' : (2 : 𝕜) ≠ 0 := two_ne_zero
  unfold ti_C ti_S
  generalize hD : 2 * (1 - vt) * El - 4 * vl ^ 2 * Et = D at hk ⊢
  have hvt' : vt + 1 ≠ 0 := by rwa [add_comm]
  ext i j
  fin_cases i <;> fin_cases j <;>
    simp [Matrix.mul_apply, Fin.sum_univ_succ] <;>
    field_simp <;> (try rw [← hD]) <;> ring

theorem ortho_symm (E1 E2 E3 G23 G13 G12 v23 v13 v12 : 𝕜) :
    (ortho_C E1 E2 E3 G23 G13 G12 v23 v13 v12)ᵀ = ortho_C E1 E2 E3 G23 G13 G12 v23 v13 v12 ∧
    (ortho_S E1 E2 E3 G23 G13 G12 v23 v13 v12)ᵀ = ortho_S E1 E2 E3 G23 G13 G12 v23 v13 v12 := by
  constructor <;> (ext i j; fin_cases i <;> fin_cases j <;> simp [ortho_C, ortho_S, Matrix.transpose_apply])

/-- `material_cM · material_sM = I` for every admissible orthotropic material (non-zero moduli and
non-vanishing common denominator of the c_ij, i.e. det S ≠ 0). -/
theorem ortho_C_mul_S (E1 E2 E3 G23 G13 G12 v23 v13 v12 : 𝕜) (h1 : E1 ≠ 0) (h2 : E2 ≠ 0) (h3 : E3 ≠ 0)
    (h4 : G23 ≠ 0) (h5 : G13 ≠ 0) (h6 : G12 ≠ 0)
    (hD : -E1 * E2 + E1 * E3 * v23 ^ 2 + E2 ^ 2 * v12 ^ 2 + 2 * E2 * E3 * v12 * v13 * v23 + E2 * E3 * v13 ^ 2 ≠ 0) :
    ortho_C E1 E2 E3 G23 G13 G12 v23 v13 v12 * ortho_S E1 E2 E3 G23 G13 G12 v23 v13 v12 = 1 := by
  have h2' : (2 : 𝕜) ≠ 0 := two_ne_zero
  unfold ortho_C ortho_S
  generalize hDen : -E1 * E2 + E1 * E3 * v23 ^ 2 + E2 ^ 2 * v12 ^ 2 + 2 * E2 * E3 * v12 * v13 * v23 + E2 * E3 * v13 ^ 2 = D at hD ⊢
  ext i j
  fin_cases i <;> fin_cases j <;>
    simp [Matrix.mul_apply, Fin.sum_univ_succ] <;>
    field_simp <;> (try rw [← hDen]) <;> ring

/-! ### positive definiteness of the isotropic law -/

/-- For E > 0 and −1 < ν < 1/2 the 3D isotropic stiffness is positive definite:
x·Cx = 2μ|x|² + λ(x₀+x₁+x₂)² > 0 for x ≠ 0 (any √2-scaling symbol r2, it does not enter C). -/
theorem iso3_pos_def {R : Type*} [Field R] [LinearOrder R] [IsStrictOrderedRing R]
    (E v r2 : R) (hE : 0 < E) (hv1 : -1 < v) (hv2 : v < 1 / 2) (x : Fin 6 → R) (hx : x ≠ 0) :
    0 < ∑ i, ∑ j, x i * iso_C_3d (iso_lambda_3d E v) (iso_mu_3d E v) r2 i j * x j := by
  have hmu : 0 < iso_mu_3d E v := by
    unfold iso_mu_3d; apply div_pos hE; linarith
  have h3 : 0 < 3 * iso_lambda_3d E v + 2 * iso_mu_3d E v := by
    unfold iso_lambda_3d iso_mu_3d
    have ha : 0 < 1 + v := by linarith
    have hb : 0 < 1 - 2 * v := by linarith
    have hne1 : 1 + v ≠ 0 := ne_of_gt ha
    have hne2 : 1 - 2 * v ≠ 0 := ne_of_gt hb
    have : 3 * (E * v / ((1 + v) * (1 - 2 * v))) + 2 * (E / (2 * (1 + v))) = E / (1 - 2 * v) := by
      have e1 : E * v / ((1 + v) * (1 - 2 * v)) = E * v * ((1 + v)⁻¹ * (1 - 2 * v)⁻¹) := by
        rw [div_eq_mul_inv, mul_inv]
      have e2 : E / (2 * (1 + v)) = E * (2⁻¹ * (1 + v)⁻¹) := by rw [div_eq_mul_inv, mul_inv]
      have e3 : E / (1 - 2 * v) = E * (1 - 2 * v)⁻¹ := div_eq_mul_inv _ _
      rw [e1, e2, e3]
      have i1 : (1 + v) * (1 + v)⁻¹ = 1 := mul_inv_cancel₀ hne1
      have i2 : (1 - 2 * v) * (1 - 2 * v)⁻¹ = 1 := mul_inv_cancel₀ hne2
      have i3 : (2 : R) * 2⁻¹ = 1 := mul_inv_cancel₀ two_ne_zero
      generalize (1 + v)⁻¹ = a at i1 ⊢
      generalize (1 - 2 * v)⁻¹ = b at i2 ⊢
      generalize (2 : R)⁻¹ = c at i3 ⊢
      linear_combination (E * a) * i3 - (E * a) * i2 + (E * b) * i1
    rw [this]; exact div_pos hE hb
  have hq : ∀ lam mu : R, ∑ i, ∑ j, x i * iso_C_3d lam mu r2 i j * x j
      = 2 * mu * (x 0 ^ 2 + x 1 ^ 2 + x 2 ^ 2 + x 3 ^ 2 + x 4 ^ 2 + x 5 ^ 2) + lam * (x 0 + x 1 + x 2) ^ 2 := by
    intro lam mu
    simp [iso_C_3d, Fin.sum_univ_succ]; ring
  rw [hq]
  generalize iso_lambda_3d E v = lam at h3 ⊢
  generalize iso_mu_3d E v = mu at hmu h3 ⊢
  -- some component is non-zero
  have hsq : 0 < x 0 ^ 2 + x 1 ^ 2 + x 2 ^ 2 + x 3 ^ 2 + x 4 ^ 2 + x 5 ^ 2 := by
    obtain ⟨i, hi⟩ := Function.ne_iff.mp hx
    have hpos : 0 < x i ^ 2 := by
      have := sq_nonneg (x i)
      exact lt_of_le_of_ne this (Ne.symm (pow_ne_zero 2 hi))
    have hle : x i ^ 2 ≤ ∑ k, x k ^ 2 :=
      Finset.single_le_sum (fun k _ => sq_nonneg (x k)) (Finset.mem_univ i)
    have hs : ∑ k, x k ^ 2 = x 0 ^ 2 + x 1 ^ 2 + x 2 ^ 2 + x 3 ^ 2 + x 4 ^ 2 + x 5 ^ 2 := by
      simp [Fin.sum_univ_succ]; ring
    linarith
  -- (x0+x1+x2)² ≤ 3 (x0²+x1²+x2²)
  have hcs : (x 0 + x 1 + x 2) ^ 2 ≤ 3 * (x 0 ^ 2 + x 1 ^ 2 + x 2 ^ 2) := by
    nlinarith [sq_nonneg (x 0 - x 1), sq_nonneg (x 0 - x 2), sq_nonneg (x 1 - x 2)]
  by_cases hl : 0 ≤ lam
  · have := mul_nonneg hl (sq_nonneg (x 0 + x 1 + x 2))
    nlinarith
  · push Not at hl
    -- λ < 0: λ s² ≥ 3λ (x0²+x1²+x2²) and 2μ + 3λ > 0
    have h5 : lam * (x 0 + x 1 + x 2) ^ 2 ≥ lam * (3 * (x 0 ^ 2 + x 1 ^ 2 + x 2 ^ 2)) :=
      mul_le_mul_of_nonpos_left hcs hl.le
    nlinarith [sq_nonneg (x 0), sq_nonneg (x 1), sq_nonneg (x 2), sq_nonneg (x 3), sq_nonneg (x 4), sq_nonneg (x 5)]

/-! ### Kelvin–Mandel scaling of a Voigt matrix -/

/-- The scaling table of `KelvinMandel_Matrix`: normal block ×1, coupling blocks ×√2, shear block ×2. -/
theorem kelvin3_table (r2 : 𝕜) (M : Matrix (Fin 6) (Fin 6) 𝕜) (i j : Fin 6) :
    kelvin3 r2 M i j = M i j * (if i.val < 3 then (if j.val < 3 then 1 else r2) else (if j.val < 3 then r2 else 2)) := by
  fin_cases i <;> fin_cases j <;> simp [kelvin3]

theorem kelvin2_table (r2 : 𝕜) (M : Matrix (Fin 3) (Fin 3) 𝕜) (i j : Fin 3) :
    kelvin2 r2 M i j = M i j * (if i.val < 2 then (if j.val < 2 then 1 else r2) else (if j.val < 2 then r2 else 2)) := by
  fin_cases i <;> fin_cases j <;> simp [kelvin2]

/-! ### lazy update: a read after any sequence of parameter assignments returns the law of the
current parameters -/

/-- state of a law object: current parameters, cached (C, S) and the `needUpdate` flag -/
structure LawState (P Cs : Type) where
  params : P
  cached : Cs
  needUpdate : Bool

inductive LawOp (P : Type) where
  | set (p : P)      -- descriptor __set__: stores the value and raises Need_Update
  | read             -- property C / S: recompute when the flag is raised

def lawStep {P Cs : Type} (behavior : P → Cs) (s : LawState P Cs) : LawOp P → LawState P Cs
  | .set p => { s with params := p, needUpdate := true }
  | .read => if s.needUpdate then { s with cached := behavior s.params, needUpdate := false } else s

def LawCoherent {P Cs : Type} (behavior : P → Cs) (s : LawState P Cs) : Prop :=
  s.needUpdate = true ∨ s.cached = behavior s.params

theorem lawStep_coherent {P Cs : Type} (behavior : P → Cs) (s : LawState P Cs) (op : LawOp P)
    (h : LawCoherent behavior s) : LawCoherent behavior (lawStep behavior s op) := by
  cases op with
  | set p => left; rfl
  | read =>
    simp only [lawStep]
    split
    · right; rfl
    · rename_i hn
      rcases h with h | h
      · exact absurd h hn
      · right; exact h

/-- After ANY sequence of assignments and reads, the next read returns `_Behavior(current parameters)`. -/
theorem read_after_any_history {P Cs : Type} (behavior : P → Cs) (s0 : LawState P Cs)
    (h0 : LawCoherent behavior s0) (ops : List (LawOp P)) :
    let s := ops.foldl (lawStep behavior) s0
    (lawStep behavior s .read).cached = behavior (lawStep behavior s .read).params := by
  intro s
  have hs : LawCoherent behavior s := by
    have : ∀ (t : LawState P Cs), LawCoherent behavior t → LawCoherent behavior (ops.foldl (lawStep behavior) t) := by
      induction ops with
      | nil => intro t ht; exact ht
      | cons o os ih => intro t ht; exact ih _ (lawStep_coherent behavior t o ht)
    exact this s0 h0
  simp only [lawStep]
  split
  · rfl
  · rename_i hn
    rcases hs with h | h
    · exact absurd h hn
    · exact h

end EasyFEAVerif.Props.C11
