/-
Property C04, "every constrained degree of freedom holds its prescribed value": which degrees of freedom a condition constrains.

`BoundaryCondition.Get_dofs_nodes` (model: `Model/Constraints.dofsNodes`, compared with the real lookup on every run) numbers the
dof of node `n` and of the `idx`-th unknown of the problem `n · dim + idx`; for a name that is NOT an unknown of the problem it prints
an error, skips the column and leaves 0 there. `_Simu.add_dirichlet` therefore checks the names first (`_Check_dofs`, since fix
b36845f; statements pinned in `Gen/C04/Unknowns.lean`). Proved for every list of unknowns, nodes and names:
  * `dofs_belong_to_named_nodes`: when every name is an unknown of the problem, every dof of the condition is a dof of one of ITS nodes,
    and each (node, name) pair gets its own dof (`dof_of_pair`);
  * `foreign_name_hits_dof_zero`: a foreign name puts dof 0 — the first unknown of node 0 — into the condition, once per node, whichever
    nodes the condition names: without the guard a node the user never mentioned is constrained (code before the fix);
  * `guarded_dofs_belong_to_named_nodes`: with the guard the lookup is only reached with admissible names.
-/
import EasyFEAVerif.Model.Constraints
import EasyFEAVerif.Gen.C04.Unknowns
import Mathlib.Tactic.Linarith
import Mathlib.Data.List.Basic

namespace EasyFEAVerif.Props.C04Unknowns

open EasyFEAVerif.Constraints

theorem unknownForms_spec : (EasyFEAVerif.Gen.C04.unknownForms.map Prod.fst) = ["Get_dofs_nodes", "_Check_dofs", "add_dirichlet"] := rfl

/-- `_Check_dofs`: every name is an unknown of the problem -/
def checkDofs (available unknowns : List String) : Bool := unknowns.all fun u => available.contains u

/-- `add_dirichlet` since the fix: the names are checked before they are turned into dofs -/
def guardedDofs (available : List String) (nodes : List Nat) (unknowns : List String) : Option (List Nat) :=
  if checkDofs available unknowns then some (dofsNodes available nodes unknowns) else none

theorem idx_of_mem {available : List String} {u : String} (h : u ∈ available) :
    ∃ idx, available.idxOf? u = some idx ∧ idx < available.length := by
  cases hq : available.idxOf? u with
  | none => exact absurd h (List.idxOf?_eq_none_iff.mp hq)
  | some idx =>
    obtain ⟨hlt, -, -⟩ := List.idxOf?_eq_some_iff.mp hq
    exact ⟨idx, rfl, hlt⟩

/-- **every dof of a condition whose names are unknowns of the problem is a dof of one of its nodes**: `dof = n · dim + idx` with `n`
one of the nodes and `idx < dim` -/
theorem dofs_belong_to_named_nodes (available : List String) (nodes : List Nat) (unknowns : List String)
    (hall : ∀ u ∈ unknowns, u ∈ available) :
    ∀ d ∈ dofsNodes available nodes unknowns, ∃ n ∈ nodes, ∃ idx < available.length, d = n * available.length + idx := by
  intro d hd
  unfold dofsNodes at hd
  obtain ⟨n, hn, hd⟩ := List.mem_flatMap.mp hd
  obtain ⟨u, hu, rfl⟩ := List.mem_map.mp hd
  obtain ⟨idx, hq, hlt⟩ := idx_of_mem (hall u hu)
  exact ⟨n, hn, idx, hlt, by simp [hq]⟩

/-- the dof of a (node, name) pair -/
theorem dof_of_pair (available : List String) (n : Nat) (u : String) (idx : Nat) (hq : available.idxOf? u = some idx) :
    dofsNodes available [n] [u] = [n * available.length + idx] := by
  simp [dofsNodes, hq]

/-- two different (node, unknown) pairs never share a dof -/
theorem dof_injective (dim n n' idx idx' : Nat) (h : idx < dim) (h' : idx' < dim) (he : n * dim + idx = n' * dim + idx') :
    n = n' ∧ idx = idx' := by
  have hd : 0 < dim := by omega
  have h1 : (n * dim + idx) / dim = n := by rw [Nat.mul_comm, Nat.mul_add_div hd, Nat.div_eq_of_lt h]; simp
  have h2 : (n' * dim + idx') / dim = n' := by rw [Nat.mul_comm, Nat.mul_add_div hd, Nat.div_eq_of_lt h']; simp
  have hn : n = n' := by rw [← h1, ← h2, he]
  subst hn
  exact ⟨rfl, by omega⟩

/-- **a name that is not an unknown of the problem puts dof 0 into the condition**, once per node, whatever the nodes are: the first
unknown of node 0 is constrained although the condition may not name that node (code before fix b36845f, reached through `add_dirichlet`) -/
theorem foreign_name_hits_dof_zero (available : List String) (nodes : List Nat) (unknowns : List String) (u : String)
    (hu : u ∈ unknowns) (hforeign : u ∉ available) (n : Nat) (hn : n ∈ nodes) :
    0 ∈ dofsNodes available nodes unknowns := by
  unfold dofsNodes
  refine List.mem_flatMap.mpr ⟨n, hn, List.mem_map.mpr ⟨u, hu, ?_⟩⟩
  simp [List.idxOf?_eq_none_iff.mpr hforeign]

/-- … for instance nodes 1, 2, 5 of a 2D elastic problem and the name 'z': dof 0 (ux of node 0) is in the condition three times -/
example : dofsNodes ["x", "y"] [1, 2, 5] ["z"] = [0, 0, 0] := by decide

/-- with the guard the lookup is only reached with admissible names -/
theorem guarded_dofs_belong_to_named_nodes (available : List String) (nodes : List Nat) (unknowns : List String) (ds : List Nat)
    (hg : guardedDofs available nodes unknowns = some ds) :
    ∀ d ∈ ds, ∃ n ∈ nodes, ∃ idx < available.length, d = n * available.length + idx := by
  unfold guardedDofs at hg
  split at hg
  · rename_i hc
    cases hg
    apply dofs_belong_to_named_nodes
    intro u hu
    have := List.all_eq_true.mp hc u hu
    simpa using this
  · cases hg

/-- and a foreign name is refused -/
theorem guarded_refuses_foreign_names (available : List String) (nodes : List Nat) (unknowns : List String) (u : String)
    (hu : u ∈ unknowns) (hforeign : u ∉ available) : guardedDofs available nodes unknowns = none := by
  unfold guardedDofs
  rw [if_neg]
  intro hc
  have := List.all_eq_true.mp hc u hu
  exact hforeign (by simpa using this)

end EasyFEAVerif.Props.C04Unknowns
