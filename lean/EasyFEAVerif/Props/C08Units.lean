/-
Property C08 — point location must not depend on the length unit of the mesh. The inverse isoparametric map of distorted
elements minimises |x(ξ) − xP|² with a solver whose stopping tests are absolute; since fix 82ef724 the cost is divided by the
size of the element. Theorems: dividing by a positive size keeps the minimisers, and makes the cost invariant under a
change of unit (coordinates, hence residual and size, multiplied by u).
Tie: hand model; the C08 harness re-expresses every mesh in units from 1e3 to 1e-9 and evaluates a linear field at located
points (block "the same domain described in another length unit").
-/
import Mathlib.Tactic.Linarith
import Mathlib.Tactic.Positivity
import Mathlib.Tactic.FieldSimp
import Mathlib.Tactic.Ring

namespace EasyFEAVerif.Props.C08Units


theorem scaled_cost_same_minimisers {X : Type*} (cost : X → ℚ) (size : ℚ) (hs : 0 < size) (x : X) :
    (∀ y, cost x / size ^ 2 ≤ cost y / size ^ 2) ↔ (∀ y, cost x ≤ cost y) := by
  have h2 : (0 : ℚ) < size ^ 2 := by positivity
  constructor
  · intro H y
    have := H y
    rwa [div_le_div_iff_of_pos_right h2] at this
  · intro H y
    exact (div_le_div_iff_of_pos_right h2).mpr (H y)

/-- and makes the cost independent of the length unit: coordinates multiplied by `u` give the same scaled cost -/
theorem scaled_cost_unit_free (r size u : ℚ) (hu : u ≠ 0) (hs : size ≠ 0) :
    (u * r) ^ 2 / (u * size) ^ 2 = r ^ 2 / size ^ 2 := by
  field_simp

end EasyFEAVerif.Props.C08Units
