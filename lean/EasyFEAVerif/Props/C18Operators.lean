/-
Property C18 — nonlinear element operators (EasyFEA/FEM/Operators/NonLinear.py): algebraic facts behind the tangents that the
harness differences numerically on the real code: KelvinVoigtDamping (residual = C v), PenaltyContact (one-sided derivative
of the penalty force on either side of the obstacle), FollowingPressure (exact increment of the deformed normal).
-/
import Mathlib.Algebra.BigOperators.Ring.Finset
import Mathlib.Analysis.Calculus.Deriv.Add
import Mathlib.Analysis.Calculus.Deriv.Basic
import Mathlib.Analysis.Calculus.Deriv.Mul
import Mathlib.Data.Real.Basic
import Mathlib.LinearAlgebra.CrossProduct
import Mathlib.Tactic.FinCases
import Mathlib.Tactic.Ring

namespace EasyFEAVerif.Props.C18.Operators
open Finset Matrix

section kelvinVoigt
variable {K : Type*} [CommRing K] {P J I : Type*} [Fintype P] [Fintype J] [Fintype I]

/-- `KelvinVoigtDamping`: with `B = De(u)·grad` at every integration point, the viscous residual
`R_i = t Σ_p w_p Σ_j B_pji (η Σ_l B_pjl v_l)` is the damping matrix `C_il = t η Σ_p w_p Σ_j B_pji B_pjl` applied to the
velocity: `F_visco(u, v) = C(u) v`, linear in `v`, and `C` is symmetric. -/
theorem kelvin_voigt_residual_eq_C_mul_v (t η : K) (w : P → K) (B : P → J → I → K) (v : I → K) (i : I) :
    t * ∑ p, w p * ∑ j, B p j i * (η * ∑ l, B p j l * v l) = ∑ l, (t * η * ∑ p, w p * ∑ j, B p j i * B p j l) * v l := by
  simp only [Finset.mul_sum, Finset.sum_mul]
  conv_rhs => rw [Finset.sum_comm]
  apply Finset.sum_congr rfl; intro p _
  conv_rhs => rw [Finset.sum_comm]
  apply Finset.sum_congr rfl; intro j _
  apply Finset.sum_congr rfl; intro l _
  ring

omit [Fintype I] in
theorem kelvin_voigt_damping_symm (t η : K) (w : P → K) (B : P → J → I → K) (i l : I) :
    t * η * ∑ p, w p * ∑ j, B p j i * B p j l = t * η * ∑ p, w p * ∑ j, B p j l * B p j i := by
  congr 1
  apply Finset.sum_congr rfl; intro p _
  congr 1
  apply Finset.sum_congr rfl; intro j _
  ring

end kelvinVoigt

section contact

/-- `PenaltyContact` at one integration point, along one displacement unknown `x` that moves the gap as `g(x) = g0 + a x`
(`a = N_j n_c`): the force density `ε ⟨-g⟩` has derivative `-ε a` where the point penetrates (`g < 0`) … -/
theorem contact_force_deriv_active (ε g0 a x : ℝ) (hg : g0 + a * x < 0) :
    HasDerivAt (fun y => ε * max (-(g0 + a * y)) 0) (-(ε * a)) x := by
  have hlin : HasDerivAt (fun y => ε * (-(g0 + a * y))) (-(ε * a)) x := by
    have h1 : HasDerivAt (fun y => g0 + a * y) a x := by
      simpa using ((hasDerivAt_id x).const_mul a).const_add g0
    have h2 := (h1.neg).const_mul ε
    refine h2.congr_deriv ?_
    ring
  refine hlin.congr_of_eventuallyEq ?_
  have hcont : ContinuousAt (fun y => g0 + a * y) x := by fun_prop
  have hev : ∀ᶠ y in nhds x, g0 + a * y < 0 := hcont.eventually (gt_mem_nhds hg)
  filter_upwards [hev] with y hy
  have : max (-(g0 + a * y)) 0 = -(g0 + a * y) := max_eq_left (by linarith)
  show ε * max (-(g0 + a * y)) 0 = ε * -(g0 + a * y)
  rw [this]

/-- … and 0 where it does not (`g > 0`): the tangent `K = ε H N_i N_j (n ⊗ n)` with the active-set indicator `H` is `-dR/du` -/
theorem contact_force_deriv_inactive (ε g0 a x : ℝ) (hg : 0 < g0 + a * x) :
    HasDerivAt (fun y => ε * max (-(g0 + a * y)) 0) 0 x := by
  have hconst : HasDerivAt (fun _ : ℝ => (0 : ℝ)) 0 x := hasDerivAt_const x 0
  refine hconst.congr_of_eventuallyEq ?_
  have hcont : ContinuousAt (fun y => g0 + a * y) x := by fun_prop
  have hev : ∀ᶠ y in nhds x, 0 < g0 + a * y := hcont.eventually (lt_mem_nhds hg)
  filter_upwards [hev] with y hy
  have : max (-(g0 + a * y)) 0 = 0 := max_eq_right (by linarith)
  show ε * max (-(g0 + a * y)) 0 = (0 : ℝ)
  rw [this, mul_zero]

end contact

section follower

/-- `FollowingPressure`: the area-weighted deformed normal is `n = a ⨯₃ b` with `a = Σ_j ∂φ_j/∂r x_j`, `b = Σ_j ∂φ_j/∂s x_j`.
Moving node `j` by `e` changes `a` by `r e` and `b` by `s e` (`r = ∂φ_j/∂r`, `s = ∂φ_j/∂s`), and the normal EXACTLY by
`r (e × b) + s (a × e)` (the second-order term `r s (e × e)` vanishes): this is the tangent
`∂n/∂u_j = s S(a) − r S(b)` of the operator, with no remainder along a single-node move. -/
theorem follower_normal_increment (a b e : Fin 3 → ℝ) (r s : ℝ) :
    (a + r • e) ⨯₃ (b + s • e) = a ⨯₃ b + (r • (e ⨯₃ b) + s • (a ⨯₃ e)) := by
  ext i
  fin_cases i <;> simp [cross_apply] <;> ring

/-- `S(v) w = v × w` for the skew matrix of the code -/
def skew (v : Fin 3 → ℝ) : Matrix (Fin 3) (Fin 3) ℝ :=
  !![0, -v 2, v 1; v 2, 0, -v 0; -v 1, v 0, 0]

theorem skew_mulVec (v w : Fin 3 → ℝ) : (skew v).mulVec w = v ⨯₃ w := by
  ext i
  fin_cases i <;> simp [skew, cross_apply, Matrix.mulVec, dotProduct, Fin.sum_univ_three] <;> ring

/-- the increment written with the skew matrices the code assembles: `(s S(a) − r S(b)) e` -/
theorem follower_normal_tangent (a b e : Fin 3 → ℝ) (r s : ℝ) :
    (a + r • e) ⨯₃ (b + s • e) - a ⨯₃ b = (s • skew a - r • skew b).mulVec e := by
  rw [follower_normal_increment]
  ext i
  fin_cases i <;> simp [skew, cross_apply, Matrix.mulVec, dotProduct, Fin.sum_univ_three, Matrix.sub_apply] <;> ring

end follower

end EasyFEAVerif.Props.C18.Operators
