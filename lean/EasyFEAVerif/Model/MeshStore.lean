/-! Where the meshes of a simulation's history live once the simulation has been saved
(`_Simu.Save`, `_Simu.__Load_mesh`, `_Simu.__Update_mesh`, the `mesh` setter and the `folder` setter).
`Save(folder)` writes every mesh of the history to `folder/Meshes/mesh{i}` and keeps, instead of the mesh, that path
relative to `folder`; the folder of the last save is remembered and used to read the meshes back, whatever `self.folder`
has become since. -/
namespace EasyFEAVerif.MeshStore

inductive Entry (M : Type) where
  | mem (m : M)        -- the mesh object itself
  | disk               -- "Meshes/mesh{i}", relative to the folder of the last save

structure St (M : Type) where
  list : List (Entry M)
  folder : Nat                      -- self.folder (0 stands for "")
  folderMeshes : Nat                -- folder of the last Save
  files : Nat → Nat → Option M      -- folder → index → content of Meshes/mesh{index}

inductive Op (M : Type) where
  | setMesh (m : M)     -- simu.mesh = m
  | setFolder (f : Nat) -- simu.folder = f (also done by Save_Iter users between saves)
  | save (f : Nat)      -- simu.Save(f)

/-- reading entry `i` of the history (`__Update_mesh`, `_Gather`, `Save`): `readFrom` is the folder the relative path is joined to -/
def load {M : Type} (s : St M) (readFrom : Nat) (i : Nat) : Option M :=
  match s.list[i]? with
  | some (.mem m) => some m
  | some .disk => s.files readFrom i
  | none => none

/-- the current code: paths are joined to the folder of the last save -/
def readMesh {M : Type} (s : St M) (i : Nat) : Option M := load s s.folderMeshes i

/-- the code before the `fix:` commit 971eec5: paths were joined to `self.folder` -/
def readMeshUnfixed {M : Type} (s : St M) (i : Nat) : Option M := load s s.folder i

def init {M : Type} (m0 : M) : St M := { list := [.mem m0], folder := 0, folderMeshes := 0, files := fun _ _ => none }

/-- `Save(f)` with the meshes read through `rd`; it fails (Load_Mesh asserts that the file exists) when one cannot be read -/
def savedState {M : Type} (rd : St M → Nat → Option M) (s : St M) (f : Nat) : St M :=
  let s1 := { s with folder := f }
  let read := (List.range s.list.length).map (rd s1)
  { s1 with
    list := s.list.map fun _ => Entry.disk
    folderMeshes := f
    files := fun g i => if g = f then (if i < s.list.length then (read[i]?).join else s.files g i) else s.files g i }

def saveWith {M : Type} (rd : St M → Nat → Option M) (s : St M) (f : Nat) : Option (St M) :=
  if ((List.range s.list.length).map (rd { s with folder := f })).all Option.isSome then some (savedState rd s f) else none

def stepWith {M : Type} (rd : St M → Nat → Option M) (s : St M) : Op M → Option (St M)
  | .setMesh m => some { s with list := s.list ++ [.mem m] }
  | .setFolder f => some { s with folder := f }
  | .save f => saveWith rd s f

def step {M : Type} : St M → Op M → Option (St M) := stepWith readMesh
def stepUnfixed {M : Type} : St M → Op M → Option (St M) := stepWith readMeshUnfixed

def runWith {M : Type} (rd : St M → Nat → Option M) : St M → List (Op M) → Option (St M)
  | s, [] => some s
  | s, op :: ops => (stepWith rd s op).bind fun s' => runWith rd s' ops

/-- the specification: the history is the list of meshes the simulation has held, in order -/
def specStep {M : Type} (h : List M) : Op M → List M
  | .setMesh m => h ++ [m]
  | _ => h

end EasyFEAVerif.MeshStore
