/-
Model of the iteration history of a simulation (EasyFEA/Simulations/_simu.py: Save_Iter,
Get_results, Set_Iter, the `folder` attribute): each saved iteration is either kept in memory
or written to `folder/Results/results<Niter>.pickle`; the mode is pinned per entry at write
time. A file is identified by (folder, Niter) — the injectivity of the file-name encoding and
pickle's round trip are assumptions. Core Lean only.
-/
namespace EasyFEAVerif.IterStore

abbrev Path := String × Nat

inductive Entry (S : Type) where
  | mem (s : S)
  | disk (p : Path)

structure Store (S : Type) where
  entries : List (Entry S)
  /-- file system: most recent write first -/
  fs : List (Path × S)
  niter : Nat
  folder : String
  /-- the live state of the simulation (fields, internal variables, mesh index) -/
  live : S

inductive Op (S : Type) where
  | solve (s : S)          -- a solve replaces the live state
  | save                   -- Save_Iter: snapshot of the live state
  | setFolder (f : String)
  | setIter (i : Nat)      -- Set_Iter(i): restore
  | query (i : Nat)        -- Get_results(i) / Result(name, iter=i) without side effect on the log

def lookup {S : Type} (fs : List (Path × S)) (p : Path) : Option S :=
  match fs with
  | [] => none
  | (q, s) :: r => if q = p then some s else lookup r p

def getIter {S : Type} (st : Store S) (i : Nat) : Option S :=
  match st.entries[i]? with
  | some (.mem s) => some s
  | some (.disk p) => lookup st.fs p
  | none => none

def step {S : Type} (st : Store S) : Op S → Store S
  | .solve s => { st with live := s }
  | .save =>
    if st.folder = "" then
      { st with entries := st.entries ++ [.mem st.live], niter := st.niter + 1 }
    else
      { st with entries := st.entries ++ [.disk (st.folder, st.niter)],
                fs := ((st.folder, st.niter), st.live) :: st.fs, niter := st.niter + 1 }
  | .setFolder f => { st with folder := f }
  | .setIter i =>
    match getIter st i with
    | some s => { st with live := s }
    | none => st
  | .query _ => st

/-- abstract specification: the append-only log of saved snapshots, and the live state -/
def specStep {S : Type} (sp : List S × S) : Op S → List S × S
  | .solve s => (sp.1, s)
  | .save => (sp.1 ++ [sp.2], sp.2)
  | .setFolder _ => sp
  | .setIter i => match sp.1[i]? with
    | some s => (sp.1, s)
    | none => sp
  | .query _ => sp

def init {S : Type} (s0 : S) (folder : String) : Store S :=
  { entries := [], fs := [], niter := 0, folder := folder, live := s0 }

end EasyFEAVerif.IterStore
