/-
Executable model of the constraint handling of EasyFEA:
  * `BoundaryCondition.Get_dofs_nodes`, concatenation of conditions   (FEM/_boundary_conditions.py)
  * `Bc_vector_Dirichlet`, `Bc_dofs_known_unknown`, orphan-node diagonal (Simulations/_simu.py)
  * `__Solver_1` (elimination) and `__Solver_2` (bordered Lagrange system) (Simulations/Solvers.py)
Exact rational arithmetic; the linear solver backend is replaced by exact Gaussian
elimination. Core Lean only.
-/
namespace EasyFEAVerif.Constraints

/-- `Get_dofs_nodes`: dof = node * (number of unknowns per node) + index of the unknown;
node-major order. An unknown that is not available leaves 0 in its column (what the code does
after printing an error). -/
def dofsNodes (available : List String) (nodes : List Nat) (unknowns : List String) : List Nat :=
  nodes.flatMap fun n => unknowns.map fun u =>
    match available.idxOf? u with
    | some idx => n * available.length + idx
    | none => 0

/-- `scipy.sparse.csr_matrix((values, (dofs, 0)), shape=(size, 1))`: duplicates are summed -/
def dirichletVector (size : Nat) (dofs : List Nat) (values : List Rat) : List Rat :=
  (List.range size).map fun d =>
    ((List.zip dofs values).filter (fun p => p.1 == d)).foldr (fun p acc => p.2 + acc) 0

/-- `Bc_dofs_known_unknown`: (known sorted unique, unknown sorted) -/
def knownUnknown (nDof : Nat) (dofsKnown : List Nat) : List Nat × List Nat :=
  ((List.range nDof).filter (fun d => dofsKnown.contains d), (List.range nDof).filter (fun d => !dofsKnown.contains d))

abbrev Mat := List (List Rat)
abbrev Vec := List Rat

def mget (A : Mat) (i j : Nat) : Rat := (A.getD i []).getD j 0
def vget (v : Vec) (i : Nat) : Rat := v.getD i 0
def matVec (A : Mat) (x : Vec) : Vec := A.map fun r => (List.zipWith (· * ·) r x).foldr (· + ·) 0
def subMat (A : Mat) (rows cols : List Nat) : Mat := rows.map fun i => cols.map fun j => mget A i j
def subVec (v : Vec) (idx : List Nat) : Vec := idx.map (vget v)

/-- one elimination step on the augmented rows: pivot search, normalisation, elimination -/
def pivotStep (rows : List (List Rat)) (col : Nat) (done : List (List Rat)) : Option (List (List Rat) × List (List Rat)) :=
  match rows.find? (fun r => r.getD col 0 != 0) with
  | none => none
  | some p =>
    let rest := rows.erase p
    let pc := p.getD col 0
    let pn := p.map (· / pc)
    let elim := fun (r : List Rat) => let f := r.getD col 0; List.zipWith (fun a b => a - f * b) r pn
    some (rest.map elim, done.map elim ++ [pn])

/-- exact solution of a square system by Gauss–Jordan elimination; `none` if singular -/
def solve (A : Mat) (b : Vec) : Option Vec :=
  let n := A.length
  let aug := List.zipWith (fun r bi => r ++ [bi]) A b
  let rec go (k : Nat) (col : Nat) (rows done : List (List Rat)) : Option (List (List Rat)) :=
    match k with
    | 0 => some done
    | k + 1 =>
      match pivotStep rows col done with
      | none => none
      | some (rows', done') => go k (col + 1) rows' done'
  (go n 0 aug []).map fun done => done.map fun r => r.getD n 0

/-- orphan-node diagonal: `A + diag(1 at orphan dofs)` -/
def addOrphanDiag (A : Mat) (orphanDofs : List Nat) : Mat :=
  (List.zip (List.range A.length) A).map fun (i, r) =>
    (List.zip (List.range r.length) r).map fun (j, a) => if i == j && orphanDofs.contains i then a + 1 else a

/-- `__Solver_1`: x_c from the (duplicate-summing) Dirichlet vector, x_i = A_ii⁻¹ (b_i − A_ic x_c) -/
def solver1 (A : Mat) (b : Vec) (dofs : List Nat) (values : List Rat) : Option Vec :=
  let n := A.length
  let xc := dirichletVector n dofs values
  let (known, unknown) := knownUnknown n dofs
  let Aii := subMat A unknown unknown
  let Aic := subMat A unknown known
  let bi := List.zipWith (· - ·) (subVec b unknown) (matVec Aic (subVec xc known))
  (solve Aii bi).map fun xi =>
    (List.range n).map fun d =>
      match unknown.idxOf? d with
      | some k => xi.getD k 0
      | none => vget xc d

/-- one Lagrange condition: Σ coefs_k x[dofs_k] = value -/
structure LagrangeCond where
  dofs : List Nat
  coefs : List Rat
  value : Rat
  deriving Repr

/-- `__Solver_2`: the bordered system (size n + nDirichlet + nLagrange) with the code's scaling α -/
def bordered (A : Mat) (b : Vec) (alpha : Rat) (dofs : List Nat) (values : List Rat) (lag : List LagrangeCond) :
    Mat × Vec :=
  let n := b.length
  let nD := dofs.length
  let N := n + nD + lag.length
  let entry := fun (i j : Nat) =>
    if i < n && j < n then mget A i j
    else
      -- Dirichlet rows / columns
      let dpart := fun (r c : Nat) => if r ≥ n && r < n + nD && c < n && dofs.getD (r - n) N == c then alpha else 0
      -- Lagrange rows / columns
      let lpart := fun (r c : Nat) =>
        if r ≥ n + nD && c < n then
          match lag[r - n - nD]? with
          | some l => ((List.zip l.dofs l.coefs).filter (fun p => p.1 == c)).foldr (fun p acc => alpha * p.2 + acc) 0
          | none => 0
        else 0
      dpart i j + dpart j i + lpart i j + lpart j i
  let M := (List.range N).map fun i => (List.range N).map fun j => entry i j
  let rhs := (List.range N).map fun i =>
    if i < n then vget b i
    else if i < n + nD then alpha * values.getD (i - n) 0
    else match lag[i - n - nD]? with
      | some l => alpha * l.value
      | none => 0
  (M, rhs)

def solver2 (A : Mat) (b : Vec) (alpha : Rat) (dofs : List Nat) (values : List Rat) (lag : List LagrangeCond) :
    Option (Vec × Vec) :=
  let (M, rhs) := bordered A b alpha dofs values lag
  (solve M rhs).map fun x => (x.take b.length, x.drop b.length)

end EasyFEAVerif.Constraints
