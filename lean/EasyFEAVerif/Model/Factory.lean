/-
Specification side of the rule factory `Gauss_factory(elemType, matrixType)`:
which reference shape and which degree of exactness each pair needs. Core Lean only.
-/
import EasyFEAVerif.Model.Quad

namespace EasyFEAVerif
namespace Factory

/-- reference shape of an element type name (hand-written spec) -/
def shapeOf (et : String) : Option Shape :=
  if et.startsWith "SEG" then some .segment
  else if et.startsWith "TRI" then some .triangle
  else if et.startsWith "QUAD" then some .quadrangle
  else if et.startsWith "TETRA" then some .tetrahedron
  else if et.startsWith "HEXA" then some .hexahedron
  else if et.startsWith "PRISM" then some .prism
  else none

/-- Degree the rule of (element type, matrix type) must integrate exactly on affine
elements so that the element integrals are exact (hand-written spec):
'mass' (N·N): 2·order; 'rigi' (∇N·∇N): 2·(order-1) on simplices and segments, 2·order per
direction on tensor-product cells. `none`: no requirement is claimed — the
deliberately under-integrated stiffness of QUAD8 and PRISM15, the beam rules
(dealt with by the beam properties) and TRI15 'mass' (known finding). -/
def requiredDegree (et mt : String) (order : Nat) : Option (Nat × Nat) :=
  if mt == "mass" then
    if et == "TRI15" then none else some (2 * order, 2 * order)
  else if mt == "rigi" then
    if et == "QUAD8" || et == "PRISM15" then none
    else if et.startsWith "SEG" || et.startsWith "TRI" || et.startsWith "TETRA" then
      some (2 * (order - 1), 2 * (order - 1))
    else some (2 * order, 2 * order)
  else none

/-- One factory entry: it is one of the tabulated rules of the right shape, all its
weights are positive, and its degree of exactness covers `requiredDegree`. -/
def entryOK (rules : List (String × Rule × Nat × Nat × Rat)) (order : String → Nat)
    (f : String × String × Rule) : Bool :=
  let et := f.1; let mt := f.2.1; let R := f.2.2
  R.positiveOK &&
  rules.any fun r =>
    decide (some r.2.1.shape = shapeOf et) && decide (r.2.1.d = R.d) &&
    decide (r.2.1.pts = R.pts) && decide (r.2.1.w = R.w) &&
    (match requiredDegree et mt (order et) with
     | none => true
     | some (k, kz) => decide (k ≤ r.2.2.1) && (R.shape != .prism || decide (kz ≤ r.2.2.2.1)))

end Factory
end EasyFEAVerif
