/-
Reflected checks for the hyperelastic invariants and laws generated in `Gen/C18/Laws.lean` (core Lean only).
Invariant tables: an entry `(q, k)` stands for `q·√2^k`; variables 0..5 are (cxx, cyy, czz, cyz, cxz, cxy); the
Kelvin–Mandel component `r ≥ 3` is `√2 ×` the tensor component, so `∂/∂(Kelvin_r) = (1/√2) ∂/∂x_r`.
Law tables: variables 0 = I1, 1 = I2, 2 = w = I3^(1/6); an entry `(P, m)` stands for `P / w^m`;
`∂/∂I3 = (1 / (6 w⁵)) ∂/∂w`. A law may carry a term `L · log w` (`L` a polynomial in the parameters).
-/
import EasyFEAVerif.Model.PExpr
import EasyFEAVerif.Model.KelvinRot

namespace EasyFEAVerif.HyperLaws

open EasyFEAVerif PExpr

def two (n : Nat) : PExpr := .const ((2 : Rat) ^ n)
def shear (r : Nat) : Nat := if r ≥ 3 then 1 else 0

/-- `q·√2^a = p·√2^b` as a polynomial identity (both sides zero when the powers of √2 differ by an odd number) -/
def eqSqrt2 (q : PExpr) (a : Nat) (p : PExpr) (b : Nat) : Bool :=
  if (a + b) % 2 == 0 then
    (if a ≥ b then PExpr.eqv (.mul (two ((a - b) / 2)) q) p else PExpr.eqv q (.mul (two ((b - a) / 2)) p))
  else PExpr.eqv q (.const 0) && PExpr.eqv p (.const 0)

def entry1 (t : List (PExpr × Nat)) (r : Nat) : PExpr × Nat := t.getD r (.const 0, 0)
def entry2 (t : List (List (PExpr × Nat))) (r s : Nat) : PExpr × Nat := (t.getD r []).getD s (.const 0, 0)

/-- the gradient table is the Kelvin–Mandel gradient of the invariant: `dI[r]·s_r = ∂I/∂x_r` -/
def gradOK (I : PExpr) (dI : List (PExpr × Nat)) : Bool :=
  dI.length == 6 && (List.range 6).all fun r =>
    let e := entry1 dI r
    eqSqrt2 e.1 (e.2 + shear r) (PExpr.pd r I) 0

/-- the Hessian table is the Kelvin–Mandel gradient of the gradient table: `d2I[r][s]·s_s = ∂(dI[r])/∂x_s`, and symmetric -/
def hessOK (dI : List (PExpr × Nat)) (d2I : List (List (PExpr × Nat))) : Bool :=
  d2I.length == 6 && (List.range 6).all fun r => (List.range 6).all fun s =>
    let h := entry2 d2I r s
    let g := entry1 dI r
    eqSqrt2 h.1 (h.2 + shear s) (PExpr.pd s g.1) g.2 &&
    (let h' := entry2 d2I s r; eqSqrt2 h.1 h.2 h'.1 h'.2)

def wpow (n : Nat) : PExpr := .pow (.var 2) n

/-- `D = ∂(P/w^m)/∂I_i` for `i = 0, 1` (I1, I2): `D.1 · w^m = ∂P/∂I_i · w^(D.2)` -/
def dInvOK (i : Nat) (W D : PExpr × Nat) : Bool :=
  PExpr.eqv (.mul D.1 (wpow W.2)) (.mul (PExpr.pd i W.1) (wpow D.2))

/-- `D = ∂(P/w^m)/∂I3` with `I3 = w⁶`: `6 · D.1 · w^(m+6) = (∂P/∂w · w − m·P) · w^(D.2)` -/
def dI3OK (W D : PExpr × Nat) : Bool :=
  PExpr.eqv (.mul (.mul (.const 6) D.1) (wpow (W.2 + 6)))
    (.mul (.sub (.mul (PExpr.pd 2 W.1) (.var 2)) (.mul (.const (W.2 : Rat)) W.1)) (wpow D.2))

def partialOK (b : Nat) (W D : PExpr × Nat) : Bool := if b == 2 then dI3OK W D else dInvOK b W D

/-- first derivatives of a law -/
def lawFirstOK (W : PExpr × Nat) (dW : List (PExpr × Nat)) : Bool :=
  dW.length == 3 && (List.range 3).all fun b => partialOK b W (entry1 dW b)

/-- second derivatives: `d2W[a][b] = ∂(dW[a])/∂I_b`, and the table is symmetric -/
def lawSecondOK (dW : List (PExpr × Nat)) (d2W : List (List (PExpr × Nat))) : Bool :=
  d2W.length == 3 && (List.range 3).all fun a => (List.range 3).all fun b =>
    partialOK b (entry1 dW a) (entry2 d2W a b) &&
    (let h := entry2 d2W a b; let h' := entry2 d2W b a
     PExpr.eqv (.mul h.1 (wpow h'.2)) (.mul h'.1 (wpow h.2)))

/-- reference configuration `C = I`: `I1 = I2 = 3`, `w = 1` -/
def σref (v : Nat) : PExpr := if v = 0 then .const 3 else if v = 1 then .const 3 else if v = 2 then .const 1 else .var v

/-- the energy vanishes and the stress `2 (W₁ ∇I1 + W₂ ∇I2 + W₃ ∇I3)` vanishes at `C = I` (∇I1 = m, ∇I2 = 2m, ∇I3 = m) -/
def refOK (W : PExpr × Nat) (dW : List (PExpr × Nat)) : Bool :=
  PExpr.eqv (KelvinRot.subst σref W.1) (.const 0) &&
  PExpr.eqv (KelvinRot.subst σref (.add (.add (entry1 dW 0).1 (.mul (.const 2) (entry1 dW 1).1)) (entry1 dW 2).1)) (.const 0)

def lawOK (W : PExpr × Nat) (dW : List (PExpr × Nat)) (d2W : List (List (PExpr × Nat))) : Bool :=
  lawFirstOK W dW && lawSecondOK dW d2W && refOK W dW

/-! ### laws with a logarithmic volumetric term: energy `P/w^m + L·log w` -/

/-- `D = ∂(P/w^m + L·log w)/∂I3` with `I3 = w⁶`: `6·D.1·w^(m+6) = (∂P/∂w·w − m·P + L·w^m)·w^(D.2)` -/
def dI3LogOK (W : PExpr × Nat) (L : PExpr) (D : PExpr × Nat) : Bool :=
  PExpr.eqv (.mul (.mul (.const 6) D.1) (wpow (W.2 + 6)))
    (.mul (.add (.sub (.mul (PExpr.pd 2 W.1) (.var 2)) (.mul (.const (W.2 : Rat)) W.1)) (.mul L (wpow W.2))) (wpow D.2))

/-- the coefficient of `log w` does not depend on I1, I2, w (variables 0, 1, 2) -/
def σfree (v : Nat) : PExpr := if v ≤ 2 then .const 1 else .var v
def logCoefOK (L : PExpr) : Bool := PExpr.eqv (KelvinRot.subst σfree L) L

def lawFirstLogOK (W : PExpr × Nat) (L : PExpr) (dW : List (PExpr × Nat)) : Bool :=
  dW.length == 3 && dInvOK 0 W (entry1 dW 0) && dInvOK 1 W (entry1 dW 1) && dI3LogOK W L (entry1 dW 2) && logCoefOK L

def lawLogOK (W : PExpr × Nat) (L : PExpr) (dW : List (PExpr × Nat)) (d2W : List (List (PExpr × Nat))) : Bool :=
  lawFirstLogOK W L dW && lawSecondOK dW d2W && refOK W dW

end EasyFEAVerif.HyperLaws
