/-
State-machine model of cache coherence in a simulation (EasyFEA/Simulations/_simu.py,
Utilities/_params.py, Utilities/_observers.py, FEM/_mesh.py): what the assembled K, C, M
depend on, which public operation changes it, which one raises `needUpdate`, and who is
notified. Hand-written; the correspondence harness compares the flag after every
operation with the real `simu.needUpdate`. Core Lean only.
-/
namespace EasyFEAVerif.Coherence

/-- everything the assembled matrices depend on, as version counters -/
structure Config where
  param : Nat      -- material / model parameters, density, damping coefficients
  meshId : Nat     -- which mesh object is current
  coord : Nat → Nat  -- coordinate version of every mesh object
  sysSize : Nat    -- boundary-condition data that resizes the system (Lagrange multipliers)
  algo : Nat       -- time scheme (weights of K, C, M in the system matrix are applied at solve time)

structure State where
  cur : Config
  /-- configuration for which the cached K, C, M, F were assembled -/
  cachedParam : Nat
  cachedMesh : Nat
  cachedCoord : Nat
  cachedSize : Nat
  needUpdate : Bool
  /-- meshes that notify this simulation -/
  observed : List Nat
  nextMesh : Nat

inductive Op where
  | setParam            -- descriptor __set__ on the model / simulation (E, v, rho, damping…): Need_Update + notify
  | moveMesh (m : Nat)  -- Translate / Rotate / Symmetry / `coord =` on mesh object m: notifies its observers
  | replaceMesh         -- `simu.mesh = newMesh`
  | backToMesh (m : Nat) -- Set_Iter onto an iteration saved with mesh m (`__Update_mesh`)
  | bcLagrange          -- Bc_Init / _Bc_Add_Lagrange / add_dirichlet while multipliers exist
  | bcOther             -- boundary-condition changes that do not resize the system
  | setAlgo             -- Solver_Set_*_Algorithm
  | read                -- Get_K_C_M_F / Solve / Result: assemble when the flag is raised
  deriving Repr

def coordBump (c : Nat → Nat) (m : Nat) : Nat → Nat := fun k => if k = m then c k + 1 else c k

/-- the wiring of the current code (after the `fix:` commits recorded in known_findings.txt) -/
def step (s : State) : Op → State
  | .setParam => { s with cur := { s.cur with param := s.cur.param + 1 }, needUpdate := true }
  | .moveMesh m =>
    let cur := { s.cur with coord := coordBump s.cur.coord m }
    if s.observed.contains m then { s with cur := cur, needUpdate := true } else { s with cur := cur }
  | .replaceMesh =>
    { s with cur := { s.cur with meshId := s.nextMesh }, nextMesh := s.nextMesh + 1,
             observed := s.nextMesh :: s.observed, needUpdate := true }
  | .backToMesh m => { s with cur := { s.cur with meshId := m }, needUpdate := true }
  | .bcLagrange => { s with cur := { s.cur with sysSize := s.cur.sysSize + 1 }, needUpdate := true }
  | .bcOther => s
  | .setAlgo => { s with cur := { s.cur with algo := s.cur.algo + 1 } }
  | .read =>
    if s.needUpdate then
      { s with cachedParam := s.cur.param, cachedMesh := s.cur.meshId, cachedCoord := s.cur.coord s.cur.meshId,
               cachedSize := s.cur.sysSize, needUpdate := false }
    else s

/-- the wiring before the repairs: the mesh setter did not subscribe to the new mesh and
`bcLagrange` did not raise the flag -/
def stepUnfixed (s : State) : Op → State
  | .replaceMesh =>
    { s with cur := { s.cur with meshId := s.nextMesh }, nextMesh := s.nextMesh + 1, needUpdate := true }
  | .bcLagrange => { s with cur := { s.cur with sysSize := s.cur.sysSize + 1 } }
  | op => step s op

/-- the cached system is the one a freshly built simulation would assemble -/
def Fresh (s : State) : Prop :=
  s.cachedParam = s.cur.param ∧ s.cachedMesh = s.cur.meshId ∧ s.cachedCoord = s.cur.coord s.cur.meshId ∧
  s.cachedSize = s.cur.sysSize

def Coherent (s : State) : Prop := s.needUpdate = true ∨ Fresh s

/-- the simulation is subscribed to its current mesh and mesh ids are allocated in order -/
def Wired (s : State) : Prop := s.cur.meshId ∈ s.observed ∧ (∀ m ∈ s.observed, m < s.nextMesh) ∧ s.cur.meshId < s.nextMesh

def init : State :=
  { cur := { param := 0, meshId := 0, coord := fun _ => 0, sysSize := 0, algo := 0 },
    cachedParam := 0, cachedMesh := 0, cachedCoord := 0, cachedSize := 0, needUpdate := true,
    observed := [0], nextMesh := 1 }

end EasyFEAVerif.Coherence
