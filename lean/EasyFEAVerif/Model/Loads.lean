/-
Model of the integration of distributed loads
  `_Simu.__Bc_Integration_Dim`, `__Bc_pointLoad`, `__Bc_pressureload`, `add_*Load`
  (EasyFEA/Simulations/_simu.py) and `_GroupElem.Get_Elements_Nodes` (EasyFEA/FEM/_group_elem.py).
Index sets are finite types: `P` Gauss points, `Nd` nodes of the element, `E` elements, `I` global nodes.
The einsum strings the definitions read are listed in `Gen/C09/Spec.lean` (extracted from the source on
every run) and compared in `Props/C09.lean`.
-/
import Mathlib.Algebra.BigOperators.Group.Finset.Basic
import Mathlib.Algebra.BigOperators.Ring.Finset
import Mathlib.Algebra.Ring.Defs

namespace EasyFEAVerif.Loads

open Finset

variable {K : Type*} [CommRing K]
variable {P Nd E I : Type*} [Fintype P] [Fintype Nd] [Fintype E] [Fintype I]

/-- `np.einsum("ep,ep,pin->epn", wJ, q, N)` summed over `p`: nodal forces of one element for a density
sampled at its Gauss points -/
def elemLoad (wJ q : P → K) (N : P → Nd → K) (n : Nd) : K := ∑ p, wJ p * q p * N p n

/-- `np.einsum("en,pin->ep", q_n, N)`: a nodal array interpolated at the Gauss points -/
def interpGauss (qn : Nd → K) (N : P → Nd → K) (p : P) : K := ∑ n, qn n * N p n

/-- nodal-array branch of `__Bc_Integration_Dim` -/
def elemLoadNodal (wJ : P → K) (qn : Nd → K) (N : P → Nd → K) : Nd → K :=
  elemLoad wJ (interpGauss qn N) N

/-- the nodal-array branch before the repair: `np.einsum("ep,en,pin->epn", wJ, q_n, N)` -/
def elemLoadLumped (wJ : P → K) (qn : Nd → K) (N : P → Nd → K) (n : Nd) : K := ∑ p, wJ p * qn n * N p n

/-- position of the Gauss points of an isoparametric element (one coordinate) -/
def gaussCoord (x : Nd → K) (N : P → Nd → K) (p : P) : K := ∑ n, N p n * x n

/-- `Bc_vector_Neumann`: the sparse constructor sums the entries that share a dof -/
def assemble [DecidableEq I] (conn : E → Nd → I) (f : E → Nd → K) (i : I) : K :=
  ∑ e, ∑ n, if conn e n = i then f e n else 0

/-! ### `Get_Elements_Nodes(nodes, exclusively=True)` -/

variable [DecidableEq I] [DecidableEq E]

/-- elements touched by the node set -/
def touched (conn : E → Nd → I) (S : Finset I) : Finset E := univ.filter fun e => ∃ n, conn e n ∈ S
/-- nodes of the touched elements that are not in the set -/
def intruders (conn : E → Nd → I) (S : Finset I) : Finset I :=
  ((touched conn S).biUnion fun e => univ.image (conn e)) \ S
/-- the selection: touched elements minus the elements that use an intruder -/
def exclusive (conn : E → Nd → I) (S : Finset I) : Finset E :=
  touched conn S \ univ.filter fun e => ∃ n, conn e n ∈ intruders conn S

end EasyFEAVerif.Loads
