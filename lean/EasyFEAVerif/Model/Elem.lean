/-
Executable model of one element class of EasyFEA/FEM/Elems: the reference nodes and
the tables `_N, _dN, _ddN, _dddN, _ddddN` (and the Hermite tables of the beam
elements), as reflected polynomials, plus the Boolean checks that the kernel runs.
Core Lean only.
-/
import EasyFEAVerif.Model.PExpr

namespace EasyFEAVerif

/-- A point given by its list of coordinates (missing coordinates are 0). -/
def pt (c : List Rat) : Nat → Rat := fun i => c.getD i 0

/-- The monomial `Π xᵢ^eᵢ` as an expression. -/
def monExpr (m : Mon) : PExpr :=
  go 0 m
where
  go : Nat → Mon → PExpr
    | _, [] => .const 1
    | i, e :: es => .mul (.pow (.var i) e) (go (i + 1) es)

structure ElemData where
  name  : String
  dim   : Nat
  order : Nat
  nPe   : Nat
  /-- `Get_Local_Coords()`: one row per node. -/
  nodes : List (List Rat)
  /-- `_N()`: one function per node. -/
  N     : List PExpr
  /-- `_dN()` … `_ddddN()`: `[node][axis]`. -/
  dN    : List (List PExpr)
  ddN   : List (List PExpr)
  dddN  : List (List PExpr)
  ddddN : List (List PExpr)
  deriving Repr

namespace ElemData

def Ni (E : ElemData) (i : Nat) : PExpr := E.N.getD i (.const 0)
def node (E : ElemData) (j : Nat) : Nat → Rat := pt (E.nodes.getD j [])
def tab (T : List (List PExpr)) (i a : Nat) : PExpr := (T.getD i []).getD a (.const 0)

def tableShape (E : ElemData) (T : List (List PExpr)) : Bool :=
  T.length == E.nPe && T.all (fun r => r.length == E.dim)

def shapeOK (E : ElemData) : Bool :=
  E.nodes.length == E.nPe && E.nodes.all (fun r => r.length == E.dim) &&
  E.N.length == E.nPe &&
  E.tableShape E.dN && E.tableShape E.ddN && E.tableShape E.dddN && E.tableShape E.ddddN

/-- `N_i(x_j) = δ_ij`. -/
def kroneckerOK (E : ElemData) : Bool :=
  (List.range E.nPe).all fun i => (List.range E.nPe).all fun j =>
    (E.Ni i).evalQ (E.node j) == (if i = j then 1 else 0)

/-- `Σ N_i = 1` as a polynomial identity. -/
def pouOK (E : ElemData) : Bool := PExpr.eqv (PExpr.sum E.N) (.const 1)

/-- all monomials of `d` variables with every exponent ≤ k -/
def tensorMons : Nat → Nat → List Mon
  | 0, _ => [[]]
  | d + 1, k => (List.range (k + 1)).flatMap fun e => (tensorMons d k).map (e :: ·)

def totalDeg (m : Mon) : Nat := m.foldl (· + ·) 0

/-- Which polynomial space an element must reproduce (hand-written spec):
full tensor space Q_k for QUAD4/9, HEXA8/27; P_k(r,s)⊗P_k(t) for PRISM6/18;
P_k (total degree ≤ order) for all other types. -/
def mons (E : ElemData) : List Mon :=
  let all := tensorMons E.dim E.order
  if E.name ∈ ["QUAD4", "QUAD9", "HEXA8", "HEXA27"] then all
  else if E.name ∈ ["PRISM6", "PRISM18"] then
    all.filter fun m => m.getD 0 0 + m.getD 1 0 ≤ E.order
  else all.filter fun m => totalDeg m ≤ E.order

/-- The nodal interpolant of the monomial `m`:  Σ_i m(x_i) N_i. -/
def interp (E : ElemData) (m : Mon) : PExpr :=
  PExpr.sum (List.zipWith (fun nd N => PExpr.mul (.const ((monExpr m).evalQ (pt nd))) N) E.nodes E.N)

def reproOK (E : ElemData) : Bool :=
  (E.mons).all fun m => PExpr.eqv (E.interp m) (monExpr m)

/-- `next[i][a] = ∂/∂ξ_a prev[i][a]` as polynomial identities. -/
def derivStepOK (E : ElemData) (prev next : Nat → Nat → PExpr) : Bool :=
  (List.range E.nPe).all fun i => (List.range E.dim).all fun a =>
    PExpr.eqv (PExpr.pd a (prev i a)) (next i a)

def derivOK (E : ElemData) : Bool :=
  E.derivStepOK (fun i _ => E.Ni i) (tab E.dN) &&
  E.derivStepOK (tab E.dN) (tab E.ddN) &&
  E.derivStepOK (tab E.ddN) (tab E.dddN) &&
  E.derivStepOK (tab E.dddN) (tab E.ddddN)

def check (E : ElemData) : Bool :=
  E.shapeOK && E.kroneckerOK && E.pouOK && E.reproOK && E.derivOK

end ElemData

/-- Hermite (Euler–Bernoulli) tables of `EasyFEA/FEM/Elems/_beam.py`:
`[φ₁ ψ₁ … φₙ ψₙ]` and their first three ξ-derivatives. -/
structure HermiteData where
  name  : String
  nPe   : Nat
  nodes : List Rat
  N     : List PExpr
  dN    : List PExpr
  ddN   : List PExpr
  dddN  : List PExpr
  deriving Repr

namespace HermiteData

def f (T : List PExpr) (i : Nat) : PExpr := T.getD i (.const 0)
def nodeAt (H : HermiteData) (j : Nat) : Nat → Rat := fun _ => H.nodes.getD j 0

def shapeOK (H : HermiteData) : Bool :=
  H.nodes.length == H.nPe && H.N.length == 2 * H.nPe && H.dN.length == 2 * H.nPe &&
  H.ddN.length == 2 * H.nPe && H.dddN.length == 2 * H.nPe

def derivStepOK (H : HermiteData) (prev next : List PExpr) : Bool :=
  (List.range (2 * H.nPe)).all fun i => PExpr.eqv (PExpr.pd 0 (f prev i)) (f next i)

def derivOK (H : HermiteData) : Bool :=
  H.derivStepOK H.N H.dN && H.derivStepOK H.dN H.ddN && H.derivStepOK H.ddN H.dddN

def close (eps a b : Rat) : Bool := decide (a - b ≤ eps) && decide (b - a ≤ eps)

/-- Interpolation of value and slope, to within `eps` (0 = exactly):
`φ_i(ξ_j)=δ_ij, φ_i'(ξ_j)=0, ψ_i(ξ_j)=0, 2ψ_i'(ξ_j)=δ_ij`.
(The code multiplies ψ by L_e and dξ/dx = 2/L_e, hence the factor 2.) -/
def interpOK (H : HermiteData) (eps : Rat) : Bool :=
  (List.range H.nPe).all fun i => (List.range H.nPe).all fun j =>
    let d : Rat := if i = j then 1 else 0
    close eps ((f H.N (2 * i)).evalQ (H.nodeAt j)) d &&
    close eps ((f H.dN (2 * i)).evalQ (H.nodeAt j)) 0 &&
    close eps ((f H.N (2 * i + 1)).evalQ (H.nodeAt j)) 0 &&
    close eps (2 * (f H.dN (2 * i + 1)).evalQ (H.nodeAt j)) d

def check (H : HermiteData) (eps : Rat) : Bool :=
  H.shapeOK && H.derivOK && H.interpOK eps

end HermiteData
end EasyFEAVerif
