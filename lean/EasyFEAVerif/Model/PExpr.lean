/-
Reflected polynomial expressions over ℚ in finitely many variables, with a
(sound, not necessarily complete) normaliser that the kernel can run.
Core Lean only: this file is imported by the line-protocol driver.
-/
namespace EasyFEAVerif

/-- Polynomial expressions as they appear in the Python sources
(`lambda r, s, t: ...`): variables are numbered in the order of the lambda's
parameters. -/
inductive PExpr where
  | var   : Nat → PExpr
  | const : Rat → PExpr
  | add   : PExpr → PExpr → PExpr
  | sub   : PExpr → PExpr → PExpr
  | mul   : PExpr → PExpr → PExpr
  | neg   : PExpr → PExpr
  | pow   : PExpr → Nat → PExpr
  deriving Repr, Inhabited

namespace PExpr

/-- Exact rational evaluation (used by the driver and by concrete checks). -/
def evalQ (x : Nat → Rat) : PExpr → Rat
  | var i => x i
  | const c => c
  | add a b => evalQ x a + evalQ x b
  | sub a b => evalQ x a - evalQ x b
  | mul a b => evalQ x a * evalQ x b
  | neg a => - evalQ x a
  | pow a n => evalQ x a ^ n

/-- Formal partial derivative with respect to variable `v`. -/
def pd (v : Nat) : PExpr → PExpr
  | var i => if i = v then const 1 else const 0
  | const _ => const 0
  | add a b => add (pd v a) (pd v b)
  | sub a b => sub (pd v a) (pd v b)
  | mul a b => add (mul (pd v a) b) (mul a (pd v b))
  | neg a => neg (pd v a)
  | pow a n => mul (mul (const (n : Rat)) (pow a (n - 1))) (pd v a)

end PExpr

/-- A monomial: the list of exponents, position = variable index. -/
abbrev Mon := List Nat

/-- Product of monomials: pointwise sum of exponents, padding the shorter. -/
def Mon.mul : Mon → Mon → Mon
  | [], m => m
  | m, [] => m
  | a :: as, b :: bs => (a + b) :: Mon.mul as bs

/-- A polynomial: a list of (coefficient, monomial) terms. No invariant is needed
for soundness; `insert` merges equal monomials so that cancellation is visible. -/
abbrev Poly := List (Rat × Mon)

namespace Poly

def insert (c : Rat) (m : Mon) : Poly → Poly
  | [] => [(c, m)]
  | (c', m') :: p => if m' == m then (c' + c, m') :: p else (c', m') :: insert c m p

def add (p q : Poly) : Poly := q.foldl (fun acc t => insert t.1 t.2 acc) p

def scale (c : Rat) (m : Mon) (p : Poly) : Poly := p.map (fun t => (c * t.1, Mon.mul m t.2))

def mul (p q : Poly) : Poly := p.foldl (fun acc t => add acc (scale t.1 t.2 q)) []

def neg (p : Poly) : Poly := p.map (fun t => (-t.1, t.2))

def pow (p : Poly) : Nat → Poly
  | 0 => [(1, [])]
  | n + 1 => mul (pow p n) p

/-- All coefficients are zero. -/
def isZero (p : Poly) : Bool := p.all (fun t => t.1 == 0)

end Poly

namespace PExpr

def norm : PExpr → Poly
  | var i => [(1, List.replicate i 0 ++ [1])]
  | const c => [(c, [])]
  | add a b => Poly.add (norm a) (norm b)
  | sub a b => Poly.add (norm a) (Poly.neg (norm b))
  | mul a b => Poly.mul (norm a) (norm b)
  | neg a => Poly.neg (norm a)
  | pow a n => Poly.pow (norm a) n

/-- Decision procedure (sound): the two expressions denote the same polynomial. -/
def eqv (a b : PExpr) : Bool := (norm (sub a b)).isZero

/-- Sum of a list of expressions. -/
def sum : List PExpr → PExpr
  | [] => const 0
  | e :: es => add e (sum es)

end PExpr
end EasyFEAVerif
