/-
Executable model of the quadrature tables of EasyFEA/FEM/_gauss.py.
Numbers are exact: `a + b √d` with rational `a, b` (the field ℚ(√d); d = 1 or b = 0
for purely rational rules). Core Lean only.
-/
import EasyFEAVerif.Model.PExpr

namespace EasyFEAVerif

/-- `a + b √d` (the `d` is carried by the rule). -/
structure QS where
  a : Rat
  b : Rat
  deriving Repr, DecidableEq, BEq, Inhabited

namespace QS

def ofRat (q : Rat) : QS := ⟨q, 0⟩
def zero : QS := ⟨0, 0⟩
def one : QS := ⟨1, 0⟩
def add (x y : QS) : QS := ⟨x.a + y.a, x.b + y.b⟩
def sub (x y : QS) : QS := ⟨x.a - y.a, x.b - y.b⟩
def neg (x : QS) : QS := ⟨-x.a, -x.b⟩
def mul (d : Nat) (x y : QS) : QS := ⟨x.a * y.a + (d : Rat) * x.b * y.b, x.a * y.b + x.b * y.a⟩
def pow (d : Nat) (x : QS) : Nat → QS
  | 0 => one
  | n + 1 => mul d (pow d x n) x
def sum (l : List QS) : QS := l.foldr add zero

/-- Sound sign decision for `a + b √d`. -/
def nonneg (d : Nat) (x : QS) : Bool :=
  if 0 ≤ x.a ∧ 0 ≤ x.b then true
  else if x.a ≤ 0 ∧ x.b ≤ 0 then (x.a == 0 && x.b == 0)
  else if 0 ≤ x.a then decide ((d : Rat) * x.b * x.b ≤ x.a * x.a)
  else decide (x.a * x.a ≤ (d : Rat) * x.b * x.b)

def pos (d : Nat) (x : QS) : Bool := nonneg d x && !(x.a == 0 && x.b == 0)

def le (d : Nat) (x y : QS) : Bool := nonneg d (sub y x)

/-- `|x - y| ≤ eps` -/
def close (d : Nat) (eps : Rat) (x y : QS) : Bool :=
  nonneg d (sub (ofRat eps) (sub x y)) && nonneg d (add (ofRat eps) (sub x y))

end QS

/-- Evaluation of a polynomial expression at a point with coordinates in ℚ(√d). -/
def PExpr.evalQS (d : Nat) (x : Nat → QS) : PExpr → QS
  | .var i => x i
  | .const c => QS.ofRat c
  | .add a b => QS.add (evalQS d x a) (evalQS d x b)
  | .sub a b => QS.sub (evalQS d x a) (evalQS d x b)
  | .mul a b => QS.mul d (evalQS d x a) (evalQS d x b)
  | .neg a => QS.neg (evalQS d x a)
  | .pow a n => QS.pow d (evalQS d x a) n

inductive Shape where
  | segment | triangle | quadrangle | tetrahedron | hexahedron | prism
  deriving Repr, DecidableEq, BEq, Inhabited

namespace Shape

def dim : Shape → Nat
  | segment => 1
  | triangle => 2
  | quadrangle => 2
  | tetrahedron => 3
  | hexahedron => 3
  | prism => 3

/-- measure of the reference element (EasyFEA's reference elements) -/
def measure : Shape → Rat
  | segment => 2
  | triangle => 1 / 2
  | quadrangle => 4
  | tetrahedron => 1 / 6
  | hexahedron => 8
  | prism => 1

def fact : Nat → Nat
  | 0 => 1
  | n + 1 => (n + 1) * fact n

/-- ∫_{-1}^{1} x^k dx -/
def segMoment (k : Nat) : Rat := if k % 2 = 0 then 2 / ((k : Rat) + 1) else 0

/-- Closed-form moments ∫ ξ^α over the reference element:
segment/quadrangle/hexahedron = [-1,1]^d; triangle/tetrahedron = unit simplex
(α!β!γ!/(|α|+d)!); prism = unit triangle in (x,y) × [-1,1] in z. -/
def refMoment (s : Shape) (α : List Nat) : Rat :=
  let e := fun i => α.getD i 0
  match s with
  | segment => segMoment (e 0)
  | quadrangle => segMoment (e 0) * segMoment (e 1)
  | hexahedron => segMoment (e 0) * segMoment (e 1) * segMoment (e 2)
  | triangle => ((fact (e 0) * fact (e 1) : Nat) : Rat) / (fact (e 0 + e 1 + 2) : Nat)
  | tetrahedron => ((fact (e 0) * fact (e 1) * fact (e 2) : Nat) : Rat) / (fact (e 0 + e 1 + e 2 + 3) : Nat)
  | prism => ((fact (e 0) * fact (e 1) : Nat) : Rat) / (fact (e 0 + e 1 + 2) : Nat) * segMoment (e 2)

end Shape

structure Rule where
  shape : Shape
  /-- all numbers of the rule are `a + b √d` -/
  d : Nat
  /-- one row of coordinates per point -/
  pts : List (List QS)
  w : List QS
  deriving Repr, Inhabited

namespace Rule

def nPg (R : Rule) : Nat := R.w.length

def shapeOK (R : Rule) : Bool :=
  R.pts.length == R.w.length && R.pts.all (fun p => p.length == R.shape.dim)

def coord (p : List QS) (k : Nat) : QS := p.getD k QS.zero

/-- the point lies in the closed reference element -/
def insidePt (R : Rule) (p : List QS) : Bool :=
  let d := R.d
  let one := QS.one
  let m1 := QS.neg QS.one
  let x := coord p 0; let y := coord p 1; let z := coord p 2
  match R.shape with
  | .segment => QS.le d m1 x && QS.le d x one
  | .quadrangle => QS.le d m1 x && QS.le d x one && QS.le d m1 y && QS.le d y one
  | .hexahedron => QS.le d m1 x && QS.le d x one && QS.le d m1 y && QS.le d y one && QS.le d m1 z && QS.le d z one
  | .triangle => QS.nonneg d x && QS.nonneg d y && QS.le d (QS.add x y) one
  | .tetrahedron => QS.nonneg d x && QS.nonneg d y && QS.nonneg d z && QS.le d (QS.add (QS.add x y) z) one
  | .prism => QS.nonneg d x && QS.nonneg d y && QS.le d (QS.add x y) one && QS.le d m1 z && QS.le d z one

def insideOK (R : Rule) : Bool := R.pts.all R.insidePt

def weightSum (R : Rule) : QS := QS.sum R.w

/-- value of the monomial ξ^α at a point -/
def monAt (d : Nat) (p : List QS) (α : List Nat) : QS :=
  go 0 α
where
  go : Nat → List Nat → QS
    | _, [] => QS.one
    | k, e :: es => QS.mul d (QS.pow d (coord p k) e) (go (k + 1) es)

/-- the quadrature sum Σ_p w_p ξ_p^α -/
def quad (R : Rule) (α : List Nat) : QS :=
  QS.sum (List.zipWith (fun w p => QS.mul R.d w (monAt R.d p α)) R.w R.pts)

def momentOK (R : Rule) (eps : Rat) (α : List Nat) : Bool :=
  QS.close R.d eps (R.quad α) (QS.ofRat (R.shape.refMoment α))

/-- all exponent lists of `n` variables with every exponent ≤ k -/
def boxMons : Nat → Nat → List (List Nat)
  | 0, _ => [[]]
  | n + 1, k => (List.range (k + 1)).flatMap fun e => (boxMons n k).map (e :: ·)

def tot (α : List Nat) : Nat := α.foldl (· + ·) 0

/-- The monomials a rule of "degree (k, kz)" must integrate:
simplices: total degree ≤ k; boxes: each exponent ≤ k; prism: total degree ≤ k in
(x, y) and exponent ≤ kz in z. -/
def mons (s : Shape) (k kz : Nat) : List (List Nat) :=
  match s with
  | .segment => boxMons 1 k
  | .quadrangle => boxMons 2 k
  | .hexahedron => boxMons 3 k
  | .triangle => (boxMons 2 k).filter fun α => tot α ≤ k
  | .tetrahedron => (boxMons 3 k).filter fun α => tot α ≤ k
  | .prism => ((boxMons 2 k).filter fun α => tot α ≤ k).flatMap fun α =>
      (List.range (kz + 1)).map fun c => α ++ [c]

/-- exactness (to within eps; eps = 0 means exactly) for the whole monomial space -/
def exactOK (R : Rule) (k kz : Nat) (eps : Rat) : Bool :=
  (mons R.shape k kz).all (R.momentOK eps)

def positiveOK (R : Rule) : Bool := R.w.all (QS.pos R.d)

/-- total weight = measure (to within eps), points inside, exact to degree (k, kz) -/
def check (R : Rule) (k kz : Nat) (eps : Rat) : Bool :=
  R.shapeOK && R.insideOK && QS.close R.d eps R.weightSum (QS.ofRat R.shape.measure) && R.exactOK k kz eps

end Rule

/-! ### matrices over ℚ(√d) as lists of rows, for the rank certificates -/
namespace QMat

def row (M : List (List QS)) (i : Nat) : List QS := M.getD i []
def entry (M : List (List QS)) (i j : Nat) : QS := (row M i).getD j QS.zero

def dot (d : Nat) (u v : List QS) : QS := QS.sum (List.zipWith (QS.mul d) u v)

def col (M : List (List QS)) (j : Nat) : List QS := M.map fun r => r.getD j QS.zero

/-- `L * E = target` for `L : n × m`, `E : m × n`, checked entry by entry -/
def mulEq (d : Nat) (L E : List (List QS)) (n : Nat) (target : Nat → Nat → QS) : Bool :=
  (List.range n).all fun i => (List.range n).all fun j =>
    decide (dot d (row L i) (col E j) = target i j)

end QMat
end EasyFEAVerif

namespace EasyFEAVerif
namespace QMat

/-- shape test: `M` has `r` rows of length `c` -/
def hasShape (M : List (List QS)) (r c : Nat) : Bool :=
  M.length == r && M.all (fun row => row.length == c)

/-- Certificate check: `L : n × m`, `E : m × n` (as lists of rows) and `L * E = T`. -/
def certOK (d : Nat) (L E : List (List QS)) (n m : Nat) (T : Nat → Nat → QS) : Bool :=
  hasShape L n m && hasShape E m n && mulEq d L E n T

def kron (i j : Nat) : QS := if i = j then QS.one else QS.zero

/-- `δ_ij - 1/n`: the projector that removes the mean (kills constants) -/
def centering (n : Nat) (i j : Nat) : QS :=
  QS.sub (kron i j) (QS.ofRat (1 / (n : Rat)))

end QMat
end EasyFEAVerif
