/-
Helpers of the line-protocol model drivers (core Lean only, no Mathlib):
  lake env lean --run drivers/Cxx.lean < ops.txt
One request per line, one answer per line. Rationals are written `n/d`.
-/
import EasyFEAVerif.Model.PExpr

namespace EasyFEAVerif

def parseRat (s : String) : Option Rat :=
  match s.splitOn "/" with
  | [n] => n.toInt?.map (fun k => (k : Rat))
  | [n, d] => do
      let a ← n.toInt?
      let b ← d.toNat?
      if b = 0 then none else some ((a : Rat) / (b : Rat))
  | _ => none

def showRat (q : Rat) : String := s!"{q.num}/{q.den}"

def parseRats (l : List String) : Option (List Rat) := l.mapM parseRat


def tokens (line : String) : List String :=
  (line.trimAscii.toString.splitOn " ").filter (· ≠ "")

partial def protoLoop (step : String → String) (h : IO.FS.Stream) (out : IO.FS.Stream) : IO Unit := do
  let line ← h.getLine
  if line.isEmpty then return ()
  out.putStrLn (step line)
  protoLoop step h out

def protoMain (step : String → String) : IO Unit := do
  let out ← IO.getStdout
  protoLoop step (← IO.getStdin) out
  out.flush

end EasyFEAVerif
