/-
Face tables of the 3D elements (`faces` property, used by `MeshIO.Surface_reconstruction` to rebuild the boundary
and by `Get_dict_connect_Faces`): an executable check, in exact rational arithmetic on the reference element, that

  * every face lists corner nodes first, then the mid-edge nodes of consecutive corners, then the face centre
    (the node numbering of TRI3/TRI6/QUAD4/QUAD8/QUAD9 the face elements are created with);
  * the face is a face: its nodes lie in one plane, every node of the element is on the inner side of it, and the
    nodes of the element in that plane are exactly the listed ones;
  * the corners turn counter-clockwise seen from outside: the area vector points away from the element centre;
  * the area vectors of all faces add up to zero (the faces close the reference element).
-/
import EasyFEAVerif.Model.Elem

namespace EasyFEAVerif.Faces

abbrev V := List Rat

def sub (a b : V) : V := List.zipWith (· - ·) a b
def add (a b : V) : V := List.zipWith (· + ·) a b
def smul (c : Rat) (a : V) : V := a.map (c * ·)
def dot (a b : V) : Rat := (List.zipWith (· * ·) a b).sum
def cross (a b : V) : V :=
  match a, b with
  | [a0, a1, a2], [b0, b1, b2] => [a1 * b2 - a2 * b1, a2 * b0 - a0 * b2, a0 * b1 - a1 * b0]
  | _, _ => []
def vsum (ps : List V) : V := ps.foldl add [0, 0, 0]
def mean (ps : List V) : V := smul (1 / (ps.length : Rat)) (vsum ps)

def pt (E : ElemData) (i : Nat) : V := E.nodes.getD i []

/-- number of corners of a face element with `n` nodes (TRI3, TRI6 / QUAD4, QUAD8, QUAD9) -/
def corners (n : Nat) : Nat := if n = 3 ∨ n = 6 then 3 else if n = 4 ∨ n = 8 ∨ n = 9 then 4 else 0

/-- twice the area vector of a plane polygon given by its corners -/
def areaVec (c : List V) : V :=
  match c with
  | [p0, p1, p2] => cross (sub p1 p0) (sub p2 p0)
  | [p0, p1, p2, p3] => cross (sub p2 p0) (sub p3 p1)
  | _ => []

def faceAreaVec (E : ElemData) (f : List Nat) : V := areaVec ((f.take (corners f.length)).map (pt E))

def faceOK (E : ElemData) (f : List Nat) : Bool :=
  let k := corners f.length
  let c := (f.take k).map (pt E)
  let n := areaVec c
  let p0 := c.getD 0 []
  let centre := mean E.nodes
  k != 0 && f.all (· < E.nPe) && f.Nodup && n.length == 3
  -- outward
  && decide (0 < dot n (sub (mean c) centre))
  -- a supporting plane holding exactly the listed nodes
  && E.nodes.all (fun x => decide (dot n (sub x p0) ≤ 0))
  && f.all (fun i => dot n (sub (pt E i) p0) == 0)
  && (E.nodes.filter (fun x => dot n (sub x p0) == 0)).length == f.length
  -- consecutive corners turn the same way
  && (List.range k).all (fun i =>
        decide (0 < dot n (cross (sub (c.getD ((i + 1) % k) []) (c.getD i [])) (sub (c.getD ((i + 2) % k) []) (c.getD ((i + 1) % k) [])))))
  -- mid-edge nodes follow the corners, the face centre comes last
  && (f.length == k || (List.range k).all (fun i => pt E (f.getD (k + i) 0) == smul (1 / 2) (add (c.getD i []) (c.getD ((i + 1) % k) []))))
  && (f.length != 9 || pt E (f.getD 8 0) == mean c)

def facesOK (E : ElemData) (fs : List (List Nat)) : Bool :=
  E.dim == 3 && E.nodes.length == E.nPe && fs.all (faceOK E) && vsum (fs.map (faceAreaVec E)) == [0, 0, 0]

def tableOK (elems : List ElemData) (p : String × List (List Nat)) : Bool :=
  elems.any (fun E => E.name == p.1 && facesOK E p.2)

end EasyFEAVerif.Faces
