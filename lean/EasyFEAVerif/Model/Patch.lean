/-
Model of the element kinematics behind the patch test
  `_GroupElem.Get_F_e_pg` (F = dN_pg @ coord), `Get_invF_e_pg`, `Get_dN_e_pg` (invF @ dN_pg),
  `Get_B_e_pg` (layout read from the source: `Gen/C01/Layout.lean`)      (EasyFEA/FEM/_group_elem.py)
and of the assembled stiffness as a weighted sum over quadrature samples.
-/
import Mathlib.LinearAlgebra.Matrix.NonsingularInverse
import Mathlib.LinearAlgebra.Matrix.Adjugate

namespace EasyFEAVerif.Patch

open Matrix Finset

variable {K : Type*} [Field K] {d : ℕ} {Nd : Type*} [Fintype Nd]

/-- `Get_F_e_pg` at one Gauss point: `F[k,j] = Σ_i dN[k,i] x[i,j]` -/
def jac (dN : Matrix (Fin d) Nd K) (x : Matrix Nd (Fin d) K) : Matrix (Fin d) (Fin d) K := dN * x

/-- `Get_dN_e_pg`: derivatives of the shape functions in the physical axes, `invF @ dN_pg` -/
noncomputable def dNphys (dN : Matrix (Fin d) Nd K) (x : Matrix Nd (Fin d) K) : Matrix (Fin d) Nd K :=
  (jac dN x)⁻¹ * dN

/-- the same by Cramer's rule (what the model driver evaluates) -/
def dNphysExec (dN : Matrix (Fin d) Nd K) (x : Matrix Nd (Fin d) K) : Matrix (Fin d) Nd K :=
  ((jac dN x).det)⁻¹ • ((jac dN x).adjugate * dN)

/-- gradient of the interpolated field: `g[j,c] = ∂u_c/∂x_j = Σ_i dNphys[j,i] u[i,c]` -/
noncomputable def grad {c : ℕ} (dN : Matrix (Fin d) Nd K) (x : Matrix Nd (Fin d) K) (u : Matrix Nd (Fin c) K) :
    Matrix (Fin d) (Fin c) K := dNphys dN x * u

/-- one entry of the B layout: (strain row, displacement component, derivative axis, times 1/√2) -/
abbrev Entry (d : ℕ) := Nat × Fin d × Fin d × Bool

/-- keeps the entries of the generated layout whose indices fit the dimension -/
def typed (d : ℕ) (l : List (Nat × Nat × Nat × Bool)) : List (Entry d) :=
  l.filterMap fun e =>
    if h : e.2.1 < d ∧ e.2.2.1 < d then some (e.1, ⟨e.2.1, h.1⟩, ⟨e.2.2.1, h.2⟩, e.2.2.2) else none

def scale (s : K) (b : Bool) : K := if b then s else 1

/-- `B[r, (i, comp)]`: the entries written by `Get_B_e_pg` (`s` stands for `1/√2`) -/
def Bentry (layout : List (Entry d)) (s : K) (dNp : Matrix (Fin d) Nd K) (r : Nat) (i : Nd) (comp : Fin d) : K :=
  ((layout.filter fun e => e.1 = r ∧ e.2.1 = comp).map fun e => dNp e.2.2.1 i * scale s e.2.2.2).sum

/-- the strain vector read off a displacement gradient `g[axis, comp]` with the same layout -/
def strainOf (layout : List (Entry d)) (s : K) (g : Matrix (Fin d) (Fin d) K) (r : Nat) : K :=
  ((layout.filter fun e => e.1 = r).map fun e => g e.2.2.1 e.2.1 * scale s e.2.2.2).sum

/-- `B u_e`, row `r` -/
def Bu (layout : List (Entry d)) (s : K) (dNp : Matrix (Fin d) Nd K) (u : Matrix Nd (Fin d) K) (r : Nat) : K :=
  ∑ i, ∑ comp, Bentry layout s dNp r i comp * u i comp

/-! ### assembled stiffness as a sum over quadrature samples

`Q` indexes the pairs (element, Gauss point), `ι` the global dofs, `R` the strain rows;
`B q r j` is the strain row of sample `q` extended by zero outside its element. -/

variable {Q ι R : Type*} [Fintype Q] [Fintype ι] [Fintype R]

def stiffness (w : Q → K) (B : Q → R → ι → K) (C : R → R → K) (i j : ι) : K :=
  ∑ q, w q * ∑ r, ∑ s, B q r i * C r s * B q s j

/-- `Wdef = ½ uᵀ K u` -/
def energy (w : Q → K) (B : Q → R → ι → K) (C : R → R → K) (u : ι → K) : K :=
  (1 / 2) * ∑ i, u i * ∑ j, stiffness w B C i j * u j

end EasyFEAVerif.Patch
