/-
Reflected algebra for the Kelvin–Mandel change-of-basis matrix `Get_Pmat` (generated: `Gen/C10/Pmat.lean`).
An entry is a pair `(a, b)` of polynomials meaning `a + b·√2`. The Boolean checks below are polynomial
identities decided by the normaliser of `Model/PExpr.lean`; their meaning over ℝ is in `Core/KelvinRotSound.lean`.
Core Lean only.
-/
import EasyFEAVerif.Model.PExpr

namespace EasyFEAVerif.KelvinRot

open EasyFEAVerif PExpr

abbrev PS := PExpr × PExpr

def PS.zero : PS := (.const 0, .const 0)
def PS.one : PS := (.const 1, .const 0)
def PS.add (p q : PS) : PS := (.add p.1 q.1, .add p.2 q.2)
/-- `(a + b√2)(c + d√2) = (ac + 2bd) + (ad + bc)√2` -/
def PS.mul (p q : PS) : PS := (.add (.mul p.1 q.1) (.mul (.const 2) (.mul p.2 q.2)), .add (.mul p.1 q.2) (.mul p.2 q.1))
def PS.eqv (p q : PS) : Bool := PExpr.eqv p.1 q.1 && PExpr.eqv p.2 q.2
def PS.sum (l : List PS) : PS := l.foldr PS.add PS.zero

/-- substitution of the variables -/
def subst (σ : Nat → PExpr) : PExpr → PExpr
  | .var i => σ i
  | .const c => .const c
  | .add a b => .add (subst σ a) (subst σ b)
  | .sub a b => .sub (subst σ a) (subst σ b)
  | .mul a b => .mul (subst σ a) (subst σ b)
  | .neg a => .neg (subst σ a)
  | .pow a n => .pow (subst σ a) n

def PS.subst (σ : Nat → PExpr) (p : PS) : PS := (KelvinRot.subst σ p.1, KelvinRot.subst σ p.2)

/-- entry `(i, j)` of a generated matrix -/
def entry (M : List (List PS)) (i j : Nat) : PS := (M.getD i []).getD j PS.zero

/-- variable of the frame entry `Q[i][k]` (= component `i` of axis `k`) with an offset -/
def qv (off i k : Nat) : PExpr := .var (off + 3 * k + i)

/-- substitutions: the frame stored at offset `off`; its transpose; the product of the frames at offsets 0 and 9;
the identity -/
def σAt (off : Nat) (v : Nat) : PExpr := .var (off + v)
def σT (v : Nat) : PExpr := qv 0 (v / 3) (v % 3)          -- Q[i][k] ↦ Q[k][i]   (v = 3k + i)
def σProd (n : Nat) (v : Nat) : PExpr :=                    -- (Q1 Q2)[i][k] = Σ_j Q1[i][j] Q2[j][k]
  PExpr.sum ((List.range n).map fun j => .mul (qv 0 (v % 3) j) (qv 9 j (v / 3)))
def σOne (v : Nat) : PExpr := if v / 3 = v % 3 then .const 1 else .const 0

def idx (n : Nat) : List Nat := List.range n

/-- `P(Q1 Q2) = P(Q1) P(Q2)` entry by entry -/
def mulOK (M : List (List PS)) (n dim : Nat) : Bool :=
  (idx n).all fun i => (idx n).all fun j =>
    PS.eqv ((entry M i j).subst (σProd dim))
      (PS.sum ((idx n).map fun k => PS.mul ((entry M i k).subst (σAt 0)) ((entry M k j).subst (σAt 9))))

/-- `P(Qᵀ) = P(Q)ᵀ` -/
def transOK (M : List (List PS)) (n : Nat) : Bool :=
  (idx n).all fun i => (idx n).all fun j => PS.eqv ((entry M i j).subst σT) (entry M j i)

/-- `P(I) = I` -/
def oneOK (M : List (List PS)) (n : Nat) : Bool :=
  (idx n).all fun i => (idx n).all fun j => PS.eqv ((entry M i j).subst σOne) (if i = j then PS.one else PS.zero)

/-- all variables of the expression are below `N` -/
def varsBelow (N : Nat) : PExpr → Bool
  | .var i => decide (i < N)
  | .const _ => true
  | .add a b => varsBelow N a && varsBelow N b
  | .sub a b => varsBelow N a && varsBelow N b
  | .mul a b => varsBelow N a && varsBelow N b
  | .neg a => varsBelow N a
  | .pow a _ => varsBelow N a

/-- the generated matrix only mentions the nine frame variables -/
def closedOK (M : List (List PS)) (n : Nat) : Bool :=
  (idx n).all fun i => (idx n).all fun j => varsBelow 9 (entry M i j).1 && varsBelow 9 (entry M i j).2

def shapeOK (M : List (List PS)) (n : Nat) : Bool := M.length == n && M.all fun r => r.length == n

/-- Kelvin–Mandel vector of the symmetric tensor with components given by `t i j` (3D order 11 22 33 23 13 12;
2D order 11 22 12) -/
def kelvin3 (t : Nat → Nat → PExpr) : List PS :=
  [(t 0 0, .const 0), (t 1 1, .const 0), (t 2 2, .const 0), (.const 0, t 1 2), (.const 0, t 0 2), (.const 0, t 0 1)]
def kelvin2 (t : Nat → Nat → PExpr) : List PS := [(t 0 0, .const 0), (t 1 1, .const 0), (.const 0, t 0 1)]

/-- symmetric tensor variables stored from offset 9: 3D `ε11 ε22 ε33 ε23 ε13 ε12`, 2D `ε11 ε22 ε12` -/
def epsVar3 (i j : Nat) : PExpr :=
  if i = j then .var (9 + i) else if i + j = 3 then .var 12 else if i + j = 2 then .var 13 else .var 14
def epsVar2 (i j : Nat) : PExpr := if i = j then .var (9 + i) else .var 11

/-- `(Q ε Qᵀ)[i][j]` -/
def rotated (dim : Nat) (eps : Nat → Nat → PExpr) (i j : Nat) : PExpr :=
  PExpr.sum ((List.range dim).flatMap fun k => (List.range dim).map fun l => .mul (.mul (qv 0 i k) (eps k l)) (qv 0 j l))

/-- `P(Q) · kelvin(ε) = kelvin(Q ε Qᵀ)` -/
def rotOK (M : List (List PS)) (n dim : Nat) (kel : (Nat → Nat → PExpr) → List PS) (eps : Nat → Nat → PExpr) : Bool :=
  (idx n).all fun i =>
    PS.eqv (PS.sum ((idx n).map fun k => PS.mul (entry M i k) ((kel eps).getD k PS.zero)))
      ((kel (rotated dim eps)).getD i PS.zero)

def check3 (M : List (List PS)) : Bool :=
  shapeOK M 6 && closedOK M 6 && mulOK M 6 3 && transOK M 6 && oneOK M 6 && rotOK M 6 3 kelvin3 epsVar3
/-- in 2D the frame is the 2×2 block of the variables `Q[i][k]`, `i, k < 2` (same numbering `3k + i`) -/
def check2 (M : List (List PS)) : Bool :=
  shapeOK M 3 && closedOK M 3 && mulOK M 3 2 && transOK M 3 && oneOK M 3 && rotOK M 3 2 kelvin2 epsVar2

end EasyFEAVerif.KelvinRot
