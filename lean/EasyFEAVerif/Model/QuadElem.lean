/-
Evaluation matrices of an element's shape functions at the points of a quadrature
rule (over ℚ(√d)), and the Boolean certificate checks for their rank. Core Lean only.
-/
import EasyFEAVerif.Model.Elem
import EasyFEAVerif.Model.Quad

namespace EasyFEAVerif
namespace QMat

/-- `E[p][i] = N_i(ξ_p)` -/
def evalMat (E : ElemData) (R : Rule) : List (List QS) :=
  R.pts.map fun p => E.N.map fun N => N.evalQS R.d (fun k => Rule.coord p k)

/-- `G[p*dim + a][i] = ∂N_i/∂ξ_a (ξ_p)` -/
def gradMat (E : ElemData) (R : Rule) : List (List QS) :=
  R.pts.flatMap fun p => (List.range E.dim).map fun a =>
    (List.range E.nPe).map fun i => (ElemData.tab E.dN i a).evalQS R.d (fun k => Rule.coord p k)

/-- `L` is a left inverse of the evaluation matrix: the rule "sees" every function of the element's space. -/
def massCertOK (E : ElemData) (R : Rule) (L : List (List QS)) : Bool :=
  certOK R.d L (evalMat E R) E.nPe R.nPg kron

/-- `L * G = I - 11ᵀ/n`: the only fields with zero reference gradient at all the points are constants. -/
def rigiCertOK (E : ElemData) (R : Rule) (L : List (List QS)) : Bool :=
  certOK R.d L (gradMat E R) E.nPe (R.nPg * E.dim) (centering E.nPe)

end QMat
end EasyFEAVerif

namespace EasyFEAVerif
namespace QMat

/-- `x ≠ 0` has the right length and every row of `M` is orthogonal to it -/
def nullOK (d : Nat) (M : List (List QS)) (x : List QS) : Bool :=
  x.any (fun v => !(v.a == 0 && v.b == 0)) && M.all (fun r => r.length == x.length) &&
  M.all (fun r => decide (dot d r x = QS.zero))

end QMat
end EasyFEAVerif
