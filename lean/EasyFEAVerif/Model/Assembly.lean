/-
Executable model of the assembly of EasyFEA:
  * `_GroupElem._Get_assembly_e / Get_rows_e / Get_columns_e`  (EasyFEA/FEM/_group_elem.py)
  * `_Simu.__Get_csr_map / __Assemble_csr / Assembly`           (EasyFEA/Simulations/_simu.py)
numpy (`repeat`, `concatenate`, `searchsorted`, `bincount`) and scipy's canonical CSR
pattern (sorted, duplicate-free) are modelled from their documentation. Core Lean only.
-/
namespace EasyFEAVerif.Assembly

/-- one element group: connectivity `(Ne × nPe)` and, per element, the flattened local array
(`ndof²` entries for a matrix, `ndof` for a vector), or `none` when the group does not
contribute to this slot -/
structure ElemGroup (α : Type) where
  connect : List (List Nat)
  data : Option (List (List α))
  deriving Repr, Inhabited

/-- `_Get_assembly_e`: row of element `e` = `[n*dof_n + d | n ∈ connect[e], d < dof_n]` -/
def assemblyRow (dofN : Nat) (nodes : List Nat) : List Nat :=
  nodes.flatMap fun n => (List.range dofN).map fun d => n * dofN + d

/-- `Get_rows_e` for one element: `np.repeat(assembly_e, ndof)` -/
def rowsRow (a : List Nat) : List Nat := a.flatMap fun r => List.replicate a.length r

/-- `Get_columns_e` for one element: the assembly row tiled `ndof` times -/
def colsRow (a : List Nat) : List Nat := (List.replicate a.length a).flatten

/-- (row, col) coordinates of all element entries of one group, in the order of `X_e.ravel()` -/
def coords (isMatrix : Bool) (dofN : Nat) (connect : List (List Nat)) : List (Nat × Nat) :=
  connect.flatMap fun nodes =>
    let a := assemblyRow dofN nodes
    if isMatrix then List.zip (rowsRow a) (colsRow a) else a.map fun r => (r, 0)

/-- groups whose slot is not `None`, in dictionary order -/
def contributing {α : Type} (gs : List (ElemGroup α)) : List (ElemGroup α) := gs.filter (·.data.isSome)

def allCoords {α : Type} (isMatrix : Bool) (dofN : Nat) (gs : List (ElemGroup α)) : List (Nat × Nat) :=
  (contributing gs).flatMap fun g => coords isMatrix dofN g.connect

/-- `np.concatenate([X.ravel() ...])` -/
def allData {α : Type} (gs : List (ElemGroup α)) : List α :=
  (contributing gs).flatMap fun g => (g.data.getD []).flatten

/-- insertion into a sorted duplicate-free list -/
def insertKey (k : Nat) : List Nat → List Nat
  | [] => [k]
  | x :: xs => if k < x then k :: x :: xs else if k = x then x :: xs else x :: insertKey k xs

/-- scipy's canonical pattern: the sorted, duplicate-free linear indices `row*ncol + col` -/
def canon (keys : List Nat) : List Nat := keys.foldr insertKey []

/-- `np.searchsorted(canon, k)` (left): number of elements smaller than `k` -/
def searchsorted (c : List Nat) (k : Nat) : Nat := (c.filter (· < k)).length

/-- `np.bincount(inv, weights, minlength = n)` -/
def bincount {α : Type} [Add α] [Zero α] (n : Nat) (inv : List Nat) (w : List α) : List α :=
  (List.range n).map fun s => ((List.zip inv w).filter (fun p => p.1 == s)).foldr (fun p acc => p.2 + acc) 0

structure Csr (α : Type) where
  ncol : Nat
  /-- sorted linear indices of the stored coefficients -/
  canon : List Nat
  /-- element entry -> slot -/
  inv : List Nat
  data : List α
  deriving Repr

def keysOf (ncol : Nat) (cs : List (Nat × Nat)) : List Nat := cs.map fun p => p.1 * ncol + p.2

/-- `__Get_csr_map`: pattern and reduction map of one assembly key -/
def csrMap (isMatrix : Bool) (ndof : Nat) (cs : List (Nat × Nat)) : Nat × List Nat × List Nat :=
  let ncol := if isMatrix then ndof else 1
  let keys := keysOf ncol cs
  let c := canon keys
  (ncol, c, keys.map (searchsorted c))

/-- `__Assemble_csr` -/
def assembleCsr {α : Type} [Add α] [Zero α] (isMatrix : Bool) (dofN ndof : Nat) (gs : List (ElemGroup α)) : Csr α :=
  let m := csrMap isMatrix ndof (allCoords isMatrix dofN gs)
  { ncol := m.1, canon := m.2.1, inv := m.2.2, data := bincount m.2.1.length m.2.2 (allData gs) }

/-- coefficient (i, j) of the assembled matrix -/
def Csr.get {α : Type} [Zero α] (A : Csr α) (i j : Nat) : α :=
  let k := i * A.ncol + j
  if k ∈ A.canon then A.data.getD (searchsorted A.canon k) 0 else 0

/-- specification: the scatter-add of all element entries -/
def scatterAdd {α : Type} [Add α] [Zero α] (cs : List (Nat × Nat)) (w : List α) (i j : Nat) : α :=
  ((List.zip cs w).filter (fun p => p.1.1 == i && p.1.2 == j)).foldr (fun p acc => p.2 + acc) 0

/-- CSR `indices` / `indptr` as scipy stores them (for the correspondence check) -/
def indices (ncol : Nat) (c : List Nat) : List Nat := c.map (· % ncol)
def indptr (ncol nrow : Nat) (c : List Nat) : List Nat :=
  (List.range (nrow + 1)).map fun r => (c.filter (fun k => k / ncol < r)).length

end EasyFEAVerif.Assembly
