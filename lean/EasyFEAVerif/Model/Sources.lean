/-
Observer wiring of a simulation (EasyFEA/Simulations/*.py `__init__`, Utilities/_observers.py,
Utilities/_params.py): the assembled matrices are computed from parameters held by several
objects (the model, a law nested inside the model, the beams of a structure, the mesh); a
descriptor `__set__` on one of them calls `Need_Update` on that object, which notifies its
observers; the simulation raises its flag only if it is one of them. Core Lean only.
-/
namespace EasyFEAVerif.Sources

structure Wiring where
  /-- parameter holders the assembled matrices are computed from -/
  deps : List Nat
  /-- parameter holders the simulation has registered itself with (`x._Add_observer(self)`) -/
  observed : List Nat

structure State where
  ver : Nat → Nat          -- version of every parameter holder
  cached : Nat → Nat       -- versions the cached matrices were assembled from
  needUpdate : Bool

inductive Op where
  | set (o : Nat)          -- a parameter of holder `o` is assigned
  | read                   -- Get_K_C_M_F / Solve / Result
  deriving Repr

def bump (v : Nat → Nat) (o : Nat) : Nat → Nat := fun k => if k = o then v k + 1 else v k

def step (w : Wiring) (s : State) : Op → State
  | .set o => { s with ver := bump s.ver o, needUpdate := s.needUpdate || w.observed.contains o }
  | .read => if s.needUpdate then { s with cached := s.ver, needUpdate := false } else s

def run (w : Wiring) (s : State) (ops : List Op) : State := ops.foldl (step w) s

def init : State := { ver := fun _ => 0, cached := fun _ => 0, needUpdate := true }

/-- the cached matrices are those a simulation built now would assemble -/
def Fresh (w : Wiring) (s : State) : Prop := ∀ d ∈ w.deps, s.cached d = s.ver d

def Coherent (w : Wiring) (s : State) : Prop := s.needUpdate = true ∨ Fresh w s

theorem step_coherent (w : Wiring) (hw : ∀ d ∈ w.deps, d ∈ w.observed) (s : State) (hc : Coherent w s) (op : Op) :
    Coherent w (step w s op) := by
  cases op with
  | set o =>
    by_cases ho : w.observed.contains o = true
    · left
      have : o ∈ w.observed := by simpa using ho
      simp [step, this]
    · rcases hc with hc | hc
      · left; simp [step, hc]
      · right
        intro d hd
        have hne : d ≠ o := by
          intro h
          apply ho
          have := hw d hd
          simpa [h] using this
        simp [step, bump, hne, hc d hd]
  | read =>
    simp only [step]
    split
    · right; intro d _; rfl
    · exact hc

/-- sufficiency: when every parameter holder the matrices depend on is observed, no sequence of assignments and reads
leaves a lowered flag on stale matrices -/
theorem run_coherent (w : Wiring) (hw : ∀ d ∈ w.deps, d ∈ w.observed) (ops : List Op) (s : State) (hc : Coherent w s) :
    Coherent w (run w s ops) := by
  induction ops generalizing s with
  | nil => exact hc
  | cons op ops ih => exact ih _ (step_coherent w hw s hc op)

/-- what a read returns is what a fresh simulation assembles -/
theorem read_fresh (w : Wiring) (hw : ∀ d ∈ w.deps, d ∈ w.observed) (ops : List Op) :
    Fresh w (step w (run w init ops) .read) := by
  have hc := run_coherent w hw ops init (Or.inl rfl)
  simp only [step]
  split
  · intro d _; rfl
  · rename_i h
    rcases hc with hc | hc
    · exact absurd hc h
    · exact hc

/-- necessity: a parameter holder the matrices depend on and that is NOT observed makes the history
[read, assign, read] return stale matrices -/
theorem unobserved_dep_goes_stale (w : Wiring) (d : Nat) (hd : d ∈ w.deps) (hn : d ∉ w.observed) :
    ¬ Fresh w (run w init [.read, .set d, .read]) := by
  intro h
  have hc : w.observed.contains d = false := by simpa using hn
  have := h d hd
  simp [run, step, init, bump, hn] at this

/-- non-vacuity of both theorems -/
example : (∀ d ∈ ({ deps := [0, 1, 2], observed := [2, 0, 1] } : Wiring).deps, d ∈ [2, 0, 1]) := by decide
example : ¬ Fresh { deps := [0, 1, 2], observed := [0, 2] } (run { deps := [0, 1, 2], observed := [0, 2] } init [.read, .set 1, .read]) :=
  unobserved_dep_goes_stale _ 1 (by decide) (by decide)


/-- For every simulation class, the objects that hold parameters its matrices are computed from, written with the
expressions of the class's constructor (hand-written from the assembly code of each class: `Elastic` / `Thermal` /
`HyperElastic` / `WeakForms` read their model only; `Beam` reads every beam of the structure; `PhaseField` reads the
elastic law inside the phase-field model; `InElastic` reads the elastic law inside the behavior; all read the mesh).
The harness checks the table against the running code: every `_IModel` reachable from `simu.model` must be one of them. -/
def depsOf : List (String × List String) := [
  ("Beam", ["model", "mesh", "beam"]),
  ("Elastic", ["model", "mesh"]),
  ("HyperElastic", ["model", "mesh"]),
  ("InElastic", ["model", "mesh", "model.elastic"]),
  ("PhaseField", ["model", "mesh", "self.phaseFieldModel.material"]),
  ("Thermal", ["model", "mesh"]),
  ("WeakForms", ["model", "mesh"])]

/-- every expression that occurs in the dependency table or in the extracted registrations, numbered -/
def holders : List String := ["model", "mesh", "beam", "model.elastic", "self.phaseFieldModel.material"]

def idOf (x : String) : Nat := holders.idxOf x

end EasyFEAVerif.Sources

/-! Value-based refinement of the observer wiring: a parameter assignment stores a VALUE; an implementation may want to skip
the notification when "nothing changed". `notify old new` is that test (the current descriptor `_Parameter.__set__` always
notifies: `notify = fun _ _ => true`). -/
namespace EasyFEAVerif.Sources.V

structure State where
  val : Nat → Nat          -- value held by every parameter holder
  cached : Nat → Nat       -- values the cached matrices were assembled from
  needUpdate : Bool

inductive Op where
  | assign (o x : Nat)     -- holder `o` is assigned the value `x` through its descriptor
  | read
  deriving Repr

def step (w : Wiring) (notify : Nat → Nat → Bool) (s : State) : Op → State
  | .assign o x =>
    { s with val := fun k => if k = o then x else s.val k,
             needUpdate := s.needUpdate || (w.observed.contains o && notify (s.val o) x) }
  | .read => if s.needUpdate then { s with cached := s.val, needUpdate := false } else s

def run (w : Wiring) (notify : Nat → Nat → Bool) (s : State) (ops : List Op) : State := ops.foldl (step w notify) s

def init : State := { val := fun _ => 0, cached := fun _ => 0, needUpdate := true }

def Fresh (w : Wiring) (s : State) : Prop := ∀ d ∈ w.deps, s.cached d = s.val d

def Coherent (w : Wiring) (s : State) : Prop := s.needUpdate = true ∨ Fresh w s

/-- the notification may be skipped only when the value is exactly the one already held -/
def Exact (notify : Nat → Nat → Bool) : Prop := ∀ a b, a ≠ b → notify a b = true

theorem step_coherent (w : Wiring) (notify : Nat → Nat → Bool) (hw : ∀ d ∈ w.deps, d ∈ w.observed) (hn : Exact notify)
    (s : State) (hc : Coherent w s) (op : Op) : Coherent w (step w notify s op) := by
  cases op with
  | assign o x =>
    rcases hc with hc | hc
    · left; simp [step, hc]
    · by_cases hdep : o ∈ w.deps
      · by_cases hx : s.val o = x
        · -- same value: nothing to rebuild
          right
          intro d hd
          by_cases hdo : d = o
          · subst hdo; simp [step, hc d hd, hx]
          · simp [step, hdo, hc d hd]
        · left
          have hobs : o ∈ w.observed := hw o hdep
          simp [step, hobs, hn _ _ hx]
      · right
        intro d hd
        have hdo : d ≠ o := fun h => hdep (h ▸ hd)
        simp [step, hdo, hc d hd]
  | read =>
    simp only [step]
    split
    · right; intro d _; rfl
    · exact hc

/-- sufficiency: every dependency observed + an exact "unchanged" test ⇒ no history of assignments and reads serves stale matrices -/
theorem read_fresh (w : Wiring) (notify : Nat → Nat → Bool) (hw : ∀ d ∈ w.deps, d ∈ w.observed) (hn : Exact notify) (ops : List Op) :
    Fresh w (step w notify (run w notify init ops) .read) := by
  have hc : Coherent w (run w notify init ops) := by
    suffices H : ∀ (ops : List Op) (s : State), Coherent w s → Coherent w (run w notify s ops) from H ops init (Or.inl rfl)
    intro ops
    induction ops with
    | nil => intro s h; exact h
    | cons op ops ih => intro s h; exact ih _ (step_coherent w notify hw hn s h op)
  simp only [step]
  split
  · intro d _; rfl
  · rename_i h
    rcases hc with hc | hc
    · exact absurd hc h
    · exact hc

/-- necessity: a test that lets one real change through without notification (two different values `a ≠ b` judged "unchanged":
a tolerance, or an identity test on an array edited in place) makes [assign a, read, assign b, read] stale -/
theorem inexact_test_goes_stale (w : Wiring) (notify : Nat → Nat → Bool) (d a b : Nat) (hd : d ∈ w.deps) (hab : a ≠ b)
    (hskip : notify a b = false) :
    ¬ Fresh w (run w notify init [.assign d a, .read, .assign d b, .read]) := by
  intro h
  have := h d hd
  by_cases hobs : d ∈ w.observed <;> simp [run, step, init, hobs, hskip] at this <;> exact hab this

/-- the current descriptor always notifies -/
theorem always_notify_exact : Exact (fun _ _ => true) := fun _ _ _ => rfl

/-- `np.allclose`-like test on integers scaled by 1e5 (seed C11_H) is not exact -/
example : ¬ Exact (fun a b => decide (a + 1 < b ∨ b + 1 < a)) := by
  intro h
  have := h 100000 100001 (by decide)
  simp at this

end EasyFEAVerif.Sources.V
