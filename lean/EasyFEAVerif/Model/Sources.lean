/-
Observer wiring of a simulation (EasyFEA/Simulations/*.py `__init__`, Utilities/_observers.py,
Utilities/_params.py): the assembled matrices are computed from parameters held by several
objects (the model, a law nested inside the model, the beams of a structure, the mesh); a
descriptor `__set__` on one of them calls `Need_Update` on that object, which notifies its
observers; the simulation raises its flag only if it is one of them. Core Lean only.
-/
namespace EasyFEAVerif.Sources

structure Wiring where
  /-- parameter holders the assembled matrices are computed from -/
  deps : List Nat
  /-- parameter holders the simulation has registered itself with (`x._Add_observer(self)`) -/
  observed : List Nat

structure State where
  ver : Nat → Nat          -- version of every parameter holder
  cached : Nat → Nat       -- versions the cached matrices were assembled from
  needUpdate : Bool

inductive Op where
  | set (o : Nat)          -- a parameter of holder `o` is assigned
  | read                   -- Get_K_C_M_F / Solve / Result
  deriving Repr

def bump (v : Nat → Nat) (o : Nat) : Nat → Nat := fun k => if k = o then v k + 1 else v k

def step (w : Wiring) (s : State) : Op → State
  | .set o => { s with ver := bump s.ver o, needUpdate := s.needUpdate || w.observed.contains o }
  | .read => if s.needUpdate then { s with cached := s.ver, needUpdate := false } else s

def run (w : Wiring) (s : State) (ops : List Op) : State := ops.foldl (step w) s

def init : State := { ver := fun _ => 0, cached := fun _ => 0, needUpdate := true }

/-- the cached matrices are those a simulation built now would assemble -/
def Fresh (w : Wiring) (s : State) : Prop := ∀ d ∈ w.deps, s.cached d = s.ver d

def Coherent (w : Wiring) (s : State) : Prop := s.needUpdate = true ∨ Fresh w s

theorem step_coherent (w : Wiring) (hw : ∀ d ∈ w.deps, d ∈ w.observed) (s : State) (hc : Coherent w s) (op : Op) :
    Coherent w (step w s op) := by
  cases op with
  | set o =>
    by_cases ho : w.observed.contains o = true
    · left
      have : o ∈ w.observed := by simpa using ho
      simp [step, this]
    · rcases hc with hc | hc
      · left; simp [step, hc]
      · right
        intro d hd
        have hne : d ≠ o := by
          intro h
          apply ho
          have := hw d hd
          simpa [h] using this
        simp [step, bump, hne, hc d hd]
  | read =>
    simp only [step]
    split
    · right; intro d _; rfl
    · exact hc

/-- sufficiency: when every parameter holder the matrices depend on is observed, no sequence of assignments and reads
leaves a lowered flag on stale matrices -/
theorem run_coherent (w : Wiring) (hw : ∀ d ∈ w.deps, d ∈ w.observed) (ops : List Op) (s : State) (hc : Coherent w s) :
    Coherent w (run w s ops) := by
  induction ops generalizing s with
  | nil => exact hc
  | cons op ops ih => exact ih _ (step_coherent w hw s hc op)

/-- what a read returns is what a fresh simulation assembles -/
theorem read_fresh (w : Wiring) (hw : ∀ d ∈ w.deps, d ∈ w.observed) (ops : List Op) :
    Fresh w (step w (run w init ops) .read) := by
  have hc := run_coherent w hw ops init (Or.inl rfl)
  simp only [step]
  split
  · intro d _; rfl
  · rename_i h
    rcases hc with hc | hc
    · exact absurd hc h
    · exact hc

/-- necessity: a parameter holder the matrices depend on and that is NOT observed makes the history
[read, assign, read] return stale matrices -/
theorem unobserved_dep_goes_stale (w : Wiring) (d : Nat) (hd : d ∈ w.deps) (hn : d ∉ w.observed) :
    ¬ Fresh w (run w init [.read, .set d, .read]) := by
  intro h
  have hc : w.observed.contains d = false := by simpa using hn
  have := h d hd
  simp [run, step, init, bump, hn] at this

/-- non-vacuity of both theorems -/
example : (∀ d ∈ ({ deps := [0, 1, 2], observed := [2, 0, 1] } : Wiring).deps, d ∈ [2, 0, 1]) := by decide
example : ¬ Fresh { deps := [0, 1, 2], observed := [0, 2] } (run { deps := [0, 1, 2], observed := [0, 2] } init [.read, .set 1, .read]) :=
  unobserved_dep_goes_stale _ 1 (by decide) (by decide)


/-- For every simulation class, the objects that hold parameters its matrices are computed from, written with the
expressions of the class's constructor (hand-written from the assembly code of each class: `Elastic` / `Thermal` /
`HyperElastic` / `WeakForms` read their model only; `Beam` reads every beam of the structure; `PhaseField` reads the
elastic law inside the phase-field model; `InElastic` reads the elastic law inside the behavior; all read the mesh).
The harness checks the table against the running code: every `_IModel` reachable from `simu.model` must be one of them. -/
def depsOf : List (String × List String) := [
  ("Beam", ["model", "mesh", "beam"]),
  ("Elastic", ["model", "mesh"]),
  ("HyperElastic", ["model", "mesh"]),
  ("InElastic", ["model", "mesh", "model.elastic"]),
  ("PhaseField", ["model", "mesh", "self.phaseFieldModel.material"]),
  ("Thermal", ["model", "mesh"]),
  ("WeakForms", ["model", "mesh"])]

/-- every expression that occurs in the dependency table or in the extracted registrations, numbered -/
def holders : List String := ["model", "mesh", "beam", "model.elastic", "self.phaseFieldModel.material"]

def idOf (x : String) : Nat := holders.idxOf x

end EasyFEAVerif.Sources
