/-
Model of `FeArray.broadcast(value, Ne, nPg, tensor_ndim)`: how a coefficient of a given shape is read when it multiplies an
`(Ne, nPg, ...)` field. The decision list itself is generated from the source (`Gen/C12/Broadcast.lean`); this file gives the
meaning of its conditions and outcomes.
-/
namespace EasyFEAVerif.Broadcast

/-- the tests of the source -/
inductive Cond
  | pyScalar   -- isinstance(value, (int, float, ...))
  | declared   -- tensor_ndim > 0
  | leadFull   -- lead == (Ne, nPg)
  | leadElem   -- lead == (Ne,)
  | leadNone   -- lead == ()
  | head2Full  -- arr.shape[:2] == (Ne, nPg)
  | rank1      -- arr.ndim == 1
  | firstNe    -- arr.shape[0] == Ne
  | firstNPg   -- arr.shape[0] == nPg
  deriving DecidableEq, Repr

/-- how the coefficient is read at (element e, point p) -/
inductive Kind
  | scalar     -- a Python number
  | full       -- value[e, p, ...]
  | perElem    -- value[e, ...]
  | perPoint   -- value[p]
  | const      -- value[...]
  | error      -- raises
  deriving DecidableEq, Repr

/-- a coefficient: a Python scalar or an array of the given shape -/
structure Input where
  isScalar : Bool
  shape : List Nat
  deriving Repr

/-- `lead = arr.shape[:-tensor_ndim]` -/
def lead (shape : List Nat) (tn : Nat) : List Nat := shape.take (shape.length - tn)
/-- `tail = arr.shape[-tensor_ndim:]` -/
def tail (shape : List Nat) (tn : Nat) : List Nat := shape.drop (shape.length - tn)

def Cond.holds (i : Input) (Ne nPg tn : Nat) : Cond → Bool
  | .pyScalar => i.isScalar
  | .declared => decide (0 < tn)
  | .leadFull => lead i.shape tn == [Ne, nPg]
  | .leadElem => lead i.shape tn == [Ne]
  | .leadNone => lead i.shape tn == []
  | .head2Full => i.shape.take 2 == [Ne, nPg]
  | .rank1 => i.shape.length == 1
  | .firstNe => i.shape.head? == some Ne
  | .firstNPg => i.shape.head? == some nPg

/-- first rule whose conditions all hold -/
def classify (rules : List (List Cond × Kind)) (i : Input) (Ne nPg tn : Nat) : Option Kind :=
  (rules.find? fun r => r.1.all (Cond.holds i Ne nPg tn)).map (·.2)

/-- shape of the result for each way of reading (tensor axes kept behind the (Ne, nPg) axes) -/
def resultShape (k : Kind) (shape : List Nat) (Ne nPg tn : Nat) : Option (List Nat) :=
  match k with
  | .full => some shape
  | .perElem => some ([Ne, nPg] ++ shape.drop 1)
  | .perPoint => some [Ne, nPg]
  | .const => some ([Ne, nPg] ++ (if tn = 0 then shape else tail shape tn))
  | .scalar => some []
  | .error => none

end EasyFEAVerif.Broadcast
