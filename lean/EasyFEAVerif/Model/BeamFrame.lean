/-
Executable model of the local frame of a beam member, without the normalisations (core Lean only):
for the direction `d` of the fiber (any length) and the vector `value` handed to the `yAxis` setter,
  c = d × value,   y' = c × d,   z' = d × y'
are positive multiples of the axes `_Beam._Calc_P` stores (`Props/C10Frame.lean`: `frameQ_y`, `frameQ_z`), so the
driver evaluates them exactly over ℚ and the harness compares directions and handedness with the real frame.
-/
namespace EasyFEAVerif.BeamFrame

variable {α : Type} [Mul α] [Sub α]

def cross3 (a b : α × α × α) : α × α × α :=
  (a.2.1 * b.2.2 - a.2.2 * b.2.1, a.2.2 * b.1 - a.1 * b.2.2, a.1 * b.2.1 - a.2.1 * b.1)

/-- `(y', z')` -/
def frameQ (d value : α × α × α) : (α × α × α) × (α × α × α) :=
  let y := cross3 (cross3 d value) d
  (y, cross3 d y)

end EasyFEAVerif.BeamFrame
