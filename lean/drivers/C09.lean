/- Model driver for property C09 (evaluates `Model/Loads.lean` over ℚ).
   gauss <p> <n> | wJ (p) | q (p) | N (p*n, row-major)       -> f (n)
   nodal <p> <n> | wJ (p) | qn (n) | N (p*n)                  -> f (n)
   select <ne> <npe> | conn (ne*npe) | S ...                  -> indices of the loaded elements, ascending -/
import EasyFEAVerif.Model.Proto
import EasyFEAVerif.Model.Loads
import Mathlib.Data.Rat.Defs
import Mathlib.Algebra.Ring.Rat
import Mathlib.Data.Fintype.Basic
import Mathlib.Data.Fintype.BigOperators

open EasyFEAVerif EasyFEAVerif.Loads

def arr (l : List ℚ) (k : Nat) : ℚ := (l[k]?).getD 0

def sections (toks : List String) : List (List String) :=
  let rec go (acc cur : List String) (out : List (List String)) : List String → List (List String)
    | [] => (out ++ [cur])
    | t :: r => if t == "|" then go acc [] (out ++ [cur]) r else go acc (cur ++ [t]) out r
  go [] [] [] toks

def handle (toks : List String) : String :=
  match sections toks with
  | [[kind, ps, ns], a, b, c] =>
    match ps.toNat?, ns.toNat?, a.mapM parseRat, b.mapM parseRat, c.mapM parseRat with
    | some p, some n, some wJ, some q, some Nl =>
      if wJ.length ≠ p ∨ Nl.length ≠ p * n then "bad-shape" else
      let N : Fin p → Fin n → ℚ := fun i j => arr Nl (i.val * n + j.val)
      let w : Fin p → ℚ := fun i => arr wJ i.val
      if kind == "gauss" then
        if q.length ≠ p then "bad-shape" else
        " ".intercalate ((List.finRange n).map fun j => showRat (elemLoad w (fun i => arr q i.val) N j))
      else if kind == "nodal" then
        if q.length ≠ n then "bad-shape" else
        " ".intercalate ((List.finRange n).map fun j => showRat (elemLoadNodal w (fun i => arr q i.val) N j))
      else "bad-op"
    | _, _, _, _, _ => "bad-op"
  | [["select", nes, npes], c, s] =>
    match nes.toNat?, npes.toNat?, c.mapM (·.toNat?), s.mapM (·.toNat?) with
    | some ne, some npe, some conn, some S =>
      if conn.length ≠ ne * npe then "bad-shape" else
      let cf : Fin ne → Fin npe → Nat := fun e k => (conn[e.val * npe + k.val]?).getD 0
      let sel := exclusive cf S.toFinset
      " ".intercalate (((List.finRange ne).filter fun e => e ∈ sel).map fun e => toString e.val)
    | _, _, _, _ => "bad-op"
  | _ => "bad-op"

def main : IO Unit := protoMain fun line => handle (tokens line)
