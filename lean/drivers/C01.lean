/- Model driver for property C01 (evaluates `Model/Patch.lean` over ℚ).
   strain <d> <n> <s> | dN (d*n, row-major) | x (n*d) | u (n*d)   -> B u_e with the layout of the source (3 or 6 rows)
   grad   <d> <n> <c> | dN (d*n) | x (n*d) | u (n*c)               -> gradient (d*c, row-major)          -/
import EasyFEAVerif.Model.Proto
import EasyFEAVerif.Model.Patch
import EasyFEAVerif.Gen.C01.Layout
import Mathlib.Data.Rat.Defs
import Mathlib.Algebra.Ring.Rat
import Mathlib.Algebra.Field.Rat

open EasyFEAVerif EasyFEAVerif.Patch EasyFEAVerif.Gen

def arr (l : List ℚ) (k : Nat) : ℚ := (l[k]?).getD 0

def sections (toks : List String) : List (List String) :=
  let rec go (cur : List String) (out : List (List String)) : List String → List (List String)
    | [] => (out ++ [cur])
    | t :: r => if t == "|" then go [] (out ++ [cur]) r else go (cur ++ [t]) out r
  go [] [] toks

def mat (r c : Nat) (l : List ℚ) : Matrix (Fin r) (Fin c) ℚ := fun i j => arr l (i.val * c + j.val)

def handle (toks : List String) : String :=
  match sections toks with
  | [[kind, ds, ns, third], a, b, c] =>
    match ds.toNat?, ns.toNat?, a.mapM parseRat, b.mapM parseRat, c.mapM parseRat with
    | some d, some n, some dNl, some xl, some ul =>
      if dNl.length ≠ d * n ∨ xl.length ≠ n * d then "bad-shape" else
      let dN := mat d n dNl
      let x := mat n d xl
      if (jac dN x).det = 0 then "singular" else
      let dNp := dNphysExec dN x
      if kind == "strain" then
        match parseRat third with
        | some s =>
          if ul.length ≠ n * d then "bad-shape" else
          let u := mat n d ul
          let layout := if d = 2 then typed d C01.layout2 else typed d C01.layout3
          let rows := if d = 2 then 3 else 6
          " ".intercalate ((List.range rows).map fun r => showRat (Bu layout s dNp u r))
        | none => "bad-op"
      else if kind == "grad" then
        match third.toNat? with
        | some cc =>
          if ul.length ≠ n * cc then "bad-shape" else
          let g := dNp * mat n cc ul
          " ".intercalate ((List.finRange d).flatMap fun i => (List.finRange cc).map fun j => showRat (g i j))
        | none => "bad-op"
      else "bad-op"
    | _, _, _, _, _ => "bad-op"
  | _ => "bad-op"

def main : IO Unit := protoMain fun line => handle (tokens line)
