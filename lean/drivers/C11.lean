/- Model driver for property C11: evaluates the generated constitutive matrices over ℚ.
   iso <3d|pstrain|pstress> E v            -> C (row-major)
   ti  El Et vl vt Gl                       -> C | S
   ortho E1 E2 E3 G23 G13 G12 v23 v13 v12   -> C | S                                   -/
import EasyFEAVerif.Model.Proto
import EasyFEAVerif.Gen.C11.Laws

open EasyFEAVerif EasyFEAVerif.Gen.C11

def showQ (q : ℚ) : String := s!"{q.num}/{q.den}"
def showM {n : Nat} (M : Matrix (Fin n) (Fin n) ℚ) : String :=
  " ".intercalate ((List.finRange n).flatMap fun i => (List.finRange n).map fun j => showQ (M i j))

def parseQ (s : String) : Option ℚ :=
  match s.splitOn "/" with
  | [a] => a.toInt?.map (fun k => (k : ℚ))
  | [a, b] => do
      let p ← a.toInt?
      let q ← b.toNat?
      if q = 0 then none else some ((p : ℚ) / (q : ℚ))
  | _ => none

def handle (toks : List String) : String :=
  match toks with
  | ["iso", kind, e, v] =>
    match parseQ e, parseQ v with
    | some e, some v =>
      match kind with
      | "3d" => showM (iso_C_3d (iso_lambda_3d e v) (iso_mu_3d e v) 0)
      | "pstrain" => showM (iso_C_pstrain (iso_lambda_pstrain e v) (iso_mu_pstrain e v) 0)
      | "pstress" => showM (iso_C_pstress (iso_lambda_pstress e v) (iso_mu_pstress e v) 0)
      | _ => "bad-kind"
    | _, _ => "bad-op"
  | "ti" :: rest =>
    match rest.mapM parseQ with
    | some [a, b, c, d, e] => showM (ti_C a b c d e) ++ " | " ++ showM (ti_S a b c d e)
    | _ => "bad-op"
  | "ortho" :: rest =>
    match rest.mapM parseQ with
    | some [a, b, c, d, e, f, g, h, i] => showM (ortho_C a b c d e f g h i) ++ " | " ++ showM (ortho_S a b c d e f g h i)
    | _ => "bad-op"
  | _ => "bad-op"

def main : IO Unit := protoMain fun line => handle (tokens line)
