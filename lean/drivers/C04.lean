/- Model driver for property C04 (constraints and solver paths), exact rationals.
  dofs   <na> avail.. <nn> nodes.. <nu> unknowns..
  dvec   <size> <m> dofs.. values..
  solve1 <n> A(n²) b(n) <m> dofs(m) values(m)
  solve2 <n> A(n²) b(n) <alpha> <m> dofs(m) values(m) <L> { <k> dofs(k) coefs(k) value }*L      -/
import EasyFEAVerif.Model.Proto
import EasyFEAVerif.Model.Constraints

open EasyFEAVerif EasyFEAVerif.Constraints

def showVec (v : List Rat) : String := " ".intercalate (v.map showRat)

def takeN {β : Type} (n : Nat) (l : List β) : Option (List β × List β) :=
  if l.length < n then none else some (l.take n, l.drop n)

def chunksOf (n : Nat) (l : List Rat) : List (List Rat) :=
  if n = 0 then [] else (List.range (l.length / n)).map fun i => (l.drop (i * n)).take n

def natOf (s : String) : Option Nat := s.toNat?

def parseLag : Nat → List String → Option (List LagrangeCond)
  | 0, [] => some []
  | 0, _ => none
  | k + 1, toks => do
    let (hd, r) ← takeN 1 toks
    let m ← natOf (hd.getD 0 "")
    let (ds, r) ← takeN m r
    let (cs, r) ← takeN m r
    let (v, r) ← takeN 1 r
    let ds ← ds.mapM natOf
    let cs ← parseRats cs
    let v ← parseRats v
    let rest ← parseLag k r
    return { dofs := ds, coefs := cs, value := v.getD 0 0 } :: rest

def handle (toks : List String) : String :=
  match toks with
  | "dofs" :: rest => (do
      let (h, r) ← takeN 1 rest
      let na ← natOf (h.getD 0 "")
      let (avail, r) ← takeN na r
      let (h, r) ← takeN 1 r
      let nn ← natOf (h.getD 0 "")
      let (nodes, r) ← takeN nn r
      let nodes ← nodes.mapM natOf
      let (h, r) ← takeN 1 r
      let nu ← natOf (h.getD 0 "")
      let (unk, _) ← takeN nu r
      return " ".intercalate ((dofsNodes avail nodes unk).map toString)).getD "bad-op"
  | "dvec" :: size :: m :: rest => (do
      let size ← natOf size
      let m ← natOf m
      let (ds, r) ← takeN m rest
      let (vs, _) ← takeN m r
      let ds ← ds.mapM natOf
      let vs ← parseRats vs
      return showVec (dirichletVector size ds vs)).getD "bad-op"
  | "solve1" :: n :: rest => (do
      let n ← natOf n
      let (a, r) ← takeN (n * n) rest
      let (b, r) ← takeN n r
      let (h, r) ← takeN 1 r
      let m ← natOf (h.getD 0 "")
      let (ds, r) ← takeN m r
      let (vs, _) ← takeN m r
      let A := chunksOf n (← parseRats a)
      let b ← parseRats b
      let ds ← ds.mapM natOf
      let vs ← parseRats vs
      return match solver1 A b ds vs with
        | some x => showVec x
        | none => "singular").getD "bad-op"
  | "solve2" :: n :: rest => (do
      let n ← natOf n
      let (a, r) ← takeN (n * n) rest
      let (b, r) ← takeN n r
      let (al, r) ← takeN 1 r
      let (h, r) ← takeN 1 r
      let m ← natOf (h.getD 0 "")
      let (ds, r) ← takeN m r
      let (vs, r) ← takeN m r
      let (h, r) ← takeN 1 r
      let nl ← natOf (h.getD 0 "")
      let lag ← parseLag nl r
      let A := chunksOf n (← parseRats a)
      let b ← parseRats b
      let al ← parseRats al
      let ds ← ds.mapM natOf
      let vs ← parseRats vs
      return match solver2 A b (al.getD 0 1) ds vs lag with
        | some (x, lam) => showVec x ++ " | " ++ showVec lam
        | none => "singular").getD "bad-op"
  | _ => "bad-op"

def main : IO Unit := protoMain fun line => handle (tokens line)
