/- Model driver for property C15. One line = one history; snapshots are natural numbers.
   ops: solve <s> | save | folder <name|-> | set <i> | query <i>
   answer: "<niter> | <getIter 0> <getIter 1> ... | <live>"  (none for an unreadable iteration)
   A line starting with `ms`: mesh store (Model/MeshStore.lean), ops mesh <id> | folder <n> | save <n> (folder 0 is "");
   answer: the mesh every entry of the history reads back as, or `fail` if a save cannot read a mesh. -/
import EasyFEAVerif.Model.Proto
import EasyFEAVerif.Model.IterStore
import EasyFEAVerif.Model.MeshStore

open EasyFEAVerif EasyFEAVerif.IterStore

def parseOps : List String → Option (List (Op Nat))
  | [] => some []
  | "solve" :: s :: r => do let k ← s.toNat?; let rest ← parseOps r; return Op.solve k :: rest
  | "save" :: r => (parseOps r).map (Op.save :: ·)
  | "folder" :: f :: r => (parseOps r).map (Op.setFolder (if f == "-" then "" else f) :: ·)
  | "set" :: i :: r => do let k ← i.toNat?; let rest ← parseOps r; return Op.setIter k :: rest
  | "query" :: i :: r => do let k ← i.toNat?; let rest ← parseOps r; return Op.query k :: rest
  | _ => none

def parseMs : List String → Option (List (MeshStore.Op Nat))
  | [] => some []
  | "mesh" :: m :: r => do let k ← m.toNat?; let rest ← parseMs r; return MeshStore.Op.setMesh k :: rest
  | "folder" :: f :: r => do let k ← f.toNat?; let rest ← parseMs r; return MeshStore.Op.setFolder k :: rest
  | "save" :: f :: r => do let k ← f.toNat?; let rest ← parseMs r; return MeshStore.Op.save k :: rest
  | _ => none

def showOpt : Option Nat → String
  | some k => toString k
  | none => "none"

def main : IO Unit := protoMain fun line =>
  match tokens line with
  | "ms" :: r =>
    match parseMs r with
    | some ops =>
      match MeshStore.runWith MeshStore.readMesh (MeshStore.init 0) ops with
      | some st => " ".intercalate ((List.range st.list.length).map fun i => showOpt (MeshStore.readMesh st i))
      | none => "fail"
    | none => "bad-op"
  | _ =>
  match parseOps (tokens line) with
  | some ops =>
    let st := ops.foldl step (init 0 "")
    s!"{st.niter} | " ++ " ".intercalate ((List.range st.entries.length).map fun i => showOpt (getIter st i)) ++ s!" | {st.live}"
  | none => "bad-op"
