/- Model driver for property C15. One line = one history; snapshots are natural numbers.
   ops: solve <s> | save | folder <name|-> | set <i> | query <i>
   answer: "<niter> | <getIter 0> <getIter 1> ... | <live>"  (none for an unreadable iteration) -/
import EasyFEAVerif.Model.Proto
import EasyFEAVerif.Model.IterStore

open EasyFEAVerif EasyFEAVerif.IterStore

def parseOps : List String → Option (List (Op Nat))
  | [] => some []
  | "solve" :: s :: r => do let k ← s.toNat?; let rest ← parseOps r; return Op.solve k :: rest
  | "save" :: r => (parseOps r).map (Op.save :: ·)
  | "folder" :: f :: r => (parseOps r).map (Op.setFolder (if f == "-" then "" else f) :: ·)
  | "set" :: i :: r => do let k ← i.toNat?; let rest ← parseOps r; return Op.setIter k :: rest
  | "query" :: i :: r => do let k ← i.toNat?; let rest ← parseOps r; return Op.query k :: rest
  | _ => none

def showOpt : Option Nat → String
  | some k => toString k
  | none => "none"

def main : IO Unit := protoMain fun line =>
  match parseOps (tokens line) with
  | some ops =>
    let st := ops.foldl step (init 0 "")
    s!"{st.niter} | " ++ " ".intercalate ((List.range st.entries.length).map fun i => showOpt (getIter st i)) ++ s!" | {st.live}"
  | none => "bad-op"
