/- Model driver for property C17.
   sw t            -> "Rp Rm heav pos" of the switches for the value t
   hist H0 ψ1 ψ2 … -> the history field after each step (np.where(inc_H < 0) update)                    -/
import EasyFEAVerif.Model.Proto
import EasyFEAVerif.Props.C17
import Mathlib.Data.Rat.Defs
import Mathlib.Algebra.Ring.Rat
import Mathlib.Algebra.Field.Rat
import Mathlib.Algebra.Order.Field.Rat

open EasyFEAVerif EasyFEAVerif.Props.C17

def main : IO Unit := protoMain fun line =>
  match tokens line with
  | ["sw", t] => match parseRat t with
    | some t => s!"{showRat (Rp t)} {showRat (Rm t)} {showRat (heav t)} {showRat (pos t)}"
    | none => "bad-op"
  | "hist" :: h0 :: r => match parseRat h0, r.mapM parseRat with
    | some h0, some ps => " ".intercalate ((ps.foldl (fun (acc : List ℚ × ℚ) ψ => let h := histStep acc.2 ψ; (acc.1 ++ [h], h)) ([], h0)).1.map showRat)
    | _, _ => "bad-op"
  | _ => "bad-op"
