/- Model driver for property C20 (bookkeeping of one element type for a given element → rank map).
   part <ne> <npe> <R> | conn (ne*npe) | rankOf (ne) | pre_0 / pre_1 / ... (nodes owned before the pass, per rank)  ->  for each rank "r: owned nodes / ghost elements", ranks separated by " ; "   -/
import EasyFEAVerif.Model.Proto
import EasyFEAVerif.Props.C20
import Mathlib.Data.Finset.Sort

open EasyFEAVerif EasyFEAVerif.Props.C20

def sections (toks : List String) : List (List String) :=
  let rec go (cur : List String) (out : List (List String)) : List String → List (List String)
    | [] => (out ++ [cur])
    | t :: r => if t == "|" then go [] (out ++ [cur]) r else go (cur ++ [t]) out r
  go [] [] toks

def showNats (l : List Nat) : String := " ".intercalate (l.map toString)

def splitOn (sep : String) (toks : List String) : List (List String) :=
  let rec go (cur : List String) (out : List (List String)) : List String → List (List String)
    | [] => (out ++ [cur])
    | t :: r => if t == sep then go [] (out ++ [cur]) r else go (cur ++ [t]) out r
  go [] [] toks

def handle (toks : List String) : String :=
  match sections toks with
  | [["part", nes, npes, rs], c, rk, pr] =>
    match nes.toNat?, npes.toNat?, rs.toNat?, c.mapM (·.toNat?), rk.mapM (·.toNat?), (splitOn "/" pr).mapM (·.mapM (·.toNat?)) with
    | some ne, some npe, some R, some conn, some ranks, some pres =>
      if conn.length ≠ ne * npe ∨ ranks.length ≠ ne then "bad-shape" else
      let cf : Fin ne → Fin npe → Nat := fun e k => (conn[e.val * npe + k.val]?).getD 0
      let rf : Fin ne → Nat := fun e => (ranks[e.val]?).getD 0
      let P : Pre Nat := ⟨R, fun r => ((pres[r]?).getD []).toFinset⟩
      -- `run_spec`: the loop below returns the list of `ownedNodes P cf rf r`, r < R
      let owned := (run P cf rf R).1
      " ; ".intercalate ((List.range R).map fun r =>
        let own := (owned[r]?).getD ∅
        -- `mem_ghosts_iff` unfolded
        showNats (own.sort (· ≤ ·)) ++ " / " ++
        showNats (((List.finRange ne).filter fun e => decide (rf e ≠ r) && (List.finRange npe).any fun n => decide (cf e n ∈ own)).map (·.val)))
    | _, _, _, _, _, _ => "bad-op"
  | _ => "bad-op"

def main : IO Unit := protoMain fun line => handle (tokens line)
