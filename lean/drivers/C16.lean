/- Model driver for property C16: dispatch tables of the component results. -/
import EasyFEAVerif.Model.Proto
import EasyFEAVerif.Gen.C16.Results

open EasyFEAVerif EasyFEAVerif.Gen.C16

def showKin (t : List (String × Nat × Nat)) : String :=
  " ".intercalate (t.map fun e => s!"{e.1}:{e.2.1}:{e.2.2}")
def showComp (t : List (String × Nat)) : String :=
  " ".intercalate (t.map fun e => s!"{e.1}:{e.2}")

def handle (toks : List String) : String :=
  match toks with
  | ["kinematic", "Elastic"] => showKin kinematic_Elastic
  | ["kinematic", "WeakForms"] => showKin kinematic_WeakForms
  | ["components", "2"] => showComp components2
  | ["components", "3"] => showComp components3
  | "vm" :: d :: xs =>
    match parseRats xs with
    | some v => showRat ((if d == "2" then vmSquared2 else vmSquared3).evalQ (fun i => v.getD i 0))
    | none => "bad-op"
  | _ => "bad-op"

def main : IO Unit := protoMain fun line => handle (tokens line)
