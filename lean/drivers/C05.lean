/- Model driver for property C05: evaluates the GENERATED scheme definitions (the very
ones the theorems are about) over 𝕜 = ℚ, V = Fin n → ℚ, with K, C, M given as matrices.
Line format:  <algo> <what> n dt β γ α  K(n²) C(n²) M(n²) fN(n) F(n) u_n(n) v_n(n) a_n(n) x(n)
what ∈ {coefs, rhs, eval, update}; answer: rationals `p/q` separated by spaces (`none` for None). -/
import EasyFEAVerif.Model.Proto
import EasyFEAVerif.Gen.C05.Schemes
import Mathlib.LinearAlgebra.Matrix.ToLin

open EasyFEAVerif EasyFEAVerif.Gen.C05

abbrev Vec (n : Nat) := Fin n → ℚ

def showQ (q : ℚ) : String := s!"{q.num}/{q.den}"
def showVec {n : Nat} (v : Vec n) : String := " ".intercalate ((List.finRange n).map fun i => showQ (v i))
def showOpt {n : Nat} (o : Option (Vec n)) : String :=
  match o with
  | some v => showVec v
  | none => "none"

def vecOf (n : Nat) (l : List ℚ) : Vec n := fun i => l.getD i.val 0
def matOf (n : Nat) (l : List ℚ) : Matrix (Fin n) (Fin n) ℚ := Matrix.of fun i j => l.getD (i.val * n + j.val) 0

def parseQ (s : String) : Option ℚ :=
  match s.splitOn "/" with
  | [a] => a.toInt?.map (fun k => (k : ℚ))
  | [a, b] => do
      let p ← a.toInt?
      let q ← b.toNat?
      if q = 0 then none else some ((p : ℚ) / (q : ℚ))
  | _ => none

structure Req (n : Nat) where
  dt : ℚ
  β : ℚ
  γ : ℚ
  α : ℚ
  K : Matrix (Fin n) (Fin n) ℚ
  C : Matrix (Fin n) (Fin n) ℚ
  M : Matrix (Fin n) (Fin n) ℚ
  fN : Vec n
  F : Vec n
  u_n : Vec n
  v_n : Vec n
  a_n : Vec n
  x : Vec n

def mkReq (n : Nat) (nums : List ℚ) : Option (Req n) :=
  if nums.length ≠ 4 + 3 * n * n + 6 * n then none else
  let p := nums.take 4
  let r := nums.drop 4
  let K := r.take (n * n); let r := r.drop (n * n)
  let C := r.take (n * n); let r := r.drop (n * n)
  let M := r.take (n * n); let r := r.drop (n * n)
  let g := fun (k : Nat) => vecOf n ((r.drop (k * n)).take n)
  some { dt := p.getD 0 0, β := p.getD 1 0, γ := p.getD 2 0, α := p.getD 3 0,
         K := matOf n K, C := matOf n C, M := matOf n M,
         fN := g 0, F := g 1, u_n := g 2, v_n := g 3, a_n := g 4, x := g 5 }

def show3 {n : Nat} (r : Vec n × Option (Vec n) × Option (Vec n)) : String :=
  showVec r.1 ++ " | " ++ showOpt r.2.1 ++ " | " ++ showOpt r.2.2

def showC (c : ℚ × ℚ × ℚ) : String := s!"{showQ c.1} {showQ c.2.1} {showQ c.2.2}"

def answer {n : Nat} (algo what : String) (q : Req n) : String :=
  let K := Matrix.mulVecLin q.K
  let C := Matrix.mulVecLin q.C
  let M := Matrix.mulVecLin q.M
  match algo, what with
  | "parabolic", "coefs" => showC (parabolic_coefs q.dt q.β q.γ q.α)
  | "parabolic", "rhs" => showVec (parabolic_rhs q.dt q.β q.γ q.α K C M q.fN q.F q.u_n q.v_n q.a_n)
  | "parabolic", "eval" => show3 (parabolic_eval q.dt q.β q.γ q.α q.u_n q.v_n q.a_n q.x)
  | "parabolic", "update" => show3 (parabolic_update q.dt q.β q.γ q.α q.u_n q.v_n q.a_n q.x)
  | "newmark", "coefs" => showC (newmark_coefs q.dt q.β q.γ q.α)
  | "newmark", "rhs" => showVec (newmark_rhs q.dt q.β q.γ q.α K C M q.fN q.F q.u_n q.v_n q.a_n)
  | "newmark", "eval" => show3 (newmark_eval q.dt q.β q.γ q.α q.u_n q.v_n q.a_n q.x)
  | "newmark", "update" => show3 (newmark_update q.dt q.β q.γ q.α q.u_n q.v_n q.a_n q.x)
  | "hht", "coefs" => showC (hht_coefs q.dt q.β q.γ q.α)
  | "hht", "rhs" => showVec (hht_rhs q.dt q.β q.γ q.α K C M q.fN q.F q.u_n q.v_n q.a_n)
  | "hht", "eval" => show3 (hht_eval q.dt q.β q.γ q.α q.u_n q.v_n q.a_n q.x)
  | "hht", "update" => show3 (hht_update q.dt q.β q.γ q.α q.u_n q.v_n q.a_n q.x)
  | "hht_newmark", "coefs" => showC (hht_newmark_coefs q.dt q.β q.γ q.α)
  | "hht_newmark", "rhs" => showVec (hht_newmark_rhs q.dt q.β q.γ q.α K C M q.fN q.F q.u_n q.v_n q.a_n)
  | "hht_newmark", "eval" => show3 (hht_newmark_eval q.dt q.β q.γ q.α q.u_n q.v_n q.a_n q.x)
  | "hht_newmark", "update" => show3 (hht_newmark_update q.dt q.β q.γ q.α q.u_n q.v_n q.a_n q.x)
  | "hht_newmark", "params" => let p := hht_newmark_params q.α; s!"{showQ p.1} {showQ p.2}"
  | "midpoint", "coefs" => showC (midpoint_coefs q.dt q.β q.γ q.α)
  | "midpoint", "rhs" => showVec (midpoint_rhs q.dt q.β q.γ q.α K C M q.fN q.F q.u_n q.v_n q.a_n)
  | "midpoint", "eval" => show3 (midpoint_eval q.dt q.β q.γ q.α q.u_n q.v_n q.a_n q.x)
  | "midpoint", "update" => show3 (midpoint_update q.dt q.β q.γ q.α q.u_n q.v_n q.a_n q.x)
  | "euler_implicit", "coefs" => showC (euler_implicit_coefs q.dt q.β q.γ q.α)
  | "euler_implicit", "rhs" => showVec (euler_implicit_rhs q.dt q.β q.γ q.α K C M q.fN q.F q.u_n q.v_n q.a_n)
  | "euler_implicit", "eval" => show3 (euler_implicit_eval q.dt q.β q.γ q.α q.u_n q.v_n q.a_n q.x)
  | "euler_implicit", "update" => show3 (euler_implicit_update q.dt q.β q.γ q.α q.u_n q.v_n q.a_n q.x)
  | "euler_explicit", "coefs" => showC (euler_explicit_coefs q.dt q.β q.γ q.α)
  | "euler_explicit", "rhs" => showVec (euler_explicit_rhs q.dt q.β q.γ q.α K C M q.fN q.F q.u_n q.v_n q.a_n)
  | "euler_explicit", "eval" => show3 (euler_explicit_eval q.dt q.β q.γ q.α q.u_n q.v_n q.a_n q.x)
  | "euler_explicit", "update" => show3 (euler_explicit_update q.dt q.β q.γ q.α q.u_n q.v_n q.a_n q.x)
  | _, _ => "bad-op"

def handle (toks : List String) : String :=
  match toks with
  | algo :: what :: n :: rest =>
    match n.toNat?, rest.mapM parseQ with
    | some n, some nums =>
      match mkReq n nums with
      | some q => answer algo what q
      | none => "bad-length"
    | _, _ => "bad-op"
  | _ => "bad-op"

def main : IO Unit := protoMain fun line => handle (tokens line)
