/- Model driver for property C03 (assembly).  Values are Gaussian integers (re, im).
Request (one line):  asm <isMatrix> <dofN> <ndof> <ngroups> then per group
   <Ne> <nPe> <hasData> <Ne*nPe node ids> [<Ne*len*2 ints: re im ...>]   (len = (nPe*dofN)^2 or nPe*dofN)
Answer: ncol ; canon ; inv ; data(re,im ...) separated by " | ". -/
import EasyFEAVerif.Model.Proto
import EasyFEAVerif.Model.Assembly

open EasyFEAVerif EasyFEAVerif.Assembly

abbrev GInt := Int × Int
instance : Add GInt := ⟨fun a b => (a.1 + b.1, a.2 + b.2)⟩
instance : Zero GInt := ⟨(0, 0)⟩

def chunks {β : Type} (n : Nat) (l : List β) : List (List β) :=
  if n = 0 then [] else
  let rec go (fuel : Nat) (l : List β) : List (List β) :=
    match fuel with
    | 0 => []
    | fuel + 1 => if l.isEmpty then [] else l.take n :: go fuel (l.drop n)
  go (l.length + 1) l

def pairs : List Int → List GInt
  | a :: b :: r => (a, b) :: pairs r
  | _ => []

partial def parseGroups (isMatrix : Bool) (dofN : Nat) (k : Nat) (toks : List Int) : Option (List (ElemGroup GInt)) :=
  if k = 0 then (if toks.isEmpty then some [] else none) else
  match toks with
  | ne :: npe :: has :: rest =>
    let ne := ne.toNat; let npe := npe.toNat
    let nodes := (rest.take (ne * npe)).map Int.toNat
    let rest := rest.drop (ne * npe)
    let len := if isMatrix then (npe * dofN) * (npe * dofN) else npe * dofN
    if has = 1 then
      let vals := pairs (rest.take (ne * len * 2))
      let rest := rest.drop (ne * len * 2)
      (parseGroups isMatrix dofN (k - 1) rest).map fun gs =>
        { connect := chunks npe nodes, data := some (chunks len vals) } :: gs
    else
      (parseGroups isMatrix dofN (k - 1) rest).map fun gs =>
        { connect := chunks npe nodes, data := none } :: gs
  | _ => none

def showNats (l : List Nat) : String := " ".intercalate (l.map toString)

def handle (toks : List String) : String :=
  match toks with
  | "asm" :: rest =>
    match rest.mapM String.toInt? with
    | some (im :: dofN :: ndof :: ng :: body) =>
      let isMatrix := im = 1
      match parseGroups isMatrix dofN.toNat ng.toNat body with
      | some gs =>
        let A := assembleCsr isMatrix dofN.toNat ndof.toNat gs
        s!"{A.ncol} | {showNats A.canon} | {showNats A.inv} | " ++
          " ".intercalate (A.data.map fun v => s!"{v.1} {v.2}")
      | none => "bad-groups"
    | _ => "bad-op"
  | _ => "bad-op"

def main : IO Unit := protoMain fun line => handle (tokens line)
