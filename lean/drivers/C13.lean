/- Model driver for property C13: element matrix of a user form on the basis functions of the model.
   uv <p> <n> <c> | w (p) | N (p*n)                        -> (n*c)^2 entries, dof order (node, comp)
   gg <p> <n> <c> <d> | w (p) | dN (p*d*n)                 -> ∇u:∇v
   iso <p> <n> <d> <lam> <mu> | w (p) | dN (p*d*n)         -> λ tr ε(u) tr ε(v) + 2μ ε(u):ε(v)     (c = d)      -/
import EasyFEAVerif.Model.Proto
import EasyFEAVerif.Props.C13
import Mathlib.Data.Rat.Defs
import Mathlib.Algebra.Ring.Rat
import Mathlib.Algebra.Field.Rat

open EasyFEAVerif EasyFEAVerif.Props.C13

def arr (l : List ℚ) (k : Nat) : ℚ := (l[k]?).getD 0

def sections (toks : List String) : List (List String) :=
  let rec go (cur : List String) (out : List (List String)) : List String → List (List String)
    | [] => (out ++ [cur])
    | t :: r => if t == "|" then go [] (out ++ [cur]) r else go (cur ++ [t]) out r
  go [] [] toks

def showMat (n c : Nat) (f : Fin n → Fin c → Fin n → Fin c → ℚ) : String :=
  " ".intercalate ((List.finRange n).flatMap fun a => (List.finRange c).flatMap fun da =>
    (List.finRange n).flatMap fun b => (List.finRange c).map fun db => showRat (f a da b db))

def handle (toks : List String) : String :=
  match sections toks with
  | [["uv", ps, ns, cs], wl, nl] =>
    match ps.toNat?, ns.toNat?, cs.toNat?, wl.mapM parseRat, nl.mapM parseRat with
    | some p, some n, some c, some w, some N =>
      showMat n c fun a da b db => integrate (fun q : Fin p => arr w q.val)
        (fun q => ∑ k : Fin c, phi (fun i : Fin n => arr N (q.val * n + i.val)) a da k * phi (fun i : Fin n => arr N (q.val * n + i.val)) b db k)
    | _, _, _, _, _ => "bad-op"
  | [["gg", ps, ns, cs, ds], wl, dl] =>
    match ps.toNat?, ns.toNat?, cs.toNat?, ds.toNat?, wl.mapM parseRat, dl.mapM parseRat with
    | some p, some n, some c, some d, some w, some D =>
      showMat n c fun a da b db => integrate (fun q : Fin p => arr w q.val) fun q =>
        let dN : Matrix (Fin d) (Fin n) ℚ := fun k i => arr D ((q.val * d + k.val) * n + i.val)
        ∑ k : Fin d, ∑ c' : Fin c, gradPhi dN a da k c' * gradPhi dN b db k c'
    | _, _, _, _, _, _ => "bad-op"
  | [["iso", ps, ns, ds, ls, ms], wl, dl] =>
    match ps.toNat?, ns.toNat?, ds.toNat?, parseRat ls, parseRat ms, wl.mapM parseRat, dl.mapM parseRat with
    | some p, some n, some d, some lam, some mu, some w, some D =>
      showMat n d fun a da b db => integrate (fun q : Fin p => arr w q.val) fun q =>
        let dN : Matrix (Fin d) (Fin n) ℚ := fun k i => arr D ((q.val * d + k.val) * n + i.val)
        isoForm lam mu (gradPhi dN a da) (gradPhi dN b db)
    | _, _, _, _, _, _, _ => "bad-op"
  | _ => "bad-op"

def main : IO Unit := protoMain fun line => handle (tokens line)
