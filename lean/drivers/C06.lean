/- Model driver for property C06 (element tables). -/
import EasyFEAVerif.Model.Proto
import EasyFEAVerif.Model.Elem
import EasyFEAVerif.Gen.C06.All

open EasyFEAVerif

namespace C06
open EasyFEAVerif.Gen.C06

def elemTable (E : ElemData) (t : String) (i a : Nat) : Option PExpr :=
  match t with
  | "N" => E.N[i]?
  | "dN" => (E.dN[i]?).bind (·[a]?)
  | "ddN" => (E.ddN[i]?).bind (·[a]?)
  | "dddN" => (E.dddN[i]?).bind (·[a]?)
  | "ddddN" => (E.ddddN[i]?).bind (·[a]?)
  | _ => none

def hermTable (H : HermiteData) (t : String) (i : Nat) : Option PExpr :=
  match t with
  | "N" => H.N[i]?
  | "dN" => H.dN[i]?
  | "ddN" => H.ddN[i]?
  | "dddN" => H.dddN[i]?
  | _ => none

def handle (args : List String) : String :=
  match args with
  | "E" :: name :: t :: i :: a :: xs =>
    match allElems.find? (·.name == name), i.toNat?, a.toNat?, parseRats xs with
    | some E, some i, some a, some xs =>
      match elemTable E t i a with
      | some e => showRat (e.evalQ (pt xs))
      | none => "bad-index"
    | _, _, _, _ => "bad-op"
  | "H" :: name :: t :: i :: xs =>
    match allHermite.find? (·.1.name == name), i.toNat?, parseRats xs with
    | some H, some i, some xs =>
      match hermTable H.1 t i with
      | some e => showRat (e.evalQ (pt xs))
      | none => "bad-index"
    | _, _, _ => "bad-op"
  | ["nodes", name] =>
    match allElems.find? (·.name == name) with
    | some E => " ".intercalate (E.nodes.map fun r => ",".intercalate (r.map showRat))
    | none => "bad-op"
  | ["names"] => " ".intercalate (allElems.map (·.name) ++ allHermite.map (·.1.name))
  | _ => "bad-op"
end C06

def main : IO Unit := protoMain fun line => C06.handle (tokens line)
