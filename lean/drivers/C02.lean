/- Model driver for property C02 (evaluates `stiffness` of Model/Patch.lean and `mass` of Props/C02 over ℚ, one element).
   K <p> <r> <n> | w (p) | B (p*r*n, row-major) | C (r*r)    -> K_e (n*n)
   M <p> <c> <n> | w (p) | rho | N (p*c*n)                     -> M_e (n*n)                                  -/
import EasyFEAVerif.Model.Proto
import EasyFEAVerif.Props.C02
import Mathlib.Data.Rat.Defs
import Mathlib.Algebra.Ring.Rat
import Mathlib.Algebra.Field.Rat

open EasyFEAVerif EasyFEAVerif.Patch EasyFEAVerif.Props.C02

def arr (l : List ℚ) (k : Nat) : ℚ := (l[k]?).getD 0

def sections (toks : List String) : List (List String) :=
  let rec go (cur : List String) (out : List (List String)) : List String → List (List String)
    | [] => (out ++ [cur])
    | t :: r => if t == "|" then go [] (out ++ [cur]) r else go (cur ++ [t]) out r
  go [] [] toks

def handle (toks : List String) : String :=
  match sections toks with
  | [[kind, ps, rs, ns], a, b, c] =>
    match ps.toNat?, rs.toNat?, ns.toNat?, a.mapM parseRat, b.mapM parseRat, c.mapM parseRat with
    | some p, some r, some n, some wl, some bl, some cl =>
      let w : Fin p → ℚ := fun q => arr wl q.val
      if kind == "K" then
        if wl.length ≠ p ∨ bl.length ≠ p * r * n ∨ cl.length ≠ r * r then "bad-shape" else
        let B : Fin p → Fin r → Fin n → ℚ := fun q a j => arr bl ((q.val * r + a.val) * n + j.val)
        let C : Fin r → Fin r → ℚ := fun a b => arr cl (a.val * r + b.val)
        " ".intercalate ((List.finRange n).flatMap fun i => (List.finRange n).map fun j => showRat (stiffness w B C i j))
      else if kind == "M" then
        if wl.length ≠ p ∨ cl.length ≠ p * r * n ∨ bl.length ≠ 1 then "bad-shape" else
        let N : Fin p → Fin r → Fin n → ℚ := fun q a j => arr cl ((q.val * r + a.val) * n + j.val)
        " ".intercalate ((List.finRange n).flatMap fun i => (List.finRange n).map fun j => showRat (mass w (arr bl 0) N i j))
      else "bad-op"
    | _, _, _, _, _, _ => "bad-op"
  | _ => "bad-op"

def main : IO Unit := protoMain fun line => handle (tokens line)
