/- Model driver for property C10: evaluates the generated `Get_Pmat` matrices over ℚ.
   pmat3 q (9 rationals, variable order 3k+i: axis_1 x y z, axis_2 x y z, axis_3 x y z)  -> 36 pairs "a b" meaning a + b√2
   pmat2 q (9 rationals, only the 2×2 block is read)                                    -> 9 pairs
   frame dx dy dz vx vy vz (direction of the fiber, vector handed to the yAxis setter)   -> y' (3 rationals), z' (3 rationals): the un-normalised axes of Model/BeamFrame.lean -/
import EasyFEAVerif.Model.Proto
import EasyFEAVerif.Model.KelvinRot
import EasyFEAVerif.Gen.C10.Pmat
import EasyFEAVerif.Model.BeamFrame

open EasyFEAVerif EasyFEAVerif.KelvinRot EasyFEAVerif.Gen.C10

def evalM (M : List (List PS)) (n : Nat) (q : List Rat) : String :=
  let x : Nat → Rat := fun v => (q[v]?).getD 0
  " ".intercalate ((List.range n).flatMap fun i => (List.range n).map fun j =>
    let e := entry M i j
    showRat (PExpr.evalQ x e.1) ++ " " ++ showRat (PExpr.evalQ x e.2))

def main : IO Unit := protoMain fun line =>
  match tokens line with
  | "pmat3" :: r => match r.mapM parseRat with
    | some q => if q.length = 9 then evalM Pmat3 6 q else "bad-shape"
    | none => "bad-op"
  | "pmat2" :: r => match r.mapM parseRat with
    | some q => if q.length = 9 then evalM Pmat2 3 q else "bad-shape"
    | none => "bad-op"
  | "frame" :: r => match r.mapM parseRat with
    | some [dx, dy, dz, vx, vy, vz] =>
      let f := BeamFrame.frameQ (dx, dy, dz) (vx, vy, vz)
      " ".intercalate ([f.1.1, f.1.2.1, f.1.2.2, f.2.1, f.2.2.1, f.2.2.2].map showRat)
    | some _ => "bad-shape"
    | none => "bad-op"
  | _ => "bad-op"
