/- Model driver for property C14.
   * one line = one history (space-separated ops); answer = the needUpdate flag after each op (0/1);
   * `wiring <Class>`: the dependency table (hand-written, Model/Sources.lean) and the registrations extracted from the
     constructors (Gen/C14/Observers.lean) of a simulation class: "deps=a;b observed=a;b";
   * `hist <Class> <ops>` with ops `read` / `set <holder expression without spaces>`: the flag after each op in the
     observer-wiring model of that class. -/
import EasyFEAVerif.Model.Proto
import EasyFEAVerif.Model.Coherence
import EasyFEAVerif.Model.Sources
import EasyFEAVerif.Gen.C14.Observers

open EasyFEAVerif EasyFEAVerif.Coherence

def parseOps : List String → Option (List Op)
  | [] => some []
  | "setParam" :: r => (parseOps r).map (Op.setParam :: ·)
  | "move" :: m :: r => do let k ← m.toNat?; let rest ← parseOps r; return Op.moveMesh k :: rest
  | "replace" :: r => (parseOps r).map (Op.replaceMesh :: ·)
  | "back" :: m :: r => do let k ← m.toNat?; let rest ← parseOps r; return Op.backToMesh k :: rest
  | "bcL" :: r => (parseOps r).map (Op.bcLagrange :: ·)
  | "bcO" :: r => (parseOps r).map (Op.bcOther :: ·)
  | "algo" :: r => (parseOps r).map (Op.setAlgo :: ·)
  | "read" :: r => (parseOps r).map (Op.read :: ·)
  | _ => none

def run (ops : List Op) : String :=
  let rec go (s : State) (ops : List Op) (acc : List String) : List String :=
    match ops with
    | [] => acc.reverse
    | o :: os => let s' := step s o; go s' os ((if s'.needUpdate then "1" else "0") :: acc)
  " ".intercalate (go init ops [])

def parseSrcOps : List String → Option (List Sources.Op)
  | [] => some []
  | "read" :: r => (parseSrcOps r).map (Sources.Op.read :: ·)
  | "set" :: x :: r => if Sources.holders.contains x then (parseSrcOps r).map (Sources.Op.set (Sources.idOf x) :: ·) else none
  | _ => none

def runSrc (w : Sources.Wiring) (ops : List Sources.Op) : String :=
  let rec go (s : Sources.State) (ops : List Sources.Op) (acc : List String) : List String :=
    match ops with
    | [] => acc.reverse
    | o :: os => let s' := Sources.step w s o; go s' os ((if s'.needUpdate then "1" else "0") :: acc)
  " ".intercalate (go Sources.init ops [])

def main : IO Unit := protoMain fun line =>
  match tokens line with
  | ["wiring", c] =>
    match Sources.depsOf.lookup c, Gen.C14.observersOf.lookup c with
    | some ds, some os => s!"deps={";".intercalate ds} observed={";".intercalate os}"
    | _, _ => "unknown-class"
  | "hist" :: c :: r =>
    match Sources.depsOf.lookup c, Gen.C14.observersOf.lookup c, parseSrcOps r with
    | some ds, some os, some ops => runSrc { deps := ds.map Sources.idOf, observed := os.map Sources.idOf } ops
    | _, _, _ => "bad-op"
  | toks =>
    match parseOps toks with
    | some ops => run ops
    | none => "bad-op"
