/- Model driver for property C14: one line = one history (space-separated ops); answer = the
needUpdate flag after each op (0/1), then the freshness of the final read. -/
import EasyFEAVerif.Model.Proto
import EasyFEAVerif.Model.Coherence

open EasyFEAVerif EasyFEAVerif.Coherence

def parseOps : List String → Option (List Op)
  | [] => some []
  | "setParam" :: r => (parseOps r).map (Op.setParam :: ·)
  | "move" :: m :: r => do let k ← m.toNat?; let rest ← parseOps r; return Op.moveMesh k :: rest
  | "replace" :: r => (parseOps r).map (Op.replaceMesh :: ·)
  | "back" :: m :: r => do let k ← m.toNat?; let rest ← parseOps r; return Op.backToMesh k :: rest
  | "bcL" :: r => (parseOps r).map (Op.bcLagrange :: ·)
  | "bcO" :: r => (parseOps r).map (Op.bcOther :: ·)
  | "algo" :: r => (parseOps r).map (Op.setAlgo :: ·)
  | "read" :: r => (parseOps r).map (Op.read :: ·)
  | _ => none

def run (ops : List Op) : String :=
  let rec go (s : State) (ops : List Op) (acc : List String) : List String :=
    match ops with
    | [] => acc.reverse
    | o :: os => let s' := step s o; go s' os ((if s'.needUpdate then "1" else "0") :: acc)
  " ".intercalate (go init ops [])

def main : IO Unit := protoMain fun line =>
  match parseOps (tokens line) with
  | some ops => run ops
  | none => "bad-op"
