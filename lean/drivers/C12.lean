/- Model driver for property C12: generated Det/adj formulas, subscripts and the axis rule. -/
import EasyFEAVerif.Model.Proto
import EasyFEAVerif.Gen.C12.Linalg

open EasyFEAVerif EasyFEAVerif.Gen.C12

def showMat (x : Nat → Rat) (m : List (List PExpr)) : String :=
  " ".intercalate (m.flatten.map fun e => showRat (e.evalQ x))

def handle (toks : List String) : String :=
  match toks with
  | "det" :: n :: xs =>
    match parseRats xs with
    | some v =>
      let x := fun i => v.getD i 0
      match n with
      | "1" => showRat (det1.evalQ x)
      | "2" => showRat (det2.evalQ x)
      | "3" => showRat (det3.evalQ x)
      | _ => "bad-dim"
    | none => "bad-op"
  | "adj" :: n :: xs =>
    match parseRats xs with
    | some v =>
      let x := fun i => v.getD i 0
      match n with
      | "2" => showMat x adj2
      | "3" => showMat x adj3
      | _ => "bad-dim"
    | none => "bad-op"
  | ["keeps", a, nd] =>
    match a.toInt?, nd.toInt? with
    | some a, some nd => toString (keepsAxis a nd)
    | _, _ => "bad-op"
  | ["dot", a, b] =>
    match a.toNat?, b.toNat? with
    | some a, some b => match dotSubscripts.find? (fun e => e.1 == a && e.2.1 == b) with
      | some e => String.ofList e.2.2
      | none => "none"
    | _, _ => "bad-op"
  | ["ddot", a, b] =>
    match a.toNat?, b.toNat? with
    | some a, some b => match ddotSubscripts.find? (fun e => e.1 == a && e.2.1 == b) with
      | some e => String.ofList e.2.2
      | none => "none"
    | _, _ => "bad-op"
  | ["tensorprod"] => " ".intercalate (tensorProdSubscripts.map String.ofList)
  | _ => "bad-op"

def main : IO Unit := protoMain fun line => handle (tokens line)
