/- Model driver for property C07 (quadrature rules and factory). -/
import EasyFEAVerif.Model.Proto
import EasyFEAVerif.Model.Quad
import EasyFEAVerif.Gen.C07.Factory
import EasyFEAVerif.Gen.C07.RulesIndex

open EasyFEAVerif EasyFEAVerif.Gen.C07

def showQS (d : Nat) (x : QS) : String := s!"{showRat x.a} {showRat x.b} {d}"

def ruleAnswer (R : Rule) (args : List String) : String :=
  match args with
  | ["n"] => toString R.nPg
  | ["w", p] => match p.toNat? with
    | some p => match R.w[p]? with
      | some w => showQS R.d w
      | none => "bad-index"
    | none => "bad-op"
  | ["x", p, k] => match p.toNat?, k.toNat? with
    | some p, some k => match (R.pts[p]?).bind (·[k]?) with
      | some x => showQS R.d x
      | none => "bad-index"
    | _, _ => "bad-op"
  | _ => "bad-op"

def handle (args : List String) : String :=
  match args with
  | "R" :: name :: rest =>
    match rulesIndex.find? (·.1 == name) with
    | some r => ruleAnswer r.2 rest
    | none => "no-such-rule"
  | "F" :: et :: mt :: rest =>
    match factory.find? (fun f => f.1 == et && f.2.1 == mt) with
    | some f => ruleAnswer f.2.2 rest
    | none => "no-such-pair"
  | ["rules"] => " ".intercalate (rulesIndex.map (·.1))
  | ["pairs"] => " ".intercalate (factory.map fun f => f.1 ++ ":" ++ f.2.1)
  | _ => "bad-op"

def main : IO Unit := protoMain fun line => handle (tokens line)
