/- Model driver for property C19.
   rr <mu> <H> <sy> <qtr> <p>         -> "dp q pNew" of the scalar return mapping
   sm <ops…>  (i = integrate, s = save, r<k> = restore k) -> committed / trial / saved as counters: the model of the simulation's
        state machine with F(committed, eps) = committed * 1000 + eps (eps = position of the op)                           -/
import EasyFEAVerif.Model.Proto
import EasyFEAVerif.Props.C19
import Mathlib.Data.Rat.Defs
import Mathlib.Algebra.Ring.Rat
import Mathlib.Algebra.Field.Rat
import Mathlib.Algebra.Order.Field.Rat

open EasyFEAVerif EasyFEAVerif.Props.C19

def main : IO Unit := protoMain fun line =>
  match tokens line with
  | ["rr", a, b, c, d, e] =>
    match parseRat a, parseRat b, parseRat c, parseRat d, parseRat e with
    | some mu, some H, some sy, some qtr, some p =>
      let m : Mat ℚ := ⟨mu, H, sy⟩
      s!"{showRat (dP m qtr p)} {showRat (qNew m qtr p)} {showRat (pNew m qtr p)}"
    | _, _, _, _, _ => "bad-op"
  | "sm" :: ops =>
    let F : Nat → Nat → Nat := fun c e => c * 1000 + e
    let st := (ops.zipIdx).foldl (fun (s : Sim Nat) (oi : String × Nat) =>
      let (o, i) := oi
      if o == "i" then step F s (Op.integrate (i + 1))
      else if o == "s" then step F s (Op.save : Op Nat)
      else match (o.drop 1).toNat? with
        | some k => step F s (Op.restore k : Op Nat)
        | none => s) ({ committed := 0, trial := 0, saved := [] } : Sim Nat)
    s!"{st.committed} {st.trial} {st.saved.length}"
  | _ => "bad-op"
