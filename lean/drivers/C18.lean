/- Model driver for property C18: stress and tangent of a translated law at a given right Cauchy-Green tensor.
   law <name> | cxx cyy czz cyz cxz cxy | w | params…    (w = I3^(1/6), given by the caller)
   -> "W | dW (6 pairs a b = a + b√2) | d2W (36 pairs)"  with dW = 2 Σ dWdIk dIk/dC, d2W = 4 Σ dWdIk d²Ik/dC² + 4 Σ d2WdIkdIl dIk⊗dIl   -/
import EasyFEAVerif.Model.Proto
import EasyFEAVerif.Model.HyperLaws
import EasyFEAVerif.Gen.C18.Laws

open EasyFEAVerif EasyFEAVerif.HyperLaws EasyFEAVerif.Gen.C18

abbrev Pr := Rat × Rat   -- a + b√2
def padd (p q : Pr) : Pr := (p.1 + q.1, p.2 + q.2)
def pmul (p q : Pr) : Pr := (p.1 * q.1 + 2 * p.2 * q.2, p.1 * q.2 + p.2 * q.1)
def psc (c : Rat) (p : Pr) : Pr := (c * p.1, c * p.2)
def ofEntry (x : Nat → Rat) (e : PExpr × Nat) : Pr :=
  let v := PExpr.evalQ x e.1
  if e.2 % 2 == 0 then (v * 2 ^ (e.2 / 2), 0) else (0, v * 2 ^ (e.2 / 2))
def evalLQ (y : Nat → Rat) (e : PExpr × Nat) : Rat := PExpr.evalQ y e.1 / (y 2) ^ e.2
def showP (p : Pr) : String := showRat p.1 ++ " " ++ showRat p.2

def sections (toks : List String) : List (List String) :=
  let rec go (cur : List String) (out : List (List String)) : List String → List (List String)
    | [] => (out ++ [cur])
    | t :: r => if t == "|" then go [] (out ++ [cur]) r else go (cur ++ [t]) out r
  go [] [] toks

def tables (name : String) : Option ((PExpr × Nat) × List (PExpr × Nat) × List (List (PExpr × Nat))) :=
  if name == "NeoHookean" then some (NeoHookean_W, NeoHookean_dW, NeoHookean_d2W)
  else if name == "MooneyRivlin" then some (MooneyRivlin_W, MooneyRivlin_dW, MooneyRivlin_d2W)
  else if name == "SaintVenantKirchhoff" then some (SaintVenantKirchhoff_W, SaintVenantKirchhoff_dW, SaintVenantKirchhoff_d2W)
  else none

def handle (toks : List String) : String :=
  match sections toks with
  | [["law", name], cs, [ws], ps] =>
    match tables name, cs.mapM parseRat, parseRat ws, ps.mapM parseRat with
    | some (W, dW, d2W), some c, some w, some params =>
      if c.length ≠ 6 then "bad-shape" else
      let x : Nat → Rat := fun v => (c[v]?).getD 0
      let i1 := PExpr.evalQ x I1
      let i2 := PExpr.evalQ x I2
      let y : Nat → Rat := fun v => if v = 0 then i1 else if v = 1 then i2 else if v = 2 then w else (params[v - 3]?).getD 0
      let dI : List (List (PExpr × Nat)) := [dI1, dI2, dI3]
      let d2I : List (List (List (PExpr × Nat))) := [d2I1, d2I2, d2I3]
      let g (k r : Nat) : Pr := ofEntry x (entry1 (dI.getD k []) r)
      let hh (k r s : Nat) : Pr := ofEntry x (entry2 (d2I.getD k []) r s)
      let a (k : Nat) : Rat := evalLQ y (entry1 dW k)
      let b (k l : Nat) : Rat := evalLQ y (entry2 d2W k l)
      let dw := (List.range 6).map fun r => psc 2 ((List.range 3).foldl (fun acc k => padd acc (psc (a k) (g k r))) (0, 0))
      let d2w := (List.range 6).flatMap fun r => (List.range 6).map fun s =>
        let t1 := (List.range 3).foldl (fun acc k => padd acc (psc (a k) (hh k r s))) (0, 0)
        let t2 := (List.range 3).foldl (fun acc k => (List.range 3).foldl (fun acc2 l => padd acc2 (psc (b k l) (pmul (g k r) (g l s)))) acc) (0, 0)
        psc 4 (padd t1 t2)
      showRat (evalLQ y W) ++ " | " ++ " ".intercalate (dw.map showP) ++ " | " ++ " ".intercalate (d2w.map showP)
    | _, _, _, _ => "bad-op"
  | _ => "bad-op"

def main : IO Unit := protoMain fun line => handle (tokens line)
