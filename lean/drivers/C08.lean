/- Model driver for property C08.
   rot x y z c s            -> the 9 entries of the generated `_Rotation_matrix` (row-major)
   flux x0 y0 x1 y1 ...     -> "flux twiceArea nx ny" of the closed chain through the points (model of the 2D normals) -/
import EasyFEAVerif.Model.Proto
import EasyFEAVerif.Props.C08
import Mathlib.Data.Rat.Defs
import Mathlib.Algebra.Ring.Rat
import Mathlib.Algebra.Field.Rat

open EasyFEAVerif EasyFEAVerif.Props.C08 EasyFEAVerif.Gen

def pairs : List ℚ → List (ℚ × ℚ)
  | a :: b :: r => (a, b) :: pairs r
  | _ => []

def main : IO Unit := protoMain fun line =>
  match tokens line with
  | "rot" :: r => match r.mapM parseRat with
    | some [x, y, z, c, s] =>
      let R := C08.rotMat x y z c s
      " ".intercalate ((List.finRange 3).flatMap fun i => (List.finRange 3).map fun j => showRat (R i j))
    | _ => "bad-op"
  | "flux" :: r => match r.mapM parseRat with
    | some l =>
      let pts := pairs l
      let n := normalSum pts
      s!"{showRat (flux pts)} {showRat (twiceArea pts)} {showRat n.1} {showRat n.2}"
    | none => "bad-op"
  | _ => "bad-op"
