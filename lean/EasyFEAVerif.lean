import EasyFEAVerif.Props.C06
