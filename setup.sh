#!/bin/sh
# Offline setup: regenerate the model from /repo's current sources and build the Lean project.
set -e
cd "$(dirname "$0")"
python3 -m tools.setup_all
