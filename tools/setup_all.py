"""setup_cmd: regenerate every Gen/ module from /repo and build all Lean targets."""
import importlib, os, pkgutil, subprocess, sys

VERIF = os.path.dirname(os.path.dirname(os.path.abspath(__file__)))
sys.path.insert(0, VERIF)
from tools import runner  # noqa: E402
import tools.props as props  # noqa: E402


def main():
    targets = []
    for m in sorted(pkgutil.iter_modules(props.__path__), key=lambda x: x.name):
        spec = importlib.import_module(f"tools.props.{m.name}")
        try:
            spec.generate(runner.REPO, runner.LEAN)
        except Exception as e:  # a refusal is handled by the check itself
            print(f"setup: generation for {m.name} failed: {e}", file=sys.stderr)
            continue
        targets += [t for t in spec.LEAN_TARGETS if t not in targets]
    rc = subprocess.call(["lake", "build"] + targets, cwd=runner.LEAN)
    # a failing theorem is reported by the check; setup only needs the toolchain to work
    rc2 = subprocess.call(["lake", "build", "EasyFEAVerif.Model.Proto"], cwd=runner.LEAN)
    return 0 if rc2 == 0 else 1


if __name__ == "__main__":
    sys.exit(main())
