"""Common driver of every check:  ./check Cxx --tier quick|thorough

Steps (DESIGN.md section 4): regenerate Gen/ from /repo, build the Lean targets,
audit axioms, run the correspondence harness in /repo's interpreter, decide the
outcome, write /verif/evidence/Cxx.json.

Exit codes: 0 = property held on everything explored, 1 = VIOLATION line printed,
2 = tool failure / timeout (never a VIOLATION line).
"""

from __future__ import annotations

import fcntl
import importlib
import json
import os
import re
import subprocess
import sys
import time

VERIF = os.path.dirname(os.path.dirname(os.path.abspath(__file__)))
REPO = os.environ.get("VERIF_REPO", "/repo")
LEAN = os.path.join(VERIF, "lean")
VENV_PY = os.environ.get("VERIF_PYTHON", "/venv/bin/python")
OUT = os.path.join(VERIF, "out")
ALLOWED_AXIOMS = {"propext", "Classical.choice", "Quot.sound"}
FORBIDDEN = re.compile(r"\b(sorry|admit|native_decide|bv_decide|implemented_by|unsafe)\b|^\s*axiom\s|maxHeartbeats\s+0\b", re.M)

TRUSTED_BASE = [
    "Lean 4.33.0 kernel (and Mathlib v4.33.0 as compiled in /opt/veriftools)",
    "axioms: propext, Classical.choice, Quot.sound only (audited by #print axioms on every run; no native_decide, no bv_decide, no sorry)",
    "tools/py2lean (Python ast -> Lean data translator) and tools/harness (correspondence), both validated against the running code on every run",
    "real-number reading of float code: IEEE-754 rounding, numpy/scipy kernels and linear-solver backends are modelled, not verified",
]


class ToolFailure(Exception):
    pass


def sh(cmd, cwd=None, env=None, timeout=None, input=None):
    e = dict(os.environ)
    if env:
        e.update(env)
    p = subprocess.run(cmd, cwd=cwd, env=e, timeout=timeout, input=input, capture_output=True, text=True)
    return p.returncode, p.stdout, p.stderr


class lean_lock:
    """Serialises regeneration + lake build across concurrently running checks."""

    def __enter__(self):
        os.makedirs(OUT, exist_ok=True)
        self.f = open(os.path.join(OUT, ".lean.lock"), "w")
        fcntl.flock(self.f, fcntl.LOCK_EX)
        return self

    def __exit__(self, *a):
        fcntl.flock(self.f, fcntl.LOCK_UN)
        self.f.close()


def lake_build(targets, timeout=3000):
    rc, out, err = sh(["lake", "build"] + targets, cwd=LEAN, timeout=timeout)
    return rc == 0, out + err


def strip_comments(src: str) -> str:
    # nested block comments
    out, i, depth = [], 0, 0
    while i < len(src):
        if src.startswith("/-", i):
            depth += 1
            i += 2
        elif src.startswith("-/", i) and depth:
            depth -= 1
            i += 2
        elif depth:
            i += 1
        elif src.startswith("--", i):
            j = src.find("\n", i)
            i = len(src) if j < 0 else j
        else:
            out.append(src[i])
            i += 1
    return "".join(out)


def grep_forbidden():
    bad = []
    for root, _, files in os.walk(os.path.join(LEAN, "EasyFEAVerif")):
        for f in files:
            if f.endswith(".lean"):
                p = os.path.join(root, f)
                with open(p, encoding="utf-8") as fh:
                    src = strip_comments(fh.read())
                for m in FORBIDDEN.finditer(src):
                    bad.append(f"{os.path.relpath(p, VERIF)}: {m.group(0).strip()}")
    for f in ("Driver.lean",):
        p = os.path.join(LEAN, f)
        if os.path.exists(p):
            with open(p, encoding="utf-8") as fh:
                for m in FORBIDDEN.finditer(strip_comments(fh.read())):
                    bad.append(f"{f}: {m.group(0).strip()}")
    return bad


def theorem_names(module: str):
    """Names of the theorems stated in a Props module (qualified)."""
    path = os.path.join(LEAN, *module.split(".")) + ".lean"
    with open(path, encoding="utf-8") as fh:
        src = strip_comments(fh.read())
    ns = []
    names = []
    for line in src.splitlines():
        m = re.match(r"\s*namespace\s+(\S+)", line)
        if m:
            ns.append(m.group(1))
            continue
        m = re.match(r"\s*end\s+(\S+)", line)
        if m and ns and ns[-1] == m.group(1):
            ns.pop()
            continue
        m = re.match(r"\s*(?:private\s+|protected\s+)?theorem\s+([^\s:({\[]+)", line)
        if m and not line.strip().startswith("private"):
            names.append(".".join(ns + [m.group(1)]))
    return names


def audit_axioms(prop_id: str, modules: list[str]):
    """Runs `#print axioms` on every theorem of the Props modules."""
    names = []
    for m in modules:
        names += theorem_names(m)
    if not names:
        raise ToolFailure("no theorems found in " + ", ".join(modules))
    os.makedirs(os.path.join(OUT, "audit"), exist_ok=True)
    path = os.path.join(OUT, "audit", f"Audit_{prop_id}.lean")
    with open(path, "w") as fh:
        for m in modules:
            fh.write(f"import {m}\n")
        for n in names:
            fh.write(f"#print axioms {n}\n")
    rc, out, err = sh(["lake", "env", "lean", path], cwd=LEAN, timeout=1200)
    if rc != 0:
        raise ToolFailure("axiom audit failed to run:\n" + out + err)
    found = {}
    for m in re.finditer(r"'([^']+)' (does not depend on any axioms|depends on axioms: \[([^\]]*)\])", out):
        axs = set(a.strip() for a in (m.group(3) or "").replace("\n", " ").split(",") if a.strip())
        found[m.group(1)] = axs
    missing = [n for n in names if n not in found]
    if missing:
        raise ToolFailure("axiom audit: no report for " + ", ".join(missing[:5]))
    bad = {n: sorted(a - ALLOWED_AXIOMS) for n, a in found.items() if a - ALLOWED_AXIOMS}
    return names, found, bad


def failing_decls(build_output: str):
    """Extracts 'file:line' error locations and the enclosing theorem names."""
    locs = re.findall(r"error: (?:\./)?(EasyFEAVerif/[^:\s]+\.lean):(\d+):(\d+)", build_output)
    res = []
    for f, line, _ in locs:
        p = os.path.join(LEAN, f)
        name = None
        try:
            with open(p, encoding="utf-8") as fh:
                lines = fh.read().splitlines()
            for k in range(int(line) - 1, -1, -1):
                m = re.match(r"\s*(?:private\s+)?(?:theorem|def|example|instance|lemma)\s*([^\s:({\[]*)", lines[k])
                if m:
                    name = m.group(1) or "example"
                    break
        except OSError:
            pass
        res.append(dict(file=f, line=int(line), decl=name))
    # lake also reports modules that failed
    for m in re.findall(r"^- (EasyFEAVerif\.\S+)", build_output, re.M):
        if not any(r["file"].replace("/", ".")[:-5] == m for r in res):
            res.append(dict(file=m, line=0, decl=None))
    return res


def known_findings():
    path = os.path.join(VERIF, "known_findings.txt")
    known = {}
    if os.path.exists(path):
        with open(path, encoding="utf-8") as fh:
            for line in fh:
                line = line.strip()
                m = re.match(r'known:\s+property=(\S+)\s+key="([^"]+)"\s*(.*)', line)
                if m:
                    known[(m.group(1), m.group(2))] = m.group(3)
    return known


def run_harness(prop_id, tier, seed, extra=None, timeout=3000):
    os.makedirs(os.path.join(OUT, "harness"), exist_ok=True)
    outp = os.path.join(OUT, "harness", f"{prop_id}.json")
    if os.path.exists(outp):
        os.remove(outp)
    # a private bytecode cache per run: never reuse a .pyc compiled from another version of /repo
    import shutil
    import tempfile

    pyc = tempfile.mkdtemp(prefix="pyc-", dir=OUT)
    env = {"PYTHONPATH": REPO + os.pathsep + VERIF, "VERIF_REPO": REPO, "MPLBACKEND": "Agg",
           "OMP_NUM_THREADS": "4", "OPENBLAS_NUM_THREADS": "4", "PYTHONPYCACHEPREFIX": pyc}
    cmd = [VENV_PY, "-m", f"tools.harness.{prop_id}", "--tier", tier, "--seed", str(seed), "--out", outp] + (extra or [])
    try:
        rc, out, err = sh(cmd, cwd=VERIF, env=env, timeout=timeout)
    except subprocess.TimeoutExpired:
        raise ToolFailure(f"harness {prop_id} timed out")
    finally:
        shutil.rmtree(pyc, ignore_errors=True)
    if not os.path.exists(outp):
        raise ToolFailure(f"harness {prop_id} crashed (rc={rc}):\n{out[-3000:]}\n{err[-6000:]}")
    with open(outp) as fh:
        return json.load(fh)


def write_replay(prop_id, seed, payload):
    d = os.path.join(OUT, "replay")
    os.makedirs(d, exist_ok=True)
    k = 0
    while True:
        p = os.path.join(d, f"{prop_id}-seed{seed}-{k}.json")
        if not os.path.exists(p):
            break
        k += 1
    with open(p, "w") as fh:
        json.dump(payload, fh, indent=1, default=str)
    return p


def main(argv=None):
    import argparse

    ap = argparse.ArgumentParser()
    ap.add_argument("prop")
    ap.add_argument("--tier", default=os.environ.get("VERIF_TIER", "quick"), choices=["quick", "thorough"])
    ap.add_argument("--seed", type=int, default=int(os.environ.get("VERIF_SEED", "0") or 0))
    ap.add_argument("--replay", default=None)
    ap.add_argument("--no-build", action="store_true", help="debug: skip lake build/audit")
    args = ap.parse_args(argv)
    prop_id = args.prop
    t0 = time.time()
    replay_key = None
    if args.replay:
        # a replay file records the seed and tier of the run that produced it and the failing input it found:
        # replaying = re-running the same check with the same seed and tier and looking for the same failure key
        try:
            with open(args.replay) as fh:
                rp = json.load(fh)
            args.seed = int(rp.get("seed", args.seed))
            args.tier = rp.get("tier", args.tier)
            replay_key = (rp.get("failure") or {}).get("key") or rp.get("kind")
        except (OSError, ValueError) as e:
            print(f"TOOL-FAILURE property={prop_id}: cannot read replay file: {e}", file=sys.stderr)
            return 2
    try:
        spec = importlib.import_module(f"tools.props.{prop_id}")
    except ModuleNotFoundError:
        print(f"unknown property {prop_id}", file=sys.stderr)
        return 2

    broken = []  # (kind, detail): proof obligations / correspondence that no longer check
    gen_summary = None
    n_theorems = 0
    discharged = 0
    axioms_seen = set()
    theorems = []
    try:
        if True:
            if not args.no_build:
                with lean_lock():
                    # 1. regenerate the model from the current source
                    from tools.py2lean.interp import Refuse

                    try:
                        gen_summary = spec.generate(REPO, LEAN)
                    except Refuse as e:
                        broken.append(dict(kind="translator-refused", detail=str(e)))
                    except (OSError, SyntaxError, KeyError, IndexError, ValueError, TypeError, AttributeError) as e:
                        broken.append(dict(kind="translator-refused", detail=f"{type(e).__name__}: {e}"))
                    # 2. build
                    if not broken:
                        ok, out = lake_build(spec.LEAN_TARGETS)
                        if not ok:
                            decls = failing_decls(out)
                            if not decls:
                                raise ToolFailure("lake build failed without a located error:\n" + out[-4000:])
                            for d in decls:
                                broken.append(dict(kind="theorem-no-longer-checks", detail=d))
                        if args.tier == "thorough" and ok and getattr(spec, "LEANCHECKER", True):
                            rc, o, e = sh(["lake", "env", "leanchecker"] + spec.LEAN_TARGETS, cwd=LEAN, timeout=3000)
                            if rc != 0:
                                raise ToolFailure("leanchecker rejected the build:\n" + (o + e)[-3000:])
                    # 3. audit
                    bad = grep_forbidden()
                    if bad:
                        raise ToolFailure("forbidden construct in Lean sources: " + "; ".join(bad))
                    if not broken:
                        theorems, found, badax = audit_axioms(prop_id, spec.PROPS_MODULES)
                        if badax:
                            raise ToolFailure(f"unexpected axioms: {badax}")
                        n_theorems = len(theorems)
                        discharged = n_theorems
                        for a in found.values():
                            axioms_seen |= a
            # 4. correspondence + property oracle on the real code
            extra = []
            if broken:
                extra = ["--search"]  # deeper failing-input search
            res = run_harness(prop_id, args.tier, args.seed, extra)
            if not extra and res.get("disagreements") and not res.get("property_failures"):
                # the correspondence no longer holds and the ordinary pass exhibited no failing input: deeper search
                res2 = run_harness(prop_id, args.tier, args.seed, ["--search"])
                res["property_failures"] = res2.get("property_failures", [])
                res["search_note"] = res2.get("search_note", res.get("search_note", ""))
    except ToolFailure as e:
        print(f"TOOL-FAILURE property={prop_id}: {e}", file=sys.stderr)
        return 2
    except subprocess.TimeoutExpired as e:
        print(f"TIMEOUT property={prop_id}: {e}", file=sys.stderr)
        return 2

    known = known_findings()
    violations = []
    known_hits = []
    for f in res.get("property_failures", []):
        key = (prop_id, f.get("key", ""))
        if key in known:
            known_hits.append((f, known[key]))
        else:
            violations.append(f)
    disagreements = res.get("disagreements", [])
    printed = set()
    for f, desc in known_hits:
        if f.get("key") in printed:
            continue
        printed.add(f.get("key"))
        print(f"KNOWN-FINDING: property={prop_id} key={f.get('key')} {desc or f.get('desc', '')}")
    seen = set()
    rc = 0
    for v in violations:
        k = v.get("key")
        if k in seen:
            continue
        seen.add(k)
        p = write_replay(prop_id, args.seed, dict(property=prop_id, kind="failing-input", seed=args.seed, tier=args.tier, failure=v, broken=broken,
                                                   disagreements=disagreements[:5]))
        print(f"VIOLATION property={prop_id} replay={p}")
        rc = 1
    if not violations and (broken or disagreements):
        # property no longer shown to hold, and no failing input was found
        p = write_replay(prop_id, args.seed, dict(property=prop_id, kind="no-longer-checks", seed=args.seed, tier=args.tier, broken=broken,
                                                   disagreements=disagreements[:20],
                                                   note="no failing input found by the search: " + res.get("search_note", "")))
        print(f"VIOLATION property={prop_id} replay={p} no-failing-input-found")
        rc = 1

    if replay_key is not None:
        again = replay_key in seen or (replay_key == "no-longer-checks" and rc == 1 and not violations) or any(f.get("key") == replay_key for f, _ in known_hits)
        print(f"REPLAY property={prop_id} key={replay_key} {'reproduced' if again else 'not-reproduced'}")

    cov = dict(res.get("coverage", {}))
    obligations = max(n_theorems, len(theorems)) if not broken else max(1, n_theorems + len(broken))
    if discharged >= 1 and not broken:
        cov.update(dict(obligations=int(obligations), discharged=int(discharged)))
    else:
        # proof obligations broken: no proof-level counts are claimed for this run
        cov.update(dict(obligations_not_discharged=len(broken)))
    cov.update(dict(
        checker_cmd=f"cd lean && lake build {' '.join(spec.LEAN_TARGETS)} && lake env lean out/audit/Audit_{prop_id}.lean (#print axioms)"
                    + (" && lake env leanchecker" if args.tier == "thorough" else ""),
        trusted_base=TRUSTED_BASE + getattr(spec, "TRUSTED_EXTRA", []),
        theorems=theorems,
        axioms_used=sorted(axioms_seen),
        generated_from_source=gen_summary,
        broken_obligations=broken,
        known_findings_hit=[f.get("key") for f, _ in known_hits],
    ))
    ev = dict(property_id=prop_id, tier=args.tier, seed=args.seed, level="proof", coverage=cov,
              assumptions=getattr(spec, "ASSUMPTIONS", []), wall_s=round(time.time() - t0, 2),
              violations=len(seen) + (1 if (not violations and (broken or disagreements)) else 0))
    os.makedirs(os.path.join(VERIF, "evidence"), exist_ok=True)
    with open(os.path.join(VERIF, "evidence", f"{prop_id}.json"), "w") as fh:
        json.dump(ev, fh, indent=1, default=str)
    return rc


if __name__ == "__main__":
    sys.exit(main())
