"""Rewrites, in the harness files, every ordering comparison that sits directly in an `if` / `elif` test (alone or as a member
of an and/or) so that a NaN operand makes the FAILURE branch be taken: `a > b` -> `not (a <= b)`, `a < b` -> `not (a >= b)` ...
For numbers the meaning is unchanged; with NaN the original is False (a wrong value slips through), the rewrite is True."""
import ast, sys, re
FLIP = {ast.Gt: "<=", ast.GtE: "<", ast.Lt: ">=", ast.LtE: ">"}
def targets(tree):
    out = []
    tests = []
    for node in ast.walk(tree):
        if isinstance(node, ast.comprehension):
            tests += list(node.ifs)
    for test in tests:
        if True:
            cands = [test] if isinstance(test, ast.Compare) else (list(test.values) if isinstance(test, ast.BoolOp) else [])
            # one more level: (a > b or c > d) and e
            more = []
            for c in cands:
                if isinstance(c, ast.BoolOp):
                    more += list(c.values)
            for c in cands + more:
                if isinstance(c, ast.Compare) and len(c.ops) == 1 and type(c.ops[0]) in FLIP:
                    # only numeric-looking comparisons: skip those whose right side is an int literal or a name like dim / len
                    right = c.comparators[0]
                    if isinstance(right, ast.Constant) and isinstance(right.value, int) and not isinstance(right.value, bool):
                        continue
                    out.append(c)
    return out
for path in sys.argv[1:]:
    src = open(path).read()
    tree = ast.parse(src)
    lines = src.split("\n")
    starts = [0]
    for l in lines:
        starts.append(starts[-1] + len(l.encode()) + 1)
    b = src.encode()
    edits = []
    for c in targets(tree):
        s0 = starts[c.lineno - 1] + c.col_offset
        s1 = starts[c.end_lineno - 1] + c.end_col_offset
        l_ = c.left; r_ = c.comparators[0]
        ls0 = starts[l_.lineno - 1] + l_.col_offset; ls1 = starts[l_.end_lineno - 1] + l_.end_col_offset
        rs0 = starts[r_.lineno - 1] + r_.col_offset; rs1 = starts[r_.end_lineno - 1] + r_.end_col_offset
        left = b[ls0:ls1].decode(); right = b[rs0:rs1].decode()
        # keep enclosing parentheses of the operands that are outside the node span
        OPS = {ast.Gt: ">", ast.GtE: ">=", ast.Lt: "<", ast.LtE: "<="}
        mid = b[ls1:rs0].decode()
        sym = OPS[type(c.ops[0])]
        assert mid.count(sym) >= 1 and not (sym in (">", "<") and (sym + "=") in mid), (path, mid)
        new = "not (" + b[s0:ls1].decode() + mid.replace(sym, FLIP[type(c.ops[0])], 1) + b[rs0:s1].decode() + ")"
        edits.append((s0, s1, new))
    edits.sort(reverse=True)
    # drop overlapping edits (inner ones of nested BoolOps may coincide)
    seen_end = None
    for s0, s1, new in edits:
        if seen_end is not None and s1 > seen_end:
            continue
        b = b[:s0] + new.encode() + b[s1:]
        seen_end = s0
    compile(b.decode(), path, "exec")
    open(path, "w").write(b.decode())
    print(path, len(edits))
