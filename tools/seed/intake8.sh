#!/bin/sh
# Round-8 intake: copies the two changes of a seeding agent from its scratch worktree, confirms them, runs the check.
# usage: intake8.sh Cxx    (changes A, B become seeded/Cxx_P, seeded/Cxx_Q)
P=$1; W=/tmp/wt/r8_$P
for pair in A:P B:Q; do
  a=${pair%%:*}; l=${pair##*:}; S=/verif/seeded/${P}_$l
  [ -f $W/seed_${P}_$a.diff ] || { echo "$P $a: no diff"; continue; }
  mkdir -p $S; cp $W/seed_${P}_$a.diff $S/patch.diff; cp $W/demo_${P}_$a.py $S/demo.py
  sh /verif/tools/seed/confirm.sh ${P}_$l > /dev/null 2>&1
  cat $S/confirm.log | tr '\n' ';'; echo
done
git -C $W checkout -- . 2>/dev/null
for l in P Q; do
  [ -f /verif/seeded/${P}_$l/patch.diff ] && sh /verif/tools/seed/try_seed_wt.sh $W ${P}_$l $P | tail -1
  grep REPORTED /verif/seeded/${P}_$l/check_$P.log | cut -c1-300
done
