"""Round-7 seeded changes (sub-agents were given tools/seed/round7_guidance.txt on top of the base prompt: no hint about where to
look - "the two most plausible regressions a maintainer could introduce"; an unbiased sample after six targeted rounds): writes
seeded/<id>/meta.json through write_meta.py. ROWS comes from metas_round7_rows.py; the key of the failing input is read from the
REPORTED lines left in seeded/<id>/check_<prop>.log. HOW[seed] holds the 'missed at first' story of the seeds that led to a
stronger check."""
import json
import subprocess
import sys

sys.path.insert(0, "/verif/tools/seed")
from metas_round4 import reported  # noqa: E402
from metas_round7_rows import ROWS  # noqa: E402

M1 = "missed at first"
HOW = {
    "C01_O": M1 + " (every add_dirichlet call of the harness named the components in the canonical order); linear fields prescribed with the components in another order (['y', 'x'], permutations of x, y, z, split calls) on four element "
             "types, and beam ends prescribed with shuffled unknowns: solution, strains and energy against the closed form",
    "C04_O": M1 + " (backends were compared on well-conditioned plates of about 60 dofs, where cg / bicg need far fewer than N iterations); every installed backend on slender cantilever strips (condition number 1e8 .. 1e9) from a cold "
             "start, against a dense solve of the reduced system (this also recorded the known findings on gmres / lgmres, whose convergence flag is discarded)",
    "C07_O": M1 + " (every scenario built a fresh mesh and integrated at once); for all 19 element types a box mapped by an affine map of positive and of negative determinant (mirror image) goes through the histories [locate points, "
             "integrate] and [integrate, locate points, integrate]: integrals of 1, x, y, z, xy, measure and centre against a 12-point tensor rule on the box times |det|",
    "C08_N": M1 + " (used meshes were only translated in their plane; out-of-plane motions were applied to fresh meshes); a planar or straight mesh that has already been used (measure / normals / one point evaluation) is moved by chains of "
             "Translate / Rotate / Symmetry with out-of-plane components: coordinates, measure, centre, normals, located points against closed forms and against a never-used mesh built at the final coordinates",
    "C10_N": M1 + " (generic rotations never left a material axis on a global axis; the 'axes onto themselves' motions were half / quarter turns); rotations by a generic angle about the x-, y- or z-axis of problems whose orthotropic / "
             "transversely isotropic / anisotropic law is given along a pair of coordinate axes",
    "C11_O": M1 + " (Anisotropic was only built with a matrix of the size of the model: 3x3 in 2D, 6x6 in 3D); a 2D anisotropic law requested from a full 6x6 stiffness (Voigt or Kelvin-Mandel, homogeneous or field, tilted axes) against the "
             "(xx, yy, xy) block of the independently rotated tensor",
    "C16_O": M1 + " (every mesh came from the mesher: no element lists a node twice); meshes built from node / connectivity tables with quadrangles (hexahedra) collapsed on a repeated corner: a table constant over the elements, and every "
             "uniform result of a uniform-strain state, must be that constant at every node",
    "C17_N": M1 + " (exactly hydrostatic states and a 1e-9 gap, nothing in between; the positive part was compared with a reference for He only); states whose principal values are equal up to rounding (a shear of 1e-18 of the stretch, "
             "one ulp apart, in rotated frames) through all splits, Miehe / Zhang / He positive parts against eigh, and whole fields of such states",
    "C19_N": M1 + " (every behaviour was built on an isotropic elastic law: no zz-xy coupling); behaviours without internal variables on transversely isotropic / orthotropic laws turned in the plane, in 3D / plane strain / plane "
             "stress: stress and tangent against the law's own (condensed) stiffness, sigma_zz = 0, the same below and beyond yield, and InElastic against Elastic on a mesh",
}

only = set(a for a in sys.argv[1:] if not a.startswith("--"))
for seed, prop, breaks, needs in ROWS:
    if only and seed not in only:
        continue
    how = HOW.get(seed, "")
    rep = reported(seed, prop) or "VIOLATION (see check log)"
    det = {prop: (how + " -> " + rep) if how else rep}
    subprocess.check_call([sys.executable, "/verif/tools/seed/write_meta.py", seed, prop, breaks, needs, json.dumps(det)])
    m = json.load(open(f"/verif/seeded/{seed}/meta.json"))
    m["source"] = ("fresh sub-agent (round 7: base prompt plus tools/seed/round7_guidance.txt, no hint about where to look) working in its own scratch worktree "
                   "of /repo, given only the property text")
    json.dump(m, open(f"/verif/seeded/{seed}/meta.json", "w"), indent=1)
    print("meta", seed)
