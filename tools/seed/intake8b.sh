#!/bin/sh
# Round-8 intake, check part only: copies the two changes of a seeding agent and runs the check of the property on the agent's
# worktree (confirmation of demo + suite is done by confirm.sh separately).  usage: intake8b.sh Cxx
P=$1; W=/tmp/wt/r8_$P
git -C $W checkout -- . 2>/dev/null
for pair in A:P B:Q; do
  a=${pair%%:*}; l=${pair##*:}; S=/verif/seeded/${P}_$l
  [ -f $W/seed_${P}_$a.diff ] || { echo "$P $a: no diff"; continue; }
  mkdir -p $S; cp $W/seed_${P}_$a.diff $S/patch.diff; cp $W/demo_${P}_$a.py $S/demo.py
  sh /verif/tools/seed/try_seed_wt.sh $W ${P}_$l $P | tail -1
  grep REPORTED $S/check_$P.log | cut -c1-300
done
