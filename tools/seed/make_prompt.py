"""Prints the prompt given to a fresh sub-agent that seeds a property-breaking change.
Only the property text and a scratch worktree are given; nothing from /verif."""
import json, sys

pid, wt = sys.argv[1], sys.argv[2]
prop = None
for l in open('/verif/properties.jsonl'):
    d = json.loads(l)
    if d['id'] == pid:
        prop = d
print(f"""You are helping to evaluate a verification effort for the Python finite element library EasyFEA (matnoel/EasyFEA).
A scratch git worktree of the repository is at {wt} (a checkout of the current tree). Work ONLY inside {wt}; never touch /repo or /verif, and do not read anything under /verif.
Python: use /venv/bin/python, always with cwd={wt} so that `import EasyFEA` picks up the worktree's sources (check with `python -c "import EasyFEA; print(EasyFEA.__file__)"`). No network is available.

Here is a semantic property that the library should satisfy:

TITLE: {prop['title']}
STATEMENT: {prop['statement']}
QUANTIFIED OVER: {prop['quantifier']['text']}
RELEVANT CODE: {json.dumps(prop['anchors'].get('mechanism', []))}
STATE: {json.dumps(prop['anchors'].get('state', []))}
OBSERVATION POINTS: {json.dumps(prop['anchors'].get('observe_at', []))}

Your task: produce TWO different, independent, realistic changes (bugs) to the library source, each of which BREAKS this property while the library still imports and the existing test suite still passes. Prefer changes that need something specific to manifest (an unusual input, a particular element type or parameter value, a multi-step sequence of operations, a degenerate case, or two cooperating sites that each look fine alone) rather than ones that ordinary use would expose at once. Subtle, plausible regressions (a wrong coefficient in a rarely used table entry, an off-by-one in a case table, a stale cache not cleared on one path, a sign or transpose that only matters for non-axis-aligned input, ...) are ideal. Make the two changes of different kinds and in different places. Do not change tests. Do not make changes that merely crash on import.

For each change i in (A, B):
 1. Make the edit in the worktree, save it with `git -C {wt} diff > {wt}/seed_{pid}_i.diff` (i = A or B), then `git -C {wt} checkout -- .` before starting the next one so the two patches are independent (each applies to the pristine tree).
 2. Write a small demonstration script {wt}/demo_{pid}_i.py that exits 0 on the pristine tree and exits non-zero (with a clear message showing the property being violated on the real library API) when the patch is applied. The demo must use the public API / the observation points named above.
 3. Check that the existing tests still pass with the patch applied: run the full suite `cd {wt} && /venv/bin/python -m pytest -q -p no:cacheprovider --timeout=900 -n 6` (about 1-2 minutes; 11 tests in tests/Utilities/MeshIO_test.py and USD_test.py fail on the pristine tree already because optional packages are missing and must be ignored; everything else, 511 tests, must pass).
Finish with the worktree restored to the pristine state (only the untracked seed_*.diff and demo_*.py files remain).

Report back, for each change: the diff file path, the demo path, one paragraph on what it breaks and what it needs in order to manifest, which tests you ran and their outcome, and the demo's output with and without the patch. Keep the report short and factual.""")
