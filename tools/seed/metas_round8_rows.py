"""Round-8 seeded changes: (seed_id, property_id, breaks, needs). Kinds prescribed by tools/seed/round8_guidance.txt:
_P = two cooperating sites (neither edit alone breaks the property), _Q = a defect in a lower layer (the functions the
property names stay textually untouched)."""

ROWS = [
    ("C03_P", "C03", "two sites in Simulations/_simu.py: the cached reduction map is keyed on the element TYPES of the contributing groups instead of the group objects, and __Update_mesh (reached from Set_Iter) no longer clears "
     "the simulation's cached values: after going back in the mesh history the slot map of the other mesh is reused with this mesh's data",
     "two meshes of the history with the same element types, Nn and Ne but another numbering: assemble + Save_Iter on mesh 1, simu.mesh = renumbered mesh, assemble + Save_Iter, Set_Iter(0): K, C, M are scattered with mesh 2's map"),
    ("C03_Q", "C03", "FEM/_linalg.py: FeArray.ravel gets a dedicated method that flattens in memory order (order='K'): an element contribution handed over as a FeArray with a transposed memory layout is scattered transposed",
     "a user subclass returning a FeArray contribution that is a transposed view (Transpose(...) / .T) of a non-symmetric element matrix (advection term)"),
]
ROWS += [
    ("C01_P", "C01", "two sites: FEM/_linalg.py Inv(mat, det=None) accepts a precomputed determinant, and _GroupElem.Get_invF_e_pg passes the cached Get_jacobian_e_pg (absolute values by default): on negatively oriented elements invF = -inv(F), "
     "all physical gradients and B change sign; K is unchanged so the solution and Wdef stay exact, Strain / Stress come out with the opposite sign",
     "a mesh with negative Jacobians (after mesh.Symmetry, or a part merged with its mirror image): strains and stresses of a patch test"),
    ("C01_Q", "C01", "Models/_utils.py __Result_in_Strain_or_Stress_field: the rescaling of the Kelvin-Mandel shear terms is moved onto a copy; the whole-tensor return uses the copy in 2D but still the un-rescaled field in 3D",
     "a 3D simulation, a whole-tensor request (Result('Strain') / Result('Stress')) and a field with non-zero shear: the yz, xz, xy columns come out multiplied by sqrt(2); components, Svm, Wdef and 2D are right"),
]
ROWS += [
    ("C04_P", "C04", "two sites in FEM/_boundary_conditions.py: the nodes / dofs / dofsValues properties of a condition return the stored arrays instead of copies, and Get_dofs / Get_values return the single array as is when only one condition "
     "matches: Bc_values_Dirichlet() then aliases the stored values, which the Newton branch of _Solver_Apply_Dirichlet decrements in place at every iteration",
     "a Newton solve (HyperElastic / InElastic / non-linear WeakForms) with exactly ONE Dirichlet condition holding non-zero values: the prescribed values cycle (v, 0, -v, ...), Newton does not converge or a second Solve starts from corrupted conditions"),
    ("C04_Q", "C04", "FEM/_mesh.py Mesh.__init__: the orphan-node detection gets a shortcut 'sum of the groups' Nn >= Nn -> no orphan': with several groups of the main dimension the interface nodes are counted twice and unused nodes are missed",
     "a mesh with two element types of the main dimension (Mesh.Merge of a TRI3 and a QUAD4 block) and at least one node used by no element: mesh.orphanNodes is empty, the system is singular (NaN)"),
    ("C08_P", "C08", "two sites in FEM/_group_elem.py: the coord getter of a group returns the internal array without a copy, and the callers that shifted it in place are rewritten as 'coord = coord + ...' in _Get_sysCoord_e and "
     "Get_normals_e_pg but not in Get_GaussCoordinates_e_pg: a query on the deformed configuration moves the nodes of that group for good",
     "Get_GaussCoordinates_e_pg(matrixType, displacementMatrix=U) with a non-rigid U on a boundary group, followed by reference-configuration quantities of that group (flux of the position vector, coordinates)"),
    ("C08_Q", "C08", "_GroupElem.inDim redefined as the number of directions along which the group extends: a 2D mesh built exactly in the xz- or yz-plane (or a 1D mesh along y or z) gets inDim == dim, the projection is skipped and the Jacobian is singular",
     "2D meshes lying exactly in the xz- or yz-plane: area 0, centre NaN, located values NaN; xy-planes, shifted planes and generic rotations are right"),
    ("C05_P", "C05", "two sites: _simu.py caches the system matrix A = coefK K + coefC C + coefM M of linear problems keyed on the coefficient triple (dropped when K, C, M are re-assembled), and _elastic.py composes the Rayleigh damping from the "
     "assembled K and M in a Get_K_C_M_F override, so Set_Rayleigh_Damping_Coefs no longer raises Need_Update: after a change of the coefficients the step is solved with the stale A",
     "a linear Elastic dynamic run where the Rayleigh coefficients change between two steps while scheme, dt and parameters stay the same: K u_t + C v_t + M a_t - load ~ 0.5 on the free dofs (update relations still hold)"),
    ("C05_Q", "C05", "FEM/Operators/NonLinear.py KelvinVoigtDamping: the thickness scaling moves to a trailing in-place block that scales the geometric stiffness and the residual but not the third output C_e",
     "a 2D viscous hyperelastic run with eta != 0 and thickness != 1 under a hyperbolic scheme: the C of Get_K_C_M_F lacks the thickness factor, f_int + C v_t + M a_t != load with the returned C, and coefC C is not the derivative of the residual"),
    ("C06_P", "C06", "two sites: _Init_Functions builds the zero table once per (dim, nPe) and returns it without a copy, and TETRA10._ddN takes that table and writes its 9 non-zero entries into it: the third and fourth derivative tables of TETRA10 "
     "hold the second-derivative constants once _ddN has been called in the process",
     "TETRA10, levels 3 and 4, after _ddN() / Get_ddN_pg has been called earlier in the same process"),
    ("C06_Q", "C06", "FEM/Elems/_beam.py: _EulerBernoulli gains an _Init_Functions returning a (2 nPe, 1) zero table for its abstract Hermite defaults; it precedes SEGn in the MRO, so the delegated Lagrange zero tables (_ddN of SEG2, "
     "_dddN of SEG3, ...) of a beam group get 2 nPe rows",
     "the element group of a beam simulation (EULER_BERNOULLI2..4 / TIMOSHENKO2..4), the derivative levels that SEGn delegates to the base class: shape of the table and of Get_ddN_pg (extra zero rows, no wrong value)"),
    ("C02_P", "C02", "two sites: Get_F_e_pg always rebases segments in their own frame (first vertex to second), and _Get_fiber_sign_e_pg reads the fiber sign from the x-coordinates of the end vertices: for a member on the x-axis described "
     "towards -x the derivative, already along the fiber, is multiplied by -1 again (Timoshenko shear row -v' - theta)",
     "Timoshenko beams (2D / 3D, SEG2..SEG5) on the x-axis with the line from x = L to x = 0: rigid rotations carry strain energy; Euler-Bernoulli and members described towards +x are right"),
    ("C02_Q", "C02", "Utilities/_params.py: _Parameter.__set__ skips Need_Update when the assigned value 'is' the stored one or equals it: parameters are stored by reference, so an array updated in place and assigned again is judged unchanged",
     "a per-element density (simu.rho = rho_e) or capacity field modified in place and re-assigned: Get_K_C_M_F keeps the old M / C (entries sum to the old density x measure x thickness) while simu.mass follows the new field"),
]
