"""Round-8 seeded changes: (seed_id, property_id, breaks, needs). Kinds prescribed by tools/seed/round8_guidance.txt:
_P = two cooperating sites (neither edit alone breaks the property), _Q = a defect in a lower layer (the functions the
property names stay textually untouched)."""

ROWS = [
    ("C03_P", "C03", "two sites in Simulations/_simu.py: the cached reduction map is keyed on the element TYPES of the contributing groups instead of the group objects, and __Update_mesh (reached from Set_Iter) no longer clears "
     "the simulation's cached values: after going back in the mesh history the slot map of the other mesh is reused with this mesh's data",
     "two meshes of the history with the same element types, Nn and Ne but another numbering: assemble + Save_Iter on mesh 1, simu.mesh = renumbered mesh, assemble + Save_Iter, Set_Iter(0): K, C, M are scattered with mesh 2's map"),
    ("C03_Q", "C03", "FEM/_linalg.py: FeArray.ravel gets a dedicated method that flattens in memory order (order='K'): an element contribution handed over as a FeArray with a transposed memory layout is scattered transposed",
     "a user subclass returning a FeArray contribution that is a transposed view (Transpose(...) / .T) of a non-symmetric element matrix (advection term)"),
]
ROWS += [
    ("C01_P", "C01", "two sites: FEM/_linalg.py Inv(mat, det=None) accepts a precomputed determinant, and _GroupElem.Get_invF_e_pg passes the cached Get_jacobian_e_pg (absolute values by default): on negatively oriented elements invF = -inv(F), "
     "all physical gradients and B change sign; K is unchanged so the solution and Wdef stay exact, Strain / Stress come out with the opposite sign",
     "a mesh with negative Jacobians (after mesh.Symmetry, or a part merged with its mirror image): strains and stresses of a patch test"),
    ("C01_Q", "C01", "Models/_utils.py __Result_in_Strain_or_Stress_field: the rescaling of the Kelvin-Mandel shear terms is moved onto a copy; the whole-tensor return uses the copy in 2D but still the un-rescaled field in 3D",
     "a 3D simulation, a whole-tensor request (Result('Strain') / Result('Stress')) and a field with non-zero shear: the yz, xz, xy columns come out multiplied by sqrt(2); components, Svm, Wdef and 2D are right"),
]
ROWS += [
    ("C04_P", "C04", "two sites in FEM/_boundary_conditions.py: the nodes / dofs / dofsValues properties of a condition return the stored arrays instead of copies, and Get_dofs / Get_values return the single array as is when only one condition "
     "matches: Bc_values_Dirichlet() then aliases the stored values, which the Newton branch of _Solver_Apply_Dirichlet decrements in place at every iteration",
     "a Newton solve (HyperElastic / InElastic / non-linear WeakForms) with exactly ONE Dirichlet condition holding non-zero values: the prescribed values cycle (v, 0, -v, ...), Newton does not converge or a second Solve starts from corrupted conditions"),
    ("C04_Q", "C04", "FEM/_mesh.py Mesh.__init__: the orphan-node detection gets a shortcut 'sum of the groups' Nn >= Nn -> no orphan': with several groups of the main dimension the interface nodes are counted twice and unused nodes are missed",
     "a mesh with two element types of the main dimension (Mesh.Merge of a TRI3 and a QUAD4 block) and at least one node used by no element: mesh.orphanNodes is empty, the system is singular (NaN)"),
    ("C08_P", "C08", "two sites in FEM/_group_elem.py: the coord getter of a group returns the internal array without a copy, and the callers that shifted it in place are rewritten as 'coord = coord + ...' in _Get_sysCoord_e and "
     "Get_normals_e_pg but not in Get_GaussCoordinates_e_pg: a query on the deformed configuration moves the nodes of that group for good",
     "Get_GaussCoordinates_e_pg(matrixType, displacementMatrix=U) with a non-rigid U on a boundary group, followed by reference-configuration quantities of that group (flux of the position vector, coordinates)"),
    ("C08_Q", "C08", "_GroupElem.inDim redefined as the number of directions along which the group extends: a 2D mesh built exactly in the xz- or yz-plane (or a 1D mesh along y or z) gets inDim == dim, the projection is skipped and the Jacobian is singular",
     "2D meshes lying exactly in the xz- or yz-plane: area 0, centre NaN, located values NaN; xy-planes, shifted planes and generic rotations are right"),
    ("C05_P", "C05", "two sites: _simu.py caches the system matrix A = coefK K + coefC C + coefM M of linear problems keyed on the coefficient triple (dropped when K, C, M are re-assembled), and _elastic.py composes the Rayleigh damping from the "
     "assembled K and M in a Get_K_C_M_F override, so Set_Rayleigh_Damping_Coefs no longer raises Need_Update: after a change of the coefficients the step is solved with the stale A",
     "a linear Elastic dynamic run where the Rayleigh coefficients change between two steps while scheme, dt and parameters stay the same: K u_t + C v_t + M a_t - load ~ 0.5 on the free dofs (update relations still hold)"),
    ("C05_Q", "C05", "FEM/Operators/NonLinear.py KelvinVoigtDamping: the thickness scaling moves to a trailing in-place block that scales the geometric stiffness and the residual but not the third output C_e",
     "a 2D viscous hyperelastic run with eta != 0 and thickness != 1 under a hyperbolic scheme: the C of Get_K_C_M_F lacks the thickness factor, f_int + C v_t + M a_t != load with the returned C, and coefC C is not the derivative of the residual"),
    ("C06_P", "C06", "two sites: _Init_Functions builds the zero table once per (dim, nPe) and returns it without a copy, and TETRA10._ddN takes that table and writes its 9 non-zero entries into it: the third and fourth derivative tables of TETRA10 "
     "hold the second-derivative constants once _ddN has been called in the process",
     "TETRA10, levels 3 and 4, after _ddN() / Get_ddN_pg has been called earlier in the same process"),
    ("C06_Q", "C06", "FEM/Elems/_beam.py: _EulerBernoulli gains an _Init_Functions returning a (2 nPe, 1) zero table for its abstract Hermite defaults; it precedes SEGn in the MRO, so the delegated Lagrange zero tables (_ddN of SEG2, "
     "_dddN of SEG3, ...) of a beam group get 2 nPe rows",
     "the element group of a beam simulation (EULER_BERNOULLI2..4 / TIMOSHENKO2..4), the derivative levels that SEGn delegates to the base class: shape of the table and of Get_ddN_pg (extra zero rows, no wrong value)"),
    ("C02_P", "C02", "two sites: Get_F_e_pg always rebases segments in their own frame (first vertex to second), and _Get_fiber_sign_e_pg reads the fiber sign from the x-coordinates of the end vertices: for a member on the x-axis described "
     "towards -x the derivative, already along the fiber, is multiplied by -1 again (Timoshenko shear row -v' - theta)",
     "Timoshenko beams (2D / 3D, SEG2..SEG5) on the x-axis with the line from x = L to x = 0: rigid rotations carry strain energy; Euler-Bernoulli and members described towards +x are right"),
    ("C02_Q", "C02", "Utilities/_params.py: _Parameter.__set__ skips Need_Update when the assigned value 'is' the stored one or equals it: parameters are stored by reference, so an array updated in place and assigned again is judged unchanged",
     "a per-element density (simu.rho = rho_e) or capacity field modified in place and re-assigned: Get_K_C_M_F keeps the old M / C (entries sum to the old density x measure x thickness) while simu.mass follows the new field"),
]
ROWS += [
    ("C12_P", "C12", "two sites in FEM/_linalg.py: _KeepsFeAxes now takes the tensor rank (ndim - 2) and the method reducers pass it, but FeArray.__array_function__ still passes the array's ndim: on the dispatched np.sum / np.mean / np.max path "
     "every negative axis counts as a tensor axis",
     "np.mean(eps, axis=-2) / np.sum(vec, axis=-3) (function form, negative axis pointing at an FE axis) with a shape coincidence nPg == dim or Ne == nPg == dim: the result stays typed FeArray and the next product broadcasts wrongly"),
    ("C12_Q", "C12", "FEM/_linalg.py _FeShape picks the operand with the largest Ne x nPg instead of broadcasting the leading shapes: a per-point field (1, nPg, ...) combined with a per-element field (Ne, 1, ...) through matmul / einsum / "
     "np.linalg.solve gets feShape (Ne, 1) and the full (Ne, nPg, ...) result comes back as a plain ndarray, read as a constant tensor by the next expression",
     "N_pg @ A_e with N_pg of leading shape (1, nPg) and A_e of leading shape (Ne, 1) (np.matmul, np.einsum, np.linalg.solve likewise): type of the result, and s_e_pg * (N_pg @ A_e)"),
]
ROWS += [
    ("C09_P", "C09", "two sites: _simu.py caches the Gauss coordinates / N_pg / wJ of a group for the load integration on the simulation (cleared by _Update on mesh events), and Mesh.Translate notifies a distinct 'translated' event for which "
     "_Update keeps the simulation caches: a function-valued load added after a translation is evaluated at the old Gauss positions",
     "on one simulation: a load on an element group, then mesh.Translate, then a load given as a function of position on the same group (constants and nodal arrays are unaffected; Rotate / Symmetry / coord setter still clear)"),
    ("C09_Q", "C09", "Mesh.Merge: the duplicate-element removal drops the row sort (np.unique(connect, axis=0)): the two copies of an interface edge / face come from the two meshes with opposite orientation and both stay in the merged mesh",
     "a mesh produced by Mesh.Merge and a line / surface / pressure load on the common boundary: resultant and moment are doubled"),
    ("C07_P", "C07", "two sites in FEM/_gauss.py: Gauss._Prism returns its points in the convention with X along the prism axis (the remap onto the gmsh reference prism is removed) and the three prism call sites of Gauss_factory unpack "
     "'z, x, y', but _Gauss_factory_nPg still unpacks 'x, y, z': prism rules selected by point count have points outside the reference prism",
     "a prism element type with an integer point count as rule selector (Gauss(PRISM*, 6|8|21), Get_gauss(nPg), Integrate_e(f, nPg)): points outside, the monomial z off by 1/3"),
    ("C07_Q", "C07", "_GroupElem.Get_weightedJacobian_e_pg reuses the signed Jacobians and returns abs(jacobian * weight): the two tabulated rules with a negative weight (tetrahedron 5 points, prism 8 points) integrate with |w|",
     "TETRA 5-point / PRISM 8-point rules (reachable through an integer point count only) through the group API: Integrate_e(1, 5) = 15.6 instead of 6 on a 2 x 1 x 3 box"),
    ("C17_P", "C17", "two sites in Simulations/_phasefield.py: __Calc_psiPlus_e_pg gains a matrixType argument and Result('psiP') evaluates at the 'rigi' points; the helper stores the history array as a side effect, Save_Iter commits the "
     "(Ne, nPg_rigi) array and the next damage assembly resets a history of another shape to zero",
     "History solver, an element whose rigi and mass point counts differ (TRI3, TRI6, QUAD8, TETRA4), the order Solve -> Result('psiP') -> Save_Iter: the driving energy is lost on unloading and the damage heals"),
    ("C17_Q", "C17", "Models/Elastic/_laws.py Get_sqrt_C_S: sqrt_S is computed from self.S and refreshed only when the S setter cleared it (both roots came from one eigen-decomposition of C): after a change of C alone the He split uses "
     "sqrt_S of the former law",
     "an Anisotropic material whose stiffness is changed with Set_C(C, update_S=False) or material.C = ..., then the He split (2D / 3D): cP + cM != C"),
]
ROWS += [
    ("C11_P", "C11", "two sites in Models/Elastic/_laws.py: Orthotropic._Behavior stores the shared denominator of the c_ij once per update, and __get_cij_denominator (used by _c11 ... _c12) returns the stored value: Walpole_Decomposition "
     "reads the c_ij before anything triggers the update, so after a parameter change they mix the new moduli with the old denominator",
     "an Orthotropic law, a parameter changed, Walpole_Decomposition() as the FIRST read afterwards (reading C first hides it): sum c_i E_i off by 100 % with field parameters, AssertionError with scalars"),
    ("C11_Q", "C11", "Utilities/_params.py: _Parameter.__get__ returns the stored object instead of a copy: editing the array obtained from mat.E in place changes the stored parameter without Need_Update",
     "per-element / per-Gauss-point parameter arrays of Isotropic / TransverselyIsotropic / Orthotropic: mat.E[1] *= 0.1 (or E = mat.E; E[...] = ...): mat.E reports the new values while mat.C / mat.S stay the old law"),
    ("C10_P", "C10", "two sites: FEM/Elems/_beam.py _Compute_P_e_pg returns the block matrix in the beam -> global convention and its five callers in that file apply the transpose, but Simulations/_beam.py add_lineLoad (Euler-Bernoulli "
     "path) still contracts it as before: distributed loads on an Euler-Bernoulli member are rotated the wrong way",
     "Euler-Bernoulli members not aligned with x (2D / 3D, also vertical) loaded with add_lineLoad: the response differs from the rotated response of the horizontal member; point loads, K, M and Timoshenko are right"),
    ("C10_Q", "C10", "Geoms/_geom.py: _Geom.Symmetry rewritten as 'for point in obj.points: point.Symmetry(point, n)': the loop variable shadows the argument, every point is mirrored through itself: geom.Symmetry is a no-op",
     "a beam problem mirrored with the library's own tools (simu.mesh.Symmetry, beam.line.Symmetry, mirrored yAxis / clamp / loads): the mesh is mirrored but the fiber of the member is not"),
    ("C15_P", "C15", "two sites in Simulations/_inelastic.py: Save_Iter commits the trial state by writing into the existing committed arrays, and Set_Iter takes the arrays of the returned results as the committed state (Get_results hands "
     "back a shallow copy): after an in-memory Set_Iter(i) the next Solve + Save_Iter overwrites the arrays stored for iteration i",
     "InElastic with a history-dependent material, in-memory history, the sequence Set_Iter(i), Solve, Save_Iter: Get_results(i)['state'] and Result('p' / 'Sxx', iter=i) change"),
    ("C15_Q", "C15", "FEM/_mesh.py: the property Mesh.dict_groupElem returns the dictionary in reversed order: Mesh.Save writes the groups in that order and the loaded mesh has the two main-dimension groups swapped, so its global element "
     "numbering is permuted",
     "a mesh with two element types of the main dimension (TRI3 + QUAD4): Mesh.Save / Load_Mesh, and Result('Svm', nodeValues=False, iter=0) of a saved / loaded simulation whose iteration 0 lives on such a mesh"),
    ("C14_P", "C14", "two sites: Models/Elastic/_laws.py Get_sqrt_C_S no longer reads self.C before looking at its cached roots, and Models/_phasefield.py __Split_He reads material.C after Get_sqrt_C_S: the first assembly after a "
     "parameter change uses the roots of the former law",
     "PhaseField with the He split, a state with damage and strain, a change that is not a rescaling of C (the Poisson ratio), the first Get_K_C_M_F('elastic') afterwards"),
    ("C14_Q", "C14", "Utilities/_observers.py: Observable.__getstate__ drops the observers: a simulation read back with Load_Simu (or copy.deepcopy) holds a model and a mesh with no observers, later parameter / mesh changes no longer raise "
     "Need_Update",
     "simu.Save() + Load_Simu() (or deepcopy), then material.E = ... or mesh.coord = ...: the reloaded simulation keeps its pickled K, C, M, F"),
]
ROWS += [
    ("C13_P", "C13", "two sites: Mesh.Translate shifts the coordinates of the groups without clearing their cached matrices (all translation-invariant), and Field.Get_coords reads the Gauss coordinates from a new cache on the group "
     "(cleared by the coord setter): Gauss coordinates read before a Translate stay stale",
     "a form with position-dependent coefficients (k(x, y) u.grad.dot(v.grad), c(x, y) u v, f(x, y) v) integrated once, mesh.Translate, integrated again: element arrays, Assemble and WeakForms.Get_K_C_M_F differ from the built-in operators"),
    ("C13_Q", "C13", "FEM/_linalg.py FeArray.__rmatmul__ (plain constant @ field) rewritten with np.tensordot: right when one operand is a vector; for a matrix constant and a matrix-valued field the result is the transposed product",
     "Q @ Sym_Grad(u) @ Q.T with Q a plain rotation matrix other than the identity (orthotropic elasticity written in the material frame) against LinearizedElasticity / Simulations.Elastic with the rotated law"),
    ("C16_P", "C16", "two sites: the default of 'coef' in Models/_utils.py Result_strain_or_stress_field_e goes from sqrt(2) to 1 (all callers pass it), and HyperElastic.Result drops its coef=self.material.coef argument: the shear "
     "components of a hyperelastic simulation are no longer rescaled",
     "HyperElastic with a state that has shear: Exy, Sxy, the shear columns of Green-Lagrange / Piola-Kirchhoff are sqrt(2) too large and Svm / Evm are not the von Mises norms (a component still equals the column of its tensor: the reference "
     "must come from the displacement field or the law)"),
    ("C16_Q", "C16", "Utilities/_params.py: a parameter can be declared IndependentOfUpdate() (its assignment does not call Need_Update) and _Elastic.thickness is declared so: the observing simulation is no longer notified, the cached K is "
     "not re-assembled while Result('Wdef') reads the current thickness",
     "2D elastic simulation, K assembled once, then material.thickness = t: Wdef differs from 1/2 u'Ku by the ratio of the thicknesses"),
    ("C18_P", "C18", "two sites in FEM/Operators/NonLinear.py: __clenshaw_curtis returns its nodes from 1 to 0 (the rule is symmetric), and the fixed-rule loop of TimeQuadratureStressTensor identifies the end nodes by position: the node s = 1 "
     "gets state_n and no tangent, the tangent of the end point is dropped: the residual is unchanged, coefK K_e is no longer dR_e / du",
     "TimeQuadratureStressTensor with the fixed rule (no energyTol) and nPoints >= 2, any law / dimension / scheme: tangent vs derivative of the residual (nPoints = 1 and the adaptive path are right)"),
    ("C18_Q", "C18", "Simulations/_simu.py: the midpoint branches of _Solver_Evaluate_u_v_a_for_time_scheme / _Solver_Get_K_C_M_coefs_for_time_scheme / _Solver_Update_solutions are folded into the hht ones and read the stored beta, gamma, "
     "alpha (the defaults happen to be the midpoint values)",
     "algo = midpoint selected together with non-default beta / gamma / alpha (gamma = 0.6, beta = 0.3025 or alpha = 0.4): the energy-conserving stresses no longer conserve kinetic + stored energy"),
    ("C19_P", "C19", "two sites in Simulations/_inelastic.py: Construct_local_matrix_system writes the trial state into the existing per-group buffer, and Set_Iter sets the trial dictionary to dict(committed) without copying the arrays: after "
     "a Set_Iter the next Solve overwrites the committed state in place",
     "InElastic: Set_Iter(k) then Solve with plastic flow and more than one Newton assembly: the committed accumulated plastic strain moves without Save_Iter, the restarted step differs from its first computation"),
    ("C19_Q", "C19", "Models/Elastic/_laws.py Get_sqrt_C_S: each root has its own cache (sqrt_S from self.S, refreshed only when the S setter cleared it): after a change of C alone the spectral return mapping is built with a stale C^-1/2",
     "an Anisotropic law changed with Set_C(C, update_S=False) or law.C = ..., default spectral local solver: not linear elastic below yield, tr(eps_p) != 0 for von Mises, disagrees with solver='newton', tangent is not d sigma / d eps"),
    ("C20_P", "C20", "two sites in Simulations/_simu.py: the cached reduction map is keyed on the element types of the contributing groups, and the mesh setter no longer clears the simulation's cached values: one simulation walked over "
     "the parts (simu.mesh = part) reuses the map of the first part (same Ncoords, same types)",
     "one simulation reused over the parts of a partition: a part with the same number of elements as the first gets K scattered with the first part's connectivity (another size trips an assertion)"),
    ("C20_Q", "C20", "FEM/_linalg.py FeArray.broadcast, 1-D branch: a coefficient whose length equals both Ne and nPg is read as per-Gauss-point instead of per-element",
     "a per-element field handed to a part as field[groupElem._globalElements] when the part's element count (owned + ghost) equals the number of Gauss points (4 QUAD4 elements; 3 or 6 TRI6): K / C of the part differ from the global ones on "
     "the owned rows"),
]
