#!/bin/sh
# Applies a seeded change to /repo, runs the given check (quick), restores /repo. Usage: try_seed.sh <seed-dir> <Cxx> [tier]
S=/verif/seeded/$1
git -C /repo apply $S/patch.diff || exit 2
cd /verif
./check $2 --tier ${3:-quick} > $S/check_$2.log 2>&1; rc=$?
git -C /repo checkout -- .
echo "seed $1 check $2: rc=$rc"; grep -E "VIOLATION|KNOWN|TOOL|TIMEOUT" $S/check_$2.log | head -5
