#!/bin/sh
# Applies a seeded change to /repo, runs the given check (quick), restores /repo. Usage: try_seed.sh <seed-dir> <Cxx> [tier]
S=/verif/seeded/$1
git -C /repo apply $S/patch.diff || exit 2
cd /verif
./check $2 --tier ${3:-quick} > $S/check_$2.log 2>&1; rc=$?
git -C /repo checkout -- .
# what was reported: the key of each replay (failing input, broken theorem or correspondence), first few only
/venv/bin/python - $S/check_$2.log >> $S/check_$2.log <<'PY'
import json, re, sys
seen = []
for m in re.finditer(r"VIOLATION property=\S+ replay=(\S+)(.*)", open(sys.argv[1]).read()):
    try:
        r = json.load(open(m.group(1)))
    except Exception:
        continue
    f = r.get("failure") or {}
    key = (f.get("key") if isinstance(f, dict) else str(f)) or ""
    line = f"REPORTED kind={r.get('kind')} key={key!r} broken={r.get('broken')}{' no-failing-input-found' if 'no-failing-input-found' in m.group(2) else ''}"
    if line not in seen:
        seen.append(line)
for l in seen[:4]:
    print(l[:600])
PY
echo "seed $1 check $2: rc=$rc"; grep -E "VIOLATION|KNOWN|TOOL|TIMEOUT" $S/check_$2.log | head -5
