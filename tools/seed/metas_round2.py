"""Round-2 seeded changes: writes seeded/<id>/meta.json through write_meta.py (kept as the record of what each change breaks)."""
import json
import subprocess
import sys

ROWS = [
    ("C17_C", "C17", "the 2D eigenprojector M1 is assigned per element (first Gauss point of each element with distinct eigenvalues) instead of per Gauss point",
     "a 2D element whose Gauss points are in different spectral cases (e.g. hydrostatic next to generic)",
     {"C17": "VIOLATION with failing input (positive part dim=2 state=hydrostatic+: projP·eps differs from the positive part of the strain)"}),
    ("C18_C", "C18", "HolzapfelOgden d2W/dI3dI3 uses the exponent 7/3 instead of 8/3", "HolzapfelOgden with Mu2 != 0 at a deformation with I3 != 1",
     {"C18": "VIOLATION with failing input (tangent is not the derivative of the stress law=HolzapfelOgden dim=3)"}),
    ("C02_C", "C02", "3D Timoshenko strain-displacement matrix: the shear-z row uses w' - ry while the curvature keeps the other rotation convention",
     "3D Timoshenko beams; the physical rigid rotation about y must be tested (eigenvalue counts on a straight beam do not see it)",
     {"C02": "VIOLATION with failing input (beam rigid motion not in kernel timo=True dim=3)"}),
    ("C02_D", "C02", "Elastic simulation caches the element mass matrix with a key that omits the thickness", "2D Elastic simulation: assemble, change material.thickness, assemble again",
     {"C02": "VIOLATION with failing input (mass total after thickness change elem=TRI3 ...)"}),
    ("C08_C", "C08", "iterative inverse map (general quadrangles) evaluates the shape functions against the global coordinates instead of the element-frame ones",
     "non-parallelogram QUAD4/8/9 elements of a surface rotated out of the (x, y) plane",
     {"C08": "missed at first (embedded surfaces were rectangles: no iterative path); harness strengthened with polygon meshes of general quadrangles rotated into 3D -> VIOLATION with failing input (point evaluation embedded elem=QUAD4)"}),
    ("C08_D", "C08", "PRISM18 faces table: bottom triangle listed with the opposite winding", "boundary rebuilt from the faces tables (MeshIO.Surface_reconstruction) of a PRISM18 mesh",
     {"C08": "missed at first (face tables not modelled, reconstructed boundary not exercised); added: translation of every 3D faces table + Props.C08.face_tables_checked (breaks: theorem-no-longer-checks) "
             "and reconstructed-boundary closure in the harness -> VIOLATION with failing input (reconstructed boundary not closed elem=PRISM18, sum of n dS = (0,0,4))"}),
    ("C09_C", "C09", "15-point tetrahedron rule: one abscissa of the second 4-point orbit mistyped (b2 -> b1); weights still sum to 1/6",
     "add_volumeLoad on a TETRA10 mesh (mass rule): moments of constant loads, resultants of non-constant ones",
     {"C09": "VIOLATION with failing input (moment add_volumeLoad form=constant elem=TETRA10)"}),
    ("C09_D", "C09", "__Bc_Integration_Dim sorts / de-duplicates the node selection (np.unique) while nodal value arrays stay in the caller's order",
     "loads given as nodal arrays on a selection not listed in ascending node order",
     {"C09": "detected at first only as a model/implementation disagreement (single-element correspondence uses the element's own node order) without a failing input; oracle strengthened (node selections shuffled) "
             "-> VIOLATION with failing input (resultant add_volumeLoad form=nodal ...)"}),
    ("C13_C", "C13", "BiLinearForm.Integrate_e integrates with the signed det(F) x weights instead of the weighted Jacobian |det F|",
     "elements with reversed orientation (mesh.Symmetry, clockwise-numbered imports)",
     {"C13": "detected at first only as translator-refused (statement of Integrate_e changed) with no failing input; harness strengthened (every other element type is tested on a mirrored affine image) "
             "-> VIOLATION with failing input (grammar form / user form differs from built-in on mirrored meshes)"}),
    ("C13_D", "C13", "WeakForms simulation: the capacity matrix C no longer carries the thickness", "2D weak-form model with thickness != 1 and a computeC form (parabolic problems)",
     {"C13": "VIOLATION with failing input (weak-form simulation differs mode=thermal-parabolic) + translator-refused for WeakForms.Construct_local_matrix_system"}),
    ("C15_C", "C15", "InElastic.Set_Iter restores only the committed internal variables, not the trial ones that Save_Iter commits",
     "Set_Iter(i) followed by Save_Iter() without a solve, on a material with internal variables and >= 2 iterations with different plastic state",
     {"C15": "missed at first (a save straight after a restore was never compared with the restored iteration; internal variable p not observed); harness strengthened (spec: setIter j; save appends log[j]; result p observed; "
             "fixed prefix solve+ save solve++ save set0 save) -> VIOLATION with failing input (re-save of a restored iteration sim=inelastic fields=Svm,p)"}),
    ("C15_D", "C15", "PhaseField.Set_Iter keeps the cached matrices when the restored iteration is the last one",
     "matrices assembled at an earlier iteration (Result(name, iter=i) sweep), then restore of the last iteration",
     {"C15": "VIOLATION with failing input (restore sim=phasefield:HistoryDamage:Miehe fields=Wdef)"}),
    ("C19_C", "C19", "local Newton Jacobian evaluates the isotropic hardening slope at the increment dp instead of p_n + dp",
     "general local Newton (kinematic hardening / solver=newton), nonlinear isotropic hardening, committed state with p > 0 (second plastic step)",
     {"C19": "VIOLATION with failing input (tangent is not the derivative of the stress behavior=VM+Voce+AF 3D)"}),
    ("C19_D", "C19", "InElastic.Set_Iter aliases the trial-state dictionary with the committed one", "a Solve after Set_Iter (also the hidden one of Result(name, iter=k)) without Save_Iter",
     {"C19": "VIOLATION with failing input (Solve modifies the committed internal variables) + translator-refused for InElastic.Set_Iter"}),
    ("C20_C", "C20", "ghost layer tested on the vertex columns of the connectivity only",
     "higher-order elements; a part owning a mid-edge node whose two vertices belong to lower-ranked parts (many parts)",
     {"C20": "VIOLATION with failing input (ghost layer group=TRI6 rank 5: elements [31] touch an owned node but are not held)"}),
    ("C20_D", "C20", "Mesh.Merge deduplicates coincident points with a single-pass representative instead of connected components (not transitive)",
     "three or more input nodes at the same position (2 x 2 tiles, three copies, overlapping parts of a split)",
     {"C20": "missed at first (merge cases had at most two coincident nodes per position); harness strengthened (2 x 2 tiles, three coincident copies, parts of a split merged back; coincident inputs <-> one merged node, "
             "distinct elements <-> one merged element) -> VIOLATION with failing input (merge bookkeeping: ... mapped to DIFFERENT merged nodes)"}),
    ("C01_C", "C01", "8-point hexahedron rule: abscissa 1/sqrt(3) replaced by the literal 0.57753... (digits transposed); weights still sum to 8",
     "HEXA8 elements with genuinely trilinear geometry on a non-brick base (affine images and bricks with moved interior nodes do not show it)",
     {"C01": "missed at first (3D meshes were affine images of bricks); harness strengthened (HEXA8 / PRISM6: tapered box with moved interior nodes) -> VIOLATION with failing input (patch displacement elem=HEXA8, flux-closure residual 2.8e-7)",
      "C07": "also VIOLATION of C07 (translated rule no longer exact)"}),
    ("C01_D", "C01", "add_dirichlet sorts / de-duplicates the node list (np.unique) while per-node value arrays stay in the caller's order",
     "Dirichlet values given as arrays on a node list not sorted by id", {"C01": "VIOLATION with failing input (patch displacement ...: boundary nodes are listed in shuffled order by the harness)"}),
]

only = set(sys.argv[1:])
for seed, prop, breaks, needs, det in ROWS:
    if only and seed not in only:
        continue
    subprocess.check_call([sys.executable, "/verif/tools/seed/write_meta.py", seed, prop, breaks, needs, json.dumps(det)])
    print("meta", seed)
