"""Round-2 seeded changes: writes seeded/<id>/meta.json through write_meta.py (kept as the record of what each change breaks)."""
import json
import subprocess
import sys

ROWS = [
    ("C17_C", "C17", "the 2D eigenprojector M1 is assigned per element (first Gauss point of each element with distinct eigenvalues) instead of per Gauss point",
     "a 2D element whose Gauss points are in different spectral cases (e.g. hydrostatic next to generic)",
     {"C17": "VIOLATION with failing input (positive part dim=2 state=hydrostatic+: projP·eps differs from the positive part of the strain)"}),
    ("C18_C", "C18", "HolzapfelOgden d2W/dI3dI3 uses the exponent 7/3 instead of 8/3", "HolzapfelOgden with Mu2 != 0 at a deformation with I3 != 1",
     {"C18": "VIOLATION with failing input (tangent is not the derivative of the stress law=HolzapfelOgden dim=3)"}),
    ("C02_C", "C02", "3D Timoshenko strain-displacement matrix: the shear-z row uses w' - ry while the curvature keeps the other rotation convention",
     "3D Timoshenko beams; the physical rigid rotation about y must be tested (eigenvalue counts on a straight beam do not see it)",
     {"C02": "VIOLATION with failing input (beam rigid motion not in kernel timo=True dim=3)"}),
    ("C02_D", "C02", "Elastic simulation caches the element mass matrix with a key that omits the thickness", "2D Elastic simulation: assemble, change material.thickness, assemble again",
     {"C02": "VIOLATION with failing input (mass total after thickness change elem=TRI3 ...)"}),
    ("C08_C", "C08", "iterative inverse map (general quadrangles) evaluates the shape functions against the global coordinates instead of the element-frame ones",
     "non-parallelogram QUAD4/8/9 elements of a surface rotated out of the (x, y) plane",
     {"C08": "missed at first (embedded surfaces were rectangles: no iterative path); harness strengthened with polygon meshes of general quadrangles rotated into 3D -> VIOLATION with failing input (point evaluation embedded elem=QUAD4)"}),
    ("C08_D", "C08", "PRISM18 faces table: bottom triangle listed with the opposite winding", "boundary rebuilt from the faces tables (MeshIO.Surface_reconstruction) of a PRISM18 mesh",
     {"C08": "missed at first (face tables not modelled, reconstructed boundary not exercised); added: translation of every 3D faces table + Props.C08.face_tables_checked (breaks: theorem-no-longer-checks) "
             "and reconstructed-boundary closure in the harness -> VIOLATION with failing input (reconstructed boundary not closed elem=PRISM18, sum of n dS = (0,0,4))"}),
    ("C09_C", "C09", "15-point tetrahedron rule: one abscissa of the second 4-point orbit mistyped (b2 -> b1); weights still sum to 1/6",
     "add_volumeLoad on a TETRA10 mesh (mass rule): moments of constant loads, resultants of non-constant ones",
     {"C09": "VIOLATION with failing input (moment add_volumeLoad form=constant elem=TETRA10)"}),
    ("C09_D", "C09", "__Bc_Integration_Dim sorts / de-duplicates the node selection (np.unique) while nodal value arrays stay in the caller's order",
     "loads given as nodal arrays on a selection not listed in ascending node order",
     {"C09": "detected at first only as a model/implementation disagreement (single-element correspondence uses the element's own node order) without a failing input; oracle strengthened (node selections shuffled) "
             "-> VIOLATION with failing input (resultant add_volumeLoad form=nodal ...)"}),
    ("C13_C", "C13", "BiLinearForm.Integrate_e integrates with the signed det(F) x weights instead of the weighted Jacobian |det F|",
     "elements with reversed orientation (mesh.Symmetry, clockwise-numbered imports)",
     {"C13": "detected at first only as translator-refused (statement of Integrate_e changed) with no failing input; harness strengthened (every other element type is tested on a mirrored affine image) "
             "-> VIOLATION with failing input (grammar form / user form differs from built-in on mirrored meshes)"}),
    ("C13_D", "C13", "WeakForms simulation: the capacity matrix C no longer carries the thickness", "2D weak-form model with thickness != 1 and a computeC form (parabolic problems)",
     {"C13": "VIOLATION with failing input (weak-form simulation differs mode=thermal-parabolic) + translator-refused for WeakForms.Construct_local_matrix_system"}),
    ("C15_C", "C15", "InElastic.Set_Iter restores only the committed internal variables, not the trial ones that Save_Iter commits",
     "Set_Iter(i) followed by Save_Iter() without a solve, on a material with internal variables and >= 2 iterations with different plastic state",
     {"C15": "missed at first (a save straight after a restore was never compared with the restored iteration; internal variable p not observed); harness strengthened (spec: setIter j; save appends log[j]; result p observed; "
             "fixed prefix solve+ save solve++ save set0 save) -> VIOLATION with failing input (re-save of a restored iteration sim=inelastic fields=Svm,p)"}),
    ("C15_D", "C15", "PhaseField.Set_Iter keeps the cached matrices when the restored iteration is the last one",
     "matrices assembled at an earlier iteration (Result(name, iter=i) sweep), then restore of the last iteration",
     {"C15": "VIOLATION with failing input (restore sim=phasefield:HistoryDamage:Miehe fields=Wdef)"}),
    ("C19_C", "C19", "local Newton Jacobian evaluates the isotropic hardening slope at the increment dp instead of p_n + dp",
     "general local Newton (kinematic hardening / solver=newton), nonlinear isotropic hardening, committed state with p > 0 (second plastic step)",
     {"C19": "VIOLATION with failing input (tangent is not the derivative of the stress behavior=VM+Voce+AF 3D)"}),
    ("C19_D", "C19", "InElastic.Set_Iter aliases the trial-state dictionary with the committed one", "a Solve after Set_Iter (also the hidden one of Result(name, iter=k)) without Save_Iter",
     {"C19": "VIOLATION with failing input (Solve modifies the committed internal variables) + translator-refused for InElastic.Set_Iter"}),
    ("C20_C", "C20", "ghost layer tested on the vertex columns of the connectivity only",
     "higher-order elements; a part owning a mid-edge node whose two vertices belong to lower-ranked parts (many parts)",
     {"C20": "VIOLATION with failing input (ghost layer group=TRI6 rank 5: elements [31] touch an owned node but are not held)"}),
    ("C20_D", "C20", "Mesh.Merge deduplicates coincident points with a single-pass representative instead of connected components (not transitive)",
     "three or more input nodes at the same position (2 x 2 tiles, three copies, overlapping parts of a split)",
     {"C20": "missed at first (merge cases had at most two coincident nodes per position); harness strengthened (2 x 2 tiles, three coincident copies, parts of a split merged back; coincident inputs <-> one merged node, "
             "distinct elements <-> one merged element) -> VIOLATION with failing input (merge bookkeeping: ... mapped to DIFFERENT merged nodes)"}),
    ("C01_C", "C01", "8-point hexahedron rule: abscissa 1/sqrt(3) replaced by the literal 0.57753... (digits transposed); weights still sum to 8",
     "HEXA8 elements with genuinely trilinear geometry on a non-brick base (affine images and bricks with moved interior nodes do not show it)",
     {"C01": "missed at first (3D meshes were affine images of bricks); harness strengthened (HEXA8 / PRISM6: tapered box with moved interior nodes) -> VIOLATION with failing input (patch displacement elem=HEXA8, flux-closure residual 2.8e-7)",
      "C07": "also VIOLATION of C07 (translated rule no longer exact)"}),
    ("C01_D", "C01", "add_dirichlet sorts / de-duplicates the node list (np.unique) while per-node value arrays stay in the caller's order",
     "Dirichlet values given as arrays on a node list not sorted by id", {"C01": "VIOLATION with failing input (patch displacement ...: boundary nodes are listed in shuffled order by the harness)"}),
    ("C03_C", "C03", "__Assemble_csr fills a preallocated buffer whose dtype is that of the first contributing group: imaginary parts of later complex groups are dropped (textual variant of C03_B)",
     "two groups feeding one slot, the first real and a later one complex", {"C03": "VIOLATION with failing input (assembly slot=... differs from the scatter-add of the element arrays, complex history)"}),
    ("C03_D", "C03", "the cached reduction map is kept in a per-simulation dict keyed on (dof_n, isMatrix, Ndof, element types and counts) and never invalidated",
     "an existing simulation that has assembled is given a mesh of the same sizes with another connectivity (simu.mesh = renumbered mesh)",
     {"C03": "missed at first (a replaced mesh always had the same connectivity or other sizes); histories now contain 'renumbered-mesh' (same sizes, nodes permuted) -> VIOLATION with failing input (assembly slot=... differs from the scatter-add) and csr-pattern disagreement with the model"}),
    ("C04_C", "C04", "the orphan-node diagonal is built for the default problem type: in a multi-field simulation the damage rows of orphan nodes keep a zero diagonal",
     "a mesh with a node attached to no element, PhaseField, solve of the damage problem",
     {"C04": "missed at first (orphan node only in an Elastic simulation); orphan-node scenario added for Thermal and PhaseField -> VIOLATION with failing input (orphan-node sim=phasefield: damage non-finite)"}),
    ("C04_D", "C04", "BoundaryCondition.Get_dofs_nodes returns the dof columns in canonical order whatever the order of the unknown names, while the values stay in the caller's order",
     "a condition listing several unknowns in non-canonical order (e.g. ['y', 'x']) with distinct values",
     {"C04": "detected at first only as a dof-lookup disagreement with the model, without failing input; strengthened: the second condition of every program lists the unknowns reversed, point loads are checked against an independent expected vector, "
             "and the runner now repeats the harness in --search mode when only the correspondence breaks -> VIOLATION with failing input (Bc_vector_Neumann / constrained-value sim=elastic)"}),
    ("C05_C", "C05", "hht branch of _Solver_Apply_Neumann: sign of the damping weight of the a_n history term flipped", "HHT on a linear simulation with damping, gamma != 2 beta, a_n != 0 (second step)",
     {"C05": "VIOLATION with failing input (theorem hht_eom no longer checks; algo=hht equation-of-motion residual 2.4e2)"}),
    ("C05_D", "C05", "parabolic corrector uses the predictor u_n + alpha dt v_n instead of u_n + (1 - alpha) dt v_n", "theta scheme with alpha != 1/2, second step (v_n != 0)",
     {"C05": "VIOLATION with failing input (theorems parabolic_update_spec / parabolic_eval_eq_update no longer check; algo=parabolic update-relations)"}),
    ("C06_C", "C06", "EULER_BERNOULLI5._Hermitian_dddN[5]: coefficient 480 r^3 -> 840 r^3", "SEG5 Euler-Bernoulli, pointwise evaluation of the third-derivative table (element means cancel the odd term)",
     {"C06": "VIOLATION with failing input (theorem EULER_BERNOULLI5_check no longer checks; hermite=EULER_BERNOULLI5 table=dddN entry=5)"}),
    ("C06_D", "C06", "TRI10._ddN[6]: the xi-xi and eta-eta second derivatives exchanged", "TRI10 second derivatives (Get_ddN_pg)",
     {"C06": "VIOLATION with failing input (theorem TRI10_check no longer checks; elem=TRI10 table=ddN entry=6,0)"}),
    ("C07_C", "C07", "Gauss_factory: QUAD9 merged into the QUAD8 branch: (QUAD9, rigi) gets the 2 x 2 rule", "QUAD9 stiffness rank",
     {"C07": "VIOLATION with failing input (factory_pairs / factory_adequate / rigi_certified no longer check; QUAD9 conduction matrix has 2 zero-energy modes)"}),
    ("C10_C", "C10", "Get_Pmat 3D, B block second row: p31*p33 became p31*p32", "3D anisotropic material with out-of-plane axes (rotation about y or a general axis)",
     {"C10": "VIOLATION with failing input (theorem pmat3_checks no longer checks; frame indifference sim=static transform=rotation, TETRA10, transversely isotropic law)"}),
    ("C10_D", "C10", "2D beams: the third local axis is forced to +z instead of cross(i, j)", "a 2D member whose (fibre, yAxis) pair is left-handed: default yAxis with the member drawn right to left, or a mirrored structure",
     {"C10": "missed at first (the yAxis was always rotated with the member, rotations only); beam variants added: default yAxis at any inclination, reflections in 2D and 3D with pseudo-vector moments / rotations "
             "-> VIOLATION with failing input (beam frame indifference ... rotation, default yAxis / reflection)"}),
    ("C11_C", "C11", "plane-stress reduction for per-Gauss-point parameters (Ne, nPg) uses the compliance in material axes instead of the rotated one",
     "2D plane stress, transversely isotropic / orthotropic, parameters given as (Ne, nPg) arrays, material axes not aligned with (x, y)",
     {"C11": "missed at first (heterogeneous fields only for the isotropic law, per element); added: parameter fields per element and per Gauss point for the three laws with rotated axes, each entry against the scalar law "
             "-> VIOLATION with failing input (heterogeneous law differs from the scalar law law=ortho planeStress=True field=per Gauss point)"}),
    ("C11_D", "C11", "KelvinMandel_Matrix 3D table: entries [4][5] and [5][4] are sqrt(2) instead of 2", "3D stiffness given in Voigt notation with a non-zero C56 coupling (triclinic)",
     {"C11": "detected at first as theorem kelvin3_table no longer checking, without failing input (Voigt input was orthotropic); every other repetition now uses a fully populated stiffness -> VIOLATION with failing input (anisotropic voigt-vs-mandel dim=3)"}),
    ("C12_C", "C12", "_KeepsFeAxes: a >= 2 - ndim became a > -ndim (variant of C12_B)", "a reduction over the Gauss-point axis written with a negative index",
     {"C12": "VIOLATION with failing input (theorem keepsAxis_iff no longer checks; reducer ... axis=(-1, -3): result is a FeArray but the (Ne, nPg) axes are not preserved)"}),
    ("C12_D", "C12", "FeArray.broadcast tests the full-field shape before looking at the declared tensor rank", "tensor_ndim declared and nPg == n (TRI6 in 2D) or Ne == nPg == n",
     {"C12": "missed at first (random sizes rarely coincide); deterministic size-collision cases added for tensor_ndim 1 and 2 -> VIOLATION with failing input (broadcast lead=e tensor_ndim=1 (sizes coincide))"}),
    ("C14_C", "C14", "the mesh setter removes the simulation from the observers of the replaced meshes; Set_Iter can put such a mesh back without re-subscribing",
     "solve / save on mesh 0, replace the mesh, save, Set_Iter(0), assemble, then move mesh 0",
     {"C14": "missed at first (histories never went back to an earlier mesh); scenario added (read, Save_Iter, replace, read, Save_Iter, Set_Iter(0), read, move, read) for four motions -> VIOLATION with failing input (stale after moving a mesh restored by Set_Iter)"}),
    ("C14_D", "C14", "PhaseField._Update: a change of the elastic law only invalidates the displacement system", "loaded state with the damage system already assembled, then material.E / v / planeStress changed",
     {"C14": "missed at first (no phase-field parameter change on a loaded state); scenario added -> VIOLATION with failing input (stale phase-field damage system after a change of the elastic law)"}),
    ("C16_C", "C16", "Result_strain_or_stress_field_e averages over the Gauss points before extracting the quantity (variant of C16_A)", "elements with several integration points and a non-uniform stress",
     {"C16": "VIOLATION with failing input (sim=Elastic result=Svm / Evm)"}),
    ("C16_D", "C16", "Elastic._Calc_Psi_Elas integrates with the mass quadrature instead of the stiffness one", "element types whose two rules differ (QUAD8, PRISM15)",
     {"C16": "VIOLATION with failing input (sim=Elastic Wdef != 1/2 u'Ku)"}),
]

only = set(sys.argv[1:])
for seed, prop, breaks, needs, det in ROWS:
    if only and seed not in only:
        continue
    subprocess.check_call([sys.executable, "/verif/tools/seed/write_meta.py", seed, prop, breaks, needs, json.dumps(det)])
    print("meta", seed)
