"""Round-4 seeded changes (sub-agents were given tools/seed/round4_guidance.txt on top of the base prompt: rarely used entry
points, the form of the inputs, boundary sizes, sequences, non-default options): writes seeded/<id>/meta.json through
write_meta.py. The key of the failing input is read from the REPORTED lines try_seed.sh leaves in seeded/<id>/check_<prop>.log."""
import json
import re
import subprocess
import sys

M1 = "missed at first"
ROWS = [
    ("C01_G", "C01", "__Assemble_csr looks the cached reduction map up with the groups sorted by gmsh id while the data is laid out in the order the groups were listed",
     "a mesh mixing two element types whose groups are listed in increasing gmsh id (Mesh.Merge of a triangle and a quadrangle mesh, one of the two orders)", ""),
    ("C01_H", "C01", "the element lengths scaling the rotation (psi) Hermite functions of Euler-Bernoulli beams are cached on the element group at first use",
     "a beam simulation that has assembled, then a non-isometric in-place change of the coordinates (stretch), then a solve",
     M1 + " (beam meshes were only moved rigidly after assembly); the beam patch test is now repeated after the simulation's own mesh was stretched in place"),
    ("C02_G", "C02", "Thermal applies the thickness factor when the element group's inDim is 2 instead of when the mesh is 2D",
     "a 2D mesh (plate) that does not lie in the (x, y) plane: tilted, so the group reports inDim = 3",
     M1 + " (plates stayed in their plane); tilted plates, a mirrored plate after a probing read and an inclined bar added (total capacity = rho c area t, conductivity energy of a unit in-plane gradient)"),
    ("C02_H", "C02", "Get_weightedJacobian_e_pg asks for absolute Jacobians by keyword while the memoisation key keeps only the keyword NAMES: it returns whichever of the signed / absolute arrays was cached first",
     "a mirrored mesh (negative Jacobians) on which a signed-Jacobian read (point location) happened before the first assembly",
     M1 + " (nothing was read between the mirroring and the assembly); mass / capacity of mirrored meshes assembled after a probing read added"),
    ("C03_G", "C03", "Get_K_C_M_F removes the explicit zeros of K in place when Lagrange conditions exist: K shares its index arrays with the cached reduction map",
     "a beam structure with Lagrange connections assembled twice (second assembly after a parameter change, same pattern)",
     M1 + " (beam systems with Lagrange conditions were assembled once per history); the K / M blocks of Lagrange beam systems are now compared with the scatter-add over repeated assemblies"),
    ("C03_H", "C03", "BiLinearForm.Assemble swaps rows and columns of the element entries", "a non-symmetric user form assembled through BiLinearForm.Assemble",
     M1 + " (only simulations' Assembly() was compared); BiLinearForm.Assemble with non-symmetric forms (convection, component coupling) is compared with the scatter-add of Integrate_e in the placement Assembly() uses"),
    ("C04_G", "C04", "the known / unknown dof split is memoised per problem type and only dropped by Bc_Init",
     "a Dirichlet condition added after a first Solve, without Bc_Init in between",
     M1 + " (every program entered all its conditions before the first solve); a late condition after a first Solve added to every program"),
    ("C04_H", "C04", "the Krylov backends get an absolute residual floor atol = 1e-8", "loads so small that the whole right-hand side is below 1e-8: the iterative backends return x0",
     M1 + " (loads were of order one, and the backends were run on one simulation in sequence, so each started from the previous answer); tiny loads with a fresh simulation and a reset solution per backend added"),
    ("C05_G", "C05", "hht_newmark folded into the newmark branch, selected with `is AlgoType.hht_newmark`: the string form of the algorithm name gets coefK = 1", "the algorithm given as the plain string 'hht_newmark'",
     M1 + " (algorithms were always passed as enum members); string names for every algorithm and a deterministic enum-versus-string comparison of the coefficient triple added"),
    ("C05_H", "C05", "Set_Rayleigh_Damping_Coefs(0, 0) no longer marks the system for rebuild", "damping switched off in the middle of a run",
     M1 + " (damping coefficients were set once per history); damping changed, and switched off, mid-sequence"),
    ("C06_G", "C06", "SEG5._ddddN written as a comprehension of lambdas binding the loop variable late: every entry returns the last constant", "fourth derivatives of SEG5", ""),
    ("C06_H", "C06", "EULER_BERNOULLI3._Hermitian_dN entry dN6: one factor loses its square", "first-derivative Hermite table of the 3-node Euler-Bernoulli beam", ""),
    ("C07_G", "C07", "Get_weightedJacobian_e_pg multiplies the Jacobians with FeArray.broadcast(weights, Ne, nPg)", "a group with Ne == nPg and a rule with unequal weights: the weights are taken per element", ""),
    ("C07_H", "C07", "Gauss(elemType, nPg): the prism coordinates returned by _Prism are permuted as for the 6-point table", "prism rules requested by their number of points", ""),
    ("C08_G", "C08", "the KD-tree of the group's nodes is built once and kept", "locate points, move the mesh (the group object survives), locate again on a mesh fine enough for the nearest node to change",
     M1 + " (meshes located on after a move were coarse: the stale nearest node still touched the right element); locate / move / locate on fine meshes added"),
    ("C08_H", "C08", "Evaluate_dofsValues_at_coordinates adds the contributions of every group containing the point", "meshes mixing two main element types, points on the interface between the groups", ""),
    ("C09_G", "C09", "Get_Elements_Nodes(exclusively=True) counts the listed nodes per element: a node listed twice is counted twice",
     "a node selection listing a node twice (two edges concatenated, shared corner)",
     M1 + " (selections were shuffled but duplicate-free); selections with duplicated nodes added"),
    ("C09_H", "C09", "the memoisation key of computed element arrays drops the keyword arguments", "a mirrored mesh, an unrelated read of signed Jacobians (point location) before the loads are applied", ""),
    ("C11_G", "C11", "KelvinMandel_Matrix scales a copy of the input in place: an integer Voigt matrix stays integer and the sqrt(2) factors are truncated", "an anisotropic law given as an integer-typed Voigt matrix", ""),
    ("C11_H", "C11", "the parameter setter skips the update when the new value is np.allclose to the old one",
     "a parameter changed by a relative amount below 1e-5 (finite-difference sensitivities, a modulus ramped in small steps)",
     M1 + " (parameter changes were of order one); tiny parameter changes and ramps in small steps added for every law"),
    ("C12_G", "C12", "the tensor rank of a plain operand is read from its ndim attribute: Python lists / tuples count as rank 0", "a constant tensor given as a list or a tuple",
     M1 + " (constants were always numpy arrays); list and tuple constants added to the expression programs"),
    ("C12_H", "C12", "_FeShape takes the largest leading shape instead of the broadcast of the operands' leading shapes", "per-element data (Ne, 1, ...) combined with per-point data (1, nPg, ...)", ""),
    ("C13_G", "C13", "Field.Evaluate_e leaves its 'currently evaluated' flag set on the return path without mean values", "integrate, then Field.Evaluate_e(function, u, returnMeanValues=False), then integrate the same form with the same field again", ""),
    ("C13_H", "C13", "the test function v of BiLinearForm.Integrate_e is a new default field instead of a copy of the trial field: the matrix type (quadrature) of the field is lost", "a Field created with matrixType=MatrixType.rigi (non-default quadrature) on linear simplices", ""),
    ("C14_G", "C14", "Set_Iter no longer records the index of the restored mesh; __Update_mesh resets the newest-mesh index to the restored one", "restore an earlier iteration living on an earlier mesh, then replace the mesh", ""),
    ("C14_H", "C14", "a parameter assigned the very object it already holds does not trigger a rebuild", "a per-element array edited in place by its owner and assigned again",
     M1 + " (every modification assigned a new value); per-element E / k / rho arrays edited in place and assigned again, and damping switched off after a read, added to the modification list"),
    ("C15_G", "C15", "Set_Iter(i, resetAll=True) zeroes the history field in place: the array belongs to the stored iteration", "PhaseField, History solver, iterations in memory, Set_Iter(i, resetAll=True)",
     M1 + " (resetAll was never passed; only the displacement / temperature of stored iterations was watched); every array of every stored iteration is now compared with a private copy after each operation, and resetAll restores added"),
    ("C15_H", "C15", "InElastic.Set_Iter no longer rebuilds the trial state from the restored committed state", "restore an iteration and save again at once", ""),
    ("C16_G", "C16", "Wdef multiplies by the material's thickness in 3D too", "a 3D Elastic model constructed with thickness != 1",
     M1 + " (thickness was 1 everywhere in this check); thickness now varies with the element type and the seed, in 2D and 3D"),
    ("C16_H", "C16", "Calc_Reaction adds C v + M a only for four of the six second-order schemes", "reactions under euler_implicit / euler_explicit with damping and inertia", ""),
    ("C17_G", "C17", "the cached square roots of C and S are no longer dropped when C / S are reassigned", "He split evaluated, a material parameter changed, evaluated again",
     M1 + " (each material was evaluated once, and positive parts were compared with an independent decomposition for the strain-based splits only: cP + cM = C still holds with a stale square root); every split is now evaluated a second time after a parameter change, and the He positive part is compared with C^1/2 <C^1/2 eps>+ from numpy.linalg.eigh"),
    ("C17_H", "C17", "HistoryDamage: the new damage is maximised against the previous staggered iterate instead of the damage of the last converged step", "several staggered iterations per load step with unloading", ""),
    ("C18_G", "C18", "Clenshaw-Curtis weights for even n: the last cosine term of the sum is dropped", "path quadrature with an even number of intervals >= 4", ""),
    ("C18_H", "C18", "FollowingPressure indexes the displacement vector with the group-local node numbers", "a surface group whose local node numbering differs from the mesh numbering",
     M1 + " (the boundary groups of the coarse gmsh boxes number their nodes like the mesh; only element 0 of the first group was differenced); the operator is now checked on a finer mesh with randomly renumbered nodes, on every surface group (TRI3 and QUAD4 of a prism mesh), first / middle / last element, and the force itself is compared with p int N (dx/dr x dx/ds) from the deformed positions; an exception in this block is now a failure, no longer a note"),
    ("C19_G", "C19", "Save_Iter swaps the committed and trial state dictionaries instead of copying", "Save_Iter called twice without a solve in between", ""),
    ("C19_H", "C19", "the plane-stress loop stops when |max sigma_zz| < tol instead of max |sigma_zz| < tol", "a field of several points, all in compression, some yielding",
     M1 + " (Integrate was only called on one point at a time); the steps walked point by point are now handed over as one field (row and column layouts, each point with its own state) and compared with the point-by-point results, sigma_zz checked at every point"),
    ("C20_G", "C20", "ghost elements searched through the vertex columns of the connectivity only (same idea as C20_A / C / E)", "higher-order elements, many parts", ""),
    ("C20_H", "C20", "_Set_partitioned_data: an empty list of owned nodes is replaced by all the nodes the group uses", "a part that owns elements of a group but none of its nodes (many parts)", ""),
]


def reported(seed, prop):
    try:
        txt = open(f"/verif/seeded/{seed}/check_{prop}.log").read()
    except OSError:
        return None
    keys = re.findall(r"^REPORTED kind=(\S+) key='?\"?(.*?)['\"]? broken=(.*)$", txt, flags=re.M)
    if not keys:
        return None
    kind, key, broken = keys[0]
    tail = " no-failing-input-found" if "no-failing-input-found" in broken else ""
    brk = broken.replace(" no-failing-input-found", "").strip()
    extra = f"; obligations that no longer check: {brk[:160]}" if brk not in ("[]", "None", "") else ""
    return f"VIOLATION with failing input ({key[:150]}){extra}" if kind == "failing-input" else f"VIOLATION ({kind}: {key[:150]}{extra}){tail}"


only = set(sys.argv[1:])
for seed, prop, breaks, needs, how in ROWS:
    if only and seed not in only:
        continue
    rep = reported(seed, prop) or "VIOLATION (see check log)"
    det = {prop: (how + " -> " + rep) if how else rep}
    subprocess.check_call([sys.executable, "/verif/tools/seed/write_meta.py", seed, prop, breaks, needs, json.dumps(det)])
    m = json.load(open(f"/verif/seeded/{seed}/meta.json"))
    m["source"] = ("fresh sub-agent (round 4: base prompt plus tools/seed/round4_guidance.txt) working in its own scratch worktree of /repo, "
                   "given only the property text")
    json.dump(m, open(f"/verif/seeded/{seed}/meta.json", "w"), indent=1)
    print("meta", seed)
