"""Round-3 seeded changes (sub-agents were asked to look off the main path: alternative branches, caches, conversion helpers,
option flags, interactions of two features): writes seeded/<id>/meta.json through write_meta.py."""
import json
import subprocess
import sys

M1 = "missed at first"
ROWS = [
    ("C01_E", "C01", "add_dirichlet sorts / de-duplicates the node list while per-node value arrays stay in the caller's order (same idea as C01_A / C01_D)",
     "boundary values given as arrays on a node list not sorted by id", {"C01": "VIOLATION with failing input (patch displacement elem=TRI3 ...)"}),
    ("C01_F", "C01", "the Mesh.coord setter no longer notifies the observers (Translate / Rotate / Symmetry keep their own notification)",
     "a simulation that has assembled, then a non-affine in-place move of the nodes through mesh.coord, then a solve",
     {"C01": M1 + " (meshes were moved before the simulation existed); the 'interior nodes moved' variant now moves the nodes in place after the simulations have assembled, also in 2D -> VIOLATION with failing input (patch displacement elem=TRI3 ...)"}),
    ("C02_E", "C02", "3D Timoshenko shear-z row uses w' - ry (same idea as C02_C)", "3D Timoshenko beams, explicit rigid rotation modes",
     {"C02": "VIOLATION with failing input (beam rigid motion not in kernel timo=True dim=3)"}),
    ("C02_F", "C02", "Elastic: the thickness factor of K_e and M_e is only applied in plane stress", "2D plane strain with thickness != 1",
     {"C02": "VIOLATION with failing input (mass total after thickness change elem=QUAD8)"}),
    ("C03_E", "C03", "__Assemble_csr buffer takes the dtype of the first group (same idea as C03_B / C03_C)", "a real group first, a complex group later in one slot",
     {"C03": "VIOLATION with failing input (assembly slot=K ...); the mixed real / complex orders are now forced in every other history (the detection of C03_B / C03_C had become dependent on the random stream)"}),
    ("C03_F", "C03", "dof ids allocated as int32 and the linear key row * Ndof + col computed without widening: wraps beyond 2^31", "a matrix with Ndof > 46340",
     {"C03": M1 + " (all meshes were small); a structured TRI3 mesh with Ndof = 51842 is now assembled and compared with an int64 COO scatter-add -> VIOLATION with failing input (assembly of a large system slot=K)"}),
    ("C04_E", "C04", "__Solver_2 (multiplier path) sorts the Dirichlet dofs but re-aggregates the values only when a dof is duplicated",
     "beam connection (Lagrange path), non-zero prescribed values entered in non-ascending dof order, no duplicate",
     {"C04": M1 + " (conditions were always entered clamp first, in canonical unknown order); three entry orders added on the two-beam joint -> VIOLATION with failing input (lagrange dirichlet-value entry order)"}),
    ("C04_F", "C04", "add_dirichlet sorts / de-duplicates the node list while array values stay in the caller's order", "array-valued Dirichlet data on a node list not in ascending order",
     {"C04": M1 + " (after the generator changes of round 2 no program of seed 0 combined shuffled nodes with array values); the second condition of every program now lists shuffled nodes with an array for the first unknown -> VIOLATION with failing input (constrained-value sim=thermal)"}),
    ("C05_E", "C05", "the midpoint corrector is folded into the hht branch, which reads the stored beta / gamma", "AlgoType.midpoint with non-default beta / gamma",
     {"C05": "VIOLATION with failing input (theorem midpoint_update_spec no longer checks; algo=midpoint corrector v)"}),
    ("C05_F", "C05", "the system matrix coefK K + coefC C + coefM M is cached with a key that omits beta, gamma, alpha", "same algorithm and dt, scheme parameters changed between steps",
     {"C05": "VIOLATION with failing input (algo=hht equation-of-motion)"}),
    ("C06_E", "C06", "TRI15._ddddN rewritten as a comprehension of lambdas that bind the loop variables late: the whole table is zero", "fourth derivatives of TRI15",
     {"C06": "VIOLATION with failing input (elem=TRI15 table=ddddN entry=0,0)"}),
    ("C06_F", "C06", "EULER_BERNOULLI3._Hermitian_dN entry dN4: sign slip in the first product-rule term", "first-derivative Hermite table of the 3-node Euler-Bernoulli beam",
     {"C06": "VIOLATION with failing input (theorems EULER_BERNOULLI3_check / TIMOSHENKO3_check no longer check; hermite=EULER_BERNOULLI3 interpolation dpsi)"}),
    ("C07_E", "C07", "Gauss rules memoised with the key (dim, nPg): the 8-point hexahedron and prism rules collide", "Gauss(PRISM*, 8) in a process that also used HEXA8",
     {"C07": "VIOLATION with failing input (translator refuses the refactored factory; rule=prism_8: a point lies outside the reference prism)"}),
    ("C08_E", "C08", "the distorted-element criterion of _Get_Mapping loses its absolute value", "mirrored meshes (negative Jacobians) of general quadrangles / hexahedra",
     {"C08": "VIOLATION with failing input (point evaluation elem=QUAD4 batch ...)"}),
    ("C08_F", "C08", "_Get_nearby_nodes returns local row indices instead of node numbers (same idea as C08_A)", "a mesh with two main element groups, or leading orphan nodes",
     {"C08": "VIOLATION with failing input (point evaluation mixed mesh TRI3+QUAD4 batch)"}),
    ("C09_E", "C09", "EULER_BERNOULLI4._Hermitian_N N5: coefficient 5589 -> 5598 of an odd power of r", "Euler-Bernoulli SEG4 beams with a non-uniform line load",
     {"C09": M1 + " (beam loads only on SEG2 / SEG3 in the quick tier); all four segment types are now loaded -> VIOLATION with failing input (beam resultant timo=False dim=2 form=callable)",
      "C06": "also breaks the Hermite theorems of C06"}),
    ("C09_F", "C09", "the cache key of cached methods drops the keyword values, and Get_weightedJacobian_e_pg passes absoluteValues=True explicitly: signed and absolute Jacobians share a cache entry",
     "a mirrored mesh, a signed-Jacobian read first (point probing), then a volume load",
     {"C09": M1 + " (no unrelated read before the loads, mirrored images only by chance); every other element type is now on a mirrored image and a field is probed before the loads -> VIOLATION with failing input (resultant add_volumeLoad form=constant elem=TRI6)"}),
    ("C10_E", "C10", "_Compute_P_e_pg of the beam elements is cached on the element group (cleared only when coordinates change)", "3D beam with Iy != Iz whose yAxis is changed in place on an assembled simulation",
     {"C10": M1 + " (moved problems were always built from fresh objects); in-place turn of the section axes about the member added -> VIOLATION with failing input (beam frame indifference ... section axes changed in place)"}),
    ("C10_F", "C10", "fibre-invariant derivative, xz entry: T1z*T2x became T1z*T2y", "3D HolzapfelOgden with a fibre or sheet direction having a z component",
     {"C10": M1 + " (hyperelastic cases used SaintVenantKirchhoff only); 3D hyperelastic cases now use HolzapfelOgden with out-of-plane fibres moved with the problem -> VIOLATION with failing input (frame indifference sim=hyperelastic transform=rotation)"}),
    ("C11_E", "C11", "_Parameter.__set__ skips the update when the new value compares equal to the stored one (same object after an in-place edit)", "array parameter edited in place and re-assigned after a first read",
     {"C11": "VIOLATION with failing input (parameter changed in place then re-assigned)"}),
    ("C11_F", "C11", "Get_Pmat, 2-component axes: A and B blocks swapped: returns the transposed rotation (still orthogonal)", "axes given with two components, rotation not a multiple of 90 degrees",
     {"C11": M1 + " (Get_Pmat theorems were only built by the C10 check; the 2D tensor rotation was not exercised); the C11 check now regenerates, builds and audits Props.C10 and exercises P vec(eps) = vec(Q eps Q^T) in 2D "
             "-> VIOLATION with failing input (theorem pmat2_checks no longer checks; Get_Pmat dim=2 tensor-rotation)"}),
    ("C12_E", "C12", "_FeShape takes max(shapes) instead of the broadcast of the (Ne, nPg) shapes", "a per-element field (Ne,1,...) with a per-point field (1,nPg,...) through matmul / einsum / where",
     {"C12": M1 + "; per-element x per-point operands through the non-elementwise protocol paths added -> VIOLATION with failing input (per-element field (Ne,1) with per-point field (1,nPg): A_e @ B_p type)"}),
    ("C12_F", "C12", "FeArray.broadcast: full-field test hoisted above the declared-rank branch (same idea as C12_D)", "declared tensor rank with nPg == n or Ne == nPg == n",
     {"C12": "VIOLATION with failing input (theorem declared_classify over the translated decision list no longer checks; broadcast lead=none tensor_ndim=2 shape)"}),
    ("C13_E", "C13", "Field.copy() drops the field's quadrature choice (matrixType)", "a field with a non-default matrixType on element types whose two rules differ",
     {"C13": "crashed the harness at first (exit 2); the per-quadrature body is now guarded (an exception is a form that cannot be integrated) and every harness is run through a wrapper that turns an escaping exception into a "
             "reported failure -> VIOLATION with failing input (user form differs from built-in: u*v vs UV)"}),
    ("C13_F", "C13", "WeakForms simulation: M is not scaled by the thickness", "2D weak-form model with thickness != 1 and a computeM form (hyperbolic use)",
     {"C13": "VIOLATION with failing input (weak-form simulation differs mode=elastic-hyperbolic) + translator-refused"}),
    ("C14_E", "C14", "PhaseField._Update: elastic-law notification only invalidates the displacement system (same idea as C14_D)", "loaded state, damage system assembled, then material.E changed",
     {"C14": "VIOLATION with failing input (stale phase-field damage system after a change of the elastic law)"}),
    ("C14_F", "C14", "mesh setter increments the mesh index instead of setting it to the end of the list", "a mesh assigned after Set_Iter went back to an earlier mesh",
     {"C14": M1 + "; scenario added (save on mesh 0, mesh 1, back to 0, assign mesh 2, save, restore 0 then 2) -> VIOLATION with failing input (wrong mesh after restoring an iteration saved on a mesh assigned after going back)"}),
    ("C15_E", "C15", "InElastic.Set_Iter skips an empty saved state (`if state:`)", "an iteration saved before the first solve, restored while a yielded state is current",
     {"C15": M1 + " (the first iteration was always saved after a solve); inelastic histories now start with a Save_Iter of the virgin state -> VIOLATION with failing input (restore sim=inelastic fields=Svm,p)"}),
    ("C16_E", "C16", "Calc_Reaction adds C v + M a only for newmark / midpoint / hht", "hht_newmark, euler_implicit or euler_explicit",
     {"C16": M1 + " (reactions were checked in statics only); Calc_Reaction = (K u + C v + M a) on the constrained rows is now checked for every time scheme on arbitrary states -> VIOLATION with failing input (dynamic reactions algo=hht_newmark)"}),
    ("C16_F", "C16", "PhaseField.Set_Iter no longer invalidates the displacement system", "Result('Wdef', iter=i) after another state was assembled",
     {"C16": M1 + " (Wdef was compared with a K taken from the same simulation); energies queried per stored iteration are now compared with the values recorded when the iteration was current "
             "-> VIOLATION with failing input (sim=PhaseField energies of a stored iteration)"}),
    ("C17_E", "C17", "2D eigenprojector assigned per element (same idea as C17_C)", "a 2D element mixing a degenerate and a generic state", {"C17": "VIOLATION with failing input (positive part dim=2 state=hydrostatic+)"}),
    ("C18_E", "C18", "I8 invariant: T1z*T2x*cxz became T1x*T2z*cxz", "3D HolzapfelOgden with C6 != 0 and fibre / sheet directions with z components",
     {"C18": M1 + " (fibres were axis-aligned); a second HolzapfelOgden law with fibres out of every coordinate plane added -> VIOLATION with failing input (stress is not the derivative of the energy law=HolzapfelOgden dim=3)"}),
    ("C18_F", "C18", "TimeQuadratureStressTensor, fixed rule: material tangent scaled by 2 w s instead of w s / coefK", "fixed nPoints under a non-midpoint scheme (coefK != 1/2)",
     {"C18": M1 + " (only coefK = 1/2); coefK = 1 and 0.7 with fixed and adaptive rules added -> VIOLATION with failing input (tangent is not the derivative of the residual op=TimeQuadratureStressTensor coefK=1.0 nPoints=2)"}),
    ("C19_E", "C19", "MaterialPoint.Run: each inner stress-control iteration starts from the state returned by the previous iteration", "stress-controlled components, plastic flow whose direction changes between trial iterates",
     {"C19": M1 + " (MaterialPoint.Run was not exercised); mixed strain / stress control paths added: every recorded step must be one integration away from the previous recorded state "
             "-> VIOLATION with failing input (MaterialPoint.Run: a recorded step is not one integration away ...)"}),
    ("C20_E", "C20", "ghost elements searched through the corner columns only (same idea as C20_A / C20_C)", "higher-order elements, many parts", {"C20": "VIOLATION with failing input (ghost layer group=TRI6)"}),
    ("C20_F", "C20", "Merge multiplies mergePointsTol by the bounding-box diagonal", "meshes far from unit size with nearly coincident nodes",
     {"C20": M1 + "; merges of two meshes 2e-11 / 2e-13 apart at sizes 100, 1 and 1e-3 added -> VIOLATION with failing input (merge tolerance is not the documented absolute distance scale=100.0 gap=2e-11)"}),
]

only = set(sys.argv[1:])
for seed, prop, breaks, needs, det in ROWS:
    if only and seed not in only:
        continue
    subprocess.check_call([sys.executable, "/verif/tools/seed/write_meta.py", seed, prop, breaks, needs, json.dumps(det)])
    m = json.load(open(f"/verif/seeded/{seed}/meta.json"))
    m["source"] = "fresh sub-agent (round 3: asked to look off the main path) working in its own scratch worktree of /repo, given only the property text"
    json.dump(m, open(f"/verif/seeded/{seed}/meta.json", "w"), indent=1)
    print("meta", seed)
