#!/bin/sh
# Confirms a seeded change in a scratch worktree: demo passes without the patch, fails with it,
# and the full baseline suite still passes with the patch. Usage: confirm.sh <seed-dir-name>
S=/verif/seeded/$1
W=/tmp/wt/confirm_$1
git -C /repo worktree add -q --detach $W || exit 2
cd $W
PYTHONPYCACHEPREFIX=$(mktemp -d) PYTHONPATH=$W /venv/bin/python $S/demo.py > $S/demo_without_patch.log 2>&1; echo "demo without patch: rc=$?" | tee $S/confirm.log
git apply $S/patch.diff || { echo "patch does not apply" | tee -a $S/confirm.log; cd /; git -C /repo worktree remove --force $W; exit 2; }
PYTHONPYCACHEPREFIX=$(mktemp -d) PYTHONPATH=$W /venv/bin/python $S/demo.py > $S/demo_with_patch.log 2>&1; echo "demo with patch: rc=$?" | tee -a $S/confirm.log
[ -n "$SKIP_SUITE" ] || /venv/bin/python -m pytest -q -p no:cacheprovider --timeout=900 -n 8 2>&1 | tail -1 | tee -a $S/confirm.log
cd /
git -C /repo worktree remove --force $W
