"""Round-8 seeded changes (sub-agents were given tools/seed/round8_guidance.txt on top of the base prompt: change A = two cooperating
sites that each look fine alone, change B = a defect in a lower layer, the functions the property names left untouched): writes
seeded/<id>/meta.json through write_meta.py. ROWS comes from metas_round8_rows.py; the key of the failing input is read from the
REPORTED lines left in seeded/<id>/check_<prop>.log. HOW[seed] tells what the first try gave and which scenario the seed led to."""
import json
import subprocess
import sys

sys.path.insert(0, "/verif/tools/seed")
from metas_round4 import reported  # noqa: E402
from metas_round8_rows import ROWS  # noqa: E402

M1 = "missed at first"
N1 = "reported without a failing input at first"
HOW = {
    "C01_P": N1 + " (the pinned statement of Get_invF_e_pg no longer matched; no patch test ran on a mesh with negative Jacobians); patch tests on affinely distorted, renumbered AND mirrored meshes (Mesh.Symmetry) of five element types",
    "C01_Q": M1 + " (only the named components of the strain / stress were compared); Result('Strain') / Result('Stress') as whole tensors, element and nodal values, against the constant tensor of the field in 2D and 3D",
    "C02_Q": "scenario written before the first try (the same parameter plumbing was seen under C11 / C14): a per-element density / capacity field updated in place by its owner and assigned again: total of M / C against the field now held",
    "C03_P": N1 + " (the pinned statements of __Assemble_csr / __Get_csr_map no longer matched; the histories never went BACK in the mesh history); assemble + Save_Iter on a mesh, on a renumbered copy of the same sizes, Set_Iter(0), "
             "Set_Iter(1): K, C, M, F of Get_K_C_M_F against the scatter-add on the current mesh at every stage",
    "C03_Q": M1 + " (element arrays were plain ndarrays in every memory layout, never FeArray-typed); the same layouts wrapped as FeArray (the type the library's own operators return)",
    "C04_Q": M1 + " (the orphan node sat in a single-type mesh); one to three unused nodes in TRI3 + QUAD4 and PRISM6 + HEXA8 meshes (fewer unused nodes than interface nodes)",
    "C05_P": M1 + " (every step drew a new scheme and new parameters, so the coefficient triple changed together with the damping); every other damped sequence keeps one scheme and one parameter set, the only change half-way is the damping",
    "C05_Q": M1 + " (caught by the neighbouring check C18: 'viscous residual is not C v'); two viscous hyperelastic plates in the same state, thickness 1 and 3: K, C, M, F in the ratio of the thicknesses",
    "C06_Q": M1 + " (values of the tables were checked entry by entry, never their number of rows on inherited tables); every Lagrange / Hermite table and Gauss-point getter of every group, beam groups included, has one row per function",
    "C07_Q": M1 + " (rules selected by point count were checked on the Gauss objects only, the element groups integrated with the factory rules); every offered rule through Integrate_e(f, nPg) / Get_weightedJacobian_e_pg(nPg) on box meshes",
    "C08_P": M1 + " (no query used displacementMatrix); Gauss coordinates / normals / nodal normals on a deformed configuration for every group, then coordinates, measure, closure and flux of the reference configuration again",
    "C08_Q": M1 + " (out-of-plane meshes were obtained by moving a mesh of the (x, y) plane: rounding leaves an extent in every direction); meshes and bars built directly in the xz / yz / zx planes from permuted coordinate tables",
    "C09_P": N1 + " (pinned statement of __Bc_Integration_Dim; no load was added after a move on a simulation that had integrated before); [load, Translate / Rotate, load given as a function of position] on one simulation",
    "C09_Q": M1 + " (no load on a merged mesh); surface load with resultant and moment on the common boundary of two merged blocks, 2D and 3D",
    "C10_Q": M1 + " (moved members were rebuilt from moved coordinates); Line / Domain / Circle / Points moved with their own Translate / Rotate / Symmetry, in place and as a copy, against Rodrigues / Householder, and a cantilever built on the moved line",
    "C11_P": N1 + " (the translator refused the new try / except; no scenario read the Walpole decomposition first after a change); Walpole_Decomposition / C as the first read after a parameter was doubled, against a new law",
    "C11_Q": M1 + " (parameters were always re-assigned); `x = material.E; x[1] *= 0.1`: C and S against the law of the parameters the material reports afterwards, three law classes",
    "C13_Q": M1 + " (caught by the neighbouring check C12: 'constant on the left of a matrix product'); the grammar gained the strain written in a rotated frame, (Q e(u) Q') : (W o (Q e(v) Q')), with a plain rotation matrix Q",
    "C14_P": M1 + " (the law-change scenario used the Amor split only); every split family (Amor, He, Zhang, Miehe; all in the thorough tier) with changes of E, v, planeStress on a damaged state, both staggered systems against a fresh simulation",
    "C14_Q": M1 + " (no copied / reloaded simulation was modified afterwards); copy.deepcopy and Save + Load_Simu of an elastic / thermal simulation, then a parameter of ITS model and the coordinates of ITS mesh are changed: K against fresh simulations",
    "C16_P": M1 + " (HyperElastic names were only checked for the kinematic components; a strain component and its tensor share the helper); uniform deformation gradient with Saint Venant-Kirchhoff: every strain / stress name, tensor column and "
             "equivalent value against E = (F'F - I)/2 and S = lambda tr(E) I + 2 mu E",
    "C16_Q": M1 + " (Wdef was compared with 1/2 u'Ku right after a solve); Wdef against 1/2 u'Ku after material.thickness and material.E are assigned on the existing objects, Elastic and PhaseField",
    "C17_P": M1 + " (results were read after Save_Iter, on QUAD4 where both rules have 4 points); Result('psiP' / 'Stress' / 'Wdef' / 'damage') between Solve and Save_Iter, on TRI3 (TRI6, QUAD8 in the thorough tier)",
    "C17_Q": M1 + " (no anisotropic law given by its matrix); Anisotropic laws whose stiffness is replaced by Set_C (with and, for He, without the compliance) or the C setter, all splits that accept them",
    "C18_Q": M1 + " (caught by the neighbouring check C05: update rule and equation of motion of 'midpoint'); free-motion runs pass beta = 0.3025, gamma = 0.6 along with algo = midpoint",
    "C19_Q": M1 + " (no behaviour on a law whose stiffness changes after construction); VonMises + linear hardening on an Anisotropic law replaced by Set_C / update_S=False / the C setter: elastic below yield, default solver = Newton solver beyond",
    "C20_P": M1 + " (a new simulation was built for every part); one Elastic simulation walked over the parts of strips with equal-sized parts (simu.mesh = part): K on the owned rows against the global K",
    "C20_Q": M1 + " (homogeneous media on the parts); Thermal on strips with a conductivity / capacity per element handed to each part as field[groupElem._globalElements], parts of 4 QUAD4 / 3 or 6 TRI6 elements (Ne = nPg)",
}

only = set(a for a in sys.argv[1:] if not a.startswith("--"))
for seed, prop, breaks, needs in ROWS:
    if only and seed not in only:
        continue
    how = HOW.get(seed, "")
    rep = reported(seed, prop) or "VIOLATION (see check log)"
    det = {prop: (how + " -> " + rep) if how else rep}
    if seed == "C05_Q":
        det["C18"] = reported(seed, "C18") or "VIOLATION (see check log)"
    if seed == "C13_Q":
        det["C12"] = reported(seed, "C12") or "VIOLATION (see check log)"
    if seed == "C18_Q":
        det["C05"] = reported(seed, "C05") or "VIOLATION (see check log)"
    subprocess.check_call([sys.executable, "/verif/tools/seed/write_meta.py", seed, prop, breaks, needs, json.dumps(det)])
    m = json.load(open(f"/verif/seeded/{seed}/meta.json"))
    m["source"] = ("fresh sub-agent (round 8: base prompt plus tools/seed/round8_guidance.txt - change A two cooperating sites, change B a lower layer) working in its own scratch worktree "
                   "of /repo, given only the property text")
    m["ran"] = [f"tools/seed/confirm.sh {seed}  (demo without/with the patch in a scratch worktree; full pytest -n 8 with the patch)",
                f"tools/seed/try_seed_wt.sh <scratch worktree of /repo> {seed} {prop}  (patch applied to the worktree, VERIF_REPO=<worktree> ./check {prop}, patch removed)"]
    json.dump(m, open(f"/verif/seeded/{seed}/meta.json", "w"), indent=1)
    print("meta", seed)
