"""Round-5 seeded changes (sub-agents were given tools/seed/round5_guidance.txt on top of the base prompt: start from the
property's quantifier and break it only in a clause that is easy to forget): writes seeded/<id>/meta.json through
write_meta.py. The key of the failing input is read from the REPORTED lines try_seed.sh leaves in seeded/<id>/check_<prop>.log.
HOW[seed] holds the 'missed at first' story of the seeds that led to a stronger check."""
import json
import subprocess
import sys

sys.path.insert(0, "/verif/tools/seed")
from metas_round4 import reported  # noqa: E402

M1 = "missed at first"
ROWS = [
    ("C01_I", "C01", "3D Timoshenko B: the two shear rows are filled by one loop with the 2D pattern (w' - ry instead of w' + ry) (same idea as C02_C / C02_E)",
     "3D Timoshenko beams with a curvature about the local y axis"),
    ("C01_J", "C01", "Thermal: the thickness scaling of K_e / C_e is moved out of the loop over element groups: only the last group is scaled",
     "heat conduction on a mesh mixing element types with thickness != 1"),
    ("C02_I", "C02", "Timoshenko shear rows written by one helper (+dN on the displacement, -N on the rotation): wrong sign for the w / ry plane in 3D (same idea as C01_I)",
     "3D Timoshenko beams: rigid rotations with a component along the local y axis"),
    ("C02_J", "C02", "the length scaling the rotation Hermite functions is taken as 2 / invF: negative when the Jacobian is negative", "Euler-Bernoulli members lying on the x-axis and described towards -x"),
    ("C03_I", "C03", "__Assemble_csr flattens each element array through a helper that reads the swapaxes(1, 2) view when that one is contiguous: element matrices come out transposed",
     "non-symmetric element matrices in the memory layout einsum returns (a user subclass calling LinearizedElasticity with a non-symmetric tangent)"),
    ("C03_J", "C03", "__Get_csr_map fills preallocated rows / cols with block starts [0, *sizes[:-1]] (cumulative sum missing)", "three or more groups feeding one slot (three 3D element types, or a single-type mesh plus two boundary groups of a user subclass)"),
    ("C04_I", "C04", "_Solve_Axb keeps the direct-solver fallback for Lagrange systems only for petsc / pypardiso: Krylov backends get the bordered system", "a beam structure with connections and simu.solver set to cg / bicg / gmres / lgmres"),
    ("C04_J", "C04", "the Newton loop accepts the iterate before applying the increment when the first residual is below absTol", "a Newton-incremental solve with forces below 1e-6 in absolute value (small samples in SI units)"),
    ("C05_I", "C05", "the system matrix coefK K + coefC C + coefM M is kept per algorithm and not dropped by Solver_Set_Parabolic_Algorithm", "a theta-scheme run whose dt or theta changes between two steps"),
    ("C05_J", "C05", "midpoint is dispatched to the hht tables, which read the stored beta / gamma / alpha (same idea as C05_E)", "AlgoType.midpoint with non-default beta, gamma or alpha"),
    ("C06_I", "C06", "TRI15._ddddN rewritten as a comprehension of lambdas binding the loop variables late (same idea as C06_E)", "fourth derivatives of TRI15"),
    ("C06_J", "C06", "EULER_BERNOULLI5._Hermitian_dddN: exact fractions replace the rounded coefficients, the r^5 term of dddN3 gets the wrong sign", "third-derivative Hermite table of the 5-node Euler-Bernoulli beam"),
    ("C07_I", "C07", "Gauss_factory selects the 7-point triangle rule for (TRI15, rigi)", "stiffness integrals of TRI15: degree-6 integrands, rank of the stiffness of few elements"),
    ("C07_J", "C07", "_Prism(21) rebuilt as a tensor product with np.tile where np.repeat was needed for the axial coordinate", "the 21-point prism rule: monomials of degree >= 2 involving the prism axis"),
    ("C08_I", "C08", "PRISM18.faces: the second quadrangular face is listed in the reverse orientation", "boundary reconstructed from the face tables of PRISM18 meshes (faces coming from local face 1)"),
    ("C08_J", "C08", "the cost function of the iterative inverse map reads the global element coordinates instead of those projected into the element frame",
     "general quadrangles (QUAD4 / QUAD8 / QUAD9) moved out of the plane z = 0"),
    ("C09_I", "C09", "a _thickness helper follows model.material / model.elastic: for InElastic it returns the thickness of the nested 3D elastic law (1.0)",
     "surface / volume / pressure loads on a 2D InElastic simulation with thickness != 1"),
    ("C09_J", "C09", "__Bc_Integration_Dim offers to each boundary group only the nodes the previous groups did not use", "prism meshes: a selection spanning a quadrangle face and an adjacent triangle face"),
    ("C10_I", "C10", "BeamMass builds N without the projection on the beam frame ('the mass is isotropic')", "Euler-Bernoulli members that are not axis-aligned, dynamic step"),
    ("C10_J", "C10", "a shared helper for sym(T1 x T2) swaps the yz and xz slots: I4, I6, I8 and their derivatives are consistently wrong (same idea as C10_F / C18_E)",
     "3D HolzapfelOgden with fibres having both a z and an in-plane component"),
    ("C11_I", "C11", "the parameter setter skips Need_Update when the assigned value equals the stored one; arrays are stored by reference (same idea as C14_H)",
     "a parameter field edited in place by its owner and assigned again"),
    ("C11_J", "C11", "plane stress computed as the Schur complement on zz only of the rotated 3D stiffness (keeps E_yz = E_xz = 0 instead of S_yz = S_xz = 0)",
     "TransverselyIsotropic / Orthotropic in 2D plane stress with material axes tilted out of the (x, y) plane"),
    ("C12_I", "C12", "_KeepsFeAxes takes the tensor rank; the __array_function__ call site still passes ndim", "np.sum / np.mean(..., axis=-2) through the function form on shapes where the result looks like (Ne, nPg)"),
    ("C13_I", "C13", "LinearForm.Integrate_e builds its node table with np.tile instead of np.repeat", "a LinearForm on a vector field with a position-dependent load or quadratic elements"),
    ("C13_J", "C13", "WeakForms integrates each distinct form once and scales in place: a form given for two terms is scaled by thickness twice",
     "the same BiLinearForm passed for two terms (mass-proportional damping) with thickness != 1"),
    ("C14_I", "C14", "PhaseField._Update: a notification from the phase-field model itself only invalidates the damage problem", "phaseFieldModel.split changed on a damaged state, displacement system read before the next solve"),
    ("C14_J", "C14", "_Simu.__init__ removes the simulations already observing the model before subscribing", "a model shared by several live simulations: all but the newest stop following it"),
    ("C15_J", "C15", "Mesh.Save writes the element groups dimension by dimension through Get_list_groupElem, which reverses the order of same-dimension groups",
     "meshes with two groups of the main dimension: Mesh.Save / Load_Mesh, or a simulation Save followed by Set_Iter"),
    ("C16_I", "C16", "Elastic._Calc_Psi_Elas integrates with MatrixType.mass by default (same idea as C16_D)", "Wdef on element types whose rigi rule under-integrates (QUAD8, PRISM15)"),
    ("C16_J", "C16", "Calc_Reaction filters the requested dofs with the dofs of the default problem type", "reactions of the displacement problem of a PhaseField simulation on dofs >= Nn"),
    ("C17_I", "C17", "3D spectral projector: the cross-term coefficients are computed for the pairs (1,2), (2,3), (1,3) while the stacks expect (1,2), (1,3), (2,3)",
     "3D strain states with principal values of mixed sign: cP of Miehe, sigma+ of the AnisotStrain splits"),
    ("C17_J", "C17", "HistoryDamage: np.maximum against the damage at the start of the last staggered iteration (same idea as C17_H)", "several staggered iterations per step with unloading"),
    ("C18_I", "C18", "KelvinVoigtDamping: thickness folded into the weights, the geometric tangent is not scaled", "Kelvin-Voigt operator on a 2D model with thickness != 1"),
    ("C18_J", "C18", "PenaltyContact: the tangent drops the per-Gauss-point active-set indicator ('the elements are already the contact set')", "elements only partly in contact (gap of mixed sign over their Gauss points)"),
    ("C19_I", "C19", "__Condense uses the zz column twice (assumes a symmetric tangent) (same idea as C19_B)", "plane stress with Armstrong-Frederick / Chaboche kinematic hardening, second step of a path"),
    ("C19_J", "C19", "InElastic.Set_Iter restores the state only `if state:` - an empty dict (iteration saved before the first solve) is skipped (same idea as C15_E)",
     "Save_Iter before the first Solve, later a roll-back to that iteration"),
    ("C20_I", "C20", "Mesh.Merge deduplicates with a one-pass relabelling instead of connected components (same idea as C20_D)", "three or more meshes sharing a node"),
]

HOW = {
    "C01_I": M1 + " (beam patch tests were 2D only); 3D members with constant axial strain, twist rate and curvature about each section axis added, both theories, every SEG type",
    "C01_J": M1 + " (the Dirichlet nodes of a merged mesh were taken from ALL lower-dimensional groups, which include the former boundaries of the parts: the interface nodes, where the two thickness factors meet, "
             "were constrained); the patch tests now constrain the outer boundary only (lower-dimensional elements that are a face of exactly one main element), and heat conduction on meshes mixing element types with thickness != 1 was added",
    "C03_I": M1 + " (prescribed element arrays were always C-contiguous); they now come in the memory layouts element operators produce (C order, Fortran order, the transposed-contiguous layout of einsum outputs, strided views)",
    "C04_I": M1 + " (the multiplier path was only solved with the default solver); the beam joint is now solved with every installed backend selected by the user",
    "C04_J": M1 + " (prescribed values and moduli were of order one); Newton-incremental solves with forces far below the absolute tolerance of the Newton loop added",
    "C09_J": M1 + " (selections covered one planar face at a time); selections spanning the top cap and an adjacent side face added (prism, hexahedron and tetrahedron meshes; constant and position-dependent loads; resultant and moment)",
    "C10_I": M1 + " (beam problems were static); one Newmark step of an inclined member added in 2D and 3D, both theories",
    "C11_J": M1 + " (2D laws were reduced with material axes in the plane); 2D plane-stress / plane-strain laws with material axes tilted out of the (x, y) plane are now compared with the reduction of the rotated 3D law",
    "C14_I": M1 + " (the phase-field scenarios started from the state left by one staggered pass, where d = 0 and every split gives the same displacement system); they now carry a damaged band",
    "C16_J": M1 + " (reactions were only computed on Elastic simulations); reactions of the displacement problem of PhaseField and of Thermal added on coarse meshes (constrained dofs beyond Nn)",
    "C17_I": M1 + " (the projector was only checked through its action on the strain, where the cross terms cancel, and through cP + cM = C); the whole positive projector is now compared with the derivative of the positive part "
             "(central differences of numpy's eigen-decomposition) away from repeated principal values",
    "C18_I": M1 + " (2D laws had thickness 1 in the operator checks); 2D laws now carry thickness 0.375 / 2.5",
}

only = set(a for a in sys.argv[1:] if not a.startswith("--"))
for seed, prop, breaks, needs in ROWS:
    if only and seed not in only:
        continue
    how = HOW.get(seed, "")
    rep = reported(seed, prop) or "VIOLATION (see check log)"
    det = {prop: (how + " -> " + rep) if how else rep}
    subprocess.check_call([sys.executable, "/verif/tools/seed/write_meta.py", seed, prop, breaks, needs, json.dumps(det)])
    m = json.load(open(f"/verif/seeded/{seed}/meta.json"))
    m["source"] = ("fresh sub-agent (round 5: base prompt plus tools/seed/round5_guidance.txt) working in its own scratch worktree of /repo, "
                   "given only the property text")
    json.dump(m, open(f"/verif/seeded/{seed}/meta.json", "w"), indent=1)
    print("meta", seed)
