"""Round-6 seeded changes (sub-agents were given tools/seed/round6_guidance.txt on top of the base prompt: what a check made
of small meshes, random order-one data and single-shot objects cannot see - scale, identity / aliasing / sharing, numeric
regimes, two features at once, second use): writes seeded/<id>/meta.json through write_meta.py. ROWS comes from
metas_round6_rows.py; the key of the failing input is read from the REPORTED lines left in seeded/<id>/check_<prop>.log.
HOW[seed] holds the 'missed at first' story of the seeds that led to a stronger check."""
import json
import subprocess
import sys

sys.path.insert(0, "/verif/tools/seed")
from metas_round4 import reported  # noqa: E402
from metas_round6_rows import ROWS  # noqa: E402

M1 = "missed at first"
HOW = {
    "C01_K": M1 + " (every patch-test mesh had a few hundred dofs); the patch test now also runs on a QUAD4 mesh with more than 46341 dofs (row x Ndof + column exceeds 32 bits)",
    "C01_L": M1 + " (every mesh had coordinates of order one); the patch test now also runs on the same meshes expressed in another length unit (coordinates x 2^-21 in 2D, x 2^-15 in 3D: Jacobian determinants of 1e-13), "
             "with displacement gradients scaled so that the prescribed field stays of order one",
    "C02_K": M1 + " (dense eigen-analyses bound the mesh size); sparse identities (symmetry, positive diagonal, rigid / constant modes in the kernel, total mass, x'Ky = y'Kx) on a thermal QUAD4 and an elastic TRI3 mesh with more than 46341 dofs added",
    "C02_L": M1 + " (every mesh object was used by one study); history [study on mesh A, A.copy() rotated and stretched, study on the copy, new study on A] added: kernel and total mass of both against their own coordinates",
    "C03_L": M1 + " (prescribed element arrays were order-one integers, physical scenarios used E = 1, rho = 1 on unit meshes); element arrays scaled by powers of two from 2^-70 to 2^70 slot by slot over seven consecutive assemblies of "
             "one simulation, and steel / thermal plates of side 1e-8 to 1e4 m in SI units, compared slot by slot with the dense scatter-add",
    "C05_K": M1 + " (boundary conditions were set once per sequence and the scheme was redrawn at every step); runs of three steps with a fixed scheme whose Dirichlet support moves to another edge of the same size between steps added "
             "(update relations, equation of motion on the free dofs, prescribed values)",
    "C05_L": M1 + " (one simulation was configured and stepped at a time); three simulations on one mesh and one model, configured before any is stepped, the first two with the same algorithm and different parameters, stepped round-robin, "
             "each checked against the scheme with ITS parameters",
    "C08_K": M1 + " (every mesh had coordinates of order one); each mesh is re-expressed in other length units (x 1e3 ... 1e-9): measures, centres, boundary measure, closure and flux scale by the exact power, normals stay unit and "
             "identical, located points evaluate a linear field exactly (this also exposed the defect repaired by 82ef724)",
    "C09_K": M1 + " (every load value was a fresh object used once); 'intensities owned by the caller': one and the same array / callable given for every component and used again in a second load case, compared with closed forms and "
             "with fresh-copy references; the caller's array must be unchanged",
    "C11_K": M1 + " (moduli were drawn between 1 and 20); every law is also built with all moduli multiplied by 1e-9 ... 1e11 (C scales, S scales inversely, C S = I, S positive definite), and Apply_Pmat is compared with P M P' for "
             "matrices of magnitude 1e-12 ... 1e11",
    "C14_L": M1 + " (every mesh was the 2 x 1 plate at the origin moved by order-one amounts); 'units and position': the plate scaled by 1e-9 ... 1e5 or placed at geo-referenced offsets, [read + solve, one public motion (rotation by 10 or 0.01 "
             "degrees, reflection, stretch, shear, nudge of 1e-4 of its size), read + solve] compared with a new mesh object built from the final coordinates",
    "C15_K": "at first only the translator refused (the pinned statement of Mesh.Save had changed) and no failing input was found; large merged meshes (more than 2^16 nodes, boundary groups using few nodes with the largest ids) now go through "
             "Mesh.Save / Load_Mesh and through a saved history",
    "C15_L": M1 + " (every history was saved into fresh folders); 'a save folder used again': two studies saved one after the other into the same folder, every iteration of the loaded simulation compared with the copies taken at Save_Iter "
             "of the second study; the legitimate checkpoint use (same simulation saved again after new steps) is checked too",
    "C16_K": "at first only the pinned theorem svm2_is_plane_von_mises stopped checking and no failing input was found (the two expressions agree to 1e-16 on order-one random states); nearly spherical states (dilation plus 0 / 1e-7 / 1e-6 of "
             "noise, E = 210e9, body at the origin or 1000 away) and a cube under pressure on sliding supports added: Svm / Evm finite and equal to the difference form to 1e-11 of the component size",
    "C16_L": M1 + " (scenarios only read the matrices they were handed); a caller now modifies the handed-out K, C, M, F in place (twice): Wdef, reactions and the matrices handed out next must be those of the untouched simulation "
             "(Elastic static / dynamic, Thermal, PhaseField, Beam)",
    "C17_K": M1 + " (strain arrays had about 18 elements); fields of 1 ... 65537 elements with an independent principal frame per point: sigma+ / psi+ of Miehe, Zhang, He against a batched eigh positive part at every element, the other "
             "splits against the same points evaluated in permuted order in batches",
    "C12_K": "at first only the translator refused (a helper of an unknown name appeared in Inv) and no failing input was found; integer matrices with |det| >= 1 whose entries are multiplied by a unit factor 1e-8 ... 1e6, as FeArray and as "
             "plain arrays: Det, Inv, Trace against per-point numpy loops, A @ Inv(A) against the identity, errors relative to the largest expected entry",
    "C12_L": M1 + " (the harness never used Field objects as operands); Field operands (scalar and vector) in every binary form, on a new Field, on the same Field after the caller worked in place on the arrays it was handed, with other "
             "active nodes, and on a Field built later on the same group; Interpolate twice; forms whose integrand scales u() in place, against dense loops",
    "C18_K": M1 + " (Save_Iter followed every Solve); the same free motion is run saving every step, every k-th step and never: kinetic + stored energy conserved in each, final displacement independent of which steps were saved",
    "C18_L": M1 + " (one random element of meshes of a few elements was differentiated); meshes of 4000 to 9000 elements (QUAD4, TRI3, HEXA8): K_e du_e against the central difference of R_e on ALL elements at once, for the three stress "
             "operators and Kelvin-Voigt damping",
    "C07_K": M1 + " (the check only read the tables); 'caller writes': the arrays a Gauss object (or Get_weight_pg / Get_gauss of a mesh) hands out are modified in place the way user code would (weights x thickness, points shifted), "
             "then a new Gauss object must be bitwise the rule checked before, and a second mesh must give the closed-form measure, first moments and centroid",
    "C07_L": M1 + " (symmetric boxes of size one: the mean of the nodes is the centroid and the measure never gets small); an unstructured L-shaped plate and its extrusion re-expressed in other length units (x 1e3 ... 1e-9): measure, "
             "first moments and mesh.center / groupElem.center scale by the exact power",
    "C04_K": M1 + " (Newton scenarios always entered two conditions and nothing looked at the entered data after a solve); the same affine data entered as one condition (functions or arrays), one per edge, one per unknown, for Elastic, "
             "Thermal and HyperElastic: Bc_vector_Dirichlet unchanged by the solve, a second Solve reproduces the first, every grouping gives the same solution",
    "C04_L": M1 + " (the damage scenario did one step from an undamaged state, where the bounds are inactive); load / unload histories of a phase-field plate with BoundConstrain and HistoryDamage: damage between the previous damage and 1 "
             "at every step, and equal to an independent scipy lsq_linear solve of the damage system assembled before the step",
    "C06_K": M1 + " (the table evaluator was only reached at float Gauss points); _Eval_Functions on every table at the reference nodes as Get_Local_Coords returns them (often integers), at integer lattice points, at batches of dyadic "
             "float points (C and Fortran order) and at a single point, against scalar calls of the tabulated callables and the closed forms",
    "C06_L": M1 + " (no returned array was ever written to); the caller shifts the array returned by Get_Local_Coords in place and overwrites entries of returned tables, then the property is checked on the same group asked again and on a "
             "second group of the same type",
    "C10_K": "at first only the translator refused (the pinned statement of _Get_fiber_sign_e_pg) and no failing input was found (every beam case was a single member); a straight run of two collinear members described towards each other, on "
             "the x-axis and turned by a generic rotation, both theories, 2D / 3D",
    "C10_L": M1 + " (one mover call per problem, no load depending on the normals); problems moved by SEQUENCES of the library's movers (reflection + reflection, rotation + translation, ...), pressure loads and traction vectors: moved solution "
             "against the solution moved by the composed map (this also exposed the known finding on pressure loads after an odd number of reflections)",
    "C10_M": M1 + " (rotation angles were generic and the material axes tilted); half turns, quarter turns and coordinate mirrors of problems whose anisotropic / orthotropic law is given in the global axes (the moved axes lie along the global "
             "axes again, possibly reversed)",
    "C13_K": "at first only the pinned statement v = field.copy() disappeared and no failing input was found (a fresh mesh and Field per case); the same Field and form objects are integrated again after the mesh moved in place three times "
             "(stretch + shear, Rotate, Translate) against the saved basis tables transported by the fitted affine map; WeakForms and dedicated simulations solved again after a move",
    "C13_L": "at first only a pinned statement of Assemble disappeared and no failing input was found (a few dozen nodes); Assemble on meshes with about 80000 unknowns (scalar TRI3, vector QUAD4) against a scipy COO scatter-add of the "
             "built-in element matrices with int64 indices derived from the connectivity",
    "C20_K": M1 + " (30 to 100 elements per mesh: a rank owns a handful of nodes); meshes of a few thousand elements split in 48 to 64 parts: ghosts of every rank against dense owner arrays, one owner per element and node, part-level ghost "
             "layer and owned rows of K of three random parts",
    "C20_L": M1 + " (every merge input lived in one plane or was a true 3D mesh); Mesh.Merge of a plate with rigidly moved copies of itself (translated along z, stacked, turned about a shared edge): the mapping keeps coordinates, only "
             "coincident nodes are merged, element counts and area kept",
}

only = set(a for a in sys.argv[1:] if not a.startswith("--"))
for seed, prop, breaks, needs in ROWS:
    if only and seed not in only:
        continue
    how = HOW.get(seed, "")
    rep = reported(seed, prop) or "VIOLATION (see check log)"
    det = {prop: (how + " -> " + rep) if how else rep}
    subprocess.check_call([sys.executable, "/verif/tools/seed/write_meta.py", seed, prop, breaks, needs, json.dumps(det)])
    m = json.load(open(f"/verif/seeded/{seed}/meta.json"))
    m["source"] = ("fresh sub-agent (round 6: base prompt plus tools/seed/round6_guidance.txt) working in its own scratch worktree of /repo, "
                   "given only the property text")
    json.dump(m, open(f"/verif/seeded/{seed}/meta.json", "w"), indent=1)
    print("meta", seed)
