#!/bin/sh
# like tools/seed/try_seed.sh but on a scratch worktree: try_seed_wt.sh <worktree> <seed> <Cxx>
W=$1; S=/verif/seeded/$2
git -C $W apply $S/patch.diff || { echo "seed $2 check $3: NOAPPLY"; exit 2; }
cd /verif
VERIF_REPO=$W ./check $3 --tier quick > $S/check_$3.log 2>&1; rc=$?
git -C $W checkout -- .
/venv/bin/python - $S/check_$3.log >> $S/check_$3.log <<'PY'
import json, re, sys
seen = []
for m in re.finditer(r"VIOLATION property=\S+ replay=(\S+)(.*)", open(sys.argv[1]).read()):
    try:
        r = json.load(open(m.group(1)))
    except Exception:
        continue
    f = r.get("failure") or {}
    key = (f.get("key") if isinstance(f, dict) else str(f)) or ""
    line = f"REPORTED kind={r.get('kind')} key={key!r} broken={r.get('broken')}{' no-failing-input-found' if 'no-failing-input-found' in m.group(2) else ''}"
    if line not in seen:
        seen.append(line)
for l in seen[:4]:
    print(l[:600])
PY
echo "seed $2 check $3: rc=$rc"
