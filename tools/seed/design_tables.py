"""Regenerates the tables of DESIGN.md sections 11 and 12 from known_findings.txt and seeded/*/meta.json
(between the <!-- BEGIN x --> / <!-- END x --> markers)."""
import glob
import json
import os
import re

ROOT = "/verif"


def findings():
    fixed, known = [], []
    for line in open(os.path.join(ROOT, "known_findings.txt"), encoding="utf-8"):
        m = re.match(r"fixed: property=(C\d+) (\w+) (.*)", line.strip())
        if m:
            fixed.append(m.groups())
        m = re.match(r'known: property=(C\d+) key="([^"]*)" (.*)', line.strip())
        if m:
            known.append(m.groups())
    return fixed, known


def esc(s):
    return s.replace("|", "\\|").replace("\n", " ")


def seeds():
    rows = []
    for d in sorted(glob.glob(os.path.join(ROOT, "seeded", "C*_*"))):
        mp = os.path.join(d, "meta.json")
        if not os.path.exists(mp):
            continue
        m = json.load(open(mp, encoding="utf-8"))
        caught = "; ".join(f"**{k}**: {v}" for k, v in m.get("detected_by", {}).items())
        if m.get("status") == "neutralised":
            caught += " — **no longer breaks the property**: " + m["neutralised_by"]
        rows.append((os.path.basename(d), m["breaks"], caught))
    return rows


def main():
    fixed, known = findings()
    blocks = {
        "fixed-table": "| prop | commit | what failed |\n|---|---|---|\n" + "\n".join(f"| {p} | `{c}` | {esc(w)} |" for p, c, w in fixed),
        "known-table": "| prop | key | what fails, and why it is not repaired |\n|---|---|---|\n" + "\n".join(f"| {p} | `{esc(k)}` | {esc(w)} |" for p, k, w in known),
        "seed-table": "| seed | the change | caught by |\n|---|---|---|\n" + "\n".join(f"| {s} | {esc(b)} | {esc(c)} |" for s, b, c in seeds()),
    }
    p = os.path.join(ROOT, "DESIGN.md")
    txt = open(p, encoding="utf-8").read()
    for name, body in blocks.items():
        pat = re.compile(rf"(<!-- BEGIN {name} -->\n).*?(\n<!-- END {name} -->)", re.S)
        if not pat.search(txt):
            raise SystemExit(f"marker {name} missing in DESIGN.md")
        txt = pat.sub(lambda m: m.group(1) + body + m.group(2), txt)
    open(p, "w", encoding="utf-8").write(txt)
    print(len(fixed), "fixed,", len(known), "known,", len(seeds()), "seeds")


if __name__ == "__main__":
    main()
