#!/bin/sh
# all seeds (or those matching the regular expression $ONLY), six lanes of properties, each lane on its own scratch worktree of /repo's HEAD; log in $LOG
lane() {
  i=$1; shift
  W=/tmp/wt/lane_$i
  git -C /repo worktree add -q --detach $W HEAD || return
  for P in "$@"; do
    for d in $(ls /verif/seeded | grep "^${P}_" | grep -E "${ONLY:-.}"); do
      sh /verif/tools/seed/try_seed_wt.sh $W $d $P | tail -1 >> ${LOG:-/verif/out/regress_lanes.log}
    done
  done
  git -C /repo worktree remove --force $W
}
: > ${LOG:-/verif/out/regress_lanes.log}
lane 1 C01 C06 C07 C13 &
lane 2 C08 C10 C11 &
lane 3 C02 C03 C12 C20 &
lane 4 C04 C05 C09 C16 &
lane 5 C14 C15 C17 &
lane 6 C18 C19 &
wait
echo done >> ${LOG:-/verif/out/regress_lanes.log}
