"""Writes seeded/<id>/meta.json from the confirmation logs.  usage: write_meta.py <seed> <property> <breaks> <needs> <detected_by_json>"""
import json, os, sys
seed, prop, breaks, needs, det = sys.argv[1:6]
d = f"/verif/seeded/{seed}"
conf = open(os.path.join(d, "confirm.log")).read().strip().splitlines() if os.path.exists(os.path.join(d, "confirm.log")) else []
meta = dict(property=prop, breaks=breaks, needs_to_manifest=needs,
            source="fresh sub-agent working in its own scratch worktree of /repo, given only the property text",
            confirmed=conf, ran=[f"tools/seed/confirm.sh {seed}  (demo without/with the patch in a scratch worktree; full pytest -n 8 with the patch)",
                                 f"tools/seed/try_seed.sh {seed} {prop}  (patch applied to /repo, ./check {prop}, patch removed)"],
            detected_by=json.loads(det))
json.dump(meta, open(os.path.join(d, "meta.json"), "w"), indent=1)
