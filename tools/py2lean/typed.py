"""Typed symbolic expressions for module formulas (time schemes): scalars S, vectors V,
linear maps L.  Emitted as Lean terms over a field 𝕜, a 𝕜-module V and V →ₗ[𝕜] V."""

from __future__ import annotations

from fractions import Fraction

from .interp import Refuse, Sym


class TE:
    __slots__ = ("kind", "t")

    def __init__(self, kind, t):
        assert kind in ("S", "V", "L")
        self.kind = kind
        self.t = t

    def __repr__(self):
        return f"TE[{self.kind}]({lean(self)})"


def name(kind, n):
    return TE(kind, ("name", n))


def lift(x, want=None):
    if isinstance(x, TE):
        return x
    if isinstance(x, Sym):
        if x.is_q:
            return TE("S", ("q", x.qv))
        if x.t[0] == "sqrt" and x.t[1].is_q and x.t[1].qv == 2:
            return TE("S", ("name", "r2"))
        raise Refuse("untyped symbolic scalar in a typed formula")
    if isinstance(x, (int, Fraction)) and not isinstance(x, bool):
        return TE("S", ("q", Fraction(x)))
    raise Refuse(f"cannot use {x!r} in a typed formula")


def is_zero_q(x: TE):
    return x.kind == "S" and x.t[0] == "q" and x.t[1] == 0


def add(a, b, op="add"):
    a, b = lift(a), lift(b)
    if a.kind != b.kind:
        raise Refuse(f"{op} of {a.kind} and {b.kind}")
    if a.kind == "S" and a.t[0] == "q" and b.t[0] == "q":
        return TE("S", ("q", a.t[1] + b.t[1] if op == "add" else a.t[1] - b.t[1]))
    return TE(a.kind, (op, a, b))


def mul(a, b):
    a, b = lift(a), lift(b)
    if a.kind == "S" and b.kind == "S":
        if a.t[0] == "q" and b.t[0] == "q":
            return TE("S", ("q", a.t[1] * b.t[1]))
        if is_zero_q(a) or is_zero_q(b):
            return TE("S", ("q", Fraction(0)))
        if a.t[0] == "q" and a.t[1] == 1:
            return b
        if b.t[0] == "q" and b.t[1] == 1:
            return a
        return TE("S", ("mul", a, b))
    if a.kind == "S":
        return TE(b.kind, ("smul", a, b))
    if b.kind == "S":
        return TE(a.kind, ("smul", b, a))
    raise Refuse(f"product of {a.kind} and {b.kind}")


def div(a, b):
    a, b = lift(a), lift(b)
    if b.kind != "S":
        raise Refuse("division by a non-scalar")
    if a.kind == "S":
        if a.t[0] == "q" and b.t[0] == "q":
            if b.t[1] == 0:
                raise Refuse("division by literal zero")
            return TE("S", ("q", a.t[1] / b.t[1]))
        return TE("S", ("div", a, b))
    return TE(a.kind, ("smul", TE("S", ("inv", b)), a))


def neg(a):
    a = lift(a)
    if a.kind == "S" and a.t[0] == "q":
        return TE("S", ("q", -a.t[1]))
    return TE(a.kind, ("neg", a))


def power(a, n):
    a, n = lift(a), lift(n)
    if a.kind != "S" or n.kind != "S" or n.t[0] != "q" or n.t[1].denominator != 1 or n.t[1] < 0:
        raise Refuse("unsupported power in a typed formula")
    if a.t[0] == "q":
        return TE("S", ("q", a.t[1] ** int(n.t[1])))
    return TE("S", ("pow", a, int(n.t[1])))


def apply(a, b):
    a, b = lift(a), lift(b)
    if a.kind == "L" and b.kind == "V":
        return TE("V", ("app", a, b))
    raise Refuse(f"@ of {a.kind} and {b.kind}")


def lean(x: TE) -> str:
    k = x.t[0]
    if k == "name":
        return x.t[1]
    if k == "q":
        q = x.t[1]
        if q.denominator == 1:
            return f"({q.numerator} : 𝕜)" if q >= 0 else f"(-{-q.numerator} : 𝕜)"
        return f"(({q.numerator} : 𝕜) / {q.denominator})"
    if k == "add":
        return f"({lean(x.t[1])} + {lean(x.t[2])})"
    if k == "sub":
        return f"({lean(x.t[1])} - {lean(x.t[2])})"
    if k == "mul":
        return f"({lean(x.t[1])} * {lean(x.t[2])})"
    if k == "div":
        return f"({lean(x.t[1])} / {lean(x.t[2])})"
    if k == "inv":
        return f"({lean(x.t[1])})⁻¹"
    if k == "neg":
        return f"(-{lean(x.t[1])})"
    if k == "pow":
        return f"({lean(x.t[1])} ^ {x.t[2]})"
    if k == "smul":
        return f"({lean(x.t[1])} • {lean(x.t[2])})"
    if k == "app":
        return f"({lean(x.t[1])} {lean(x.t[2])})"
    raise Refuse("cannot emit " + k)


def eval_num(x: TE, env: dict):
    """Exact evaluation with Fractions (scalars) and numpy-free vectors (lists) / matrices
    (lists of rows); used by the driver-independent search and by the translator self-test."""
    k = x.t[0]
    if k == "name":
        return env[x.t[1]]
    if k == "q":
        return x.t[1]
    if k in ("add", "sub"):
        a, b = eval_num(x.t[1], env), eval_num(x.t[2], env)
        s = 1 if k == "add" else -1
        if x.kind == "S":
            return a + s * b
        if x.kind == "V":
            return [p + s * q for p, q in zip(a, b)]
        return [[p + s * q for p, q in zip(r1, r2)] for r1, r2 in zip(a, b)]
    if k == "mul":
        return eval_num(x.t[1], env) * eval_num(x.t[2], env)
    if k == "div":
        return eval_num(x.t[1], env) / eval_num(x.t[2], env)
    if k == "inv":
        return 1 / eval_num(x.t[1], env)
    if k == "neg":
        a = eval_num(x.t[1], env)
        if x.kind == "S":
            return -a
        if x.kind == "V":
            return [-p for p in a]
        return [[-p for p in r] for r in a]
    if k == "pow":
        return eval_num(x.t[1], env) ** x.t[2]
    if k == "smul":
        s, a = eval_num(x.t[1], env), eval_num(x.t[2], env)
        if x.kind == "V":
            return [s * p for p in a]
        return [[s * p for p in r] for r in a]
    if k == "app":
        A, v = eval_num(x.t[1], env), eval_num(x.t[2], env)
        return [sum(a * b for a, b in zip(r, v)) for r in A]
    raise Refuse("cannot evaluate " + k)
