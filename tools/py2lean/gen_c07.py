"""Translator for property C07: quadrature tables and the rule factory of
EasyFEA/FEM/_gauss.py -> Lean data (Gen/C07/*.lean)."""

from __future__ import annotations

import json
import os
import subprocess
from fractions import Fraction

from .interp import Interp, ModuleInfo, NDArray, Refuse, Sym, lift
from .qsqrt import QS, normalise
from . import emit
from .gen_c06 import _write_if_changed
from . import gen_c06, linalg_qs

FAMILIES = {
    "_Triangle": "triangle", "_Quadrangle": "quadrangle", "_Tetrahedron": "tetrahedron",
    "_Hexahedron": "hexahedron", "_Prism": "prism",
}
CANDIDATES = range(1, 41)
LEG_N = list(range(1, 9))
MATRIX_TYPES = ["rigi", "mass", "beam", "beam_shear"]
TOPOLOGY = {"SEG": "segment", "TRI": "triangle", "QUAD": "quadrangle", "TETRA": "tetrahedron", "HEXA": "hexahedron", "PRISM": "prism"}

# ---- hand-written specification: degree of exactness claimed per rule (shape, nPg) -> (k, kz, eps)
# k: total degree (simplices) / per-direction degree (boxes); kz: degree in z for prisms.
# eps = 0: exact in Q(sqrt d); eps > 0: rules typed as decimal literals or returned by numpy (binary64).
E15 = "(1 / 100000000000000 : Rat)"  # 1e-14
SPEC = {
    ("triangle", 1): (1, 0, "0"), ("triangle", 3): (2, 0, "0"), ("triangle", 6): (4, 0, E15),
    ("triangle", 7): (5, 0, E15), ("triangle", 12): (6, 0, E15),
    ("quadrangle", 4): (3, 0, "0"), ("quadrangle", 9): (5, 0, E15),
    ("tetrahedron", 1): (1, 0, "0"), ("tetrahedron", 4): (2, 0, "0"), ("tetrahedron", 5): (3, 0, "0"),
    ("tetrahedron", 15): (5, 0, "0"),
    ("hexahedron", 8): (3, 0, "0"), ("hexahedron", 27): (5, 0, "0"),
    ("prism", 6): (2, 3, "0"), ("prism", 8): (3, 3, E15), ("prism", 21): (5, 5, "0"),
}
for _n in LEG_N:
    SPEC[("segment", _n)] = (2 * _n - 1, 0, E15)


def leggauss_dump(python: str):
    code = ("import numpy as np, json\n"
            "out={}\n"
            f"for n in {LEG_N!r}:\n"
            "    x,w=np.polynomial.legendre.leggauss(n)\n"
            "    out[n]=[[float(v).as_integer_ratio() for v in x],[float(v).as_integer_ratio() for v in w]]\n"
            "print(json.dumps(out))\n")
    p = subprocess.run([python, "-c", code], capture_output=True, text=True, timeout=120)
    if p.returncode != 0:
        raise Refuse("cannot obtain numpy.polynomial.legendre.leggauss: " + p.stderr[-300:])
    raw = json.loads(p.stdout)
    return {int(n): ([Fraction(*v) for v in xs], [Fraction(*v) for v in ws]) for n, (xs, ws) in raw.items()}


class Extractor:
    def __init__(self, repo: str, python: str):
        fem = os.path.join(repo, "EasyFEA", "FEM")
        self.it = Interp([ModuleInfo(os.path.join(fem, "_utils.py")), ModuleInfo(os.path.join(fem, "_gauss.py"))])
        self.G = self.it.classes.get("Gauss")
        if self.G is None:
            raise Refuse("class Gauss not found")
        self.leg = leggauss_dump(python)

    def ext(self, name, n, i):
        xs, ws = self.leg[n]
        return xs[i] if name == "leggauss_x" else ws[i]

    def static(self, name, *args):
        if name not in self.G.methods:
            raise Refuse(f"Gauss.{name} not found")
        fn = self.G.methods[name]
        env = {"__class__": self.G}
        params = [x.arg for x in fn.args.args]
        if len(params) != len(args):
            raise Refuse(f"Gauss.{name}: signature changed")
        for p, a in zip(params, args):
            env[p] = a
        return self.it.run_body(fn.body, env)

    def norm_list(self, v):
        if isinstance(v, NDArray):
            v = v.flat()
        return [normalise(lift(x), self.ext) for x in v]

    def family_rule(self, method, n):
        r = self.static(method, Sym.q(n))
        if not isinstance(r, tuple):
            raise Refuse(f"{method}({n}) does not return a tuple")
        *coords, w = r
        cols = [self.norm_list(c) for c in coords]
        w = self.norm_list(w)
        if any(len(c) != len(w) for c in cols):
            raise Refuse(f"{method}({n}): coordinate and weight lists differ in length")
        pts = [[c[p] for c in cols] for p in range(len(w))]
        return pts, w

    def families(self):
        out = {}
        for method, shape in FAMILIES.items():
            for n in CANDIDATES:
                try:
                    pts, w = self.family_rule(method, n)
                except Refuse as e:
                    if "source raises" in str(e):
                        continue
                    raise
                out[(shape, n)] = (pts, w)
        for n in LEG_N:
            xs, ws = self.leg[n]
            out[("segment", n)] = ([[QS(x)] for x in xs], [QS(w) for w in ws])
        return out

    def factory(self, elem_types):
        table = []
        for et in elem_types:
            for mt in MATRIX_TYPES:
                self.it.call_log.clear()
                try:
                    r = self.static("Gauss_factory", et, mt)
                except Refuse as e:
                    if "source raises" in str(e):
                        continue
                    raise
                coord, w = r
                if not isinstance(coord, NDArray) or not isinstance(w, NDArray):
                    raise Refuse("Gauss_factory: unexpected return value")
                pts = [self.norm_list(NDArray(row)) for row in coord.data]
                ws = self.norm_list(w)
                table.append((et, mt, pts, ws))
        return table


def eval_qs(s: Sym, x):
    k = s.t[0]
    if k == "q":
        return QS(s.t[1])
    if k == "var":
        return x[s.t[1]]
    if k == "add":
        return eval_qs(s.t[1], x) + eval_qs(s.t[2], x)
    if k == "sub":
        return eval_qs(s.t[1], x) - eval_qs(s.t[2], x)
    if k == "mul":
        return eval_qs(s.t[1], x) * eval_qs(s.t[2], x)
    if k == "div":
        return eval_qs(s.t[1], x) / eval_qs(s.t[2], x)
    if k == "neg":
        return -eval_qs(s.t[1], x)
    if k == "pow":
        return eval_qs(s.t[1], x) ** s.t[2]
    raise Refuse(f"cannot evaluate {k}")


def mat_lean(M) -> str:
    return "[" + ",\n    ".join("[" + ", ".join(qs_lean(x) for x in row) + "]" for row in M) + "]"


def field_d(pts, w):
    ds = {x.d for p in pts for x in p if x.b != 0} | {x.d for x in w if x.b != 0}
    if len(ds) > 1:
        raise Refuse(f"rule mixes square roots {sorted(ds)}")
    return ds.pop() if ds else 1


def qs_lean(x: QS) -> str:
    return f"⟨{emit.rat(x.a)}, {emit.rat(x.b)}⟩"


def rule_lean(name, shape, pts, w) -> str:
    d = field_d(pts, w)
    P = ",\n    ".join("[" + ", ".join(qs_lean(x) for x in p) + "]" for p in pts)
    W = ", ".join(qs_lean(x) for x in w)
    return f"""def {name} : Rule where
  shape := .{shape}
  d := {d}
  pts := [{P}]
  w := [{W}]
"""


def write(repo: str, outdir: str, python: str = "/venv/bin/python") -> dict:
    ex = Extractor(repo, python)
    fams = ex.families()
    utils = ex.it.classes.get("ElemType")
    elem_types = [k for k in utils.assigns if k != "POINT"] if utils else []
    if not elem_types:
        raise Refuse("ElemType enumeration not found")
    fac = ex.factory(elem_types)
    os.makedirs(outdir, exist_ok=True)
    wanted = set()
    rule_names = []
    for (shape, n), (pts, w) in sorted(fams.items()):
        name = f"{shape}_{n}"
        if (shape, n) not in SPEC:
            raise Refuse(f"rule {name} is offered by the source but has no specified degree")
        k, kz, eps = SPEC[(shape, n)]
        txt = f"""-- GENERATED by tools/py2lean/gen_c07.py from /repo/EasyFEA/FEM/_gauss.py — do not edit
import EasyFEAVerif.Model.Quad
namespace EasyFEAVerif.Gen.C07
open EasyFEAVerif

{rule_lean(name, shape, pts, w)}
theorem {name}_check : {name}.check {k} {kz} {eps} = true := by decide +kernel

end EasyFEAVerif.Gen.C07
"""
        _write_if_changed(os.path.join(outdir, f"R_{name}.lean"), txt)
        wanted.add(f"R_{name}.lean")
        rule_names.append((name, shape, n, k, kz, eps))
    # factory
    fac_defs, fac_rows = [], []
    for et, mt, pts, w in fac:
        topo = "".join(c for c in et if not c.isdigit())
        shape = TOPOLOGY.get(topo)
        if shape is None:
            raise Refuse(f"unknown topology of {et}")
        nm = f"F_{et}_{mt}"
        fac_defs.append(rule_lean(nm, shape, pts, w))
        fac_rows.append(f'("{et}", "{mt}", {nm})')
    factxt = f"""-- GENERATED by tools/py2lean/gen_c07.py from /repo/EasyFEA/FEM/_gauss.py — do not edit
import EasyFEAVerif.Model.Quad
namespace EasyFEAVerif.Gen.C07
open EasyFEAVerif

{chr(10).join(fac_defs)}
/-- `Gauss_factory(elemType, matrixType)` for every pair it accepts -/
def factory : List (String × String × Rule) :=
  [{', '.join(fac_rows)}]

end EasyFEAVerif.Gen.C07
"""
    _write_if_changed(os.path.join(outdir, "Factory.lean"), factxt)
    wanted.add("Factory.lean")
    # data-only index of the family rules (for the driver: no theorem in its import closure)
    idx_defs = "\n".join(rule_lean("I_" + f"{shape}_{n}", shape, pts, w) for (shape, n), (pts, w) in sorted(fams.items()))
    idxtxt = f"""-- GENERATED by tools/py2lean/gen_c07.py — do not edit (data only, used by drivers/C07.lean)
import EasyFEAVerif.Model.Quad
namespace EasyFEAVerif.Gen.C07
open EasyFEAVerif

{idx_defs}
def rulesIndex : List (String × Rule) :=
  [{', '.join(f'("{shape}_{n}", I_{shape}_{n})' for (shape, n) in sorted(fams))}]

end EasyFEAVerif.Gen.C07
"""
    _write_if_changed(os.path.join(outdir, "RulesIndex.lean"), idxtxt)
    wanted.add("RulesIndex.lean")
    # rank certificates (untrusted search here, checked by the Lean kernel)
    elems, _ = gen_c06.extract(repo)
    by_name = {e["name"]: e for e in elems}
    certs = []  # (elem, mt, kind) kind in cert|null
    for et, mt, pts, w in fac:
        if mt not in ("mass", "rigi") or et not in by_name:
            continue
        e = by_name[et]
        if mt == "mass":
            M = [[eval_qs(N, p) for N in e["N"]] for p in pts]
            T = [[QS(1 if i == j else 0) for j in range(e["nPe"])] for i in range(e["nPe"])]
            checker = "massCertOK"
        else:
            M = [[eval_qs(e["_dN"][i][a], p) for i in range(e["nPe"])] for p in pts for a in range(e["dim"])]
            n = e["nPe"]
            T = [[QS((1 if i == j else 0) - Fraction(1, n)) for j in range(n)] for i in range(n)]
            checker = "rigiCertOK"
        L, rank = linalg_qs.left_cert(M, T)
        nm = f"{et}_{mt}"
        head = f"""-- GENERATED by tools/py2lean/gen_c07.py — do not edit. Certificate found by exact elimination (untrusted), checked by the kernel.
import EasyFEAVerif.Model.QuadElem
import EasyFEAVerif.Gen.C06.{et}
import EasyFEAVerif.Gen.C07.Factory
namespace EasyFEAVerif.Gen.C07
open EasyFEAVerif

"""
        if L is not None:
            txt = head + f"""def cert_{nm} : List (List QS) :=
  {mat_lean(L)}

theorem cert_{nm}_ok : QMat.{checker} Gen.C06.{et} F_{nm} cert_{nm} = true := by decide +kernel

end EasyFEAVerif.Gen.C07
"""
            certs.append((et, mt, "cert"))
        else:
            # no certificate: exhibit a non-trivial vector annihilated by the evaluation matrix
            x = linalg_qs.null_vector(M) if mt == "mass" else None
            if x is None and mt == "rigi":
                # a kernel vector that is not constant
                x = linalg_qs.null_vector(M)
                # make sure it is not a constant: null_vector returns a basis-like vector with a 1 and 0s
            txt = head + f"""/-- a non-zero{' non-constant' if mt == 'rigi' else ''} nodal vector annihilated at every Gauss point -/
def null_{nm} : List QS := [{', '.join(qs_lean(v) for v in x)}]

theorem null_{nm}_ok : QMat.nullOK F_{nm}.d (QMat.{'evalMat' if mt == 'mass' else 'gradMat'} Gen.C06.{et} F_{nm}) null_{nm} = true := by decide +kernel

end EasyFEAVerif.Gen.C07
"""
            certs.append((et, mt, "null"))
        _write_if_changed(os.path.join(outdir, f"Cert_{nm}.lean"), txt)
        wanted.add(f"Cert_{nm}.lean")
    imports = "\n".join(f"import EasyFEAVerif.Gen.C07.R_{n[0]}" for n in rule_names)
    imports += "\nimport EasyFEAVerif.Gen.C07.Factory\n" + "\n".join(f"import EasyFEAVerif.Gen.C07.Cert_{et}_{mt}" for et, mt, _ in certs)
    good = [(et, mt) for et, mt, k in certs if k == "cert"]
    bad = [(et, mt) for et, mt, k in certs if k == "null"]
    alltxt = f"""-- GENERATED by tools/py2lean/gen_c07.py from /repo/EasyFEA/FEM/_gauss.py — do not edit
{imports}
namespace EasyFEAVerif.Gen.C07
open EasyFEAVerif

/-- every rule of every family, with the degree (k, kz) and tolerance it is checked for -/
def allRules : List (String × Rule × Nat × Nat × Rat) :=
  [{', '.join(f'("{n}", {n}, {k}, {kz}, {eps})' for n, _, _, k, kz, eps in rule_names)}]

theorem allRules_check : ∀ r ∈ allRules, r.2.1.check r.2.2.1 r.2.2.2.1 r.2.2.2.2 = true := by
  intro r hr
  simp only [allRules, List.mem_cons, List.mem_nil_iff, or_false] at hr
  rcases hr with {' | '.join('rfl' for _ in rule_names)}
{chr(10).join('  · exact ' + n[0] + '_check' for n in rule_names)}

/-- (element, rule, certificate): pairs of the factory whose rank adequacy is certified -/
def massCerts : List (ElemData × Rule × List (List QS)) :=
  [{', '.join(f'(Gen.C06.{et}, F_{et}_{mt}, cert_{et}_{mt})' for et, mt in good if mt == 'mass')}]
def rigiCerts : List (ElemData × Rule × List (List QS)) :=
  [{', '.join(f'(Gen.C06.{et}, F_{et}_{mt}, cert_{et}_{mt})' for et, mt in good if mt == 'rigi')}]

theorem massCerts_ok : ∀ c ∈ massCerts, QMat.massCertOK c.1 c.2.1 c.2.2 = true := by
  intro c hc
  simp only [massCerts, List.mem_cons, List.mem_nil_iff, or_false] at hc
  rcases hc with {' | '.join('rfl' for et, mt in good if mt == 'mass')}
{chr(10).join(f'  · exact cert_{et}_{mt}_ok' for et, mt in good if mt == 'mass')}

theorem rigiCerts_ok : ∀ c ∈ rigiCerts, QMat.rigiCertOK c.1 c.2.1 c.2.2 = true := by
  intro c hc
  simp only [rigiCerts, List.mem_cons, List.mem_nil_iff, or_false] at hc
  rcases hc with {' | '.join('rfl' for et, mt in good if mt == 'rigi')}
{chr(10).join(f'  · exact cert_{et}_{mt}_ok' for et, mt in good if mt == 'rigi')}

/-- pairs for which the rule is provably too poor (a kernel vector is exhibited) -/
def deficient : List (String × String) := [{', '.join(f'("{et}", "{mt}")' for et, mt in bad)}]

end EasyFEAVerif.Gen.C07
"""
    _write_if_changed(os.path.join(outdir, "All.lean"), alltxt)
    wanted.add("All.lean")
    for f in os.listdir(outdir):
        if f.endswith(".lean") and f not in wanted:
            os.remove(os.path.join(outdir, f))
    return dict(rules=[n[0] for n in rule_names], factory_pairs=len(fac),
                factory=[(et, mt, len(w)) for et, mt, _, w in fac],
                certified=good, deficient=bad)


if __name__ == "__main__":
    import sys

    print(json.dumps(write(sys.argv[1], sys.argv[2])))
