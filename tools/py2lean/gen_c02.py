"""Translator for property C02: the algebraic form of the element matrices, read from the source on
every run: K_e = Σ_p (wJ Bᵀ) C B (LinearizedElasticity), D_e = Σ_p coef (wJ dNᵀ) dN (GradUGradV),
M_e = Σ_p coef wJ Nᵀ N (UV).  Refuses on anything unrecognised."""

from __future__ import annotations

import ast
import os

from .interp import Refuse
from .gen_c06 import _write_if_changed


def _fn(tree, name, cls=None):
    body = tree.body
    if cls:
        for node in body:
            if isinstance(node, ast.ClassDef) and node.name == cls:
                body = node.body
                break
        else:
            raise Refuse(f"class {cls} not found")
    for f in body:
        if isinstance(f, ast.FunctionDef) and f.name == name:
            return f
    raise Refuse(f"{name} not found")


def _strip_doc(fn):
    body = fn.body
    if body and isinstance(body[0], ast.Expr) and isinstance(getattr(body[0], "value", None), ast.Constant) and isinstance(body[0].value.value, str):
        body = body[1:]
    return [ast.unparse(s) for s in body]


EXPECT = {
    ("Bilinear", "LinearizedElasticity"): ["leftDispPart_e_pg = groupElem.Get_leftDispPart_e_pg(matrixType)", "B_e_pg = groupElem.Get_B_e_pg(matrixType)",
                                           "return einsum('epij,epjk->eik', leftDispPart_e_pg @ C, B_e_pg)"],
    ("Bilinear", "GradUGradV"): ["mat_e_pg = groupElem.Get_DiffusePart_e_pg(matrixType)", "dN_e_pg = groupElem.Get_dN_e_pg(matrixType)",
                                 "return einsum('epij,epjk->eik', coef * mat_e_pg, dN_e_pg)"],
    ("Bilinear", "UV"): ["mat_e_pg = groupElem.Get_ReactionPart_e_pg(matrixType, dof_n)", "return (coef * mat_e_pg).integrate()"],
    ("_GroupElem", "Get_leftDispPart_e_pg"): ["wJ_e_pg = self.Get_weightedJacobian_e_pg(matrixType)", "B_e_pg = self.Get_B_e_pg(matrixType)", "leftDispPart = wJ_e_pg * B_e_pg.T"],
    ("_GroupElem", "Get_DiffusePart_e_pg"): ["wJ_e_pg = self.Get_weightedJacobian_e_pg(matrixType)", "dN_e_pg = self.Get_dN_e_pg(matrixType)", "DiffusePart_e_pg = wJ_e_pg * dN_e_pg.T"],
    ("_GroupElem", "Get_ReactionPart_e_pg"): ["weightedJacobian = self.Get_weightedJacobian_e_pg(matrixType)", "ReactionPart_e_pg = weightedJacobian * N_pg.T @ N_pg"],
    ("FeArray", "integrate"): ["return np.asarray(super().sum(axis=1))"],
}


def extract(repo):
    files = {"Bilinear": (os.path.join(repo, "EasyFEA", "FEM", "Operators", "Bilinear.py"), None),
             "_GroupElem": (os.path.join(repo, "EasyFEA", "FEM", "_group_elem.py"), "_GroupElem"),
             "FeArray": (os.path.join(repo, "EasyFEA", "FEM", "_linalg.py"), "FeArray")}
    trees = {k: ast.parse(open(p, encoding="utf-8").read()) for k, (p, _) in files.items()}
    found = {}
    for (where, name), lines in EXPECT.items():
        stmts = _strip_doc(_fn(trees[where], name, files[where][1]))
        missing = [l for l in lines if l not in stmts]
        if missing:
            raise Refuse(f"{where}.{name}: statement(s) not found: {missing}; body is {stmts}")
        found[name] = lines
    return found


SIM_LOOPS = {
    ("_elastic.py", "Elastic"): ["K_e = Operators.Bilinear.LinearizedElasticity(groupElem, self.material.C)", "M_e = Operators.Bilinear.UV(groupElem, self.rho, dof_n=self.dim)",
                                 "if self.dim == 2:\n    thickness = self.material.thickness\n    K_e *= thickness\n    M_e *= thickness",
                                 "C_e = self.__coefK * K_e + self.__coefM * M_e", "out[groupElem] = (K_e, C_e, M_e, None)"],
    ("_thermal.py", "Thermal"): ["K_e = Operators.Bilinear.GradUGradV(groupElem, coef=thermalModel.k)", "coef = FeArray.broadcast(self.rho, Ne, nPg) * FeArray.broadcast(thermalModel.c, Ne, nPg)",
                                 "C_e = Operators.Bilinear.UV(groupElem, coef=coef, dof_n=1)",
                                 "if self.mesh.dim == 2:\n    thickness = thermalModel.thickness\n    K_e *= thickness\n    C_e *= thickness", "out[groupElem] = (K_e, C_e, None, None)"],
}


def extract_loops(repo):
    """the body of the loop over element groups of `Construct_local_matrix_system`: every group's matrices are built AND scaled
    inside the loop (a statement moved out of it acts on the last group only)"""
    found = {}
    for (fname, cls), lines in SIM_LOOPS.items():
        tree = ast.parse(open(os.path.join(repo, "EasyFEA", "Simulations", fname), encoding="utf-8").read())
        fn = _fn(tree, "Construct_local_matrix_system", cls)
        loops = [n for n in fn.body if isinstance(n, ast.For) and ast.unparse(n.iter) == "self.mesh.Get_list_groupElem()" and ast.unparse(n.target) == "groupElem"]
        if len(loops) != 1:
            raise Refuse(f"{cls}.Construct_local_matrix_system: expected one loop over self.mesh.Get_list_groupElem(), found {len(loops)}")
        body = [ast.unparse(st) for st in loops[0].body]
        missing = [l for l in lines if l not in body]
        if missing:
            raise Refuse(f"{cls}.Construct_local_matrix_system: statement(s) not found in the loop over the element groups: {missing}")
        after = [ast.unparse(st) for st in fn.body[fn.body.index(loops[0]) + 1:]]
        if any("*=" in a for a in after):
            raise Refuse(f"{cls}.Construct_local_matrix_system: in-place scaling after the loop over the element groups: {after}")
        found[cls + ".groupLoop"] = lines
    return found


def write(repo: str, outdir: str) -> dict:
    d = extract(repo)
    loops = extract_loops(repo)
    os.makedirs(outdir, exist_ok=True)
    q_ = lambda t: '"' + t.replace('"', "'").replace("\n", "\\n") + '"'  # noqa: E731
    lrows = ",\n  ".join("(" + q_(k) + ", [" + ", ".join(q_(x) for x in v) + "])" for k, v in loops.items())
    _write_if_changed(os.path.join(outdir, "Loops.lean"),
                      "-- GENERATED by tools/py2lean/gen_c02.py from /repo/EasyFEA/Simulations/_elastic.py, _thermal.py — do not edit\nnamespace EasyFEAVerif.Gen.C02\n\n"
                      "/-- the body of the loop over the element groups in `Construct_local_matrix_system` (matched against the source) -/\n"
                      f"def groupLoops : List (String × List String) := [\n  {lrows}]\n\nend EasyFEAVerif.Gen.C02\n")
    rows = ",\n  ".join('("' + k + '", [' + ", ".join('"' + l.replace('"', "'") + '"' for l in v) + "])" for k, v in d.items())
    txt = ("-- GENERATED by tools/py2lean/gen_c02.py from /repo/EasyFEA/FEM/Operators/Bilinear.py, _group_elem.py, _linalg.py — do not edit\n"
           "namespace EasyFEAVerif.Gen.C02\n\n/-- the statements that define the element stiffness, diffusion and mass matrices -/\n"
           f"def forms : List (String × List String) := [\n  {rows}]\n\nend EasyFEAVerif.Gen.C02\n")
    _write_if_changed(os.path.join(outdir, "Forms.lean"), txt)
    return d


if __name__ == "__main__":
    import sys, json

    print(json.dumps(write(sys.argv[1], sys.argv[2]), default=str, indent=1)[:600])
