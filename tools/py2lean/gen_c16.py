"""Translator for property C16: Result() dispatch of the kinematic component names, the
strain/stress component selection and the von Mises expressions."""

from __future__ import annotations

import ast
import os

from .interp import Interp, ModuleInfo, Obj, Refuse, Sym, lift, _Return
from . import emit
from .gen_c06 import _write_if_changed

SIMS = {  # class name -> (file, names of the three kinematic fields as attributes of the simulation)
    "Elastic": ("_elastic.py", ("displacement", "speed", "accel")),
    "WeakForms": ("_weakforms.py", ("u", "v", "a")),
}
KIN = ["ux", "uy", "uz", "vx", "vy", "vz", "ax", "ay", "az"]


class FieldMarker:
    _py2lean_native = True

    def __init__(self, name):
        self.name = name

    def reshape(self, *a):
        return FieldMatrix(self.name)


class FieldMatrix:
    _py2lean_native = True

    def __init__(self, name):
        self.name = name

    def __getitem__(self, idx):
        if isinstance(idx, tuple) and len(idx) == 2 and idx[0] == slice(None, None, None):
            k = idx[1]
            k = int(k.qv) if isinstance(k, Sym) else int(k)
            return ("component", self.name, k)
        raise Refuse("unexpected indexing of a field matrix")


def kinematic_table(repo):
    sim = os.path.join(repo, "EasyFEA", "Simulations")
    out = {}
    for cls, (fname, fields) in SIMS.items():
        mod = ModuleInfo(os.path.join(sim, fname))
        it = Interp([mod])
        c = it.classes.get(cls)
        if c is None or "Result" not in c.methods:
            raise Refuse(f"{cls}.Result not found")
        rows = []
        for name in KIN:
            attrs = {f: FieldMarker(f) for f in fields}
            attrs.update({"mesh": Obj(c, {"Nn": Sym.q(7)}), "_Results_Check_Available": lambda r: True,
                          "Results_Reshape_values": lambda v, nv: v, "Set_Iter": lambda i: None})
            obj = Obj(c, attrs)
            fn = c.methods["Result"]
            env = {"self": obj, "__class__": c, "result": name, "nodeValues": True, "iter": None}
            try:
                v = it.run_body(fn.body, env)
            except Refuse as e:
                raise Refuse(f"{cls}.Result('{name}'): {e}")
            if not (isinstance(v, tuple) and v and v[0] == "component"):
                raise Refuse(f"{cls}.Result('{name}') does not select a component of a field")
            rows.append((name, fields.index(v[1]), v[2]))
        out[cls] = rows
    return out


def strain_stress(repo):
    path = os.path.join(repo, "EasyFEA", "Models", "_utils.py")
    mod = ModuleInfo(path)
    it = Interp([mod])
    fn = mod.functions.get("__Result_in_Strain_or_Stress_field")
    if fn is None:
        raise Refuse("__Result_in_Strain_or_Stress_field not found")
    blocks = {}
    for node in ast.walk(fn):
        if isinstance(node, ast.If) and ast.unparse(node.test) in ("dim == 2", "dim == 3"):
            blocks[int(ast.unparse(node.test)[-1])] = node.body
    if set(blocks) != {2, 3}:
        raise Refuse("dim == 2 / dim == 3 blocks not found")
    expected_head = {
        2: ["field_e_pg[:, :, 2] *= 1 / coef", "xx, yy, xy = [np.asarray(field_e_pg[:, :, i]) for i in range(3)]"],
        3: ["field_e_pg[:, :, 3:] *= 1 / coef", "xx, yy, zz, yz, xz, xy = [np.asarray(field_e_pg[:, :, i]) for i in range(6)]"],
    }
    names = {2: ["xx", "yy", "xy"], 3: ["xx", "yy", "zz", "yz", "xz", "xy"]}
    out = {}
    for dim, body in blocks.items():
        head = [ast.unparse(s) for s in body[:2]]
        if head != expected_head[dim]:
            raise Refuse(f"dim == {dim}: rescaling / unpacking statements changed: {head}")
        chain = body[2:]
        comps = {}
        res_names = ([f"S{n}" for n in names[dim]] + [f"E{n}" for n in names[dim]] + ["Svm", "Evm"])
        for rn in res_names:
            env = {"__module__": mod, "result": rn[-2:], "field_e_pg": "FIELD"}
            for k, n in enumerate(names[dim]):
                env[n] = Sym.var(k)
            for st in chain:
                it.exec(st, env)
            v = env.get("result_e_pg")
            if v is None:
                raise Refuse(f"dim {dim}: no selection for {rn}")
            comps[rn] = lift(v)
        out[dim] = comps
    return out


WHOLE = ["displacement", "displacement_norm", "displacement_matrix", "Strain", "Stress"]


def index_tables(repo):
    """`PhaseField.__indexResult` and `Beam._indexResult` evaluated on every component name the simulation advertises
    (Beam: per dimension, Timoshenko layout for the shear forces): name -> column of the vector result it is read from"""
    sim = os.path.join(repo, "EasyFEA", "Simulations")
    mod = ModuleInfo(os.path.join(sim, "_phasefield.py"))
    it = Interp([mod])
    c = it.classes.get("PhaseField")
    if c is None or "__indexResult" not in c.methods:
        raise Refuse("PhaseField.__indexResult not found")
    pf = []
    for name in ("ux", "uy", "uz"):
        try:
            v = it.run_body(c.methods["__indexResult"].body, {"self": Obj(c, {}), "__class__": c, "result": name})
        except Refuse as e:
            raise Refuse(f"PhaseField.__indexResult('{name}'): {e}")
        pf.append((name, it.as_int(v)))
    mod = ModuleInfo(os.path.join(sim, "_beam.py"))
    it = Interp([mod])
    c = it.classes.get("Beam")
    if c is None or "_indexResult" not in c.methods or "Results_Available" not in c.methods:
        raise Refuse("Beam._indexResult / Results_Available not found")
    beam = []
    for dim, dofn in ((1, 1), (2, 3), (3, 6)):
        obj = Obj(c, {"dim": dim, "useTimoshenko": True, "problemType": None, "Get_dof_n": lambda *a, _d=dofn: Sym.q(_d)})
        try:
            names = it.run_body(c.methods["Results_Available"].body, {"self": obj, "__class__": c})
        except Refuse as e:
            raise Refuse(f"Beam.Results_Available (dim {dim}): {e}")
        names = [n for n in names if n not in WHOLE]
        for name in names:
            try:
                v = it.as_int(it.run_body(c.methods["_indexResult"].body, {"self": obj, "__class__": c, "result": name}))
            except Refuse:
                v = None        # the source raises for an advertised name
            beam.append((dim, name, v))
    return pf, beam


REACTION_TERMS = {"reaction[dofs] = K[dofs] @ self._Get_u_n(problemType)": "Ku", "reaction[dofs] += C[dofs] @ self._Get_v_n(problemType)": "Cv",
                  "reaction[dofs] += M[dofs] @ self._Get_a_n(problemType)": "Ma"}


def reaction_table(repo):
    """`_Simu.Calc_Reaction`: which of K u, C v, M a enter the reaction for every member of AlgoType (the branch tests are
    evaluated on the enum members read from Solvers.py)"""
    sim = os.path.join(repo, "EasyFEA", "Simulations")
    stree = ast.parse(open(os.path.join(sim, "Solvers.py"), encoding="utf-8").read())
    acls = next((n for n in stree.body if isinstance(n, ast.ClassDef) and n.name == "AlgoType"), None)
    if acls is None:
        raise Refuse("AlgoType not found")
    members = [t.id for st in acls.body if isinstance(st, ast.Assign) for t in st.targets if isinstance(t, ast.Name) and isinstance(st.value, ast.Constant) and isinstance(st.value.value, str)]

    def listed(fname):
        fn = next((f for f in acls.body if isinstance(f, ast.FunctionDef) and f.name == fname), None)
        if fn is None or not (isinstance(fn.body[-1], ast.Return) and isinstance(fn.body[-1].value, ast.List) and len([x for x in fn.body if not isinstance(x, ast.Expr)]) == 1):
            raise Refuse(f"AlgoType.{fname}: not a literal list")
        out = []
        for e in fn.body[-1].value.elts:
            if not (isinstance(e, ast.Attribute) and ast.unparse(e.value) == "AlgoType" and e.attr in members):
                raise Refuse(f"AlgoType.{fname}: element {ast.unparse(e)}")
            out.append(e.attr)
        return out

    hyper = listed("Get_Hyperbolic_Types")
    tree = ast.parse(open(os.path.join(sim, "_simu.py"), encoding="utf-8").read())
    cls = next((n for n in tree.body if isinstance(n, ast.ClassDef) and n.name == "_Simu"), None)
    fn = next((f for f in (cls.body if cls else []) if isinstance(f, ast.FunctionDef) and f.name == "Calc_Reaction"), None)
    if fn is None:
        raise Refuse("_Simu.Calc_Reaction not found")

    def algos_of(test):
        src = ast.unparse(test)
        if isinstance(test, ast.Compare) and len(test.ops) == 1 and ast.unparse(test.left) == "self.algo":
            c = test.comparators[0]
            if isinstance(test.ops[0], ast.Eq) and isinstance(c, ast.Attribute) and ast.unparse(c.value) == "AlgoType" and c.attr in members:
                return [c.attr]
            if isinstance(test.ops[0], ast.In):
                if src == "self.algo in AlgoType.Get_Hyperbolic_Types()":
                    return list(hyper)
                if isinstance(c, (ast.Tuple, ast.List)) and all(isinstance(e, ast.Attribute) and ast.unparse(e.value) == "AlgoType" and e.attr in members for e in c.elts):
                    return [e.attr for e in c.elts]
        raise Refuse("Calc_Reaction: test not recognised: " + src)

    terms = {m: [] for m in members}
    seen_base = False
    for st in fn.body:
        src = ast.unparse(st)
        if src in REACTION_TERMS:
            for m in members:
                terms[m].append(REACTION_TERMS[src])
            seen_base = True
        elif isinstance(st, ast.If) and "self.algo" in ast.unparse(st.test):
            node, taken = st, set()
            while True:
                al = [a for a in algos_of(node.test) if a not in taken]
                for b in node.body:
                    bs = ast.unparse(b)
                    if bs not in REACTION_TERMS:
                        raise Refuse("Calc_Reaction: statement not recognised: " + bs[:80])
                    for a in al:
                        terms[a].append(REACTION_TERMS[bs])
                taken |= set(al)
                if len(node.orelse) == 1 and isinstance(node.orelse[0], ast.If):
                    node = node.orelse[0]
                    continue
                if node.orelse:
                    raise Refuse("Calc_Reaction: else branch not recognised")
                break
    if not seen_base:
        raise Refuse("Calc_Reaction: K u term not found")
    return members, hyper, terms


def write(repo: str, outdir: str) -> dict:
    kin = kinematic_table(repo)
    ss = strain_stress(repo)
    pf, beam = index_tables(repo)
    os.makedirs(outdir, exist_ok=True)
    parts = ["""-- GENERATED by tools/py2lean/gen_c16.py from /repo/EasyFEA/Simulations/*.py and Models/_utils.py — do not edit
import EasyFEAVerif.Model.PExpr
namespace EasyFEAVerif.Gen.C16
open EasyFEAVerif

"""]
    for cls, rows in kin.items():
        parts.append(f"/-- `{cls}.Result(name)`: (name, field index 0=displacement 1=velocity 2=acceleration, component) -/\n"
                     f"def kinematic_{cls} : List (String × Nat × Nat) := [" + ", ".join(f'("{n}", {f}, {c})' for n, f, c in rows) + "]\n\n")
    for dim, comps in ss.items():
        sel, vm = [], None
        for rn, s in comps.items():
            if s.t[0] == "var":
                sel.append((rn, s.t[1]))
            elif s.t[0] == "sqrt":
                vm = s.t[1]
            else:
                raise Refuse(f"dim {dim}: selection for {rn} is neither a component nor a square root")
        if vm is None:
            raise Refuse("von Mises expression not found")
        parts.append(f"/-- strain/stress component selected for each result name (index in the rescaled Kelvin–Mandel vector), dim {dim} -/\n"
                     f"def components{dim} : List (String × Nat) := [" + ", ".join(f'("{n}", {k})' for n, k in sel) + "]\n\n"
                     f"/-- the radicand of the `vm` result, dim {dim} (variables = rescaled components in storage order) -/\n"
                     f"def vmSquared{dim} : PExpr := {emit.pexpr(vm)}\n\n")
    parts.append("/-- `PhaseField.__indexResult`: displacement component name -> column -/\n"
                 "def index_PhaseField : List (String × Nat) := [" + ", ".join(f'("{n}", {k})' for n, k in pf) + "]\n\n"
                 "/-- `Beam._indexResult` on every component name `Results_Available` lists, per dimension (Timoshenko layout of the shear forces): "
                 "(dim, name, column or none when the source raises) -/\n"
                 "def index_Beam : List (Nat × String × Option Nat) := [\n  "
                 + ",\n  ".join(f'({d}, "{n}", {"none" if k is None else "some " + str(k)})' for d, n, k in beam) + "]\n\n")
    members, hyper, terms = reaction_table(repo)
    parts.append("/-- members of `AlgoType` and `AlgoType.Get_Hyperbolic_Types()` -/\n"
                 "def algoTypes : List String := [" + ", ".join(f'"{m}"' for m in members) + "]\n"
                 "def hyperbolicTypes : List String := [" + ", ".join(f'"{m}"' for m in hyper) + "]\n\n"
                 "/-- `_Simu.Calc_Reaction`: the terms summed on the constrained rows, per time scheme -/\n"
                 "def reactionTerms : List (String × List String) := [\n  "
                 + ",\n  ".join(f'("{m}", [' + ", ".join(f'"{t}"' for t in terms[m]) + "])" for m in members) + "]\n\n")
    helpers, callers = coef_table(repo)
    parts.append("/-- the Kelvin-Mandel factor of the shear components: default of `coef` in the two helpers of Models/_utils.py, and the `coef=` argument each simulation passes -/\n"
                 "def coefDefaults : List (String × String) := [" + ", ".join(f'("{a}", "{b}")' for a, b in helpers) + "]\n"
                 "def coefPassed : List (String × String) := [" + ", ".join(f'("{a}", "{b}")' for a, b in callers) + "]\n\n")
    parts.append("end EasyFEAVerif.Gen.C16\n")
    _write_if_changed(os.path.join(outdir, "Results.lean"), "".join(parts))
    return dict(simulations=list(kin.keys()) + ["PhaseField.__indexResult", "Beam._indexResult"], names=KIN, beam_names=len(beam))


def coef_table(repo):
    """the factor by which the shear components of a Kelvin-Mandel strain / stress vector are divided: the helpers' default and what every caller passes"""
    utils = ast.parse(open(os.path.join(repo, "EasyFEA", "Models", "_utils.py"), encoding="utf-8").read())
    helpers = []
    for name in ("__Result_in_Strain_or_Stress_field", "Result_strain_or_stress_field_e"):
        f = next((n for n in utils.body if isinstance(n, ast.FunctionDef) and n.name == name), None)
        if f is None:
            raise Refuse(f"{name} not found")
        names = [a.arg for a in f.args.args]
        if "coef" not in names:
            raise Refuse(f"{name} has no parameter coef")
        k = names.index("coef") - (len(names) - len(f.args.defaults))
        if k < 0:
            raise Refuse(f"{name}: coef has no default")
        helpers.append((name, ast.unparse(f.args.defaults[k])))
    callers = []
    for cls, fname in (("Elastic", "_elastic.py"), ("HyperElastic", "_hyperelastic.py"), ("PhaseField", "_phasefield.py"), ("InElastic", "_inelastic.py")):
        tree = ast.parse(open(os.path.join(repo, "EasyFEA", "Simulations", fname), encoding="utf-8").read())
        calls = [n for n in ast.walk(tree) if isinstance(n, ast.Call) and ast.unparse(n.func) == "Result_strain_or_stress_field_e"]
        if len(calls) != 1:
            raise Refuse(f"{cls}: {len(calls)} calls of Result_strain_or_stress_field_e")
        kw = {k.arg: ast.unparse(k.value) for k in calls[0].keywords}
        if calls[0].args or "coef" not in kw:
            raise Refuse(f"{cls}.Result does not pass coef= to Result_strain_or_stress_field_e (keywords {sorted(kw)}, {len(calls[0].args)} positional)")
        callers.append((cls, kw["coef"]))
    return helpers, callers


if __name__ == "__main__":
    import sys, json

    print(json.dumps(write(sys.argv[1], sys.argv[2])))
