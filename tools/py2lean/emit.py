"""Emission of Sym trees as Lean terms (PExpr / AExpr) and exact evaluation."""

from __future__ import annotations

from fractions import Fraction

from .interp import Sym, Refuse


def rat(q: Fraction) -> str:
    if q.denominator == 1:
        return f"({q.numerator} : Rat)"
    return f"({q.numerator} / {q.denominator} : Rat)"


def const_value(s: Sym) -> Fraction:
    """Value of a rational constant expression."""
    if not s.is_q:
        raise Refuse("constant is not rational")
    return s.qv


def pexpr(s: Sym) -> str:
    """Polynomial expression over Q: division only by rational constants."""
    k = s.t[0]
    if k == "q":
        return f".const {rat(s.t[1])}"
    if k == "var":
        return f".var {s.t[1]}"
    if k in ("add", "sub", "mul"):
        return f".{k} ({pexpr(s.t[1])}) ({pexpr(s.t[2])})"
    if k == "neg":
        return f".neg ({pexpr(s.t[1])})"
    if k == "pow":
        return f".pow ({pexpr(s.t[1])}) {s.t[2]}"
    if k == "div":
        d = s.t[2]
        if not d.is_q:
            raise Refuse("division by a non-rational expression in a polynomial table")
        return f".mul ({pexpr(s.t[1])}) (.const {rat(1 / d.qv)})"
    raise Refuse(f"not a polynomial node: {k}")


def eval_q(s: Sym, x: list[Fraction]) -> Fraction:
    """Exact rational evaluation (independent of Lean; used by the failing-input search)."""
    k = s.t[0]
    if k == "q":
        return s.t[1]
    if k == "var":
        return x[s.t[1]]
    if k == "add":
        return eval_q(s.t[1], x) + eval_q(s.t[2], x)
    if k == "sub":
        return eval_q(s.t[1], x) - eval_q(s.t[2], x)
    if k == "mul":
        return eval_q(s.t[1], x) * eval_q(s.t[2], x)
    if k == "div":
        return eval_q(s.t[1], x) / eval_q(s.t[2], x)
    if k == "neg":
        return -eval_q(s.t[1], x)
    if k == "pow":
        return eval_q(s.t[1], x) ** s.t[2]
    raise Refuse(f"cannot evaluate {k} exactly")


def to_json(s: Sym):
    k = s.t[0]
    if k == "q":
        return ["q", str(s.t[1])]
    if k == "var":
        return ["var", s.t[1]]
    if k == "pow":
        return ["pow", to_json(s.t[1]), s.t[2]]
    if k == "fn":
        return ["fn", s.t[1], to_json(s.t[2])]
    return [k] + [to_json(c) for c in s.t[1:]]


def poly(s: Sym) -> dict:
    """Normal form: dict monomial(tuple of exponents) -> Fraction. Exact, independent
    of Lean (used by the search to decide polynomial identities completely)."""
    k = s.t[0]
    if k == "q":
        return {(): s.t[1]} if s.t[1] != 0 else {}
    if k == "var":
        i = s.t[1]
        return {tuple([0] * i + [1]): Fraction(1)}
    if k == "add":
        return p_add(poly(s.t[1]), poly(s.t[2]))
    if k == "sub":
        return p_add(poly(s.t[1]), p_scale(poly(s.t[2]), Fraction(-1)))
    if k == "neg":
        return p_scale(poly(s.t[1]), Fraction(-1))
    if k == "mul":
        return p_mul(poly(s.t[1]), poly(s.t[2]))
    if k == "div":
        d = poly(s.t[2])
        if list(d.keys()) != [()]:
            raise Refuse("division by non-constant")
        return p_scale(poly(s.t[1]), 1 / d[()])
    if k == "pow":
        r = {(): Fraction(1)}
        b = poly(s.t[1])
        for _ in range(s.t[2]):
            r = p_mul(r, b)
        return r
    raise Refuse(f"not polynomial: {k}")


def _trim(m):
    m = list(m)
    while m and m[-1] == 0:
        m.pop()
    return tuple(m)


def p_add(a, b):
    r = dict(a)
    for m, c in b.items():
        v = r.get(m, 0) + c
        if v == 0:
            r.pop(m, None)
        else:
            r[m] = v
    return r


def p_scale(a, c):
    return {m: v * c for m, v in a.items()} if c != 0 else {}


def p_mul(a, b):
    r = {}
    for m1, c1 in a.items():
        for m2, c2 in b.items():
            n = max(len(m1), len(m2))
            m = _trim([(m1[i] if i < len(m1) else 0) + (m2[i] if i < len(m2) else 0) for i in range(n)])
            v = r.get(m, 0) + c1 * c2
            if v == 0:
                r.pop(m, None)
            else:
                r[m] = v
    return r


def p_diff(a, v):
    r = {}
    for m, c in a.items():
        if v < len(m) and m[v] > 0:
            mm = list(m)
            e = mm[v]
            mm[v] = e - 1
            r[_trim(mm)] = r.get(_trim(mm), 0) + c * e
    return {m: c for m, c in r.items() if c != 0}
