"""Translator for property C19: the statements by which the simulation keeps committed and trial internal variables apart
(`Simulations/_inelastic.py`: the trial state is stashed by the assembly and committed only by Save_Iter, Set_Iter restores
copies), the von Mises surface and the linear hardening law that the radial-return model of Props/C19 is compared with."""

from __future__ import annotations

import ast
import os

from .interp import Refuse
from .gen_c06 import _write_if_changed


def _fn(tree, name, cls=None):
    body = tree.body
    if cls:
        body = next((n.body for n in tree.body if isinstance(n, ast.ClassDef) and n.name == cls), None)
        if body is None:
            raise Refuse(f"class {cls} not found")
    f = next((f for f in body if isinstance(f, ast.FunctionDef) and f.name == name), None)
    if f is None:
        raise Refuse(f"{cls}.{name} not found")
    return f


def _need(fn, lines, where, forbid=()):
    src = [ast.unparse(s) for s in ast.walk(fn) if isinstance(s, ast.stmt)]
    missing = [l for l in lines if l not in src]
    if missing:
        raise Refuse(f"{where}: statement(s) not found: {missing}")
    bad = [l for l in src if any(l.startswith(f) for f in forbid)]
    if bad:
        raise Refuse(f"{where}: unexpected statement(s): {bad}")
    return lines


def extract(repo):
    sim = ast.parse(open(os.path.join(repo, "EasyFEA", "Simulations", "_inelastic.py"), encoding="utf-8").read())
    yld = ast.parse(open(os.path.join(repo, "EasyFEA", "Models", "InElastic", "Yield.py"), encoding="utf-8").read())
    hard = ast.parse(open(os.path.join(repo, "EasyFEA", "Models", "InElastic", "IsotropicHardening.py"), encoding="utf-8").read())
    out = {}
    # the assembly writes the trial state only; the committed one is not assigned there
    out["Construct_local_matrix_system"] = _need(_fn(sim, "Construct_local_matrix_system", "InElastic"), [
        "zOld_e_pg = self.__Get_state(groupElem, matrixType)", "(sigma_e_pg, C_e_pg, z_e_pg, converged) = self.material.Integrate(eps_e_pg, zOld_e_pg, self.__dt, epsOld_e_pg)" if False else
        "sigma_e_pg, C_e_pg, z_e_pg, converged = self.material.Integrate(eps_e_pg, zOld_e_pg, self.__dt, epsOld_e_pg)", "self.__z[groupElem.elemType] = z_e_pg"],
        "InElastic.Construct_local_matrix_system", forbid=("self.__zOld =", "self.__zOld["))
    out["Save_Iter"] = _need(_fn(sim, "Save_Iter", "InElastic"), ["self.__zOld = {et: arr.copy() for (et, arr) in self.__z.items()}" if False else "self.__zOld = {et: arr.copy() for et, arr in self.__z.items()}",
                                                                  "iter['state'] = {et: arr.copy() for et, arr in self.__zOld.items()}"], "InElastic.Save_Iter")
    out["Set_Iter"] = _need(_fn(sim, "Set_Iter", "InElastic"), ["self.__zOld = {et: a.copy() for et, a in results.get('state', {}).items()}", "self.__z = {et: a.copy() for et, a in self.__zOld.items()}"], "InElastic.Set_Iter")
    vm = _fn(yld, "VonMises")
    out["VonMises"] = _need(vm, ["return Svm(sig_e_pg) - sigma_y - R_e_pg", "return _Normal_J2(sig_e_pg)"], "Yield.VonMises")
    out["Svm"] = _need(_fn(yld, "Svm"), ["return np.sqrt(1.5) * Norm(_kelvin.Deviator(sig_e_pg), axis=-1)"], "Yield.Svm")
    lin = ast.unparse(_fn(hard, "Linear"))
    for piece in ("lambda p: 0.5 * H * p ** 2", "lambda p: H * p"):
        if piece not in lin:
            raise Refuse(f"IsotropicHardening.Linear: '{piece}' not found")
    out["Linear"] = ["lambda p: 0.5 * H * p ** 2", "lambda p: H * p"]
    # plane stress: Newton on eps_zz driven by sigma_zz of the whole field, stopped when EVERY point is below the tolerance
    beh = ast.parse(open(os.path.join(repo, "EasyFEA", "Models", "InElastic", "_behavior.py"), encoding="utf-8").read())
    out["Plane_stress_strain"] = _need(_fn(beh, "__Plane_stress_strain", "Behavior"), [
        "sig6_e_pg, C6_e_pg, _, _ = self.__Integrate_3d(eps6_e_pg, zOld_e_pg, dt)", "r_e_pg = sig6_e_pg[..., ZZ]",
        "if np.max(np.abs(r_e_pg)) < tol:\n    break", "eps_zz = eps6_e_pg[..., ZZ] - r_e_pg / C6_e_pg[..., ZZ, ZZ]", "eps6_e_pg[..., ZZ] = eps_zz", "return eps6_e_pg"],
        "Behavior.__Plane_stress_strain")
    return out


HARDENING = {  # constructor -> (asserted range, the three lambdas (psi_h, R, dR/dp)) that Props/C19Hardening.lean transcribes
    "Linear": ("H >= 0", ["lambda p: 0.5 * H * p ** 2", "lambda p: H * p", "lambda p: H * (p * 0 + 1.0)"]),
    "Voce": ("Q >= 0 and b > 0", ["lambda p: Q * (p + np.exp(-b * p) / b - 1 / b)", "lambda p: Q * (1 - np.exp(-b * p))", "lambda p: Q * b * np.exp(-b * p)"]),
    "Swift": ("K > 0 and 0 < n < 1 and (eps0 > 0)", ["lambda p: K * ((eps0 + p) ** (n + 1) - eps0 ** (n + 1)) / (n + 1) - K * eps0 ** n * p", "lambda p: K * ((eps0 + p) ** n - eps0 ** n)",
                                                    "lambda p: K * n * (eps0 + p) ** (n - 1)"]),
}


def hardening_forms(repo):
    hard = ast.parse(open(os.path.join(repo, "EasyFEA", "Models", "InElastic", "IsotropicHardening.py"), encoding="utf-8").read())
    ctors = [f.name for f in hard.body if isinstance(f, ast.FunctionDef) and not f.name.startswith("_")]
    if sorted(ctors) != sorted(HARDENING):
        raise Refuse(f"IsotropicHardening: constructors {ctors} (modelled: {sorted(HARDENING)})")
    out = {}
    for name, (rng, lambdas) in HARDENING.items():
        fn = _fn(hard, name)
        asserts = [ast.unparse(x.test) for x in fn.body if isinstance(x, ast.Assert)]
        ret = fn.body[-1]
        if not (isinstance(ret, ast.Return) and isinstance(ret.value, ast.Call) and ast.unparse(ret.value.func) == "IsotropicHardening"):
            raise Refuse(f"IsotropicHardening.{name}: does not end with 'return IsotropicHardening(...)'")
        got = [ast.unparse(a) for a in ret.value.args]
        if asserts != [rng] or got != lambdas or ret.value.keywords:
            raise Refuse(f"IsotropicHardening.{name}: asserted range {asserts} / lambdas {got} differ from the modelled ones ({rng}; {lambdas})")
        out[name] = ["assert " + rng] + lambdas
    return out


def write(repo: str, outdir: str) -> dict:
    d = extract(repo)
    hf = hardening_forms(repo)
    os.makedirs(outdir, exist_ok=True)
    rows = ",\n  ".join('("' + k + '", [' + ", ".join('"' + l.replace('"', "'").replace("\n", "\\n") + '"' for l in v) + "])" for k, v in d.items())
    txt = ("-- GENERATED by tools/py2lean/gen_c19.py from /repo/EasyFEA/Simulations/_inelastic.py, Models/InElastic/Yield.py, IsotropicHardening.py — do not edit\n"
           f"namespace EasyFEAVerif.Gen.C19\n\ndef forms : List (String × List String) := [\n  {rows}]\n\n"
           "/-- asserted parameter range and the lambdas (psi_h, R, dR/dp) of every isotropic hardening constructor -/\n"
           "def hardeningForms : List (String × List String) := [\n  "
           + ",\n  ".join('("' + k + '", [' + ", ".join('"' + l.replace('"', "'") + '"' for l in v) + "])" for k, v in hf.items())
           + "]\n\nend EasyFEAVerif.Gen.C19\n")
    _write_if_changed(os.path.join(outdir, "Forms.lean"), txt)
    d = dict(d)
    d["hardeningForms"] = [x for v in hf.values() for x in v]
    return d


if __name__ == "__main__":
    import sys

    print(list(write(sys.argv[1], sys.argv[2])))
