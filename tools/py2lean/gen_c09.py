"""Translator for property C09: extracts from the source, on every run, the structure of the load
integration that the Lean model reads: einsum subscripts and reduction axis of
`_Simu.__Bc_Integration_Dim`, the quadrature it uses, the (mesh dimension -> integration dimension,
thickness factor) dispatch of add_lineLoad / add_surfLoad / add_volumeLoad / __Bc_pressureload, the
division of point loads by the number of nodes, and the einsums of the beam line load.
Refuses (raises) on anything it does not recognise."""

from __future__ import annotations

import ast
import os

from .interp import Refuse
from .gen_c06 import _write_if_changed


def _functions(path, cls):
    tree = ast.parse(open(path, encoding="utf-8").read())
    for node in tree.body:
        if isinstance(node, ast.ClassDef) and node.name == cls:
            return {f.name: f for f in node.body if isinstance(f, ast.FunctionDef)}
    raise Refuse(f"class {cls} not found in {path}")


def _einsums(fn):
    """(subscripts, operand source texts) of the np.einsum calls, in source order"""
    out = []
    for node in sorted((n for n in ast.walk(fn) if isinstance(n, ast.Call)), key=lambda n: (n.lineno, n.col_offset)):
        f = node.func
        if isinstance(f, ast.Attribute) and f.attr == "einsum":
            if not (node.args and isinstance(node.args[0], ast.Constant) and isinstance(node.args[0].value, str)):
                raise Refuse("einsum with non-literal subscripts")
            out.append((node.args[0].value, [ast.unparse(a) for a in node.args[1:]]))
    return out


def _sum_axes(fn):
    out = []
    for node in ast.walk(fn):
        if isinstance(node, ast.Call) and isinstance(node.func, ast.Attribute) and node.func.attr == "sum" and ast.unparse(node.func.value) == "np":
            for kw in node.keywords:
                if kw.arg == "axis" and isinstance(kw.value, ast.Constant):
                    out.append(int(kw.value.value))
    return out


def _integration_dim_of(fns, name):
    """dim= keyword with which the helper `name` calls __Bc_Integration_Dim"""
    fn = fns.get(name)
    if fn is None:
        raise Refuse(f"{name} not found")
    dims = []
    for node in ast.walk(fn):
        if isinstance(node, ast.Call) and ast.unparse(node.func).endswith("__Bc_Integration_Dim"):
            for kw in node.keywords:
                if kw.arg == "dim":
                    if not isinstance(kw.value, ast.Constant):
                        raise Refuse(f"{name}: non-literal dim")
                    dims.append(int(kw.value.value))
    if len(dims) != 1:
        raise Refuse(f"{name}: expected one call of __Bc_Integration_Dim, found {len(dims)}")
    return dims[0]


def _thickness_in(stmts):
    for s in stmts:
        for node in ast.walk(s):
            if isinstance(node, (ast.AugAssign, ast.Assign)) and "thickness" in ast.unparse(node) and "dofsValues" in ast.unparse(node):
                if isinstance(node, ast.AugAssign) and not isinstance(node.op, ast.Mult):
                    raise Refuse("thickness is not a multiplicative factor")
                if isinstance(node, ast.Assign) and not (isinstance(node.value, ast.BinOp) and isinstance(node.value.op, ast.Mult)):
                    raise Refuse("thickness is not a multiplicative factor")
                return True
    return False


def _helper_called(stmts):
    names = []
    for s in stmts:
        for node in ast.walk(s):
            if isinstance(node, ast.Call):
                t = ast.unparse(node.func)
                if t.startswith("self.__Bc_") and t != "self.__Bc_check_inputs":
                    names.append(t.split(".")[1])
    if len(names) != 1:
        raise Refuse(f"expected one load helper in the branch, found {names}")
    return names[0]


def _dispatch(fns, name):
    """[(mesh dim or 0 = any, integration dim, times thickness)]"""
    fn = fns.get(name)
    if fn is None:
        raise Refuse(f"{name} not found")
    rows = []
    ifs = [s for s in fn.body if isinstance(s, ast.If) and ast.unparse(s.test).startswith("dim ==")]
    if not ifs:
        helper = _helper_called(fn.body)
        return [(0, _integration_dim_of(fns, helper), _thickness_in(fn.body))]
    node = ifs[0]
    while True:
        test = node.test
        if not (isinstance(test, ast.Compare) and ast.unparse(test.left) == "dim" and isinstance(test.ops[0], ast.Eq) and isinstance(test.comparators[0], ast.Constant)):
            raise Refuse(f"{name}: unexpected dispatch test {ast.unparse(test)}")
        d = int(test.comparators[0].value)
        rows.append((d, _integration_dim_of(fns, _helper_called(node.body)), _thickness_in(node.body)))
        if len(node.orelse) == 1 and isinstance(node.orelse[0], ast.If):
            node = node.orelse[0]
            continue
        if node.orelse and not all(isinstance(s, ast.Raise) for s in node.orelse):
            raise Refuse(f"{name}: unexpected final branch")
        break
    return rows


def extract(repo):
    simu = _functions(os.path.join(repo, "EasyFEA", "Simulations", "_simu.py"), "_Simu")
    integ = simu.get("__Bc_Integration_Dim")
    if integ is None:
        raise Refuse("__Bc_Integration_Dim not found")
    src = ast.unparse(integ)
    if "MatrixType.mass" not in src:
        raise Refuse("__Bc_Integration_Dim does not use the mass quadrature")
    if "exclusively=True" not in src:
        raise Refuse("__Bc_Integration_Dim does not select elements exclusively")
    # every group of the requested dimension is offered the WHOLE selection (Model/Loads.lean sums over the groups independently)
    stmts = [ast.unparse(st) for st in ast.walk(integ) if isinstance(st, ast.stmt)]
    for need in ("elements = groupElem.Get_Elements_Nodes(nodes, exclusively=True)", "connect = groupElem.connect[elements]", "eval_n[nodes] = values[u]"):
        if need not in stmts:
            raise Refuse(f"__Bc_Integration_Dim: statement not found: {need}")
    loops = [n for n in ast.walk(integ) if isinstance(n, ast.For) and ast.unparse(n.iter) == "self.mesh.Get_list_groupElem(dim)"]
    if len(loops) != 1 or any(isinstance(n, ast.Break) for n in ast.walk(loops[0])):
        raise Refuse("__Bc_Integration_Dim: the loop over the element groups of the requested dimension is not the expected one (or leaves early)")
    eins = _einsums(integ)
    axes = _sum_axes(integ)
    # branch structure: `if isinstance(values[u], (int, float)) or callable(values[u])` -> gauss branch else nodal
    branch = [n for n in ast.walk(integ) if isinstance(n, ast.If) and "callable" in ast.unparse(n.test)]
    if len(branch) != 1:
        raise Refuse("value-kind branch not found")
    nodal = _einsums(ast.Module(body=branch[0].orelse, type_ignores=[]))
    gauss = _einsums(ast.Module(body=branch[0].body, type_ignores=[]))
    point = simu.get("__Bc_pointLoad")
    psrc = ast.unparse(point) if point else ""
    if "eval_n /= len(nodes)" not in psrc:
        raise Refuse("__Bc_pointLoad does not divide by the number of nodes")
    press = simu.get("__Bc_pressureload")
    prsrc = ast.unparse(press)
    pressure = dict(
        normals="mesh.Get_normals(nodes)" in prsrc,
        magnitude="val * magnitude for val in normals" in prsrc,
        thickness2d="magnitude *= self.model.thickness" in prsrc and "if dim == 2" in prsrc,
        dim_minus_one="dim - 1" in prsrc,
    )
    if not all(pressure.values()):
        raise Refuse(f"__Bc_pressureload: structure not recognised {pressure}")
    disp = {name: _dispatch(simu, name) for name in ("add_lineLoad", "add_surfLoad", "add_volumeLoad")}
    beam = _functions(os.path.join(repo, "EasyFEA", "Simulations", "_beam.py"), "Beam")
    bl = beam.get("add_lineLoad")
    if bl is None:
        raise Refuse("Beam.add_lineLoad not found")
    return dict(gauss=gauss, nodal=nodal, axes=axes, dispatch=disp, beam=_einsums(bl))


def _lst(eins):
    return "[" + ", ".join('"' + s + '"' for s, _ in eins) + "]"


def write(repo: str, outdir: str) -> dict:
    d = extract(repo)
    os.makedirs(outdir, exist_ok=True)
    rows = []
    for name, rs in d["dispatch"].items():
        for (md, idim, th) in rs:
            rows.append(f'("{name}", {md}, {idim}, {"true" if th else "false"})')
    txt = f"""-- GENERATED by tools/py2lean/gen_c09.py from /repo/EasyFEA/Simulations/_simu.py and _beam.py — do not edit
namespace EasyFEAVerif.Gen.C09

/-- einsum subscripts of `__Bc_Integration_Dim`, branch "constant or callable" (density at the Gauss points) -/
def gaussEinsums : List String := {_lst(d['gauss'])}
/-- operands of those einsums -/
def gaussOperands : List (List String) := [{", ".join("[" + ", ".join('"' + o + '"' for o in ops) + "]" for _, ops in d['gauss'])}]
/-- einsum subscripts of the branch "nodal array" -/
def nodalEinsums : List String := {_lst(d['nodal'])}
def nodalOperands : List (List String) := [{", ".join("[" + ", ".join('"' + o + '"' for o in ops) + "]" for _, ops in d['nodal'])}]
/-- axes of the `np.sum` reductions of `__Bc_Integration_Dim` -/
def sumAxes : List Nat := {d['axes']}
/-- (function, mesh dimension (0 = any), dimension of the element groups integrated, multiplied by the thickness) -/
def dispatch : List (String × Nat × Nat × Bool) := [{", ".join(rows)}]
/-- einsum subscripts of `Beam.add_lineLoad` -/
def beamEinsums : List String := {_lst(d['beam'])}

end EasyFEAVerif.Gen.C09
"""
    _write_if_changed(os.path.join(outdir, "Spec.lean"), txt)
    jf = jacobian_forms(repo)
    q = lambda t: '"' + t.replace('"', "'").replace("\n", "\\n") + '"'  # noqa: E731
    _write_if_changed(os.path.join(outdir, "Jacobian.lean"),
                      "-- GENERATED by tools/py2lean/gen_c09.py from /repo/EasyFEA/FEM/_group_elem.py — do not edit\nnamespace EasyFEAVerif.Gen.C09\n\n"
                      "/-- the statements by which an element group computes its Jacobians and weighted Jacobians (matched against the source) -/\n"
                      "def jacobianForms : List (String × List String) := [\n  "
                      + ",\n  ".join("(" + q(k) + ", [" + ", ".join(q(x) for x in v) + "])" for k, v in jf.items()) + "]\n\nend EasyFEAVerif.Gen.C09\n")
    d = dict(d)
    d["jacobianForms"] = list(jf)
    return d




def jacobian_forms(repo):
    """statement-level: the measure of an element group (Props/C09Curved.lean is written from these statements)"""
    from .gen_c08 import _need
    fns = _functions(os.path.join(repo, "EasyFEA", "FEM", "_group_elem.py"), "_GroupElem")
    jac, wj = fns.get("Get_jacobian_e_pg"), fns.get("Get_weightedJacobian_e_pg")
    if jac is None or wj is None:
        raise Refuse("Get_jacobian_e_pg / Get_weightedJacobian_e_pg not found")
    tests = [ast.unparse(n.test) for n in ast.walk(jac) if isinstance(n, ast.If)]
    if tests not in (["self.dim == 0", "self.dim != self.inDim and (self.order > 1 or self.nPe > self.dim + 1)", "absoluteValues"],):
        raise Refuse(f"Get_jacobian_e_pg: branch tests {tests}")
    return {
        "Get_jacobian_e_pg": _need(jac, ["F_e_pg = self.Get_F_e_pg(matrixType)", "jacobian_e_pg = FeArray.asfearray(Det(F_e_pg))", "coord_e = self.coord[connect]",
                                          "tangents_e_pg = np.einsum('pdn,eni->epdi', self.Get_dN_pg(matrixType), coord_e, optimize='optimal')",
                                          "metric_e_pg = np.linalg.det(tangents_e_pg @ np.swapaxes(tangents_e_pg, -1, -2))", "sign_e_pg = np.where(np.asarray(jacobian_e_pg) < 0, -1.0, 1.0)",
                                          "jacobian_e_pg = FeArray.asfearray(sign_e_pg * np.sqrt(np.abs(metric_e_pg)))", "jacobian_e_pg = np.abs(jacobian_e_pg)", "return jacobian_e_pg"], "_GroupElem.Get_jacobian_e_pg")
        + ["if self.dim != self.inDim and (self.order > 1 or self.nPe > self.dim + 1)", "if absoluteValues"],
        "Get_weightedJacobian_e_pg": _need(wj, ["jacobian_e_pg = self.Get_jacobian_e_pg(matrixType)", "weight_pg = self.Get_weight_pg(matrixType)", "wJ_e_pg = np.asarray(jacobian_e_pg) * weight_pg",
                                                  "return FeArray.asfearray(wJ_e_pg)"], "_GroupElem.Get_weightedJacobian_e_pg"),
    }


if __name__ == "__main__":
    import sys, json

    print(json.dumps(write(sys.argv[1], sys.argv[2]), default=str, indent=1))
