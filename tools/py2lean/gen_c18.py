"""Translator for property C18.
(1) Invariants of `HyperElasticState` (EasyFEA/Models/HyperElastic/_state.py): I1, I2, I3 as polynomials in the six
    components (cxx, cyy, czz, cyz, cxz, cxy) of C, the Kelvin-Mandel gradient tables dIk/dC and Hessian tables d2Ik/dC
    (each entry: a polynomial times √2^k, k read from the source).
(2) Laws NeoHookean, MooneyRivlin, SaintVenantKirchhoff (`_laws.py`): W, dWdIk, d2WdIkdIl as Laurent polynomials in
    (I1, I2, w) with w = I3^(1/6)  (so I3 = w^6, sqrt(I3) = w^3, I3^(p/3) = w^(2p)), numerator / w^m, and the way the
    derivatives are combined (`2 * (Σ dWdIk * dIkdC)`, `4 * (Σ dWdIk * d2IkdC) + 4 * (Σ d2WdIkdIl * TensorProd(..))`).
Everything is exact (fractions); anything not recognised is refused."""

from __future__ import annotations

import ast
import os
from fractions import Fraction

from .interp import Refuse
from .gen_c06 import _write_if_changed

# ---------------------------------------------------------------- Laurent polynomials: {exponent tuple: Fraction}


class LP:
    def __init__(self, terms=None, nvars=0):
        self.n = nvars
        self.t = {k: v for k, v in (terms or {}).items() if v != 0}

    @staticmethod
    def const(c, n):
        return LP({(0,) * n: Fraction(c)}, n)

    @staticmethod
    def var(i, n, e=1):
        k = [0] * n
        k[i] = e
        return LP({tuple(k): Fraction(1)}, n)

    def __add__(self, o):
        d = dict(self.t)
        for k, v in o.t.items():
            d[k] = d.get(k, 0) + v
        return LP(d, self.n)

    def __neg__(self):
        return LP({k: -v for k, v in self.t.items()}, self.n)

    def __sub__(self, o):
        return self + (-o)

    def __mul__(self, o):
        d = {}
        for k1, v1 in self.t.items():
            for k2, v2 in o.t.items():
                k = tuple(a + b for a, b in zip(k1, k2))
                d[k] = d.get(k, 0) + v1 * v2
        return LP(d, self.n)

    def inv(self):
        if len(self.t) != 1:
            raise Refuse("division by a sum")
        (k, v), = self.t.items()
        return LP({tuple(-a for a in k): 1 / v}, self.n)

    def pow(self, e):
        if len(self.t) == 1:
            (k, v), = self.t.items()
            ke = tuple(a * e for a in k)
            if any(x.denominator != 1 for x in ke):
                raise Refuse("fractional power not expressible with w = I3^(1/6)")
            if Fraction(e).denominator != 1:
                if v != 1:
                    raise Refuse("fractional power of a coefficient")
                return LP({tuple(int(x) for x in ke): Fraction(1)}, self.n)
            return LP({tuple(int(x) for x in ke): v ** int(e)}, self.n)
        if Fraction(e).denominator != 1 or e < 0:
            raise Refuse("non-integer power of a sum")
        r = LP.const(1, self.n)
        for _ in range(int(e)):
            r = r * self
        return r


def _num(node):
    if isinstance(node, ast.Constant) and isinstance(node.value, (int, float)):
        return Fraction(str(node.value))
    if isinstance(node, ast.BinOp) and isinstance(node.op, ast.Div):
        a, b = _num(node.left), _num(node.right)
        if a is not None and b is not None:
            return a / b
    if isinstance(node, ast.UnaryOp) and isinstance(node.op, ast.USub):
        a = _num(node.operand)
        return -a if a is not None else None
    return None


def lp_of(node, env, n):
    c = _num(node)
    if c is not None:
        return LP.const(c, n)
    if isinstance(node, ast.Name):
        if node.id not in env:
            raise Refuse(f"unknown name {node.id}")
        return env[node.id]
    if isinstance(node, ast.UnaryOp) and isinstance(node.op, ast.USub):
        return -lp_of(node.operand, env, n)
    if isinstance(node, ast.BinOp):
        if isinstance(node.op, ast.Pow):
            e = _num(node.right)
            if e is None:
                raise Refuse("symbolic exponent")
            return lp_of(node.left, env, n).pow(e)
        a, b = lp_of(node.left, env, n), lp_of(node.right, env, n)
        if isinstance(node.op, ast.Add):
            return a + b
        if isinstance(node.op, ast.Sub):
            return a - b
        if isinstance(node.op, ast.Mult):
            return a * b
        if isinstance(node.op, ast.Div):
            return a * b.inv()
    if isinstance(node, ast.Call) and ast.unparse(node.func) == "np.sqrt" and len(node.args) == 1:
        return lp_of(node.args[0], env, n).pow(Fraction(1, 2))
    if isinstance(node, ast.Call) and ast.unparse(node.func) == "np.log" and len(node.args) == 1 and "__logw__" in env:
        # log of a pure power of w: log(w^k) = k log w, with `log w` carried as the pseudo-variable env['__logw__']
        a = lp_of(node.args[0], env, n)
        wv, lv = env["__w__"], env["__logw__"]
        if len(a.t) != 1:
            raise Refuse("log of a sum")
        (k, v), = a.t.items()
        if v != 1 or any(e != 0 for i, e in enumerate(k) if i != wv):
            raise Refuse("log of something else than a power of I3")
        return LP.var(lv, n) * LP.const(k[wv], n)
    raise Refuse(f"unsupported expression {ast.unparse(node)}")


def pexpr(lp, wvar=None):
    """(PExpr text of the numerator, m) with lp = numerator / w^m (m >= 0)"""
    m = 0
    if wvar is not None and lp.t:
        m = max(0, -min(k[wvar] for k in lp.t))
    terms = []
    for k, v in sorted(lp.t.items()):
        k = list(k)
        if wvar is not None:
            k[wvar] += m
        fac = [f"(.const ({v.numerator} / {v.denominator}))"]
        for i, e in enumerate(k):
            if e < 0:
                raise Refuse("negative power of a variable other than w")
            if e == 1:
                fac.append(f"(.var {i})")
            elif e > 1:
                fac.append(f"(.pow (.var {i}) {e})")
        t = fac[0]
        for f in fac[1:]:
            t = f"(.mul {t} {f})"
        terms.append(t)
    if not terms:
        return "(.const 0)", 0
    out = terms[0]
    for t in terms[1:]:
        out = f"(.add {out} {t})"
    return out, m


def _cls(tree, name):
    c = next((n for n in tree.body if isinstance(n, ast.ClassDef) and n.name == name), None)
    if c is None:
        raise Refuse(f"class {name} not found")
    return {f.name: f for f in c.body if isinstance(f, ast.FunctionDef)}


def _assigns(fn):
    return [s for s in fn.body if isinstance(s, ast.Assign) and len(s.targets) == 1]


# ---------------------------------------------------------------- invariants

CVARS = ["cxx", "cyy", "czz", "cyz", "cxz", "cxy"]   # variable order = Kelvin-Mandel order of the code


def invariants(repo):
    tree = ast.parse(open(os.path.join(repo, "EasyFEA", "Models", "HyperElastic", "_state.py"), encoding="utf-8").read())
    fns = _cls(tree, "HyperElasticState")
    n = 6
    env = {v: LP.var(i, n) for i, v in enumerate(CVARS)}
    out = {}
    unpack = {"I1": "(cxx, _, _, _, cyy, _, _, _, czz)", "I2": "(cxx, cxy, cxz, _, cyy, cyz, _, _, czz)", "I3": "(cxx, cxy, cxz, _, cyy, cyz, _, _, czz)"}
    for k in ("I1", "I2", "I3"):
        fn = fns.get(f"Compute_{k}")
        if fn is None:
            raise Refuse(f"Compute_{k} not found")
        tup = [s for s in _assigns(fn) if isinstance(s.targets[0], ast.Tuple)]
        if not tup or ast.unparse(tup[0].targets[0]) != unpack[k] or ast.unparse(tup[0].value) != "self._Compute_C()":
            raise Refuse(f"Compute_{k}: unpacking of C not recognised")
        val = [s for s in _assigns(fn) if ast.unparse(s.targets[0]) == f"{k}_e_pg"]
        if len(val) != 1:
            raise Refuse(f"Compute_{k}: value not found")
        out[k] = lp_of(val[0].value, env, n)
    # gradients: list of (polynomial, power of sqrt2)
    grads, hess = {}, {}
    # I1
    g1 = fns["Compute_dI1dC"]
    if "dI1dC = np.array([1, 1, 1, 0, 0, 0])" not in [ast.unparse(s) for s in g1.body]:
        raise Refuse("Compute_dI1dC not recognised")
    grads["I1"] = [(LP.const(c, n), 0) for c in (1, 1, 1, 0, 0, 0)]
    if "return self._Slice_Matrix(FeArray.zeros(1, 1, 6, 6))" not in [ast.unparse(s) for s in fns["Compute_d2I1dC"].body]:
        raise Refuse("Compute_d2I1dC not recognised")
    hess["I1"] = [[(LP.const(0, n), 0)] * 6 for _ in range(6)]

    def table_entries(fn, name, ndim):
        coefs = {}
        ent = {}
        for s in ast.walk(fn):
            if not isinstance(s, ast.Assign):
                continue
            for tgt in s.targets:
                if isinstance(tgt, ast.Name) and tgt.id in ("coef", "c"):
                    src = ast.unparse(s.value)
                    if src == "np.sqrt(2)":
                        coefs[tgt.id] = (1, 1)
                    elif src == "-np.sqrt(2)":
                        coefs[tgt.id] = (-1, 1)
                    else:
                        raise Refuse(f"{name}: coefficient {src}")
        for s in ast.walk(fn):
            if not isinstance(s, ast.Assign):
                continue
            for tgt in s.targets:
                if isinstance(tgt, ast.Subscript) and ast.unparse(tgt.value) == name:
                    idx = tgt.slice.elts
                    pos = tuple(int(i.value) for i in idx[2:])
                    if len(pos) != ndim:
                        raise Refuse(f"{name}: index {ast.unparse(tgt)}")
                    v = s.value
                    sign, p2 = 1, 0
                    if isinstance(v, ast.BinOp) and isinstance(v.op, ast.Mult) and isinstance(v.left, ast.Name) and v.left.id in coefs:
                        sign, p2 = coefs[v.left.id]
                        v = v.right
                    lp = lp_of(v, env, n)
                    ent[pos] = (lp if sign == 1 else -lp, p2)
        return ent

    for k in ("I2", "I3"):
        e = table_entries(fns[f"Compute_d{k}dC"], f"d{k}dC_e_pg", 1)
        if sorted(e) != [(i,) for i in range(6)]:
            raise Refuse(f"Compute_d{k}dC: entries {sorted(e)}")
        grads[k] = [e[(i,)] for i in range(6)]
    h2 = fns["Compute_d2I2dC"]
    arr = next((s for s in _assigns(h2) if ast.unparse(s.targets[0]) == "d2I2dC"), None)
    if arr is None or not (isinstance(arr.value, ast.Call) and ast.unparse(arr.value.func) == "np.array"):
        raise Refuse("Compute_d2I2dC not recognised")
    rows = [[_num(x) for x in r.elts] for r in arr.value.args[0].elts]
    hess["I2"] = [[(LP.const(c, n), 0) for c in r] for r in rows]
    e = table_entries(fns["Compute_d2I3dC"], "d2I3dC_e_pg", 2)
    hess["I3"] = [[e.get((i, j), (LP.const(0, n), 0)) for j in range(6)] for i in range(6)]
    return out, grads, hess


# ---------------------------------------------------------------- laws

LAWS = {"NeoHookean": ["K"], "MooneyRivlin": ["K1", "K2", "K"], "SaintVenantKirchhoff": ["lmbda", "mu", "K"], "CiarletGeymonat": ["K1", "K2", "K"]}
LOG_LAWS = {"CiarletGeymonat"}     # W contains a term  c · log(w)  (c a polynomial in the parameters)
COMBINE1 = {"NeoHookean": "dW = 2 * (dWdI1 * dI1dC + dWdI3 * dI3dC)", "MooneyRivlin": "dW = 2 * (dWdI1 * dI1dC + dWdI2 * dI2dC + dWdI3 * dI3dC)",
            "SaintVenantKirchhoff": "dW = 2 * (dWdI1 * dI1dC + dWdI2 * dI2dC + dWdI3 * dI3dC)",
            "CiarletGeymonat": "dW = 2 * (dWdI1 * dI1dC + dWdI2 * dI2dC + dWdI3 * dI3dC)"}
COMBINE2 = {
    "NeoHookean": "d2W = 4 * (dWdI1 * d2I1dC + dWdI3 * d2I3dC) + 4 * (d2WdI1dI3 * TensorProd(dI1dC, dI3dC) + d2WdI3dI1 * TensorProd(dI3dC, dI1dC) + d2WdI3dI3 * TensorProd(dI3dC, dI3dC))",
    "MooneyRivlin": "d2W = 4 * (dWdI1 * d2I1dC + dWdI2 * d2I2dC + dWdI3 * d2I3dC) + 4 * (d2WdI1dI3 * TensorProd(dI1dC, dI3dC) + d2WdI2dI3 * TensorProd(dI2dC, dI3dC) + d2WdI3dI1 * TensorProd(dI3dC, dI1dC) + d2WdI3dI2 * TensorProd(dI3dC, dI2dC) + d2WdI3dI3 * TensorProd(dI3dC, dI3dC))",
    "SaintVenantKirchhoff": "d2W = 4 * (dWdI1 * d2I1dC + dWdI2 * d2I2dC + dWdI3 * d2I3dC) + 4 * (d2WdI1dI1 * TensorProd(dI1dC, dI1dC) + d2WdI3dI3 * TensorProd(dI3dC, dI3dC))",
    "CiarletGeymonat": "d2W = 4 * (dWdI1 * d2I1dC + dWdI2 * d2I2dC + dWdI3 * d2I3dC) + 4 * (d2WdI1dI3 * TensorProd(dI1dC, dI3dC) + d2WdI2dI3 * TensorProd(dI2dC, dI3dC) + d2WdI3dI1 * TensorProd(dI3dC, dI1dC) + d2WdI3dI2 * TensorProd(dI3dC, dI2dC) + d2WdI3dI3 * TensorProd(dI3dC, dI3dC))",
}


def laws(repo):
    tree = ast.parse(open(os.path.join(repo, "EasyFEA", "Models", "HyperElastic", "_laws.py"), encoding="utf-8").read())
    out = {}
    for law, params in LAWS.items():
        fns = _cls(tree, law)
        names = ["I1", "I2", "w"] + params
        n = len(names) + (1 if law in LOG_LAWS else 0)      # the last variable of a log law is the pseudo-variable log w
        env = {nm: LP.var(i, n) for i, nm in enumerate(names)}
        env["I3"] = LP.var(2, n, 6)
        del env["w"]
        if law in LOG_LAWS:
            env["__w__"], env["__logw__"] = 2, n - 1
        d = {}
        for fname in ("Compute_W", "Compute_dWde", "Compute_d2Wde"):
            fn = fns.get(fname)
            if fn is None:
                raise Refuse(f"{law}.{fname} not found")
            for s in _assigns(fn):
                t = ast.unparse(s.targets[0])
                if t == "W" or t.startswith("dWdI") or t.startswith("d2WdI"):
                    lp = lp_of(s.value, env, n)
                    if t in d and d[t].t != lp.t:
                        raise Refuse(f"{law}: {t} defined twice with different values")
                    d[t] = lp
            src = [ast.unparse(s) for s in fn.body]
            if fname == "Compute_dWde" and COMBINE1[law] not in src:
                raise Refuse(f"{law}.Compute_dWde: combination of the derivatives not recognised")
            if fname == "Compute_d2Wde" and COMBINE2[law] not in src:
                raise Refuse(f"{law}.Compute_d2Wde: combination of the derivatives not recognised")
        if "W" not in d:
            raise Refuse(f"{law}: W not found")
        if law in LOG_LAWS:
            lv = n - 1
            for key, lp in list(d.items()):
                degs = {k[lv] for k in lp.t}
                if key != "W":
                    if degs - {0}:
                        raise Refuse(f"{law}: {key} contains a logarithm")
                    d[key] = LP({k[:lv]: v for k, v in lp.t.items()}, n - 1)
                    continue
                if degs - {0, 1}:
                    raise Refuse(f"{law}: W is not affine in log(w)")
                logc = {k[:lv]: v for k, v in lp.t.items() if k[lv] == 1}
                if any(k[0] or k[1] or k[2] for k in logc):
                    raise Refuse(f"{law}: the coefficient of log(w) depends on the invariants")
                d["W"] = LP({k[:lv]: v for k, v in lp.t.items() if k[lv] == 0}, n - 1)
                d["__Wlog__"] = LP(logc, n - 1)
        out[law] = (names, d)
    return out


def _pair(lp, wvar=None):
    e, m = pexpr(lp, wvar)
    return f"({e}, {m})"


def write(repo: str, outdir: str) -> dict:
    inv, grads, hess = invariants(repo)
    lw = laws(repo)
    os.makedirs(outdir, exist_ok=True)
    L = ["-- GENERATED by tools/py2lean/gen_c18.py from /repo/EasyFEA/Models/HyperElastic/_state.py and _laws.py — do not edit",
         "import EasyFEAVerif.Model.PExpr", "namespace EasyFEAVerif.Gen.C18", "open EasyFEAVerif", "",
         "/-- invariants as polynomials in (cxx, cyy, czz, cyz, cxz, cxy) = variables 0..5 -/"]
    for k in ("I1", "I2", "I3"):
        L.append(f"def {k} : PExpr := {pexpr(inv[k])[0]}")
    L.append("\n/-- Kelvin–Mandel gradient tables `dIk/dC`: (polynomial, k) meaning polynomial·√2^k -/")
    for k in ("I1", "I2", "I3"):
        L.append(f"def d{k} : List (PExpr × Nat) := [" + ", ".join(f"({pexpr(p)[0]}, {q})" for p, q in grads[k]) + "]")
    L.append("\n/-- Hessian tables `d²Ik/dC²` -/")
    for k in ("I1", "I2", "I3"):
        L.append(f"def d2{k} : List (List (PExpr × Nat)) := [" + ",\n  ".join("[" + ", ".join(f"({pexpr(p)[0]}, {q})" for p, q in row) + "]" for row in hess[k]) + "]")
    L.append("\n-- laws: variables 0 = I1, 1 = I2, 2 = w = I3^(1/6), then the parameters; an entry `(P, m)` means `P / w^m`")
    summary = {}
    for law, (names, d) in lw.items():
        L.append(f"/-- {law}: variables {', '.join(f'{i} = {nm}' for i, nm in enumerate(names))} -/")
        L.append(f"def {law}_W : PExpr × Nat := {_pair(d['W'], 2)}")
        if "__Wlog__" in d:
            L.append(f"/-- coefficient of `log w` in the energy of {law} (the energy is `{law}_W + {law}_Wlog · log w`) -/")
            L.append(f"def {law}_Wlog : PExpr := {pexpr(d['__Wlog__'])[0]}")
        firsts = [d.get(f"dWdI{i}", LP.const(0, len(names))) for i in (1, 2, 3)]
        L.append(f"def {law}_dW : List (PExpr × Nat) := [" + ", ".join(_pair(f, 2) for f in firsts) + "]")
        rows = []
        present = []
        for a in (1, 2, 3):
            row = []
            for b in (1, 2, 3):
                key = f"d2WdI{a}dI{b}"
                if key in d and not key.startswith("__"):
                    present.append(key)
                row.append(_pair(d.get(key, LP.const(0, len(names))), 2))
            rows.append("[" + ", ".join(row) + "]")
        L.append(f"def {law}_d2W : List (List (PExpr × Nat)) := [" + ",\n  ".join(rows) + "]")
        L.append(f"def {law}_nparams : Nat := {len(names) - 3}\n")
        summary[law] = dict(variables=names, second_derivatives_written=present)
    L.append("end EasyFEAVerif.Gen.C18\n")
    _write_if_changed(os.path.join(outdir, "Laws.lean"), "\n".join(L))
    return summary


if __name__ == "__main__":
    import sys, json

    print(json.dumps(write(sys.argv[1], sys.argv[2]), indent=1))
