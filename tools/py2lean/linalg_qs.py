"""Exact linear algebra over Q(sqrt d) (QS numbers): particular solutions of linear systems.
Untrusted: everything produced here is a certificate re-checked by the Lean kernel."""

from __future__ import annotations

from .qsqrt import QS


def solve_any(A, B):
    """Returns X with A X = B (A: r x c, B: r x k, lists of rows of QS), any particular
    solution (free variables = 0), or None if the system is inconsistent."""
    r, c = len(A), len(A[0])
    k = len(B[0])
    M = [list(A[i]) + list(B[i]) for i in range(r)]
    piv_cols = []
    row = 0
    for col in range(c):
        p = None
        for i in range(row, r):
            if not M[i][col].is_zero():
                p = i
                break
        if p is None:
            continue
        M[row], M[p] = M[p], M[row]
        inv = M[row][col].inv()
        M[row] = [v * inv for v in M[row]]
        for i in range(r):
            if i != row and not M[i][col].is_zero():
                f = M[i][col]
                M[i] = [a - f * b for a, b in zip(M[i], M[row])]
        piv_cols.append(col)
        row += 1
        if row == r:
            break
    for i in range(row, r):
        if any(not v.is_zero() for v in M[i][c:]):
            return None
    X = [[QS(0) for _ in range(k)] for _ in range(c)]
    for i, col in enumerate(piv_cols):
        X[col] = M[i][c:]
    return X, len(piv_cols)


def transpose(A):
    return [list(x) for x in zip(*A)]


def left_cert(E, T):
    """L with L E = T  (E: m x n, T: n x n) or None. Solves E^T L^T = T^T."""
    res = solve_any(transpose(E), transpose(T))
    if res is None:
        return None, None
    Lt, rank = res
    return transpose(Lt), rank


def null_vector(E):
    """A non-zero x with E x = 0 (E: m x n), or None if E has full column rank."""
    m, n = len(E), len(E[0])
    M = [list(r) for r in E]
    piv = {}
    row = 0
    for col in range(n):
        p = None
        for i in range(row, m):
            if not M[i][col].is_zero():
                p = i
                break
        if p is None:
            continue
        M[row], M[p] = M[p], M[row]
        inv = M[row][col].inv()
        M[row] = [v * inv for v in M[row]]
        for i in range(m):
            if i != row and not M[i][col].is_zero():
                f = M[i][col]
                M[i] = [a - f * b for a, b in zip(M[i], M[row])]
        piv[col] = row
        row += 1
        if row == m:
            break
    free = [c for c in range(n) if c not in piv]
    if not free:
        return None
    f = free[0]
    x = [QS(0) for _ in range(n)]
    x[f] = QS(1)
    for col, r in piv.items():
        x[col] = QS(0) - M[r][f]
    return x
