"""Exact arithmetic in Q(sqrt d) and normalisation of Sym constants to a + b sqrt(d)."""

from __future__ import annotations

import math
from fractions import Fraction

from .interp import Sym, Refuse


def squarefree_split(n: int):
    """n = s*s*r with r squarefree; returns (s, r)."""
    assert n > 0
    s, r = 1, 1
    p = 2
    while p * p <= n:
        c = 0
        while n % p == 0:
            n //= p
            c += 1
        s *= p ** (c // 2)
        if c % 2:
            r *= p
        p += 1
    r *= n
    return s, r


class QS:
    """a + b*sqrt(d), d squarefree (d == 1 means rational, then b == 0)."""

    __slots__ = ("a", "b", "d")

    def __init__(self, a, b=0, d=1):
        self.a, self.b, self.d = Fraction(a), Fraction(b), d
        if self.b == 0:
            self.d = 1
        if self.d == 1:
            self.a += self.b if False else 0
            self.b = Fraction(0)

    def _d(self, o):
        if self.d == 1:
            return o.d
        if o.d == 1 or o.d == self.d:
            return self.d
        raise Refuse(f"numbers of one rule live in different fields: sqrt({self.d}) and sqrt({o.d})")

    def __add__(self, o):
        return QS(self.a + o.a, self.b + o.b, self._d(o))

    def __sub__(self, o):
        return QS(self.a - o.a, self.b - o.b, self._d(o))

    def __neg__(self):
        return QS(-self.a, -self.b, self.d)

    def __mul__(self, o):
        d = self._d(o)
        return QS(self.a * o.a + d * self.b * o.b, self.a * o.b + self.b * o.a, d)

    def inv(self):
        n = self.a * self.a - self.d * self.b * self.b
        if n == 0:
            raise Refuse("division by zero in Q(sqrt d)")
        return QS(self.a / n, -self.b / n, self.d)

    def __truediv__(self, o):
        return self * o.inv()

    def __pow__(self, n: int):
        r = QS(1)
        for _ in range(n):
            r = r * self
        return r

    def __eq__(self, o):
        return self.a == o.a and self.b == o.b and (self.b == 0 or self.d == o.d)

    def __hash__(self):
        return hash((self.a, self.b, self.d if self.b else 1))

    def is_zero(self):
        return self.a == 0 and self.b == 0

    def sign(self) -> int:
        a, b, d = self.a, self.b, self.d
        if a >= 0 and b >= 0:
            return 0 if (a == 0 and b == 0) else 1
        if a <= 0 and b <= 0:
            return -1
        if a >= 0:  # b < 0
            c = a * a - d * b * b
            return (c > 0) - (c < 0)
        c = d * b * b - a * a
        return (c > 0) - (c < 0)

    def __float__(self):
        return float(self.a) + float(self.b) * math.sqrt(self.d)

    def __repr__(self):
        return f"QS({self.a}, {self.b}, {self.d})"


def sqrt_q(q: Fraction) -> QS:
    if q < 0:
        raise Refuse("sqrt of a negative number")
    if q == 0:
        return QS(0)
    n, m = q.numerator, q.denominator
    s, r = squarefree_split(n * m)  # sqrt(n/m) = sqrt(n m)/m = s sqrt(r)/m
    if r == 1:
        return QS(Fraction(s, m))
    return QS(0, Fraction(s, m), r)


def normalise(s: Sym, ext=None) -> QS:
    """Sym constant -> QS. `ext(name, n, i)` supplies external numbers (leggauss dump)."""
    k = s.t[0]
    if k == "q":
        return QS(s.t[1])
    if k == "ext":
        if ext is None:
            raise Refuse("external number without a provider")
        return QS(ext(*s.t[1:]))
    if k == "add":
        return normalise(s.t[1], ext) + normalise(s.t[2], ext)
    if k == "sub":
        return normalise(s.t[1], ext) - normalise(s.t[2], ext)
    if k == "mul":
        return normalise(s.t[1], ext) * normalise(s.t[2], ext)
    if k == "div":
        return normalise(s.t[1], ext) / normalise(s.t[2], ext)
    if k == "neg":
        return -normalise(s.t[1], ext)
    if k == "pow":
        return normalise(s.t[1], ext) ** s.t[2]
    if k == "sqrt":
        v = normalise(s.t[1], ext)
        if v.b != 0:
            raise Refuse("nested square root")
        return sqrt_q(v.a)
    raise Refuse(f"not an algebraic constant: {k}")
