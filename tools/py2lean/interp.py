"""A small symbolic interpreter for the restricted Python subset in which EasyFEA
writes its tables (shape-function lambdas, quadrature tables, case tables).

It works on the *source text* of /repo (Python `ast`), never imports EasyFEA, and
REFUSES (raises `Refuse`) anything outside the subset: a refusal is reported by
the checks as a broken correspondence, it is never skipped.

Numbers are exact: int -> Fraction, float literal -> the decimal rational it
denotes (the real-number reading of the source), `/` is exact division.
Irrational constants (`np.sqrt(3)`) and variables stay symbolic (`Sym`).
"""

from __future__ import annotations

import ast
import os
from decimal import Decimal
from fractions import Fraction


class Refuse(Exception):
    """The source uses a construct the translator does not understand."""


# --------------------------------------------------------------------------------------
# symbolic scalars
# --------------------------------------------------------------------------------------


class Sym:
    """Expression tree: ('q', Fraction) | ('var', i) | ('add'|'sub'|'mul'|'div', a, b)
    | ('neg', a) | ('pow', a, n:int) | ('sqrt', a) | ('fn', name, a)."""

    __slots__ = ("t",)

    def __init__(self, t):
        self.t = t

    # constructors
    @staticmethod
    def q(v) -> "Sym":
        return Sym(("q", Fraction(v)))

    @staticmethod
    def var(i: int) -> "Sym":
        return Sym(("var", i))

    @property
    def is_q(self) -> bool:
        return self.t[0] == "q"

    @property
    def qv(self) -> Fraction:
        assert self.is_q
        return self.t[1]

    def __repr__(self):
        return f"Sym{self.t!r}"

    def has_var(self) -> bool:
        k = self.t[0]
        if k == "var":
            return True
        if k in ("q", "ext"):
            return False
        if k == "pow":
            return self.t[1].has_var()
        if k == "fn":
            return self.t[2].has_var()
        return any(isinstance(c, Sym) and c.has_var() for c in self.t[1:])

    def is_const(self) -> bool:
        return not self.has_var()


def lift(v) -> Sym:
    if isinstance(v, Sym):
        return v
    if isinstance(v, bool):
        raise Refuse("bool used as number")
    if isinstance(v, (int, Fraction)):
        return Sym.q(v)
    raise Refuse(f"not a scalar: {v!r}")


def s_add(a, b):
    a, b = lift(a), lift(b)
    if a.is_q and b.is_q:
        return Sym.q(a.qv + b.qv)
    return Sym(("add", a, b))


def s_sub(a, b):
    a, b = lift(a), lift(b)
    if a.is_q and b.is_q:
        return Sym.q(a.qv - b.qv)
    return Sym(("sub", a, b))


def s_mul(a, b):
    a, b = lift(a), lift(b)
    if a.is_q and b.is_q:
        return Sym.q(a.qv * b.qv)
    if (a.is_q and a.qv == 0) or (b.is_q and b.qv == 0):
        return Sym.q(0)
    if a.is_q and a.qv == 1:
        return b
    if b.is_q and b.qv == 1:
        return a
    return Sym(("mul", a, b))


def s_div(a, b):
    a, b = lift(a), lift(b)
    if b.is_q:
        if b.qv == 0:
            raise Refuse("division by literal zero")
        if a.is_q:
            return Sym.q(a.qv / b.qv)
    return Sym(("div", a, b))


def s_neg(a):
    a = lift(a)
    if a.is_q:
        return Sym.q(-a.qv)
    return Sym(("neg", a))


def s_pow(a, n):
    a = lift(a)
    n = lift(n)
    if not n.is_q:
        raise Refuse("symbolic exponent")
    e = n.qv
    if e == Fraction(1, 2):
        return s_sqrt(a)
    if e.denominator != 1:
        raise Refuse(f"non-integer exponent {e}")
    e = int(e)
    if a.is_q:
        if e < 0 and a.qv == 0:
            raise Refuse("0 ** negative")
        return Sym.q(a.qv**e)
    if e < 0:
        return Sym(("div", Sym.q(1), Sym(("pow", a, -e))))
    return Sym(("pow", a, e))


def s_sqrt(a):
    a = lift(a)
    if a.is_q:
        v = a.qv
        if v < 0:
            raise Refuse("sqrt of negative")
        import math

        rn, rd = math.isqrt(v.numerator), math.isqrt(v.denominator)
        if rn * rn == v.numerator and rd * rd == v.denominator:
            return Sym.q(Fraction(rn, rd))
    return Sym(("sqrt", a))


def s_fn(name, a):
    return Sym(("fn", name, lift(a)))


# --------------------------------------------------------------------------------------
# values
# --------------------------------------------------------------------------------------


class Closure:
    def __init__(self, params, body, env, interp):
        self.params = params
        self.body = body
        self.env = env
        self.interp = interp

    def __call__(self, *args):
        if len(args) != len(self.params):
            raise Refuse("lambda arity mismatch")
        env = dict(self.env)
        env.update(zip(self.params, args))
        return self.interp.eval(self.body, env)

    def as_sym(self):
        """Body as an expression of Sym.var(0..n-1)."""
        return lift(self(*[Sym.var(i) for i in range(len(self.params))]))


class NDArray:
    """Minimal n-d array: nested python lists + helpers (object dtype)."""

    def __init__(self, data):
        self.data = data

    @property
    def shape(self):
        s = []
        d = self.data
        while isinstance(d, list):
            s.append(len(d))
            if not d:
                break
            d = d[0]
        return tuple(s)

    def flat(self):
        out = []

        def rec(d):
            if isinstance(d, list):
                for x in d:
                    rec(x)
            else:
                out.append(d)

        rec(self.data)
        return out

    def reshape(self, shape):
        flat = self.flat()
        shape = list(shape)
        n = len(flat)
        if shape.count(-1) > 1:
            raise Refuse("reshape with several -1")
        known = 1
        for s in shape:
            if s != -1:
                known *= s
        if -1 in shape:
            if known == 0 or n % known:
                raise Refuse("bad reshape")
            shape[shape.index(-1)] = n // known
        else:
            if known != n:
                raise Refuse("bad reshape")

        def build(fl, sh):
            if len(sh) == 1:
                return list(fl)
            step = len(fl) // sh[0] if sh[0] else 0
            return [build(fl[i * step : (i + 1) * step], sh[1:]) for i in range(sh[0])]

        return NDArray(build(flat, shape))

    @property
    def T(self):
        sh = self.shape
        if len(sh) == 1:
            return self
        if len(sh) != 2:
            raise Refuse("transpose of rank != 2")
        return NDArray([[self.data[i][j] for i in range(sh[0])] for j in range(sh[1])])


def to_nested(v):
    """np.array(...) argument -> nested lists (rectangular)."""
    if isinstance(v, NDArray):
        return v.data
    if isinstance(v, (list, tuple)):
        items = [to_nested(x) for x in v]
        shapes = {_shape_of(x) for x in items}
        if len(shapes) > 1:
            raise Refuse("ragged np.array")
        return items
    return v


def _shape_of(d):
    s = []
    while isinstance(d, list):
        s.append(len(d))
        if not d:
            break
        d = d[0]
    return tuple(s)


# --------------------------------------------------------------------------------------
# source model
# --------------------------------------------------------------------------------------


class ClassInfo:
    def __init__(self, name, bases, methods, props, assigns, module):
        self.name = name
        self.bases = bases
        self.methods = methods  # name -> FunctionDef
        self.props = props  # set of names that are @property
        self.assigns = assigns  # class-level name -> expr
        self.module = module


class ModuleInfo:
    def __init__(self, path):
        self.path = path
        with open(path, encoding="utf-8") as f:
            self.source = f.read()
        self.tree = ast.parse(self.source, filename=path)
        self.classes: dict[str, ClassInfo] = {}
        self.functions: dict[str, ast.FunctionDef] = {}
        self.assigns: dict[str, ast.expr] = {}
        for node in self.tree.body:
            if isinstance(node, ast.ClassDef):
                self.classes[node.name] = self._class(node)
            elif isinstance(node, ast.FunctionDef):
                self.functions[node.name] = node
            elif isinstance(node, ast.Assign) and len(node.targets) == 1:
                t = node.targets[0]
                if isinstance(t, ast.Name):
                    self.assigns[t.id] = node.value
            elif isinstance(node, ast.AnnAssign) and isinstance(node.target, ast.Name):
                if node.value is not None:
                    self.assigns[node.target.id] = node.value

    def _class(self, node: ast.ClassDef) -> ClassInfo:
        bases = []
        for b in node.bases:
            if isinstance(b, ast.Name):
                bases.append(b.id)
            elif isinstance(b, ast.Attribute):
                bases.append(b.attr)
            else:
                bases.append(ast.dump(b))
        methods, props, assigns = {}, set(), {}
        for n in node.body:
            if isinstance(n, ast.FunctionDef):
                decos = [ast.unparse(d) for d in n.decorator_list]
                if any(d.endswith(".setter") for d in decos):
                    continue
                methods[n.name] = n
                if "property" in decos:
                    props.add(n.name)
            elif isinstance(n, ast.Assign) and len(n.targets) == 1:
                if isinstance(n.targets[0], ast.Name):
                    assigns[n.targets[0].id] = n.value
            elif isinstance(n, ast.AnnAssign) and isinstance(n.target, ast.Name):
                if n.value is not None:
                    assigns[n.target.id] = n.value
        return ClassInfo(node.name, bases, methods, props, assigns, self)


class Obj:
    """A symbolic instance: class + attribute dictionary."""

    def __init__(self, cls: ClassInfo, attrs: dict):
        self.cls = cls
        self.attrs = attrs


class _Return(Exception):
    def __init__(self, v):
        self.v = v


class Interp:
    def __init__(self, modules: list[ModuleInfo]):
        self.modules = modules
        self.classes: dict[str, ClassInfo] = {}
        for m in modules:
            for k, c in m.classes.items():
                self.classes[k] = c
        self.steps = 0
        self.call_log = []

    # ---- class resolution (C3 linearisation restricted to known classes) ----
    def mro(self, cls: ClassInfo) -> list[ClassInfo]:
        def lin(c):
            bases = [self.classes[b] for b in c.bases if b in self.classes]
            seqs = [lin(b) for b in bases] + [bases]
            res = [c]
            while True:
                seqs = [s for s in seqs if s]
                if not seqs:
                    return res
                for s in seqs:
                    cand = s[0]
                    if not any(cand in t[1:] for t in seqs):
                        break
                else:
                    raise Refuse("inconsistent MRO")
                res.append(cand)
                for s in seqs:
                    if s and s[0] is cand:
                        del s[0]

        return lin(cls)

    def find_method(self, cls: ClassInfo, name: str, after: ClassInfo | None = None):
        m = self.mro(cls)
        if after is not None:
            m = m[m.index(after) + 1 :]
        for c in m:
            if name in c.methods:
                return c, c.methods[name]
        raise Refuse(f"method {name} not found for {cls.name}")

    def call_method(self, obj: Obj, name: str, args=(), after: ClassInfo | None = None):
        owner, fn = self.find_method(obj.cls, name, after)
        params = [a.arg for a in fn.args.args]
        if not params or params[0] != "self":
            raise Refuse(f"{name}: not an instance method")
        env = {"self": obj, "__class__": owner}
        pnames = params[1:]
        defaults = fn.args.defaults
        ndef = len(defaults)
        for i, p in enumerate(pnames):
            if i < len(args):
                env[p] = args[i]
            else:
                j = i - (len(pnames) - ndef)
                if j < 0:
                    raise Refuse(f"{name}: missing argument {p}")
                env[p] = self.eval(defaults[j], env)
        return self.run_body(fn.body, env)

    def call_function(self, module: ModuleInfo, name: str, args=(), kwargs=None):
        fn = module.functions[name]
        env = {"__module__": module}
        pnames = [a.arg for a in fn.args.args]
        defaults = fn.args.defaults
        ndef = len(defaults)
        kwargs = kwargs or {}
        for i, p in enumerate(pnames):
            if i < len(args):
                env[p] = args[i]
            elif p in kwargs:
                env[p] = kwargs[p]
            else:
                j = i - (len(pnames) - ndef)
                if j < 0:
                    raise Refuse(f"{name}: missing argument {p}")
                env[p] = self.eval(defaults[j], env)
        return self.run_body(fn.body, env)

    def run_body(self, body, env):
        try:
            self.exec_block(body, env)
        except _Return as r:
            return r.v
        return None

    # ---- statements ----
    def exec_block(self, stmts, env):
        for s in stmts:
            self.exec(s, env)

    def exec(self, s, env):
        self.steps += 1
        if self.steps > 5_000_000:
            raise Refuse("step budget exceeded")
        if isinstance(s, ast.Expr):
            if isinstance(s.value, ast.Constant):
                return  # docstring
            self.eval(s.value, env)
            return
        if isinstance(s, ast.Return):
            raise _Return(None if s.value is None else self.eval(s.value, env))
        if isinstance(s, ast.Assign):
            v = self.eval(s.value, env)
            for t in s.targets:
                self.assign(t, v, env)
            return
        if isinstance(s, ast.AnnAssign):
            if s.value is not None:
                self.assign(s.target, self.eval(s.value, env), env)
            return
        if isinstance(s, ast.AugAssign):
            cur = self.eval(s.target, env)
            v = self.binop(s.op, cur, self.eval(s.value, env))
            self.assign(s.target, v, env)
            return
        if isinstance(s, ast.If):
            if self.truth(self.eval(s.test, env)):
                self.exec_block(s.body, env)
            else:
                self.exec_block(s.orelse, env)
            return
        if isinstance(s, ast.For):
            it = self.eval(s.iter, env)
            for v in self.iterate(it):
                self.assign(s.target, v, env)
                self.exec_block(s.body, env)
            if s.orelse:
                raise Refuse("for-else")
            return
        if isinstance(s, ast.Assert):
            if not self.truth(self.eval(s.test, env)):
                raise Refuse("assertion in source fails symbolically: " + ast.unparse(s.test))
            return
        if isinstance(s, ast.Raise):
            raise Refuse("source raises: " + ast.unparse(s))
        if isinstance(s, ast.Pass):
            return
        raise Refuse("statement not supported: " + type(s).__name__)

    def assign(self, target, v, env):
        if isinstance(target, ast.Name):
            env[target.id] = v
        elif isinstance(target, (ast.Tuple, ast.List)):
            vals = list(self.iterate(v))
            if len(vals) != len(target.elts):
                raise Refuse("unpack length")
            for t, x in zip(target.elts, vals):
                self.assign(t, x, env)
        elif isinstance(target, ast.Subscript):
            cont = self.eval(target.value, env)
            idx = self.eval_index(target.slice, env)
            self.setitem(cont, idx, v)
        elif isinstance(target, ast.Attribute):
            o = self.eval(target.value, env)
            if not isinstance(o, Obj):
                raise Refuse("attribute assignment on non-object")
            o.attrs[target.attr] = v
        else:
            raise Refuse("assignment target")

    def setitem(self, cont, idx, v):
        if isinstance(cont, NDArray):
            cont = cont.data
        if isinstance(cont, dict):
            cont[idx] = v
            return
        if not isinstance(idx, tuple):
            idx = (idx,)
        d = cont
        for i in idx[:-1]:
            if i is Ellipsis:
                continue
            d = d[self.as_int(i)]
        d[self.as_int(idx[-1])] = v

    # ---- expressions ----
    def truth(self, v):
        if isinstance(v, Sym):
            if v.is_q:
                return v.qv != 0
            raise Refuse("truth value of symbolic")
        if isinstance(v, (bool, int, str, list, tuple, dict, type(None))):
            return bool(v)
        if isinstance(v, Fraction):
            return v != 0
        raise Refuse("truth value")

    def as_int(self, v):
        if isinstance(v, bool):
            raise Refuse("bool index")
        if isinstance(v, int):
            return v
        if isinstance(v, Fraction) and v.denominator == 1:
            return int(v)
        if isinstance(v, Sym) and v.is_q and v.qv.denominator == 1:
            return int(v.qv)
        raise Refuse(f"not an int: {v!r}")

    def iterate(self, v):
        if isinstance(v, NDArray):
            return [NDArray(x) if isinstance(x, list) else x for x in v.data]
        if isinstance(v, (list, tuple, range)):
            return list(v)
        if isinstance(v, dict):
            return list(v.keys())
        raise Refuse("not iterable")

    def eval_index(self, sl, env):
        if isinstance(sl, ast.Tuple):
            return tuple(self.eval_index(e, env) for e in sl.elts)
        if isinstance(sl, ast.Slice):
            lo = None if sl.lower is None else self.as_int(self.eval(sl.lower, env))
            hi = None if sl.upper is None else self.as_int(self.eval(sl.upper, env))
            st = None if sl.step is None else self.as_int(self.eval(sl.step, env))
            return slice(lo, hi, st)
        if isinstance(sl, ast.Constant) and sl.value is Ellipsis:
            return Ellipsis
        v = self.eval(sl, env)
        return v

    def binop(self, op, a, b):
        from . import typed as _t

        if isinstance(a, NDArray) or isinstance(b, NDArray):
            def ew(x, y):
                if isinstance(x, list) and isinstance(y, list):
                    if len(x) != len(y):
                        raise Refuse("elementwise operation on arrays of different shapes")
                    return [ew(p, q) for p, q in zip(x, y)]
                if isinstance(x, list):
                    return [ew(p, y) for p in x]
                if isinstance(y, list):
                    return [ew(x, q) for q in y]
                return self.binop(op, x, y)
            xa = a.data if isinstance(a, NDArray) else a
            ya = b.data if isinstance(b, NDArray) else b
            return NDArray(ew(xa, ya))

        if isinstance(a, _t.TE) or isinstance(b, _t.TE):
            if isinstance(op, ast.Add):
                return _t.add(a, b, "add")
            if isinstance(op, ast.Sub):
                return _t.add(a, b, "sub")
            if isinstance(op, ast.Mult):
                return _t.mul(a, b)
            if isinstance(op, ast.Div):
                return _t.div(a, b)
            if isinstance(op, ast.Pow):
                return _t.power(a, b)
            if isinstance(op, ast.MatMult):
                return _t.apply(a, b)
            raise Refuse("operator on typed expressions: " + type(op).__name__)
        if isinstance(op, ast.Add):
            if isinstance(a, (list, tuple)) and isinstance(b, type(a)):
                return a + b
            if isinstance(a, str) and isinstance(b, str):
                return a + b
            return s_add(a, b)
        if isinstance(op, ast.Sub):
            return s_sub(a, b)
        if isinstance(op, ast.Mult):
            if isinstance(a, list) and not isinstance(b, (list, NDArray)):
                return a * self.as_int(b)
            if isinstance(b, list) and not isinstance(a, (list, NDArray)):
                return b * self.as_int(a)
            return s_mul(a, b)
        if isinstance(op, ast.Div):
            return s_div(a, b)
        if isinstance(op, ast.Pow):
            return s_pow(a, b)
        if isinstance(op, ast.FloorDiv):
            return Sym.q(self.as_int(a) // self.as_int(b))
        if isinstance(op, ast.Mod):
            return Sym.q(self.as_int(a) % self.as_int(b))
        raise Refuse("binary operator " + type(op).__name__)

    def eval(self, e, env):
        self.steps += 1
        if isinstance(e, ast.Constant):
            v = e.value
            if isinstance(v, bool) or v is None or isinstance(v, str) or v is Ellipsis:
                return v
            if isinstance(v, int):
                return Sym.q(v)
            if isinstance(v, float):
                # the decimal number written in the source
                mod = self._module_of(env)
                seg = ast.get_source_segment(mod.source, e) if mod is not None else None
                txt = seg.replace("_", "") if seg else repr(v)
                return Sym.q(Fraction(Decimal(txt)))
            raise Refuse("constant " + repr(v))
        if isinstance(e, ast.Name):
            if e.id in env:
                return env[e.id]
            mod = self._module_of(env)
            if mod is not None:
                if e.id in mod.assigns:
                    return self.eval(mod.assigns[e.id], {"__module__": mod})
                if e.id in mod.classes:
                    return mod.classes[e.id]
            if e.id in self.classes:
                return self.classes[e.id]
            if e.id in ("int", "float", "len", "range", "enumerate", "zip", "np", "abs", "max", "min", "sum", "isinstance", "tuple", "list", "str"):
                return ("builtin", e.id)
            raise Refuse("unknown name " + e.id)
        if isinstance(e, ast.BinOp):
            return self.binop(e.op, self.eval(e.left, env), self.eval(e.right, env))
        if isinstance(e, ast.UnaryOp):
            v = self.eval(e.operand, env)
            if isinstance(e.op, ast.USub):
                from . import typed as _t

                if isinstance(v, _t.TE):
                    return _t.neg(v)
                return s_neg(v)
            if isinstance(e.op, ast.UAdd):
                return lift(v)
            if isinstance(e.op, ast.Not):
                return not self.truth(v)
            raise Refuse("unary op")
        if isinstance(e, ast.Lambda):
            if e.args.defaults or e.args.vararg or e.args.kwarg:
                raise Refuse("lambda with defaults/varargs")
            return Closure([a.arg for a in e.args.args], e.body, env, self)
        if isinstance(e, ast.List):
            return [self.eval(x, env) for x in e.elts]
        if isinstance(e, ast.Tuple):
            return tuple(self.eval(x, env) for x in e.elts)
        if isinstance(e, ast.Dict):
            return {self.hashable(self.eval(k, env)): self.eval(v, env) for k, v in zip(e.keys, e.values)}
        if isinstance(e, ast.Compare):
            left = self.eval(e.left, env)
            for op, rhs in zip(e.ops, e.comparators):
                right = self.eval(rhs, env)
                if not self.compare(op, left, right):
                    return False
                left = right
            return True
        if isinstance(e, ast.BoolOp):
            if isinstance(e.op, ast.And):
                v = True
                for x in e.values:
                    v = self.eval(x, env)
                    if not self.truth(v):
                        return v
                return v
            v = False
            for x in e.values:
                v = self.eval(x, env)
                if self.truth(v):
                    return v
            return v
        if isinstance(e, ast.IfExp):
            return self.eval(e.body if self.truth(self.eval(e.test, env)) else e.orelse, env)
        if isinstance(e, ast.Attribute):
            return self.attribute(e, env)
        if isinstance(e, ast.Subscript):
            cont = self.eval(e.value, env)
            idx = self.eval_index(e.slice, env)
            return self.getitem(cont, idx)
        if isinstance(e, ast.Call):
            return self.call(e, env)
        if isinstance(e, ast.ListComp):
            if len(e.generators) != 1:
                raise Refuse("nested comprehension")
            g = e.generators[0]
            out = []
            for v in self.iterate(self.eval(g.iter, env)):
                env2 = dict(env)
                self.assign(g.target, v, env2)
                if all(self.truth(self.eval(c, env2)) for c in g.ifs):
                    out.append(self.eval(e.elt, env2))
            return out
        if isinstance(e, ast.JoinedStr):
            raise Refuse("f-string")
        raise Refuse("expression not supported: " + type(e).__name__)

    def hashable(self, k):
        if isinstance(k, Sym):
            if k.is_q:
                return k.qv
            raise Refuse("symbolic dict key")
        return k

    def _module_of(self, env):
        if "__module__" in env:
            return env["__module__"]
        if "__class__" in env:
            return env["__class__"].module
        return None

    def compare(self, op, a, b):
        def num(x):
            if isinstance(x, Sym):
                if x.is_q:
                    return x.qv
                raise Refuse("comparison of symbolic values")
            return x

        a, b = num(a), num(b)
        if isinstance(op, ast.Eq):
            return a == b
        if isinstance(op, ast.NotEq):
            return a != b
        if isinstance(op, ast.Lt):
            return a < b
        if isinstance(op, ast.LtE):
            return a <= b
        if isinstance(op, ast.Gt):
            return a > b
        if isinstance(op, ast.GtE):
            return a >= b
        if isinstance(op, ast.In):
            if isinstance(b, str):
                return isinstance(a, str) and a in b
            return a in [num(x) for x in self.iterate(b)]
        if isinstance(op, ast.NotIn):
            if isinstance(b, str):
                return not (isinstance(a, str) and a in b)
            return a not in [num(x) for x in self.iterate(b)]
        if isinstance(op, ast.Is):
            return a == b if isinstance(a, str) and isinstance(b, str) else a is b
        if isinstance(op, ast.IsNot):
            return a != b if isinstance(a, str) and isinstance(b, str) else a is not b
        raise Refuse("comparison operator")

    def getitem(self, cont, idx):
        if getattr(cont, "_py2lean_native", False):
            return cont[idx]
        if isinstance(cont, str):
            if isinstance(idx, slice):
                return cont[idx]
            return cont[self.as_int(idx)]
        if isinstance(cont, dict):
            k = self.hashable(idx)
            if k not in cont:
                raise Refuse(f"key {k!r} not in dict")
            return cont[k]
        data = cont.data if isinstance(cont, NDArray) else cont
        if not isinstance(idx, tuple):
            idx = (idx,)

        def rec(d, ix):
            if not ix:
                return d
            i = ix[0]
            if i is Ellipsis:
                raise Refuse("ellipsis read")
            if isinstance(i, slice):
                return [rec(x, ix[1:]) for x in d[i]]
            if not isinstance(d, (list, tuple)):
                raise Refuse("index into scalar")
            return rec(d[self.as_int(i)], ix[1:])

        r = rec(data, idx)
        if isinstance(cont, NDArray) and isinstance(r, list):
            return NDArray(r)
        return r

    def attribute(self, e: ast.Attribute, env):
        # enum-like constants: ElemType.TRI3, MatrixType.mass -> their name
        if (isinstance(e.value, ast.Name) and e.value.id in ("ElemType", "MatrixType", "AlgoType", "ModelType")
                and e.value.id not in self.classes and e.value.id not in env):
            return e.attr
        o = self.eval(e.value, env)
        if getattr(o, "_py2lean_native", False):
            return getattr(o, e.attr)
        if isinstance(o, Obj):
            if e.attr in o.attrs:
                return o.attrs[e.attr]
            # property
            for c in self.mro(o.cls):
                if e.attr in c.methods:
                    if e.attr in c.props:
                        return self.call_method(o, e.attr)
                    return ("bound", o, e.attr)
            raise Refuse(f"attribute self.{e.attr} unknown")
        if isinstance(o, NDArray):
            if e.attr == "T":
                return o.T
            if e.attr == "shape":
                return tuple(o.shape)
            if e.attr == "size":
                return len(o.flat())
            return ("ndmethod", o, e.attr)
        if isinstance(o, tuple) and o and o[0] == "builtin" and o[1] == "np":
            return ("np", e.attr)
        if isinstance(o, tuple) and o and o[0] == "np":
            return ("np", o[1] + "." + e.attr)
        if isinstance(o, ClassInfo):
            if e.attr in o.assigns:
                return self.eval(o.assigns[e.attr], {"__class__": o})
            return ("classmethod", o, e.attr)
        if isinstance(o, tuple) and o and o[0] == "super":
            return ("supermethod", o[1], o[2], e.attr)
        if isinstance(o, list) and e.attr in ("extend", "append", "index"):
            return ("listmethod", o, e.attr)
        if isinstance(o, str) and e.attr in ("startswith", "endswith"):
            return ("strmethod", o, e.attr)
        raise Refuse("attribute access " + ast.unparse(e))

    def call(self, e: ast.Call, env):
        # super()
        if isinstance(e.func, ast.Name) and e.func.id == "super":
            return ("super", env["self"], env["__class__"])
        f = self.eval(e.func, env)
        args = []
        for a in e.args:
            if isinstance(a, ast.Starred):
                args.extend(self.iterate(self.eval(a.value, env)))
            else:
                args.append(self.eval(a, env))
        kwargs = {k.arg: self.eval(k.value, env) for k in e.keywords if k.arg is not None}
        if isinstance(f, Closure):
            return f(*args)
        if callable(f) and not isinstance(f, (ClassInfo, Obj)):
            return f(*args, **kwargs)
        if isinstance(f, tuple):
            kind = f[0]
            if kind == "supermethod":
                _, obj, owner, name = f
                # property of the parent accessed as attribute is handled in attribute()
                return self.call_method(obj, name, args, after=owner)
            if kind == "listmethod":
                if f[2] == "index":
                    if args[0] not in f[1]:
                        raise Refuse("list.index of a missing value")
                    return Sym.q(f[1].index(args[0]))
                if f[2] == "extend":
                    f[1].extend(self.iterate(args[0]))
                else:
                    f[1].append(args[0])
                return None
            if kind == "strmethod":
                return getattr(f[1], f[2])(args[0])
            if kind == "bound":
                return self.call_method(f[1], f[2], args)
            if kind == "builtin":
                return self.builtin(f[1], args, kwargs)
            if kind == "np":
                return self.numpy(f[1], args, kwargs)
            if kind == "ndmethod":
                return self.ndmethod(f[1], f[2], args, kwargs)
            if kind == "classmethod":
                _, cls, name = f
                self.call_log.append((cls.name, name, tuple(args)))
                if name in cls.methods:
                    fn = cls.methods[name]
                    envc = {"__class__": cls}
                    for p, a in zip([x.arg for x in fn.args.args], args):
                        envc[p] = a
                    return self.run_body(fn.body, envc)
                raise Refuse(f"static method {cls.name}.{name}")
        if isinstance(f, ast.FunctionDef):
            raise Refuse("function value")
        # self.method(...)
        if isinstance(e.func, ast.Attribute):
            o = self.eval(e.func.value, env)
            if isinstance(o, Obj):
                return self.call_method(o, e.func.attr, args)
        # module-level function
        if isinstance(e.func, ast.Name):
            mod = self._module_of(env)
            if mod is not None and e.func.id in mod.functions:
                return self.call_function(mod, e.func.id, args, kwargs)
        raise Refuse("call not supported: " + ast.unparse(e.func))

    def builtin(self, name, args, kwargs):
        if name == "len":
            (a,) = args
            if isinstance(a, NDArray):
                return Sym.q(len(a.data))
            return Sym.q(len(a))
        if name == "str":
            return str(args[0])
        if name == "range":
            return list(Sym.q(i) for i in range(*[self.as_int(a) for a in args]))
        if name == "enumerate":
            return [(Sym.q(i), v) for i, v in enumerate(self.iterate(args[0]))]
        if name == "zip":
            return list(zip(*[self.iterate(a) for a in args]))
        if name in ("int", "float"):
            return lift(args[0])
        if name == "abs":
            a = lift(args[0])
            if a.is_q:
                return Sym.q(abs(a.qv))
            raise Refuse("abs of symbolic")
        if name in ("tuple",):
            return tuple(self.iterate(args[0]))
        if name in ("list",):
            return list(self.iterate(args[0]))
        raise Refuse("builtin " + name)

    def numpy(self, name, args, kwargs):
        if name in ("array", "asarray"):
            return NDArray(to_nested(args[0]))
        if name == "polynomial.legendre.leggauss":
            n = self.as_int(args[0])
            return (NDArray([Sym(("ext", "leggauss_x", n, i)) for i in range(n)]),
                    NDArray([Sym(("ext", "leggauss_w", n, i)) for i in range(n)]))
        if name == "sqrt":
            return s_sqrt(args[0])
        if name in ("cos", "sin", "log", "arccos", "exp", "tan"):
            return s_fn(name, args[0])
        if name == "reshape":
            a = args[0] if isinstance(args[0], NDArray) else NDArray(to_nested(args[0]))
            shape = args[1]
            return a.reshape([self.as_int(x) for x in (shape if isinstance(shape, (tuple, list)) else [shape])])
        if name == "arange":
            return NDArray([Sym.q(i) for i in range(*[self.as_int(a) for a in args])])
        if name == "zeros":
            shape = args[0]
            shape = [self.as_int(x) for x in (shape if isinstance(shape, (tuple, list)) else [shape])]

            def z(sh):
                return [z(sh[1:]) for _ in range(sh[0])] if len(sh) > 1 else [Sym.q(0) for _ in range(sh[0])]

            return NDArray(z(shape))
        if name == "pi":
            return Sym(("fn", "pi", Sym.q(0)))
        raise Refuse("numpy." + name)

    def ndmethod(self, arr: NDArray, name, args, kwargs):
        if name == "reshape":
            shape = args[0] if len(args) == 1 and isinstance(args[0], (tuple, list)) else args
            return arr.reshape([self.as_int(x) for x in shape])
        if name == "ravel" or name == "flatten":
            return NDArray(arr.flat())
        if name == "copy":
            return arr
        raise Refuse("ndarray." + name)


def load_modules(repo: str, relpaths: list[str]) -> list[ModuleInfo]:
    return [ModuleInfo(os.path.join(repo, p)) for p in relpaths]
