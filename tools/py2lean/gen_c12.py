"""Translator for property C12: closed-form Det / Inv / Trace formulas, the einsum
subscript builders and the `_KeepsFeAxes` predicate of EasyFEA/FEM/_linalg.py."""

from __future__ import annotations

import ast
import os

from .interp import Interp, ModuleInfo, NDArray, Refuse, Sym, lift
from . import emit
from .gen_c06 import _write_if_changed


class MatSym:
    """symbolic (..., dim, dim) matrix: `mat[..., i, j]` reads give variables, writes are recorded"""

    def __init__(self, dim, entries=None):
        self.dim = dim
        self.entries = entries if entries is not None else [[Sym.var(i * dim + j) for j in range(dim)] for i in range(dim)]


def intexpr(e: ast.expr) -> str:
    """Python integer/boolean expression -> Lean term over Int (Bool-valued comparisons)."""
    if isinstance(e, ast.Constant) and isinstance(e.value, int) and not isinstance(e.value, bool):
        return f"({e.value} : Int)"
    if isinstance(e, ast.Name):
        return e.id
    if isinstance(e, ast.BinOp) and isinstance(e.op, (ast.Add, ast.Sub, ast.Mult)):
        op = {ast.Add: "+", ast.Sub: "-", ast.Mult: "*"}[type(e.op)]
        return f"({intexpr(e.left)} {op} {intexpr(e.right)})"
    if isinstance(e, ast.UnaryOp) and isinstance(e.op, ast.USub):
        return f"(-{intexpr(e.operand)})"
    if isinstance(e, ast.Compare) and len(e.ops) == 1:
        op = {ast.GtE: "≥", ast.Gt: ">", ast.LtE: "≤", ast.Lt: "<", ast.Eq: "="}.get(type(e.ops[0]))
        if op is None:
            raise Refuse("comparison operator in integer expression")
        return f"(decide ({intexpr(e.left)} {op} {intexpr(e.comparators[0])}))"
    if isinstance(e, ast.IfExp):
        return f"(if {intexpr(e.test)} then {intexpr(e.body)} else {intexpr(e.orelse)})"
    raise Refuse("integer expression not supported: " + ast.unparse(e))


def extract(repo: str):
    path = os.path.join(repo, "EasyFEA", "FEM", "_linalg.py")
    mod = ModuleInfo(path)
    it = Interp([mod])
    out = {}

    # ---- Det / Inv via the interpreter with a symbolic matrix
    class _Mat:
        pass

    def run(fname, dim):
        fn = mod.functions.get(fname)
        if fn is None:
            raise Refuse(f"function {fname} not found")
        # the module-private __CheckMat is name-mangled in source as __CheckMat
        entries = [[Sym.var(i * dim + j) for j in range(dim)] for i in range(dim)]
        env = {"__module__": mod}
        # matrix as nested lists; mat[..., i, j] handled below by rewriting the AST subscripts
        class T(ast.NodeTransformer):
            def visit_Subscript(self, node):
                self.generic_visit(node)
                sl = node.slice
                if isinstance(sl, ast.Tuple) and len(sl.elts) == 3 and isinstance(sl.elts[0], ast.Constant) and sl.elts[0].value is Ellipsis:
                    return ast.Subscript(value=node.value, slice=ast.Tuple(elts=sl.elts[1:], ctx=ast.Load()), ctx=node.ctx)
                return node
        body = [T().visit(ast.parse(ast.unparse(st)).body[0]) for st in fn.body]
        for st in body:
            ast.fix_missing_locations(st)
        natives = {
            "__CheckMat": lambda m: None,
            "isinstance": lambda a, b: False,
            "Transpose": lambda m: NDArray([[m.data[j][i] for j in range(dim)] for i in range(dim)]),
            "Det": lambda m: run("Det", dim) if True else None,
        }
        env.update(natives)
        env["mat"] = NDArray([[entries[i][j] for j in range(dim)] for i in range(dim)])
        env["np"] = ("builtin", "np")
        env["FeArray"] = None
        res = {}
        from .interp import _Return
        try:
            for st in body:
                src = ast.unparse(st)
                if src.startswith('"""') or src.startswith("'"):
                    continue
                if isinstance(st, ast.Assign) and "np.zeros_like" in src:
                    tgt = st.targets[0].id
                    env[tgt] = NDArray([[Sym.q(0) for _ in range(dim)] for _ in range(dim)])
                    continue
                if isinstance(st, ast.Assign) and "np.einsum('...,...ij->...ij', 1 / det, adj)" in src.replace('"', "'"):
                    res["adj"] = env["adj"]
                    res["scale_is_inv_det"] = True
                    return res
                if isinstance(st, ast.If):
                    # dispatch on dim
                    node = st
                    done = False
                    while True:
                        test = ast.unparse(node.test)
                        if test == f"dim == {dim}":
                            for s2 in node.body:
                                src2 = ast.unparse(s2)
                                if isinstance(s2, ast.Assign) and "np.zeros_like" in src2:
                                    env[s2.targets[0].id] = NDArray([[Sym.q(0) for _ in range(dim)] for _ in range(dim)])
                                    continue
                                if isinstance(s2, ast.Assign) and "np.einsum('...,...ij->...ij', 1 / det, adj)" in src2.replace('"', "'"):
                                    res["adj"] = env["adj"]
                                    done = True
                                    break
                                it.exec(s2, env)
                            done = True
                            break
                        if len(node.orelse) == 1 and isinstance(node.orelse[0], ast.If):
                            node = node.orelse[0]
                            continue
                        break
                    if not done:
                        raise Refuse(f"{fname}: no branch for dim == {dim}")
                    if "adj" in res:
                        return res
                    if fname == "Det" and "det" in env:
                        return env["det"]
                    if fname == "Inv" and dim == 1:
                        return dict(inv1=env["inv"])
                    continue
                it.exec(st, env)
        except _Return as r:
            return r.v
        if fname == "Det":
            return env.get("det")
        return res

    dets = {}
    for dim in (1, 2, 3):
        d = run("Det", dim)
        if isinstance(d, NDArray):
            d = d.data
        dets[dim] = lift(d)
    out["det"] = dets
    adjs = {}
    for dim in (2, 3):
        r = run("Inv", dim)
        if not isinstance(r, dict) or "adj" not in r:
            raise Refuse("Inv: adjugate not found")
        adjs[dim] = [[lift(x) for x in row] for row in r["adj"].data]
    out["adj"] = adjs

    # ---- einsum subscript builders
    fe = it.classes.get("FeArray")
    if fe is None:
        raise Refuse("class FeArray not found")
    subs = {}
    for name in ("_dot_subscript", "_ddot_subscript"):
        fn = fe.methods.get(name)
        if fn is None:
            raise Refuse(name + " not found")
        tab = []
        for n1 in (0, 1, 2, 4):
            for n2 in (0, 1, 2, 4):
                if name == "_dot_subscript" and (n1 == 0 or n2 == 0):
                    continue
                if name == "_ddot_subscript" and (n1 < 2 or n2 < 2):
                    continue
                # the builders are plain Python string code: evaluate them with Python itself on the function source
                src = ast.unparse(fn)
                src = "\n".join(l for l in src.splitlines() if not l.strip().startswith("@"))
                ns = {}
                exec(compile(src, "<subscript>", "exec"), {}, ns)  # pure string manipulation, no imports
                tab.append((n1, n2, ns[name](n1, n2)))
        subs[name] = tab
    out["subs"] = subs
    # TensorProd subscripts (string literals in source order)
    tp = mod.functions.get("TensorProd")
    if tp is None:
        raise Refuse("TensorProd not found")
    tps = [n.args[0].value for n in ast.walk(tp) if isinstance(n, ast.Call) and ast.unparse(n.func) == "np.einsum"
           and n.args and isinstance(n.args[0], ast.Constant) and isinstance(n.args[0].value, str)]
    out["tensorprod"] = tps
    tr = mod.functions.get("Trace")
    trs = [n.args[0].value for n in ast.walk(tr) if isinstance(n, ast.Call) and ast.unparse(n.func) == "np.einsum"]
    out["trace"] = trs
    # ---- _KeepsFeAxes
    kf = mod.functions.get("_KeepsFeAxes")
    if kf is None:
        raise Refuse("_KeepsFeAxes not found")
    gen = None
    for n in ast.walk(kf):
        if isinstance(n, ast.Call) and ast.unparse(n.func) == "all" and isinstance(n.args[0], ast.GeneratorExp):
            g = n.args[0]
            if len(g.generators) == 1 and isinstance(g.generators[0].target, ast.Name) and not g.generators[0].ifs:
                gen = (g.generators[0].target.id, g.elt)
    if gen is None:
        raise Refuse("_KeepsFeAxes: unexpected structure")
    pre = [ast.unparse(s) for s in kf.body if not (isinstance(s, ast.Expr) and isinstance(s.value, ast.Constant))]
    expected_pre = ["if axis is None:\n    return False", "axes = axis if isinstance(axis, tuple) else (axis,)"]
    if pre[:2] != expected_pre or len(pre) != 3:
        raise Refuse("_KeepsFeAxes: unexpected statements " + repr(pre))
    var, elt = gen
    out["keeps"] = intexpr(elt).replace(var, "a") if var != "a" else intexpr(elt)
    return out


# ---- FeArray.broadcast: the decision list of the coefficient broadcasting
BC_CONDS = {
    "tensor_ndim > 0": "declared",
    "lead == (Ne, nPg)": "leadFull", "lead == (Ne,)": "leadElem", "lead == ()": "leadNone",
    "arr.shape[:2] == (Ne, nPg)": "head2Full", "arr.ndim == 1": "rank1",
    "arr.shape[0] == Ne": "firstNe", "arr.shape[0] == nPg": "firstNPg",
    "isinstance(value, (int, float, np.floating, np.integer))": "pyScalar",
}
BC_KINDS = {
    "float(value)": "scalar",
    "FeArray.asfearray(arr)": "full",
    "FeArray.asfearray(np.broadcast_to(arr[:, None], (Ne, nPg) + tail))": "perElem",
    "FeArray.asfearray(np.broadcast_to(arr[:, None], (Ne, nPg)))": "perElem",
    "FeArray.asfearray(np.broadcast_to(arr[None, None], (Ne, nPg) + tail))": "const",
    "FeArray.asfearray(np.broadcast_to(arr[None, None], (Ne, nPg) + arr.shape))": "const",
    "FeArray.asfearray(np.broadcast_to(arr[None, :], (Ne, nPg)))": "perPoint",
}
BC_ASSIGNS = {"arr = np.asarray(value)", "tail = arr.shape[-tensor_ndim:] if tensor_ndim else ()", "lead = arr.shape[:-tensor_ndim] if tensor_ndim else arr.shape"}


def broadcast_rules(repo):
    """`FeArray.broadcast` as an ordered decision list [(path conditions, kind)]: the first rule whose conditions all hold
    gives the way the coefficient is read. Every test / return / assignment must come from the known vocabulary."""
    tree = ast.parse(open(os.path.join(repo, "EasyFEA", "FEM", "_linalg.py"), encoding="utf-8").read())
    cls = next((n for n in tree.body if isinstance(n, ast.ClassDef) and n.name == "FeArray"), None)
    fn = next((f for f in (cls.body if cls else []) if isinstance(f, ast.FunctionDef) and f.name == "broadcast"), None)
    if fn is None:
        raise Refuse("FeArray.broadcast not found")
    if [a.arg for a in fn.args.args] != ["value", "Ne", "nPg", "tensor_ndim"]:
        raise Refuse("FeArray.broadcast: signature changed")
    rules = []

    def walk(stmts, path):
        """returns True when the block always leaves the function"""
        for st in stmts:
            if isinstance(st, ast.Expr) and isinstance(st.value, ast.Constant) and isinstance(st.value.value, str):
                continue
            if isinstance(st, ast.Assign):
                if ast.unparse(st) not in BC_ASSIGNS:
                    raise Refuse("FeArray.broadcast: unexpected assignment " + ast.unparse(st))
                continue
            if isinstance(st, ast.Return):
                k = BC_KINDS.get(ast.unparse(st.value))
                if k is None:
                    raise Refuse("FeArray.broadcast: unexpected return " + ast.unparse(st.value))
                rules.append((list(path), k))
                return True
            if isinstance(st, ast.Raise):
                rules.append((list(path), "error"))
                return True
            if isinstance(st, ast.If) and not st.orelse:
                c = BC_CONDS.get(ast.unparse(st.test))
                if c is None:
                    raise Refuse("FeArray.broadcast: unexpected test " + ast.unparse(st.test))
                walk(st.body, path + [c])
                continue
            raise Refuse("FeArray.broadcast: unexpected statement " + ast.unparse(st)[:80])
        return False

    if not walk(fn.body, []):
        raise Refuse("FeArray.broadcast: the function can fall off its end")
    return rules


ALIGN_FORMS = {
    "_align": ["shape = operands[0].shape if isinstance(operands[0], FeArray) else None",
               "operands = tuple((_Evaluate(op) for op in operands))",
               "ranks = [op.ndim - 2 if isinstance(op, FeArray) else np.ndim(op) for op in operands]",
               "nt = max(ranks)",
               "return tuple((op[(slice(None), slice(None)) + (None,) * (nt - rank)] if isinstance(op, FeArray) and rank < nt else op for op, rank in zip(operands, ranks)))",
               "return operands"],
    "__wrap": ["return res", "return res.view(FeArray)", "return np.asarray(res)"],
}
WRAP_TESTS = ["not isinstance(res, np.ndarray)", "res.ndim >= 2 and res.shape[:2] == feShape"]


def align_forms(repo):
    """statement-level tie for `FeArray._align` (padding of the tensor rank) and `FeArray.__wrap` (typing of a result):
    every statement the model Props/C12Align.lean / C12Typing.lean was written from must be there, and nothing else."""
    tree = ast.parse(open(os.path.join(repo, "EasyFEA", "FEM", "_linalg.py"), encoding="utf-8").read())
    cls = next((n for n in tree.body if isinstance(n, ast.ClassDef) and n.name == "FeArray"), None)
    out = {}
    for name, lines in ALIGN_FORMS.items():
        fn = next((f for f in (cls.body if cls else []) if isinstance(f, ast.FunctionDef) and f.name == name), None)
        if fn is None:
            raise Refuse(f"FeArray.{name} not found")
        src = [ast.unparse(st) for st in ast.walk(fn) if isinstance(st, ast.stmt) and not isinstance(st, (ast.If, ast.For, ast.FunctionDef))
               and not (isinstance(st, ast.Expr) and isinstance(st.value, ast.Constant) and isinstance(st.value.value, str))]
        src = [u for u in src if u != "break"]
        if sorted(src) != sorted(lines):
            raise Refuse(f"FeArray.{name}: statements changed: {sorted(set(src) ^ set(lines))}")
        out[name] = lines
        if name == "__wrap":
            tests = [ast.unparse(st.test) for st in ast.walk(fn) if isinstance(st, ast.If)]
            if tests != WRAP_TESTS:
                raise Refuse(f"FeArray.__wrap: tests changed: {tests}")
            out["__wrap tests"] = tests
    return out


FESHAPE_FORMS = ["shapes = set()", "stack = list(operands)", "operand = stack.pop()", "shapes.add(operand.shape[:2])", "stack.extend(operand)", "return shapes.pop()",
                 "return np.broadcast_shapes(*shapes) if shapes else ()"]


def feshape_forms(repo):
    """statement-level tie for `_FeShape`: the leading shape of a result is the numpy BROADCAST of the leading shapes of its FeArray operands"""
    tree = ast.parse(open(os.path.join(repo, "EasyFEA", "FEM", "_linalg.py"), encoding="utf-8").read())
    fn = next((f for f in tree.body if isinstance(f, ast.FunctionDef) and f.name == "_FeShape"), None)
    if fn is None:
        raise Refuse("_FeShape not found")
    src = [ast.unparse(st) for st in ast.walk(fn) if isinstance(st, ast.stmt) and not isinstance(st, (ast.If, ast.For, ast.While, ast.FunctionDef))
           and not (isinstance(st, ast.Expr) and isinstance(st.value, ast.Constant) and isinstance(st.value.value, str))]
    if sorted(src) != sorted(FESHAPE_FORMS):
        raise Refuse(f"_FeShape: statements changed: {sorted(set(src) ^ set(FESHAPE_FORMS))}")
    return FESHAPE_FORMS


def write(repo: str, outdir: str) -> dict:
    ex = extract(repo)
    af = align_forms(repo)
    q = lambda x: '"' + x.replace('"', "'") + '"'  # noqa: E731
    atxt = ("-- GENERATED by tools/py2lean/gen_c12.py from FeArray._align / FeArray.__wrap in /repo/EasyFEA/FEM/_linalg.py — do not edit\n"
            "namespace EasyFEAVerif.Gen.C12\n\n/-- the statements of `_align` and `__wrap`, matched against the source -/\n"
            "def alignForms : List (String × List String) := [\n  "
            + ",\n  ".join("(" + q(k) + ", [" + ", ".join(q(x) for x in v) + "])" for k, v in af.items()) + "]\n\nend EasyFEAVerif.Gen.C12\n")
    os.makedirs(outdir, exist_ok=True)
    _write_if_changed(os.path.join(outdir, "Align.lean"), atxt)
    fs = feshape_forms(repo)
    _write_if_changed(os.path.join(outdir, "FeShape.lean"),
                      "-- GENERATED by tools/py2lean/gen_c12.py from _FeShape in /repo/EasyFEA/FEM/_linalg.py — do not edit\n"
                      "namespace EasyFEAVerif.Gen.C12\n\n/-- the statements of `_FeShape` (the (Ne, nPg) an operation runs at), matched against the source -/\n"
                      "def feShapeForms : List String := [" + ", ".join(q(x) for x in fs) + "]\n\nend EasyFEAVerif.Gen.C12\n")
    os.makedirs(outdir, exist_ok=True)
    rules = broadcast_rules(repo)
    btxt = ("-- GENERATED by tools/py2lean/gen_c12.py from FeArray.broadcast in /repo/EasyFEA/FEM/_linalg.py — do not edit\n"
            "import EasyFEAVerif.Model.Broadcast\nnamespace EasyFEAVerif.Gen.C12\nopen EasyFEAVerif.Broadcast\n\n"
            "/-- `FeArray.broadcast(value, Ne, nPg, tensor_ndim)` as an ordered decision list: the first rule whose conditions all hold decides how the coefficient is read -/\n"
            "def broadcastRules : List (List Cond × Kind) := [\n  "
            + ",\n  ".join("([" + ", ".join("." + c for c in conds) + "], ." + k + ")" for conds, k in rules) + "]\n\nend EasyFEAVerif.Gen.C12\n")
    _write_if_changed(os.path.join(outdir, "Broadcast.lean"), btxt)

    def mat(rows):
        return "[" + ",\n    ".join("[" + ", ".join(emit.pexpr(x) for x in r) + "]" for r in rows) + "]"

    def chars(s):
        return "[" + ", ".join("'" + c + "'" for c in s) + "]"

    def subs(tab):
        return "[" + ", ".join(f'({a}, {b}, {chars(s)})' for a, b, s in tab) + "]"

    txt = f"""-- GENERATED by tools/py2lean/gen_c12.py from /repo/EasyFEA/FEM/_linalg.py — do not edit
import EasyFEAVerif.Model.PExpr
namespace EasyFEAVerif.Gen.C12
open EasyFEAVerif

/-- `Det(mat)` for dim 1, 2, 3; variable `i*dim + j` is `mat[..., i, j]` -/
def det1 : PExpr := {emit.pexpr(ex['det'][1])}
def det2 : PExpr := {emit.pexpr(ex['det'][2])}
def det3 : PExpr := {emit.pexpr(ex['det'][3])}

/-- the matrix `adj` of `Inv(mat)` (the code returns `1/det * adj`) -/
def adj2 : List (List PExpr) :=
  {mat(ex['adj'][2])}
def adj3 : List (List PExpr) :=
  {mat(ex['adj'][3])}

/-- `FeArray._dot_subscript(n1, n2)` / `_ddot_subscript(n1, n2)` for every admissible rank pair -/
def dotSubscripts : List (Nat × Nat × List Char) := {subs(ex['subs']['_dot_subscript'])}
def ddotSubscripts : List (Nat × Nat × List Char) := {subs(ex['subs']['_ddot_subscript'])}

/-- einsum subscripts of `TensorProd` (source order: vectors, symmetric p1, symmetric p2, plain) and `Trace` -/
def tensorProdSubscripts : List (List Char) := [{', '.join(chars(s) for s in ex['tensorprod'])}]
def traceSubscripts : List (List Char) := [{', '.join(chars(s) for s in ex['trace'])}]

/-- `_KeepsFeAxes`: the test applied to each reduced axis `a` of an array of `ndim` dimensions -/
def keepsAxis (a ndim : Int) : Bool := {ex['keeps']}

end EasyFEAVerif.Gen.C12
"""
    _write_if_changed(os.path.join(outdir, "Linalg.lean"), txt)
    return dict(det=[1, 2, 3], adj=[2, 3], dot=len(ex["subs"]["_dot_subscript"]), ddot=len(ex["subs"]["_ddot_subscript"]),
                tensorprod=ex["tensorprod"], keeps=ex["keeps"], broadcast_rules=len(rules))


if __name__ == "__main__":
    import sys, json

    print(json.dumps(write(sys.argv[1], sys.argv[2])))
