"""Translator for property C17: the statements that define the positive / negative stiffness of every split from the
spectral projectors (`PhaseField.__Split_*`, `__Rp_Rm`, `__Spectral_Decomposition`) and the irreversibility updates of
the simulation (`__Calc_psiPlus_e_pg`, the HistoryDamage maximum), matched against the source on every run."""

from __future__ import annotations

import ast
import os

from .interp import Refuse
from .gen_c06 import _write_if_changed


def _fn(tree, name, cls):
    body = next((n.body for n in tree.body if isinstance(n, ast.ClassDef) and n.name == cls), None)
    if body is None:
        raise Refuse(f"class {cls} not found")
    f = next((f for f in body if isinstance(f, ast.FunctionDef) and f.name == name), None)
    if f is None:
        raise Refuse(f"{cls}.{name} not found")
    return f


def _need(fn, lines, where):
    src = [ast.unparse(s) for s in ast.walk(fn) if isinstance(s, ast.stmt)]
    missing = [l for l in lines if l not in src]
    if missing:
        raise Refuse(f"{where}: statement(s) not found: {missing}")
    return lines


def extract(repo):
    m = ast.parse(open(os.path.join(repo, "EasyFEA", "Models", "_phasefield.py"), encoding="utf-8").read())
    s = ast.parse(open(os.path.join(repo, "EasyFEA", "Simulations", "_phasefield.py"), encoding="utf-8").read())
    out = {}
    out["Rp_Rm"] = _need(_fn(m, "_PhaseField__Rp_Rm" if False else "__Rp_Rm", "PhaseField"), ["Rp_e_pg = (1 + np.sign(trace)) / 2", "Rm_e_pg = (1 + np.sign(-trace)) / 2"], "__Rp_Rm")
    out["Split_Bourdin"] = _need(_fn(m, "__Split_Bourdin", "PhaseField"), ["cP_e_pg = C_e_pg", "cM_e_pg = np.zeros_like(cP_e_pg)"], "__Split_Bourdin")
    out["Split_Amor"] = _need(_fn(m, "__Split_Amor", "PhaseField"), ["cP_e_pg = bulk * (Rp_e_pg * IxI) + 2 * mu * (np.eye(IxI.shape[0]) - 1 / dim * IxI)", "cM_e_pg = bulk * (Rm_e_pg * IxI)"], "__Split_Amor")
    out["Split_Strain"] = _need(_fn(m, "__Split_Strain", "PhaseField"), [
        "cP_e_pg = lamb * (Rp_e_pg * IxI) + 2 * mu * projP_e_pg", "cM_e_pg = lamb * (Rm_e_pg * IxI) + 2 * mu * projM_e_pg",
        "projPTC = projP_e_pg.T @ C_e_pg", "projMTc = projM_e_pg.T @ C_e_pg", "Cpp = projPTC @ projP_e_pg", "Cpm = projPTC @ projM_e_pg", "Cmm = projMTc @ projM_e_pg", "Cmp = projMTc @ projP_e_pg",
        "cP_e_pg = Cpp + Cpm + Cmp", "cM_e_pg = Cmm", "cP_e_pg = Cpp + Cpm", "cM_e_pg = Cmm + Cmp", "cP_e_pg = Cpp + Cmp", "cM_e_pg = Cmm + Cpm", "cP_e_pg = Cpp", "cM_e_pg = Cmm + Cpm + Cmp"], "__Split_Strain")
    out["Split_Stress"] = _need(_fn(m, "__Split_Stress", "PhaseField"), [
        "Sigma_e_pg = C_e_pg @ Epsilon_e_pg", "sP_e_pg = (1 + v) / E * projP_e_pg - v / E * Rp_e_pg * IxI", "sM_e_pg = (1 + v) / E * projM_e_pg - v / E * Rm_e_pg * IxI",
        "sP_e_pg = (1 + v) / E * projP_e_pg - v * (1 + v) / E * Rp_e_pg * IxI", "sM_e_pg = (1 + v) / E * projM_e_pg - v * (1 + v) / E * Rm_e_pg * IxI",
        "sP_e_pg = 1 / (2 * mu) * projP_e_pg - v / E * Rp_e_pg * IxI", "sM_e_pg = 1 / (2 * mu) * projM_e_pg - v / E * Rm_e_pg * IxI",
        "cP_e_pg = C_e_pg.T @ sP_e_pg @ C_e_pg", "cM_e_pg = C_e_pg.T @ sM_e_pg @ C_e_pg", "Cp_e_pg = projP_e_pg @ C_e_pg", "Cm_e_pg = projM_e_pg @ C_e_pg",
        "cP_e_pg = Cp_e_pg", "cM_e_pg = Cm_e_pg", "ps = Cp_e_pg.T @ S_e_pg", "ms = Cm_e_pg.T @ S_e_pg", "Cpp = ps @ Cp_e_pg", "Cpm = ps @ Cm_e_pg", "Cmm = ms @ Cm_e_pg", "Cmp = ms @ Cp_e_pg"], "__Split_Stress")
    out["Split_He"] = _need(_fn(m, "__Split_He", "PhaseField"), ["Epsilont_e_pg = sqrtC @ Epsilon_e_pg", "projP_e_pg = inv_sqrtC @ projPt_e_pg @ sqrtC", "projM_e_pg = inv_sqrtC @ projMt_e_pg @ sqrtC",
                                                                 "cP_e_pg = C @ projP_e_pg", "cM_e_pg = C @ projM_e_pg"], "__Split_He")
    out["Spectral_Decomposition"] = _need(_fn(m, "__Spectral_Decomposition", "PhaseField"), [
        "valp = (val_e_pg + np.abs(val_e_pg)) / 2", "dvalp = np.heaviside(val_e_pg, 0.5)", "v1_m_v2[v1_m_v2 == 0] = 1", "BetaP = (valp[..., 0] - valp[..., 1]) / v1_m_v2", "gammap = dvalp - BetaP",
        "projP = BetaP * np.eye(3) + gammap[..., 0] * m1xm1 + gammap[..., 1] * m2xm2", "projM = np.eye(3) - projP", "projM = np.eye(6) - projP"], "__Spectral_Decomposition")
    out["Calc_psi"] = _need(_fn(m, "Calc_psi_e_pg", "PhaseField"), ["psiP_e_pg = np.sum(1 / 2 * Epsilon_e_pg * SigmaP_e_pg, -1)", "psiM_e_pg = np.sum(1 / 2 * Epsilon_e_pg * SigmaM_e_pg, -1)"], "Calc_psi_e_pg")
    out["history"] = _need(_fn(s, "__Calc_psiPlus_e_pg", "PhaseField"), ["inc_H = psiP_e_pg - old_psiPlus_e_pg", "(elements, gaussPoints) = np.where(inc_H < 0)" if False else "elements, gaussPoints = np.where(inc_H < 0)",
                                                                        "psiP_e_pg[elements, gaussPoints] = old_psiPlus_e_pg[elements, gaussPoints]",
                                                                        # the history lives at the points of the damage problem ('mass' rule), whoever asks for it
                                                                        "Epsilon_e_pg = self._Calc_Epsilon_e_pg(u, groupElem, MatrixType.mass)"], "__Calc_psiPlus_e_pg")
    hfn = _fn(s, "__Calc_psiPlus_e_pg", "PhaseField")
    if [a.arg for a in hfn.args.args] != ["self", "groupElem"] or hfn.args.kwonlyargs or hfn.args.vararg or hfn.args.kwarg:
        raise Refuse(f"__Calc_psiPlus_e_pg takes {[a.arg for a in hfn.args.args]}: the history array has ONE layout, (Ne, number of 'mass' points); a caller choosing other points would store another layout")
    out["history_damage"] = _need(_fn(s, "Solve", "PhaseField"), ["old_damage = self.damage", "oldAndNewDamage[:, 0] = old_damage", "oldAndNewDamage[:, 1] = d_np1", "d_np1 = np.max(oldAndNewDamage, 1)"], "Solve")
    return out


def write(repo: str, outdir: str) -> dict:
    d = extract(repo)
    os.makedirs(outdir, exist_ok=True)
    rows = ",\n  ".join('("' + k + '", [' + ", ".join('"' + l.replace('"', "'") + '"' for l in v) + "])" for k, v in d.items())
    txt = ("-- GENERATED by tools/py2lean/gen_c17.py from /repo/EasyFEA/Models/_phasefield.py and Simulations/_phasefield.py — do not edit\n"
           f"namespace EasyFEAVerif.Gen.C17\n\ndef forms : List (String × List String) := [\n  {rows}]\n\nend EasyFEAVerif.Gen.C17\n")
    _write_if_changed(os.path.join(outdir, "Forms.lean"), txt)
    return d


if __name__ == "__main__":
    import sys

    print(list(write(sys.argv[1], sys.argv[2])))
