"""Translator for property C08: the rotation matrix of `Geoms/_utils.py::_Rotation_matrix` as a Lean matrix
expression, and the defining statements of Rotate / Symmetry / Translate and of the normals of
`_GroupElem.Get_normals_e_pg`, matched against the source on every run (anything else is refused)."""

from __future__ import annotations

import ast
import os

from .interp import Refuse
from .gen_c06 import _write_if_changed


def _lean(node):
    if isinstance(node, ast.Name):
        if node.id not in ("x", "y", "z", "c", "s", "C"):
            raise Refuse(f"unexpected name {node.id} in _Rotation_matrix")
        return node.id
    if isinstance(node, ast.BinOp) and isinstance(node.op, (ast.Add, ast.Sub, ast.Mult)):
        op = {ast.Add: "+", ast.Sub: "-", ast.Mult: "*"}[type(node.op)]
        return f"({_lean(node.left)} {op} {_lean(node.right)})"
    raise Refuse(f"unexpected expression {ast.unparse(node)} in _Rotation_matrix")


def _fn(tree, name, cls=None):
    body = tree.body
    if cls:
        body = next((n.body for n in tree.body if isinstance(n, ast.ClassDef) and n.name == cls), None)
        if body is None:
            raise Refuse(f"class {cls} not found")
    f = next((f for f in body if isinstance(f, ast.FunctionDef) and f.name == name), None)
    if f is None:
        raise Refuse(f"{name} not found")
    return f


def _need(fn, lines, where):
    src = [ast.unparse(s) for s in ast.walk(fn) if isinstance(s, ast.stmt)]
    missing = [l for l in lines if l not in src]
    if missing:
        raise Refuse(f"{where}: statement(s) not found: {missing}")
    return lines


def extract(repo):
    gtree = ast.parse(open(os.path.join(repo, "EasyFEA", "Geoms", "_utils.py"), encoding="utf-8").read())
    rot = _fn(gtree, "_Rotation_matrix")
    _need(rot, ["x, y, z = Normalize(vect)", "c = np.cos(theta)", "s = np.sin(theta)", "C = 1 - c", "return mat"], "_Rotation_matrix")
    mat = next((s for s in rot.body if isinstance(s, ast.Assign) and ast.unparse(s.targets[0]) == "mat"), None)
    if mat is None or not (isinstance(mat.value, ast.Call) and ast.unparse(mat.value.func) == "np.array" and isinstance(mat.value.args[0], ast.List)):
        raise Refuse("_Rotation_matrix: literal matrix not found")
    rows = [[_lean(e) for e in r.elts] for r in mat.value.args[0].elts]
    if len(rows) != 3 or any(len(r) != 3 for r in rows):
        raise Refuse("_Rotation_matrix: not 3x3")
    forms = {
        "Rotate": _need(_fn(gtree, "Rotate"), ["theta *= np.pi / 180", "rotMat = _Rotation_matrix(direction, theta)",
                                                "newCoord: _types.AnyArray = np.einsum('ij,nj->ni', rotMat, oldCoord - center, optimize='optimal') + center"], "Rotate"),
        "Symmetry": _need(_fn(gtree, "Symmetry"), ["n = Normalize(AsCoords(n))", "d = (oldCoord - point) @ n",
                                                    "newCoord = oldCoord - np.einsum('n,i->ni', 2 * d, n, optimize='optimal')"], "Symmetry"),
        "Translate": _need(_fn(gtree, "Translate"), ["dec = AsCoords([dx, dy, dz])", "newCoord = oldCoord + dec"], "Translate"),
    }
    etree = ast.parse(open(os.path.join(repo, "EasyFEA", "FEM", "_group_elem.py"), encoding="utf-8").read())
    forms["Get_normals_e_pg"] = _need(_fn(etree, "Get_normals_e_pg", "_GroupElem"),
                                      ["dxdr_e_pg = np.einsum('pn,end->epd', dNdr_pg, coord_e, optimize='optimal')", "normals_e_pg = np.cross((0, 0, 1), dxdr_e_pg)",
                                       "dxds_e_pg = np.einsum('pn,end->epd', dNds_pg, coord_e, optimize='optimal')", "normals_e_pg = np.cross(dxdr_e_pg, dxds_e_pg)"], "Get_normals_e_pg")
    forms["Get_jacobian_e_pg"] = _need(_fn(etree, "Get_jacobian_e_pg", "_GroupElem"), ["jacobian_e_pg = FeArray.asfearray(Det(F_e_pg))", "jacobian_e_pg = np.abs(jacobian_e_pg)"], "Get_jacobian_e_pg")
    # the geometric objects (lines of beam members, contours) are moved with the same helpers: each point by the image of its own coordinates
    gtree2 = ast.parse(open(os.path.join(repo, "EasyFEA", "Geoms", "_geom.py"), encoding="utf-8").read())
    forms["Geom.Translate"] = _need(_fn(gtree2, "Translate", "_Geom"), ["obj = self.copy() if copy else self", "p.Translate(dx, dy, dz)"], "_Geom.Translate")
    forms["Geom.Rotate"] = _need(_fn(gtree2, "Rotate", "_Geom"), ["obj = self.copy() if copy else self", "oldCoord = obj.coord", "newCoord = Rotate(oldCoord, theta, center, direction)", "dec = newCoord - oldCoord",
                                                                 "point.Translate(*dec[p])"], "_Geom.Rotate")
    forms["Geom.Symmetry"] = _need(_fn(gtree2, "Symmetry", "_Geom"), ["obj = self.copy() if copy else self", "oldCoord = obj.coord", "newCoord = Symmetry(oldCoord, point, n)", "dec = newCoord - oldCoord",
                                                                     "pt.Translate(*dec[p])"], "_Geom.Symmetry")
    return rows, forms


FACE_FILES = {"_tetra.py": ["TETRA4", "TETRA10"], "_hexa.py": ["HEXA8", "HEXA20", "HEXA27"], "_prism.py": ["PRISM6", "PRISM15", "PRISM18"]}


def _table(tree, cls, prop, depth=0):
    """the literal integer table returned by the property `prop` of class `cls` (`return self.<other>` is followed once)"""
    fn = _fn(tree, prop, cls)
    rets = [s for s in fn.body if isinstance(s, ast.Return)]
    if len(fn.body) != 1 or len(rets) != 1:
        raise Refuse(f"{cls}.{prop}: body is not a single return")
    v = rets[0].value
    if isinstance(v, ast.Attribute) and isinstance(v.value, ast.Name) and v.value.id == "self" and depth == 0:
        return _table(tree, cls, v.attr, 1)
    if not (isinstance(v, ast.Call) and ast.unparse(v.func) == "np.array" and v.args and isinstance(v.args[0], ast.List)):
        raise Refuse(f"{cls}.{prop}: not a literal np.array table")
    rows = []
    for r in v.args[0].elts:
        if not (isinstance(r, ast.List) and all(isinstance(e, ast.Constant) and isinstance(e.value, int) and e.value >= 0 for e in r.elts)):
            raise Refuse(f"{cls}.{prop}: row {ast.unparse(r)} is not a list of node indices")
        rows.append([e.value for e in r.elts])
    return rows


def extract_faces(repo):
    """`faces` of every 3D element class (the node indices of each face, as MeshIO.Surface_reconstruction and
    Get_dict_connect_Faces use them)"""
    out = []
    for fname, classes in FACE_FILES.items():
        tree = ast.parse(open(os.path.join(repo, "EasyFEA", "FEM", "Elems", fname), encoding="utf-8").read())
        for cls in classes:
            out.append((cls, _table(tree, cls, "faces")))
    mtree = ast.parse(open(os.path.join(repo, "EasyFEA", "Utilities", "MeshIO.py"), encoding="utf-8").read())
    _need(_fn(mtree, "Surface_reconstruction"), ["faces = groupElem.faces", "connect = connectivity[:, face]", "allConnect.extend(connect.copy())",
                                                  "connect = np.sort(connect, axis=1)", "counts = Counter(allIds)"], "Surface_reconstruction")
    return out


def write(repo: str, outdir: str) -> dict:
    rows, forms = extract(repo)
    os.makedirs(outdir, exist_ok=True)
    faces = extract_faces(repo)
    ftxt = ("-- GENERATED by tools/py2lean/gen_c08.py from /repo/EasyFEA/FEM/Elems/_tetra.py, _hexa.py, _prism.py — do not edit\n"
            "namespace EasyFEAVerif.Gen.C08\n\n"
            "/-- the `faces` table of every 3D element type: node indices of each face (corners first, then mid-edge nodes, then the face centre) -/\n"
            "def faces : List (String × List (List Nat)) := [\n  "
            + ",\n  ".join('("' + n + '", [' + ", ".join("[" + ", ".join(str(i) for i in r) + "]" for r in t) + "])" for n, t in faces)
            + "]\n\nend EasyFEAVerif.Gen.C08\n")
    _write_if_changed(os.path.join(outdir, "Faces.lean"), ftxt)
    frows = ",\n  ".join('("' + k + '", [' + ", ".join('"' + l.replace('"', "'") + '"' for l in v) + "])" for k, v in forms.items())
    txt = ("-- GENERATED by tools/py2lean/gen_c08.py from /repo/EasyFEA/Geoms/_utils.py and FEM/_group_elem.py — do not edit\n"
           "import Mathlib.LinearAlgebra.Matrix.Notation\nnamespace EasyFEAVerif.Gen.C08\n\n"
           "/-- `_Rotation_matrix(vect, theta)` with `(x, y, z) = Normalize(vect)`, `c = cos θ`, `s = sin θ` -/\n"
           "def rotMat {K : Type*} [Ring K] (x y z c s : K) : Matrix (Fin 3) (Fin 3) K :=\n  let C := 1 - c\n  !!["
           + ";\n     ".join(", ".join(r) for r in rows) + "]\n\n"
           f"/-- the statements that define the movers and the normals -/\ndef forms : List (String × List String) := [\n  {frows}]\n\nend EasyFEAVerif.Gen.C08\n")
    _write_if_changed(os.path.join(outdir, "Movers.lean"), txt)
    return dict(rows=rows, forms=list(forms) + [f"faces:{n}" for n, _ in faces])


if __name__ == "__main__":
    import sys, json

    print(json.dumps(write(sys.argv[1], sys.argv[2]))[:400])
