"""Translator for property C14: who observes whom. For every simulation class (subclass of `_Simu` under
EasyFEA/Simulations) the expressions `X` of all registrations `X._Add_observer(self)` made while the simulation is
constructed (its own `__init__` and `_Simu.__init__`), plus the statements of the notification chain (descriptor
`__set__` -> `Need_Update` -> `_Notify` -> `_Simu._Update` -> `Need_Update`), matched statement by statement.
Anything unexpected is refused."""

from __future__ import annotations

import ast
import glob
import os

from .interp import Refuse
from .gen_c06 import _write_if_changed
from .gen_c08 import _need


def _classes(path):
    tree = ast.parse(open(path, encoding="utf-8").read())
    return [n for n in tree.body if isinstance(n, ast.ClassDef)]


def _registrations(fn):
    """expressions X of every `X._Add_observer(self)` in the function (comprehensions included)"""
    out = []
    for node in ast.walk(fn):
        if isinstance(node, ast.Call) and isinstance(node.func, ast.Attribute) and node.func.attr == "_Remove_observer":
            # a constructor that unsubscribes somebody changes the wiring of OTHER simulations: not modelled
            raise Refuse(f"{fn.name} removes an observer: {ast.unparse(node)}")
        if isinstance(node, ast.Call) and isinstance(node.func, ast.Attribute) and node.func.attr == "_Add_observer":
            if len(node.args) != 1 or ast.unparse(node.args[0]) != "self":
                raise Refuse(f"_Add_observer with an argument other than self: {ast.unparse(node)}")
            out.append(ast.unparse(node.func.value))
    return out


def _method(cls, name, setter=False):
    cands = [f for f in cls.body if isinstance(f, ast.FunctionDef) and f.name == name]
    if setter:
        cands = [f for f in cands if any(ast.unparse(d).endswith(".setter") for d in f.decorator_list)]
    return cands[0] if cands else None


def extract(repo):
    sim_dir = os.path.join(repo, "EasyFEA", "Simulations")
    base = next((c for c in _classes(os.path.join(sim_dir, "_simu.py")) if c.name == "_Simu"), None)
    if base is None:
        raise Refuse("class _Simu not found")
    base_init = _method(base, "__init__")
    base_regs = _registrations(base_init)
    if sorted(base_regs) != ["mesh", "model"]:
        raise Refuse(f"_Simu.__init__ registers with {base_regs}, expected the model and the mesh")
    setter = _method(base, "mesh", setter=True)
    if setter is None or _registrations(setter) != ["mesh"]:
        raise Refuse("_Simu.mesh setter does not register with the new mesh exactly once")
    table = {}
    for path in sorted(glob.glob(os.path.join(sim_dir, "_*.py"))):
        for c in _classes(path):
            if c.name == "_Simu" or not any(ast.unparse(b) == "_Simu" for b in c.bases):
                continue
            init = _method(c, "__init__")
            own = _registrations(init) if init is not None else []
            # registrations outside __init__ would depend on the history: not modelled
            for f in c.body:
                if isinstance(f, ast.FunctionDef) and f.name != "__init__" and _registrations(f):
                    raise Refuse(f"{c.name}.{f.name} registers an observer outside __init__")
            if init is not None and not any(isinstance(n, ast.Call) and ast.unparse(n.func) in ("super().__init__", "_Simu.__init__") for n in ast.walk(init)):
                raise Refuse(f"{c.name}.__init__ does not call the base constructor")
            table[c.name] = base_regs + own
    if not table:
        raise Refuse("no simulation class found")
    # the notification chain
    params = ast.parse(open(os.path.join(repo, "EasyFEA", "Utilities", "_params.py"), encoding="utf-8").read())
    pcls = next((n for n in params.body if isinstance(n, ast.ClassDef) and n.name == "_Parameter"), None)
    if pcls is None:
        raise Refuse("_Parameter not found")
    setter = _method(pcls, "__set__")
    body = [ast.unparse(st) for st in setter.body if not (isinstance(st, ast.Expr) and isinstance(st.value, ast.Constant) and isinstance(st.value.value, str))]
    # the whole body, not a selection: a test inserted between the store and the notification must not go unnoticed
    chain = {"_Parameter.__set__": body}
    if body != ["self._checker(value)", "instance.__dict__[self.__name] = value", "if isinstance(instance, Updatable):\n    instance.Need_Update()"]:
        raise Refuse(f"_Parameter.__set__ is no longer [check, store, notify every Updatable]: {body}")
    utils = ast.parse(open(os.path.join(repo, "EasyFEA", "Models", "_utils.py"), encoding="utf-8").read())
    imodel = next((n for n in utils.body if isinstance(n, ast.ClassDef) and n.name == "_IModel"), None)
    if imodel is None:
        raise Refuse("_IModel not found")
    chain["_IModel.Need_Update"] = _need(_method(imodel, "Need_Update"), ["super().Need_Update(value)", "self._Notify('The model has been modified.')"], "_IModel.Need_Update")
    obs = ast.parse(open(os.path.join(repo, "EasyFEA", "Utilities", "_observers.py"), encoding="utf-8").read())
    ocls = next((n for n in obs.body if isinstance(n, ast.ClassDef) and n.name == "Observable"), None)
    chain["Observable._Notify"] = _need(_method(ocls, "_Notify"), ["[observer._Update(self, event) for observer in self.observers]"], "Observable._Notify")
    # the registrations travel with the object: a copy (copy.copy / deepcopy / pickle: Save + Load_Simu) keeps them unless the class
    # customises its state; the model `Sources` assumes the observer list is part of the state of the observable
    omethods = sorted(f.name for f in ocls.body if isinstance(f, ast.FunctionDef))
    if omethods != ["_Add_observer", "_Notify", "_Remove_observer", "observers"]:
        raise Refuse(f"Observable defines {omethods}: the model knows observers / _Add_observer / _Remove_observer / _Notify only (a __getstate__ / __reduce__ / __deepcopy__ could drop the registrations of a copy)")
    chain["Observable.methods"] = omethods
    # a read of a parameter hands out a copy: what a caller does with it cannot change the stored value behind the notification
    getter = _method(pcls, "__get__")
    gbody = [ast.unparse(st) for st in getter.body if not (isinstance(st, ast.Expr) and isinstance(st.value, ast.Constant) and isinstance(st.value.value, str))]
    if gbody != ["return copy.copy(instance.__dict__[self.__name])"]:
        raise Refuse(f"_Parameter.__get__ is no longer [return a copy of the stored value]: {gbody}")
    chain["_Parameter.__get__"] = gbody
    pmethods = sorted(f.name for f in pcls.body if isinstance(f, ast.FunctionDef))
    if pmethods != ["__get__", "__set__", "__set_name__", "_checker"] and pmethods != ["__get__", "__set__", "__set_name__"]:
        raise Refuse(f"_Parameter defines {pmethods}: a flag or helper that lets an assignment skip the notification is outside the model")
    chain["_Simu._Update"] = _need(_method(base, "_Update"), ["self.Need_Update()", "clear_cached_computed_values(self)"], "_Simu._Update")
    # every way a mesh object becomes the simulation's mesh subscribes the simulation to it
    installers = {}
    for f in base.body:
        if not isinstance(f, ast.FunctionDef):
            continue
        if any(isinstance(n, ast.Assign) and any(ast.unparse(t) == "self.__mesh" for t in n.targets) for n in ast.walk(f)):
            is_setter = any(ast.unparse(d).endswith(".setter") for d in f.decorator_list)
            installers[f.name + (".setter" if is_setter else "")] = f
    # `_Gather` (MPI: rank 0 swaps its partition for the gathered mesh) also installs a mesh; MPI runs are outside the model
    if sorted(installers) != ["_Gather", "__Update_mesh", "mesh.setter"]:
        raise Refuse(f"self.__mesh is assigned in {sorted(installers)}: the model knows the mesh setter, __Update_mesh and (MPI, not modelled) _Gather only")
    inst = {"mesh.setter": _need(installers["mesh.setter"], ["self.__mesh = mesh", "mesh._Add_observer(self)"], "_Simu.mesh setter")}
    upd = installers["__Update_mesh"]
    branch = next((n for n in upd.body if isinstance(n, ast.If) and ast.unparse(n.test) == "isinstance(mesh, str)"), None)
    if branch is None or branch.orelse:
        raise Refuse("_Simu.__Update_mesh: the branch `if isinstance(mesh, str)` (mesh read back from the disk) not found")
    body = [ast.unparse(st) for st in branch.body]
    if body != ["mesh = self.__Load_mesh(mesh)", "mesh._Add_observer(self)"]:
        raise Refuse(f"_Simu.__Update_mesh: a mesh read back from the disk is no longer [loaded, subscribed to]: {body}")
    inst["__Update_mesh"] = body + _need(upd, ["mesh = self.__listMesh[index]", "self.__mesh = mesh"], "_Simu.__Update_mesh")
    chain["installers"] = inst
    return table, chain


def write(repo: str, outdir: str) -> dict:
    table, chain = extract(repo)
    inst = chain.pop("installers")
    os.makedirs(outdir, exist_ok=True)
    q = lambda s: '"' + s.replace('"', "'").replace("\n", "\\n") + '"'  # noqa: E731
    rows = ",\n  ".join("(" + q(k) + ", [" + ", ".join(q(x) for x in v) + "])" for k, v in table.items())
    crow = ",\n  ".join("(" + q(k) + ", [" + ", ".join(q(x) for x in v) + "])" for k, v in chain.items())
    txt = ("-- GENERATED by tools/py2lean/gen_c14.py from /repo/EasyFEA/Simulations/_*.py — do not edit\n"
           "namespace EasyFEAVerif.Gen.C14\n\n"
           "/-- for every simulation class, the objects it registers itself with while it is constructed (`X._Add_observer(self)` in `_Simu.__init__` and in its own `__init__`) -/\n"
           f"def observersOf : List (String × List String) := [\n  {rows}]\n\n"
           "/-- the statements of the notification chain, matched against the source -/\n"
           f"def notifyForms : List (String × List String) := [\n  {crow}]\n\n"
           "/-- every function of `_Simu` that installs a mesh object (`self.__mesh = ...`), with the statements that install it and subscribe to it -/\n"
           "def meshInstallers : List (String × List String) := [\n  "
           + ",\n  ".join("(" + q(k) + ", [" + ", ".join(q(x) for x in v) + "])" for k, v in inst.items()) + "]\n\nend EasyFEAVerif.Gen.C14\n")
    _write_if_changed(os.path.join(outdir, "Observers.lean"), txt)
    return dict(classes=list(table), registrations={k: v for k, v in table.items()})


if __name__ == "__main__":
    import sys, json

    print(json.dumps(write(sys.argv[1], sys.argv[2])))
