"""C14 — no stale cache after any sequence of changes."""
LEAN_TARGETS = ["EasyFEAVerif.Props.C14"]
PROPS_MODULES = ["EasyFEAVerif.Props.C14"]
TRUSTED_EXTRA = [
    "C14: the dependency / notification table of the state machine (Model/Coherence.lean) is hand-written; it is tied to the code by comparing the needUpdate flag after every operation and, at every read, matrices / solution / results with a simulation rebuilt from scratch",
]
ASSUMPTIONS = ["per-group geometric caches and the material's own lazy update (C11) are covered by the fresh-simulation comparison, not by the state-machine theorem"]


def generate(repo, lean_dir):
    return dict(model="hand-written: lean/EasyFEAVerif/Model/Coherence.lean", tie="correspondence")
