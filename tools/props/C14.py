"""C14 — no stale cache after any sequence of changes."""
import os
from tools.py2lean import gen_c14

LEAN_TARGETS = ["EasyFEAVerif.Props.C14"]
PROPS_MODULES = ["EasyFEAVerif.Props.C14"]
TRUSTED_EXTRA = [
    "C14: the dependency table of Model/Sources.lean (which parameter holders each simulation class assembles from) is hand-written; the harness compares it with the _IModel objects reachable from simu.model at run time, and the flag after every assignment with the model",
    "C14: the dependency / notification table of the state machine (Model/Coherence.lean) is hand-written; it is tied to the code by comparing the needUpdate flag after every operation and, at every read, matrices / solution / results with a simulation rebuilt from scratch",
]
ASSUMPTIONS = ["per-group geometric caches and the material's own lazy update (C11) are covered by the fresh-simulation comparison, not by the state-machine theorem"]


def generate(repo, lean_dir):
    d = gen_c14.write(repo, os.path.join(lean_dir, "EasyFEAVerif", "Gen", "C14"))
    return dict(model="hand-written: lean/EasyFEAVerif/Model/Coherence.lean, Model/Sources.lean (observer wiring; registrations of every simulation class extracted into Gen/C14/Observers.lean)",
                tie="translation of the constructors' registrations + statement-level (notification chain) + correspondence", extracted=d["registrations"])
