"""C17 — phase-field splits and irreversibility."""
import os
from tools.py2lean import gen_c17

LEAN_TARGETS = ["EasyFEAVerif.Props.C17", "EasyFEAVerif.Props.C17History"]
PROPS_MODULES = ["EasyFEAVerif.Props.C17", "EasyFEAVerif.Props.C17History"]
TRUSTED_EXTRA = [
    "C17: the formulas building cP / cM from the spectral projectors for the 14 splits, the switches, the 2D projector formula and the irreversibility updates are matched statement by statement against the source on every run (tools/py2lean/gen_c17.py refuses anything else); the eigen-decomposition itself (closed-form eigenvalues / eigenprojectors in floating point) and the 3D projector assembly are decided on the real code only",
]
ASSUMPTIONS = ["projM = I - projP (as the code sets it); S C = I and C symmetric for the stress-based splits (C11)"]


def generate(repo, lean_dir):
    d = gen_c17.write(repo, os.path.join(lean_dir, "EasyFEAVerif", "Gen", "C17"))
    return dict(model="Props/C17 (matrix partition algebra, switches, 2D projector, history) + generated Gen/C17/Forms.lean", tie="statement-level translation + correspondence", extracted=list(d))
