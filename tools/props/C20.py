"""C20 — mesh partition."""
LEAN_TARGETS = ["EasyFEAVerif.Props.C20", "EasyFEAVerif.Props.C20Mixed"]
PROPS_MODULES = ["EasyFEAVerif.Props.C20", "EasyFEAVerif.Props.C20Mixed"]
TRUSTED_EXTRA = [
    "C20: hand-written bookkeeping model (Props/C20) of Mesher.__Get_partitioned_groupElems for one element type and ANY element -> rank map; gmsh's partitioner and MPI transport are external; node ownership carried over from the element types processed earlier is not modelled (in gmsh's splits a boundary element belongs to the rank of an adjacent cell, which makes the passes agree with the single-pass rule): the model is compared with the real data of every group on every run",
]
ASSUMPTIONS = ["each element has one owner rank (checked on the real partitions)"]


def generate(repo, lean_dir):
    return dict(model="hand-written: lean/EasyFEAVerif/Props/C20.lean", tie="correspondence")
