"""C18 — hyperelasticity."""
import os
from tools.py2lean import gen_c18

LEAN_TARGETS = ["EasyFEAVerif.Props.C18", "EasyFEAVerif.Props.C18Operators"]
PROPS_MODULES = ["EasyFEAVerif.Props.C18", "EasyFEAVerif.Props.C18Operators"]
TRUSTED_EXTRA = [
    "C18: invariants I1, I2, I3 with their gradient / Hessian tables and the laws NeoHookean, MooneyRivlin, SaintVenantKirchhoff, CiarletGeymonat are translated from the source (laws as Laurent polynomials in w = I3^(1/6), CiarletGeymonat with the extra term L log w for -K log sqrt(I3), log(w^k) = k log w done by the translator: the substitution I3^(p/3) = w^(2p), sqrt(I3) = w^3 is done by the translator and validated numerically by the correspondence); the combination of the derivatives into dW/de and d2W/de2 is matched as a statement and re-implemented in the driver",
    "C18: HolzapfelOgden, AutoDiff energies, the nonlinear element operators and the discrete energy balance are decided by finite differences and long runs on the real code (partial)",
]
ASSUMPTIONS = ["I3 = det C > 0 (admissible deformation)"]


def generate(repo, lean_dir):
    d = gen_c18.write(repo, os.path.join(lean_dir, "EasyFEAVerif", "Gen", "C18"))
    return dict(model="generated Gen/C18/Laws.lean + Model/HyperLaws.lean", tie="translation + correspondence", extracted=d)
