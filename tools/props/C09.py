"""C09 — load resultants."""
import os
from tools.py2lean import gen_c09

LEAN_TARGETS = ["EasyFEAVerif.Props.C09", "EasyFEAVerif.Props.C09Curved"]
PROPS_MODULES = ["EasyFEAVerif.Props.C09", "EasyFEAVerif.Props.C09Curved"]
TRUSTED_EXTRA = [
    "C09: the measure of curved embedded elements (Props/C09Curved.lean): the projected length / area element never exceeds the true one, with equality only for straight / flat elements, and the Gram determinant used since fix 8f7dd87 is the squared length / area element; the statements of Get_jacobian_e_pg and Get_weightedJacobian_e_pg are pinned (Gen/C09/Jacobian.lean)",
    "C09: numpy's einsum is read as the indexed sum its subscripts denote; the subscripts, operands, reduction axis and dispatch are extracted from the source on every run (tools/py2lean/gen_c09.py) and pinned by rfl-theorems",
    "C09: exactness of the quadrature of a polynomial density is C07's theorem (rule degree) composed with the identities proved here; the composition is stated, not re-proved per element",
]
ASSUMPTIONS = ["shape functions sum to one at every Gauss point (Props/C06 partition_of_unity, all element types)"]


def generate(repo, lean_dir):
    d = gen_c09.write(repo, os.path.join(lean_dir, "EasyFEAVerif", "Gen", "C09"))
    return dict(model="hand-written Model/Loads.lean + generated Gen/C09/Spec.lean", tie="translation (structure) + correspondence", extracted={k: str(v)[:200] for k, v in d.items()})
