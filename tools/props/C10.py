"""C10 — frame indifference."""
import os
from tools.py2lean import gen_c10

LEAN_TARGETS = ["EasyFEAVerif.Props.C10", "EasyFEAVerif.Props.C10Pressure", "EasyFEAVerif.Props.C10Frame"]
PROPS_MODULES = ["EasyFEAVerif.Props.C10", "EasyFEAVerif.Props.C10Pressure", "EasyFEAVerif.Props.C10Frame"]
TRUSTED_EXTRA = [
    "C10: Get_Pmat is translated from the source (literal arrays A, B, D2 and the block assembly [[D1, √2 A], [√2 B, D2]]); normalisation of the axes and the batch (e / e,p) index handling are not translated: they are compared on the real code by the C11 and C10 harnesses",
    "C10: the full-pipeline statement composes Part 2 / Part 3 with C03 (assembly), C04 (uniqueness) and C05 (schemes are linear in K, C, M); the composition is stated (solution_moves), its instances are exercised on the real code by the harness; beam local axes are modelled (Props/C10Frame.lean: the yAxis setter and _Calc_P over ℝ with their normalisations, statements pinned by Gen/C10/Frame.lean, closed form / orthonormality / right-handedness / behaviour under rotations and reflections proved; the collinear-default branch is only defined, and the un-normalised construction Model/BeamFrame.lean evaluated by the driver is compared with the frames the real code returns); the orientation of the beam derivatives along the fiber is (Props.C10.Fiber, statements pinned by Gen/C10/Fiber.lean); the beam responses themselves are covered by the harness",
]
ASSUMPTIONS = ["Mesh.Rotate / Symmetry / Translate apply the orthogonal map to every node of every element group (checked on the real code against an independent Rodrigues / Householder matrix)"]


def generate(repo, lean_dir):
    d = gen_c10.write(repo, os.path.join(lean_dir, "EasyFEAVerif", "Gen", "C10"))
    return dict(model="generated Gen/C10/Pmat.lean + hand-written Model/KelvinRot.lean, Model/Patch.lean, Model/BeamFrame.lean", tie="translation + correspondence", extracted=d)
