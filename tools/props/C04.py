"""C04 — constraints and solver paths."""
import os
from tools.py2lean import gen_c04

LEAN_TARGETS = ["EasyFEAVerif.Props.C04", "EasyFEAVerif.Props.C04Explicit", "EasyFEAVerif.Props.C04Unknowns"]
PROPS_MODULES = ["EasyFEAVerif.Props.C04", "EasyFEAVerif.Props.C04Explicit", "EasyFEAVerif.Props.C04Unknowns"]
TRUSTED_EXTRA = [
    "C04: which dofs a condition constrains (Props/C04Unknowns.lean on Model/Constraints.dofsNodes): with admissible names every dof belongs to a node the condition names, a foreign name puts dof 0 into the condition, and add_dirichlet checks the names before the lookup (statements of Get_dofs_nodes, _Check_dofs and add_dirichlet pinned in Gen/C04/Unknowns.lean)",
    "C04: linear-solver backends (scipy spsolve, cg, bicg, gmres, lgmres, lsq_linear) are assumed to return a solution of the system they are handed; their agreement and the residual are measured on the real code each run. pypardiso / PETSc / mpi4py are not installed and never exercised.",
    "C04: the glue model (Model/Constraints.lean) is hand-written and compared with the real dof lookup, Dirichlet vector, elimination solve and bordered Lagrange system in exact rationals",
]
ASSUMPTIONS = [
    "uniqueness needs the reduced matrix to be non-singular (ReducedInjective)",
    "on the Lagrange path a dof constrained twice with different values makes the bordered system inconsistent (theorem lagrange_duplicate_rows_inconsistent); the sum convention is the elimination solver's",
]


def generate(repo, lean_dir):
    d = gen_c04.write(repo, os.path.join(lean_dir, "EasyFEAVerif", "Gen", "C04"))
    return dict(model="hand-written: lean/EasyFEAVerif/Model/Constraints.lean (statements of the elimination solver pinned by Gen/C04/Solver.lean)",
                tie="statement-level translation + correspondence", extracted=d["forms"])
