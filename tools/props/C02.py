"""C02 — K symmetric PSD with the physical kernel; M SPD."""
import os
from tools.py2lean import gen_c02

LEAN_TARGETS = ["EasyFEAVerif.Props.C02"]
PROPS_MODULES = ["EasyFEAVerif.Props.C02"]
TRUSTED_EXTRA = [
    "C02: the element matrices have the form K_e = Σ_p w B^T C B, M_e = Σ_p w ρ N^T N: the defining statements are matched against the source on every run (tools/py2lean/gen_c02.py refuses anything else) and the real element matrices are compared with the model evaluated exactly",
    "C02: 'kernel ⊆ rigid motions on every connected mesh' is not proved (partial): the harness measures the kernel dimension of the real matrices by dense eigen-decomposition (threshold 1e-9 of the largest eigenvalue)",
]
ASSUMPTIONS = ["positive quadrature weights and |det J| > 0 (C07 weights_positive; valid meshes)", "positive-definite constitutive law (C11 iso3_pos_def for the isotropic law)"]


def generate(repo, lean_dir):
    d = gen_c02.write(repo, os.path.join(lean_dir, "EasyFEAVerif", "Gen", "C02"))
    return dict(model="hand-written Model/Patch.lean (stiffness), Props/C02 (mass) + generated Gen/C02/Forms.lean", tie="translation (forms) + correspondence", extracted=list(d))
