"""C02 — K symmetric PSD with the physical kernel; M SPD."""
import os
from tools.py2lean import gen_c02

LEAN_TARGETS = ["EasyFEAVerif.Props.C02", "EasyFEAVerif.Props.C02Kernel"]
PROPS_MODULES = ["EasyFEAVerif.Props.C02", "EasyFEAVerif.Props.C02Kernel"]
TRUSTED_EXTRA = [
    "C02: the element matrices have the form K_e = Σ_p w B^T C B, M_e = Σ_p w ρ N^T N: the defining statements are matched against the source on every run (tools/py2lean/gen_c02.py refuses anything else) and the real element matrices are compared with the model evaluated exactly",
    "C02: 'kernel ⊆ physical modes on every connected mesh': the step from the elements to the mesh is proved for every mesh (Props/C02Kernel.lean: global_of_local; constants need one shared node, plane rigid motions two shared nodes at distinct positions, rigid motions in space three non-collinear shared nodes; hinged meshes are shown not to qualify); the element-level premise is proved for conduction on all 19 element types (C07 conduction_kernel_is_constants) and for elasticity on TRI3 (tri3_zero_strain_is_rigid); for the other element types in elasticity it remains decided on the real code: the harness measures the kernel dimension of the real matrices by dense eigen-decomposition (threshold 1e-9 of the largest eigenvalue)",
]
ASSUMPTIONS = ["positive quadrature weights and |det J| > 0 (C07 weights_positive; valid meshes)", "positive-definite constitutive law (C11 iso3_pos_def for the isotropic law)"]


def generate(repo, lean_dir):
    d = gen_c02.write(repo, os.path.join(lean_dir, "EasyFEAVerif", "Gen", "C02"))
    return dict(model="hand-written Model/Patch.lean (stiffness), Props/C02 (mass) + generated Gen/C02/Forms.lean", tie="translation (forms) + correspondence", extracted=list(d))
