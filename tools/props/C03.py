"""C03 — assembly is the exact scatter-add."""
LEAN_TARGETS = ["EasyFEAVerif.Props.C03"]
PROPS_MODULES = ["EasyFEAVerif.Props.C03"]
TRUSTED_EXTRA = [
    "C03: the model is hand-written (Model/Assembly.lean); numpy repeat/concatenate/searchsorted/bincount and scipy's canonical CSR pattern are modelled from their documentation and compared with the real arrays (pattern, element->slot map, data) on every run",
]
ASSUMPTIONS = [
    "a group object's connectivity never changes (no setter exists): the cache key (dof_n, isMatrix, Ndof, groups) then determines the pattern",
    "node indices fit the system size: (n+1)*dof_n <= Ndof",
]


def generate(repo, lean_dir):
    return dict(model="hand-written: lean/EasyFEAVerif/Model/Assembly.lean", tie="correspondence")
