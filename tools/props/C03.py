"""C03 — assembly is the exact scatter-add."""
import os
from tools.py2lean import gen_c03

LEAN_TARGETS = ["EasyFEAVerif.Props.C03", "EasyFEAVerif.Props.C03Key"]
PROPS_MODULES = ["EasyFEAVerif.Props.C03", "EasyFEAVerif.Props.C03Key"]
TRUSTED_EXTRA = [
    "C03: the model is hand-written (Model/Assembly.lean); numpy repeat/concatenate/searchsorted/bincount and scipy's canonical CSR pattern are modelled from their documentation and compared with the real arrays (pattern, element->slot map, data) on every run",
]
ASSUMPTIONS = [
    "a group object's connectivity never changes (no setter exists): the cache key (dof_n, isMatrix, Ndof, groups) then determines the pattern",
    "node indices fit the system size: (n+1)*dof_n <= Ndof",
]


def generate(repo, lean_dir):
    d = gen_c03.write(repo, os.path.join(lean_dir, "EasyFEAVerif", "Gen", "C03"))
    return dict(model="hand-written: lean/EasyFEAVerif/Model/Assembly.lean (statements of the dof numbering and of the reduction map pinned by Gen/C03/Forms.lean)",
                tie="statement-level translation + correspondence", extracted=d["forms"])
