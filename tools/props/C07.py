"""C07 — quadrature rules and the rule factory."""
import os
from tools.py2lean import gen_c06, gen_c07

LEAN_TARGETS = ["EasyFEAVerif.Props.C07", "EasyFEAVerif.Gen.C07.RulesIndex", "EasyFEAVerif.Props.C07Signed"]
PROPS_MODULES = ["EasyFEAVerif.Props.C07", "EasyFEAVerif.Props.C07Signed"]
TRUSTED_EXTRA = [
    "C07: numpy.polynomial.legendre.leggauss is external: its actual binary64 output on this machine is dumped (exact rationals) and proved about",
    "C07: closed-form reference moments (simplex formula a!b!c!/(a+b+c+d)!) are the specification of 'the exact integral'",
    "C07: rank certificates (left inverses over Q(sqrt d)) are computed by untrusted exact elimination and re-checked by the kernel",
]
ASSUMPTIONS = [
    "decimal-literal rules (triangle 6/7/12, quadrangle 9, prism 8) and leggauss rules are exact to 1e-14 only",
    "rank adequacy is proved at element level (mass: all types but TRI15; conduction: all 19); the elasticity kernel on assembled meshes is C02's matter; "
    "QUAD8/PRISM15 stiffness is deliberately under-integrated (no exactness claimed)",
]


def generate(repo, lean_dir):
    s6 = gen_c06.write(repo, os.path.join(lean_dir, "EasyFEAVerif", "Gen", "C06"))
    s7 = gen_c07.write(repo, os.path.join(lean_dir, "EasyFEAVerif", "Gen", "C07"))
    return dict(c06_elements=len(s6["elements"]), **s7)
