"""C15 — saved iterations and saved simulations."""
import os
from tools.py2lean import gen_c15

LEAN_TARGETS = ["EasyFEAVerif.Props.C15", "EasyFEAVerif.Props.C15Store", "EasyFEAVerif.Props.C15Restore"]
PROPS_MODULES = ["EasyFEAVerif.Props.C15", "EasyFEAVerif.Props.C15Store", "EasyFEAVerif.Props.C15Restore"]
TRUSTED_EXTRA = [
    "C15: which stored fields Set_Iter restores (Props/C15Restore.lean): the branch tests of Elastic / HyperElastic / Thermal / WeakForms.Set_Iter are pinned (Gen/C15/Restore.lean; a test that reads the current time scheme is refused) and the rule 'every stored field is written back' is proved to return what was saved for every scheme at save time and now; the rule of the code before fixes 66f3604 / 44d8e78 / 7cdc83a is refuted",
    "C15: the mesh-history bookkeeping (mesh setter, Save_Iter, Set_Iter, __Update_mesh) is matched statement by statement and modelled by MeshHist (refinement proved for every operation sequence); the store model (Model/IterStore.lean) is hand-written; files are identified by (folder, iteration counter): injectivity of the file-name encoding and pickle's round trip are assumed",
    "C15: 'getters copy, setters store': absence of aliasing between stored arrays and live state is checked on the real code (earlier iterations re-read after every operation), not proved",
]
ASSUMPTIONS = ["each simulation type's Save_Iter stores every component of its state: checked per type by restoring and comparing all named results"]


def generate(repo, lean_dir):
    d = gen_c15.write(repo, os.path.join(lean_dir, "EasyFEAVerif", "Gen", "C15"))
    return dict(model="hand-written: lean/EasyFEAVerif/Model/IterStore.lean, Props/C15 MeshHist (statements pinned by Gen/C15/MeshHistory.lean)", tie="statement-level translation + correspondence", extracted=d["forms"])
