"""C08 — geometry, orientation, point location."""
import os
from tools.py2lean import gen_c08

LEAN_TARGETS = ["EasyFEAVerif.Props.C08", "EasyFEAVerif.Props.C08Units"]
PROPS_MODULES = ["EasyFEAVerif.Props.C08", "EasyFEAVerif.Props.C08Units"]
TRUSTED_EXTRA = [
    "C08: _Rotation_matrix is translated from the source; Rotate / Symmetry / Translate / Get_normals_e_pg / Get_jacobian_e_pg are matched statement by statement (the generator refuses anything else); numpy's cross product and einsum are read as documented",
    "C08: that the element measures add up to the measure of the polygon / polyhedron (tiling) and the point-in-element predicates are exercised on the real code, not proved; scipy.optimize.least_squares (non-affine inverse map) is external: only 'zero residual ⇒ linear fields reproduced' is proved",
]
ASSUMPTIONS = ["unit axis and cos² + sin² = 1 for the rotation matrix (Normalize, np.cos / np.sin)"]


def generate(repo, lean_dir):
    from tools.props import C10 as p10
    p10.generate(repo, lean_dir)
    d = gen_c08.write(repo, os.path.join(lean_dir, "EasyFEAVerif", "Gen", "C08"))
    return dict(model="generated Gen/C08/Movers.lean + Props/C08 (normals of a closed chain, Householder, location)", tie="translation + correspondence", extracted=d["forms"])
