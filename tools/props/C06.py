"""C06 — shape functions and their derivative tables."""
import os
from tools.py2lean import gen_c06

LEAN_TARGETS = ["EasyFEAVerif.Props.C06"]
PROPS_MODULES = ["EasyFEAVerif.Props.C06"]
TRUSTED_EXTRA = [
    "C06: the real-number reading of the lambda bodies (float literal = the decimal written); numpy only wraps the lambdas in arrays",
]
ASSUMPTIONS = [
    "Hermite EB4/EB5 interpolation is claimed to 1e-12 because the source literals are decimal roundings (exact statement false by ~1e-14)",
    "polynomial spaces reproduced per type are the hand-written spec ElemData.mons (P_k; Q_k for QUAD4/9, HEXA8/27; P_k x P_k for PRISM6/18)",
]


def generate(repo, lean_dir):
    return gen_c06.write(repo, os.path.join(lean_dir, "EasyFEAVerif", "Gen", "C06"))
