"""C05 — time schemes."""
import os
from tools.py2lean import gen_c05

LEAN_TARGETS = ["EasyFEAVerif.Props.C05", "EasyFEAVerif.Props.C05Energy"]
PROPS_MODULES = ["EasyFEAVerif.Props.C05", "EasyFEAVerif.Props.C05Energy"]
LEANCHECKER = True
TRUSTED_EXTRA = [
    "C05: the documented update relations (docstrings of Solvers.AlgoType) are transcribed by hand in Props/C05.lean",
    "C05: bookkeeping statements of the four table functions (timers, sparse containers, dof lists) are replaced by symbolic inputs; the whitelist is tools/py2lean/gen_c05.py::SKIPPABLE",
]
ASSUMPTIONS = [
    "theorems hold under the guards the code divides by: dt != 0, beta != 0 (Newmark family), alpha != 0 (parabolic; alpha = 0 raises ZeroDivisionError in the code)",
    "the linear solver returns a solution of the system it is given (residual measured by the harness)",
]


def generate(repo, lean_dir):
    return gen_c05.write(repo, os.path.join(lean_dir, "EasyFEAVerif", "Gen", "C05"))
