"""C11 — linear elastic laws."""
import os
from tools.py2lean import gen_c11

LEAN_TARGETS = ["EasyFEAVerif.Props.C11"]
PROPS_MODULES = ["EasyFEAVerif.Props.C11"]
TRUSTED_EXTRA = [
    "C11: np.linalg.inv is external: the theorems exhibit the closed-form inverse (C * S = 1), which the code's inv must equal by uniqueness",
    "C11: the change-of-basis matrix Get_Pmat / Apply_Pmat and the anisotropic law are validated by the harness (orthogonality, tensor rotation, Voigt vs Kelvin-Mandel), not proved",
]
ASSUMPTIONS = [
    "admissibility: E > 0, -1 < v < 1/2 (isotropic SPD); non-zero moduli and non-vanishing c_ij denominator (TI / orthotropic inverse)",
]


def generate(repo, lean_dir):
    return gen_c11.write(repo, os.path.join(lean_dir, "EasyFEAVerif", "Gen", "C11"))
