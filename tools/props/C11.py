"""C11 — linear elastic laws."""
import os
from tools.py2lean import gen_c10, gen_c11

LEAN_TARGETS = ["EasyFEAVerif.Props.C11", "EasyFEAVerif.Props.C10", "EasyFEAVerif.Props.C11Axes"]
PROPS_MODULES = ["EasyFEAVerif.Props.C11", "EasyFEAVerif.Props.C10", "EasyFEAVerif.Props.C11Axes"]
TRUSTED_EXTRA = [
    "C11: np.linalg.inv is external: the theorems exhibit the closed-form inverse (C * S = 1), which the code's inv must equal by uniqueness",
    "C11: the change-of-basis matrix Get_Pmat is translated (2D and 3D branches) and proved orthogonal and equal to the Kelvin-Mandel rotation of a symmetric tensor in Props.C10 (pmat2_checks, pmat3_checks, Pm3_rotation), built and audited by this check too; Apply_Pmat, the normalisation / batching of the axes and the anisotropic law are validated by the harness (tensor rotation, Voigt vs Kelvin-Mandel), not proved",
]
ASSUMPTIONS = [
    "admissibility: E > 0, -1 < v < 1/2 (isotropic SPD); non-zero moduli and non-vanishing c_ij denominator (TI / orthotropic inverse)",
]


def generate(repo, lean_dir):
    gen_c10.write(repo, os.path.join(lean_dir, "EasyFEAVerif", "Gen", "C10"))
    return gen_c11.write(repo, os.path.join(lean_dir, "EasyFEAVerif", "Gen", "C11"))
