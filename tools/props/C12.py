"""C12 — finite-element arrays."""
import os
from tools.py2lean import gen_c12

LEAN_TARGETS = ["EasyFEAVerif.Props.C12", "EasyFEAVerif.Props.C12Typing"]
PROPS_MODULES = ["EasyFEAVerif.Props.C12", "EasyFEAVerif.Props.C12Typing"]
TRUSTED_EXTRA = [
    "C12: numpy broadcasting, einsum and the ndarray subclass protocols are external; the alignment/dispatch logic of FeArray is validated against explicit (e, p) loops on every run, not proved",
]
ASSUMPTIONS = [
    "theorems cover the closed-form Det/Inv/Trace formulas, the einsum subscripts of dot/ddot/TensorProd and the axis rule of reductions and the decision list of broadcast() (translated: which leading shape is read as a constant / per element / per point / full field); that numpy's broadcast_to then reads the values that way, alignment (_align) and __wrap typing are checked by the harness only",
]


def generate(repo, lean_dir):
    return gen_c12.write(repo, os.path.join(lean_dir, "EasyFEAVerif", "Gen", "C12"))
