"""C12 — finite-element arrays."""
import os
from tools.py2lean import gen_c12

LEAN_TARGETS = ["EasyFEAVerif.Props.C12", "EasyFEAVerif.Props.C12Typing", "EasyFEAVerif.Props.C12Align", "EasyFEAVerif.Props.C12FeShape"]
PROPS_MODULES = ["EasyFEAVerif.Props.C12", "EasyFEAVerif.Props.C12Typing", "EasyFEAVerif.Props.C12Align", "EasyFEAVerif.Props.C12FeShape"]
TRUSTED_EXTRA = [
    "C12: numpy broadcasting, einsum and the ndarray subclass protocols are external: broadcasting is modelled at the level of indices from numpy's documentation (Props/C12Align.lean: trailing alignment, an axis of size 1 is read at 0); the padding done by FeArray._align and the typing rule of FeArray.__wrap are pinned statement by statement (Gen/C12/Align.lean) and proved about on that model; the dispatch through __array_ufunc__ / __array_function__ is validated against explicit (e, p) loops on every run, not proved",
]
ASSUMPTIONS = [
    "theorems cover the closed-form Det/Inv/Trace formulas, the einsum subscripts of dot/ddot/TensorProd and the axis rule of reductions and the decision list of broadcast() (translated: which leading shape is read as a constant / per element / per point / full field); element-wise alignment (_align: a padded field is read at its own point, a plain array never sees the point, for all sizes) and the typing rule of __wrap (exact without coincidence, wrong for axis-moving functions when Ne = nPg: known finding); that numpy's broadcast_to reads the values as modelled is checked by the harness only",
]


def generate(repo, lean_dir):
    return gen_c12.write(repo, os.path.join(lean_dir, "EasyFEAVerif", "Gen", "C12"))
