"""C16 — named results."""
import os
from tools.py2lean import gen_c16

LEAN_TARGETS = ["EasyFEAVerif.Props.C16"]
PROPS_MODULES = ["EasyFEAVerif.Props.C16"]
TRUSTED_EXTRA = [
    "C16: only the dispatch of the kinematic component names (Elastic, WeakForms), the strain/stress component selection and the von Mises expressions are translated; the values of all advertised names of the other simulation types are checked on the real code only",
]
ASSUMPTIONS = ["Results_Reshape_values decides node/element layout from the array size: ambiguous when Ne is a multiple of Nn (searched by the harness)"]


def generate(repo, lean_dir):
    return gen_c16.write(repo, os.path.join(lean_dir, "EasyFEAVerif", "Gen", "C16"))
