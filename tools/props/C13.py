"""C13 — user-written weak forms."""
import os
from tools.py2lean import gen_c13

LEAN_TARGETS = ["EasyFEAVerif.Props.C13"]
PROPS_MODULES = ["EasyFEAVerif.Props.C13"]
TRUSTED_EXTRA = [
    "C13: what a form is evaluated on and how it is integrated / assembled is matched statement by statement against the source on every run (tools/py2lean/gen_c13.py refuses anything else); the tensor operations a form may use (dot, ddot, Trace, transpose, @) are C12's subject and are exercised here through an independent numpy evaluation of a form grammar",
]
ASSUMPTIONS = ["the integrand is bilinear in (u, v) (linear in v for linear forms)"]


def generate(repo, lean_dir):
    from tools.props import C01 as p01
    p01.generate(repo, lean_dir)
    d = gen_c13.write(repo, os.path.join(lean_dir, "EasyFEAVerif", "Gen", "C13"))
    return dict(model="Props/C13 (basis-function semantics) + Model/Patch.lean (B layout from C01)", tie="statement-level translation + correspondence", extracted=list(d))
