"""C01 — patch test."""
import os
from tools.py2lean import gen_c01, gen_c06

LEAN_TARGETS = ["EasyFEAVerif.Props.C01", "EasyFEAVerif.Props.C01Flux"]
PROPS_MODULES = ["EasyFEAVerif.Props.C01", "EasyFEAVerif.Props.C01Flux"]
TRUSTED_EXTRA = [
    "C01: the mesh-level link (free rows of a linear field vanish = discrete divergence theorem on a conforming mesh) is the hypothesis FluxClosed of patch_test_partial; it is proved for the interior nodes of TRI3 fans and SEG2 chains (Props/C01Flux.lean: tri3_star_flux_closed, seg2_interior_flux_closed, with fluxClosed_of_gradient_sums) and evaluated numerically on every mesh the harness solves on; not proved for the other element types",
    "C01: layout of B, orientation of the Jacobian and of the physical derivatives are read from the source on every run (tools/py2lean/gen_c01.py) and pinned by rfl-theorems; numpy's matrix product and scipy's solve are trusted as documented",
]
ASSUMPTIONS = ["the reduced matrix K_ff is injective once the boundary is prescribed (C02)"]


def generate(repo, lean_dir):
    from tools.props import C06 as p06
    p06.generate(repo, lean_dir)
    d = gen_c01.write(repo, os.path.join(lean_dir, "EasyFEAVerif", "Gen", "C01"))
    return dict(model="hand-written Model/Patch.lean + generated Gen/C01/Layout.lean + Gen/C06 tables", tie="translation (layout, tables) + correspondence", extracted=str(d)[:300])
