"""C19 — history-dependent material integration."""
import os
from tools.py2lean import gen_c19

LEAN_TARGETS = ["EasyFEAVerif.Props.C19", "EasyFEAVerif.Props.C19General", "EasyFEAVerif.Props.C19Hardening", "EasyFEAVerif.Props.C19Radial"]
PROPS_MODULES = ["EasyFEAVerif.Props.C19", "EasyFEAVerif.Props.C19General", "EasyFEAVerif.Props.C19Hardening", "EasyFEAVerif.Props.C19Radial"]
TRUSTED_EXTRA = [
    "C19: hand-written models (scalar return mapping of J2 plasticity with linear hardening; committed / trial state machine), tied by correspondence with Behavior.Integrate along random strain paths and with the private state of Simulations.InElastic, and by statement-level matching of the commit / trial statements, the von Mises surface and the linear hardening law",
    "C19: the scalar return of a von Mises surface with any non-softening isotropic hardening law and any monotone rate term is proved to have at most one solution, exactly and up to a tolerance (Props/C19General.lean: step_unique, root_unique, roots_close — the algebraic content of 'both local solvers agree'); the three hardening constructors (Linear, Voce, Swift) are transcribed from lambdas pinned against the source and shown to satisfy the hypotheses under the ranges they assert, with R = d psi_h / dp and the tabulated slope = dR / dp (Props/C19Hardening.lean); the reduction of the tensorial step to this scalar one is proved for the von Mises surface in deviatoric space (Props/C19Radial.lean: the radial return solves the step, is its only non-zero solution, and its yield condition is the scalar residual); that Behavior.Integrate implements this step is exercised by the correspondence on random strain paths",
    "C19: Hill / Drucker-Prager surfaces, kinematic hardening, Maxwell branches, plane stress and the tensorial tangent are decided on the real code (partial)",
]
ASSUMPTIONS = ["mu > 0, H >= 0, sigma_y > 0"]


def generate(repo, lean_dir):
    d = gen_c19.write(repo, os.path.join(lean_dir, "EasyFEAVerif", "Gen", "C19"))
    return dict(model="hand-written: Props/C19 + generated Gen/C19/Forms.lean", tie="statement-level translation + correspondence", extracted=list(d))
