"""C19 — history-dependent material integration."""
import os
from tools.py2lean import gen_c19

LEAN_TARGETS = ["EasyFEAVerif.Props.C19"]
PROPS_MODULES = ["EasyFEAVerif.Props.C19"]
TRUSTED_EXTRA = [
    "C19: hand-written models (scalar return mapping of J2 plasticity with linear hardening; committed / trial state machine), tied by correspondence with Behavior.Integrate along random strain paths and with the private state of Simulations.InElastic, and by statement-level matching of the commit / trial statements, the von Mises surface and the linear hardening law",
    "C19: all other surfaces, hardening laws, rate laws, Maxwell branches, plane stress, the tensorial tangent and the agreement of the two local solvers are decided on the real code (partial)",
]
ASSUMPTIONS = ["mu > 0, H >= 0, sigma_y > 0"]


def generate(repo, lean_dir):
    d = gen_c19.write(repo, os.path.join(lean_dir, "EasyFEAVerif", "Gen", "C19"))
    return dict(model="hand-written: Props/C19 + generated Gen/C19/Forms.lean", tie="statement-level translation + correspondence", extracted=list(d))
